(* ItemImmutable.v: items are immutable once allocated, so a lock-free reader that is descheduled between its table
   lookup and its copy of the item's fields still delivers one single write (C11, and C02's "never a mixture").

   Go code modelled (bounded SieveTinyLFU path; cache.go getSieve, writes.go applySet / applySieve, shard.go dropItem):
     reader   item, ok := shard.tab.lookup(kh, key)          (no lock)            = [lookup]
              ... arbitrary delay ...
              value, expire := item.value, item.expireTime                        = [resume]
     writer   update:  fresh := newItem(cmd); tab.swapAt(fresh)                   (the old item is left untouched)
              insert:  item := newItem(cmd); accepted -> tab.store(item) | rejected -> dropItem(item, RemovedRejected)
              Delete / eviction / expiry: tab.removeExact(item)
              evictMain may also drop a PROMOTED RESIDENT with RemovedRejected    = [ORejectResident]
              Clear: tab.clear()
   The heap maps item addresses to contents; [next] is the allocator (the Go runtime never hands out an address that
   is still referenced, and the paused reader references its item).  The flag [recycle] is the seeded change C11q-m1:
   dropItem keeps the last RemovedRejected item in a one-slot spare and the next insert overwrites that struct in place.

   Tied to /repo by conc's pausedReaderProbe (hooks VerifLookup / Resume): the same reader, paused for real. *)
From Coq Require Import List ZArith Bool Lia Arith.
Import ListNotations.
Open Scope Z_scope.

Record item := mkItem { ikey : Z; ival : Z; iexp : Z }.

Record st := mkSt {
  heap : nat -> option item;
  next : nat;
  tab : list (Z * nat);              (* key -> item address *)
  spare : option nat;
  log : list item                    (* ghost: the (key, value, deadline) triple of every Set so far *)
}.

Inductive op :=
| OSet (k v e : Z) (adm : bool)    (* Set / SetAsync applied; [adm] = admission's verdict on a new key *)
| ORemove (k : Z)                    (* Delete, eviction, expiry *)
| ORejectResident (k : Z)            (* evictMain drops a promoted resident with reason rejected *)
| OClear.

Fixpoint lookup (t : list (Z * nat)) (k : Z) : option nat :=
  match t with
  | [] => None
  | (a, p) :: r => if a =? k then Some p else lookup r k
  end.
Definition tremove (k : Z) (t : list (Z * nat)) : list (Z * nat) := filter (fun kp => negb (fst kp =? k)) t.
Definition hupd (h : nat -> option item) (p : nat) (it : item) : nat -> option item :=
  fun q => if Nat.eqb q p then Some it else h q.

Definition init : st := mkSt (fun _ => None) 0 [] None [].

Definition step (recycle : bool) (s : st) (o : op) : st :=
  match o with
  | OSet k v e adm =>
      let it := mkItem k v e in
      match lookup (tab s) k with
      | Some _ =>
          (* update: always a fresh item, pointer swapped *)
          mkSt (hupd (heap s) (next s) it) (S (next s)) ((k, next s) :: tremove k (tab s)) (spare s) (it :: log s)
      | None =>
          let '(p, h, n, sp) :=
            match (if recycle then spare s else None) with
            | Some q => (q, hupd (heap s) q it, next s, None)
            | None => (next s, hupd (heap s) (next s) it, S (next s), spare s)
            end in
          if adm then mkSt h n ((k, p) :: tab s) sp (it :: log s)
          else mkSt h n (tab s) (if recycle then Some p else sp) (it :: log s)
      end
  | ORemove k => mkSt (heap s) (next s) (tremove k (tab s)) (spare s) (log s)
  | ORejectResident k =>
      match lookup (tab s) k with
      | Some p => mkSt (heap s) (next s) (tremove k (tab s)) (if recycle then Some p else spare s) (log s)
      | None => s
      end
  | OClear => mkSt (heap s) (next s) [] (spare s) (log s)
  end.

Definition run (recycle : bool) (s : st) (ops : list op) : st := fold_left (step recycle) ops s.

(* the reader *)
Definition resume (s : st) (p : nat) : option item := heap s p.

(* ---- the code as it is (recycle = false) ---- *)

Lemma step_alloc_stable s o p it :
  (p < next s)%nat -> heap s p = Some it ->
  (p < next (step false s o))%nat /\ heap (step false s o) p = Some it.
Proof.
  intros Hp Hh. destruct o as [k v e adm|k|k|]; cbn [step].
  - destruct (lookup (tab s) k) as [old|].
    + cbn. split; [lia|]. unfold hupd. destruct (Nat.eqb_spec p (next s)); [lia|exact Hh].
    + cbn. destruct adm; cbn; (split; [lia|]); unfold hupd; destruct (Nat.eqb_spec p (next s)); try lia; exact Hh.
  - cbn. split; assumption.
  - destruct (lookup (tab s) k); cbn; split; assumption.
  - cbn. split; assumption.
Qed.

Lemma run_alloc_stable ops : forall s p it,
  (p < next s)%nat -> heap s p = Some it ->
  (p < next (run false s ops))%nat /\ heap (run false s ops) p = Some it.
Proof.
  induction ops as [|o r IH]; intros s p it Hp Hh; cbn [run fold_left].
  - split; assumption.
  - destruct (step_alloc_stable s o p it Hp Hh) as [Hp' Hh']. apply (IH _ _ _ Hp' Hh').
Qed.

(* every table entry points at an allocated item that carries the entry's key and is the triple of one single Set *)
Definition entry_ok (s : st) (kp : Z * nat) : Prop :=
  (snd kp < next s)%nat /\ exists it, heap s (snd kp) = Some it /\ ikey it = fst kp /\ In it (log s).
Definition WF (s : st) : Prop := Forall (entry_ok s) (tab s).

Lemma lookup_in t k p : lookup t k = Some p -> In (k, p) t.
Proof.
  induction t as [|[a q] r IH]; cbn [lookup]; [discriminate|].
  destruct (Z.eqb_spec a k) as [->|_]; intros H.
  - injection H as <-. left. reflexivity.
  - right. apply IH. exact H.
Qed.

Lemma Forall_tremove (P : Z * nat -> Prop) k t : Forall P t -> Forall P (tremove k t).
Proof.
  intros H. unfold tremove. apply Forall_forall. intros x Hx. apply filter_In in Hx.
  rewrite Forall_forall in H. apply H. apply Hx.
Qed.

Lemma entry_ok_mono s s' kp :
  (forall p it, (p < next s)%nat -> heap s p = Some it -> (p < next s')%nat /\ heap s' p = Some it) ->
  (forall it, In it (log s) -> In it (log s')) ->
  entry_ok s kp -> entry_ok s' kp.
Proof.
  intros Hs Hl [Hp [it [Hh [Hk Hi]]]]. destruct (Hs _ _ Hp Hh) as [Hp' Hh'].
  split; [exact Hp'|]. exists it. repeat split; auto.
Qed.

Lemma WF_step s o : WF s -> WF (step false s o).
Proof.
  intros H. unfold WF in *.
  assert (Hst : forall p it, (p < next s)%nat -> heap s p = Some it ->
                 (p < next (step false s o))%nat /\ heap (step false s o) p = Some it)
    by (intros; apply step_alloc_stable; assumption).
  destruct o as [k v e adm|k|k|].
  - assert (Hlog : forall it, In it (log s) -> In it (log (step false s (OSet k v e adm)))).
    { intros it Hi. cbn [step]. destruct (lookup (tab s) k); [cbn; right; exact Hi|].
      cbn. destruct adm; cbn; right; exact Hi. }
    assert (Hold : Forall (entry_ok (step false s (OSet k v e adm))) (tab s)).
    { eapply Forall_impl; [|exact H]. intros kp Hkp. eapply entry_ok_mono; eauto. }
    assert (Hnew : entry_ok (step false s (OSet k v e adm)) (k, next s)).
    { cbn [step]. destruct (lookup (tab s) k).
      - split; [cbn; lia|]. exists (mkItem k v e). cbn. unfold hupd. rewrite Nat.eqb_refl. auto.
      - cbn. destruct adm; (split; [cbn; lia|]); exists (mkItem k v e); cbn; unfold hupd; rewrite Nat.eqb_refl; auto. }
    cbn [step] in *. destruct (lookup (tab s) k).
    + cbn [tab] in *. constructor; [exact Hnew|]. apply Forall_tremove. exact Hold.
    + cbn in *. destruct adm; cbn [tab] in *.
      * constructor; [exact Hnew|exact Hold].
      * exact Hold.
  - cbn. apply Forall_tremove. eapply Forall_impl; [|exact H]. intros kp [Hp Hx]. split; [exact Hp|exact Hx].
  - cbn [step]. destruct (lookup (tab s) k); [|exact H]. cbn. apply Forall_tremove.
    eapply Forall_impl; [|exact H]. intros kp [Hp Hx]. split; [exact Hp|exact Hx].
  - cbn. constructor.
Qed.

Lemma WF_run ops : forall s, WF s -> WF (run false s ops).
Proof.
  induction ops as [|o r IH]; intros s H; cbn [run fold_left]; [exact H|]. apply IH. apply WF_step. exact H.
Qed.

Lemma WF_init : WF init.
Proof. constructor. Qed.

(* C11 / C02: a lock-free Get(k) locates its entry in any reachable state, is descheduled, and completes after ANY
   further writer activity: what it copies out is the (key, value, deadline) triple of one single Set of k - exactly
   what it would have copied at once. *)
Theorem paused_read_delivers_one_write before k p after :
  let s := run false init before in
  lookup (tab s) k = Some p ->
  exists it, resume s p = Some it /\ resume (run false s after) p = Some it /\
             ikey it = k /\ In it (log s).
Proof.
  intros s Hl. assert (W : WF s) by (apply WF_run, WF_init).
  unfold WF in W. rewrite Forall_forall in W. destruct (W _ (lookup_in _ _ _ Hl)) as [Hp [it [Hh [Hk Hi]]]].
  cbn [fst snd] in *. exists it. unfold resume. repeat split; auto.
  apply (run_alloc_stable after s p it Hp Hh).
Qed.

(* the seeded change C11q-m1 (recycle = true): a promoted resident is dropped as "rejected" and the next insert
   overwrites its struct; the paused Get(1) then returns key 2's value and deadline *)
Theorem recycling_refuted :
  exists before k p after it it',
    let s := run true init before in
    lookup (tab s) k = Some p /\ resume s p = Some it /\ ikey it = k /\
    resume (run true s after) p = Some it' /\ ikey it' <> k.
Proof.
  exists [OSet 1 10 100 true], 1, 0%nat, [ORejectResident 1; OSet 2 20 200 true], (mkItem 1 10 100), (mkItem 2 20 200).
  cbn. repeat split; try reflexivity. discriminate.
Qed.

(* non-vacuity: the same schedule on the code as it is *)
Example same_schedule_without_recycling :
  let s := run false init [OSet 1 10 100 true] in
  lookup (tab s) 1 = Some 0%nat /\
  resume (run false s [ORejectResident 1; OSet 2 20 200 true]) 0 = Some (mkItem 1 10 100).
Proof. cbn. split; reflexivity. Qed.

Print Assumptions paused_read_delivers_one_write.
Print Assumptions recycling_refuted.
