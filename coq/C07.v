(* C07 — no deadlock, lost wake-up or unbounded blocking. Theorems over QueueLts (write pipeline), MutexAtomicity (generic two-lock discipline), CallbackLts (callbacks run with no lock held). Only `exact` + Print Assumptions. *)
Require Import KV.Base KV.QueueLts KV.QueueLtsProofs KV.MutexAtomicity KV.CallbackLts KV.CallbackProofs KV.NotifierLts KV.NotifierProofs.
Open Scope Z_scope.

(* lock discipline at every reachable state: a thread blocked on the drain token holds no lock; blocked on the shard lock it holds at most the drain token; blocked on a channel or on workers.Wait it holds neither; TryLock paths are always enabled: no cycle in the wait-for graph *)
Theorem c07_lock_order :
  forall (f : bool) (n B : Z) (scripts : list (list QueueLts.op)) 
           (s : gstate) (tid : nat) (th : QueueLts.thread),
         wf_scripts scripts ->
         QueueLtsProofs.reachable (init_scripts f n B scripts) s ->
         QueueLtsProofs.thr s tid th ->
         (blocks_on_drainMu (QueueLts.pc th) = true ->
          drainMu s <> Some tid /\ QueueLts.mu s <> Some tid) /\
         (blocks_on_mu (QueueLts.pc th) = true ->
          QueueLts.mu s <> Some tid /\
          (drainMu s = Some tid <-> QueueLts.pc th = P312 \/ QueueLts.pc th = P332)) /\
         (blocks_on_chan (QueueLts.pc th) = true ->
          drainMu s <> Some tid /\ QueueLts.mu s <> Some tid) /\
         (QueueLts.mu s = Some tid ->
          QueueLts.pc th = P351 /\ (forall c : bool, lstepc c s tid <> None)) /\
         (QueueLts.pc th = P322 \/ QueueLts.pc th = P323 \/ QueueLts.pc th = P106 ->
          forall c : bool, lstepc c s tid <> None).
Proof. exact QueueLtsProofs.lock_order. Qed.

(* no lost wake-up: a published command at tail with a free token and an open cache implies a pending wake token, a worker inside its drain/re-arm section, or the producer at its signalling step *)
Theorem c07_no_lost_wake :
  forall (f : bool) (n B : Z) (scripts : list (list QueueLts.op)) (s : gstate),
         2 <= n ->
         1 <= B ->
         wf_scripts scripts ->
         QueueLtsProofs.reachable (init_scripts f n B scripts) s ->
         cseq (cell_at s (tail s)) = tail s + 1 ->
         drainMu s = None ->
         QueueLts.closeCh s = false ->
         QueueLts.wakeTok s = true \/
         (exists (tid : nat) (th : QueueLts.thread),
            QueueLtsProofs.thr s tid th /\ cur th = Some OWorker /\ wsetN (QueueLts.pc th) = true) \/
         (exists (tid : nat) (th : QueueLts.thread),
            QueueLtsProofs.thr s tid th /\ QueueLts.pc th = P106 /\ epos th = tail s).
Proof. exact QueueLtsProofs.no_lost_wake. Qed.

(* wakeState = 1 is always backed by a token or an active worker (the coalescing flag never suppresses a needed signal) *)
Theorem c07_wake_state_sound :
  forall (f : bool) (n B : Z) (scripts : list (list QueueLts.op)) (s : gstate),
         2 <= n ->
         1 <= B ->
         wf_scripts scripts ->
         QueueLtsProofs.reachable (init_scripts f n B scripts) s ->
         wakeState s = 1 ->
         QueueLts.closeCh s = false ->
         QueueLts.wakeTok s = true \/
         (exists (tid : nat) (th : QueueLts.thread),
            QueueLtsProofs.thr s tid th /\ cur th = Some OWorker /\ wsetW (QueueLts.pc th) = true).
Proof. exact QueueLtsProofs.wake_state_sound. Qed.

(* whenever work is ready some responsible thread is enabled (no schedule leaves a worker permanently blocked while work it is responsible for remains) *)
Theorem c07_progress :
  forall (f : bool) (n B : Z) (scripts : list (list QueueLts.op)) (s : gstate) (c : bool),
         2 <= n ->
         1 <= B ->
         wf_scripts scripts ->
         QueueLtsProofs.reachable (init_scripts f n B scripts) s ->
         ready s ->
         QueueLts.closeCh s = false ->
         (exists (tid : nat) (th : QueueLts.thread),
            QueueLtsProofs.thr s tid th /\ cur th = Some OWorker) -> can_step c s.
Proof. exact QueueLtsProofs.progress. Qed.

(* the synchronous writer's publication wait depends only on never-blocked producer steps *)
Theorem c07_set_wait_bounded :
  forall (f : bool) (n B : Z) (scripts : list (list QueueLts.op)) 
           (s : gstate) (tid : nat) (th : QueueLts.thread),
         2 <= n ->
         1 <= B ->
         wf_scripts scripts ->
         QueueLtsProofs.reachable (init_scripts f n B scripts) s ->
         QueueLtsProofs.thr s tid th ->
         QueueLts.pc th = P333 ->
         tail s < starget th /\
         starget th <= head s /\
         (published s (tail s) \/
          (exists (t' : nat) (th' : QueueLts.thread),
             QueueLtsProofs.thr s t' th' /\
             ownpc (QueueLts.pc th') = true /\
             epos th' = tail s /\ (forall c : bool, lstepc c s t' <> None))).
Proof. exact QueueLtsProofs.set_wait_bounded. Qed.

(* after Close's broadcast every producer blocked on a full ring is enabled and returns ErrCacheClosed or proceeds through a space token *)
Theorem c07_close_releases :
  forall (f : bool) (n B : Z) (scripts : list (list QueueLts.op)) 
           (s : gstate) (c : bool) (tid : nat) (th : QueueLts.thread),
         wf_scripts scripts ->
         QueueLtsProofs.reachable (init_scripts f n B scripts) s ->
         QueueLtsProofs.thr s tid th ->
         QueueLts.pc th = P108 ->
         QueueLts.closeCh s = true ->
         exists (s' : gstate) (o : list Z),
           lstepc c s tid = Some (s', o) /\
           (o = [101; 0; 0] /\ spaceTok s = true /\ c = false \/
            o = [0; 3; 0] \/ o = [339; 0; 0] /\ (exists a : Z, cur th = Some (OClose a))).
Proof. exact QueueLtsProofs.close_releases. Qed.

(* Close returns only after every worker exited *)
Theorem c07_close_waits_for_workers :
  forall (f : bool) (n B : Z) (scripts : list (list QueueLts.op)) (s : gstate),
         wf_scripts scripts ->
         QueueLtsProofs.reachable (init_scripts f n B scripts) s ->
         onceDone s = true -> workers_done s = true.
Proof. exact QueueLtsProofs.close_waits_for_workers. Qed.

(* ring invariant (basis of the back-pressure argument): tail <= head <= tail + n *)
Theorem c07_ring_shape :
  forall (f : bool) (n B : Z) (scripts : list (list QueueLts.op)) (s : gstate),
         2 <= n ->
         wf_scripts scripts -> QueueLtsProofs.reachable (init_scripts f n B scripts) s -> invB s.
Proof. exact QueueLtsProofs.ring_shape. Qed.

(* generic: scripts that take the outer token before the inner RWMutex (or either alone, or TryLock) never deadlock: unfinished threads always include an enabled one *)
Theorem c07_two_lock_deadlock_free :
  forall (S R : Type) (s0 : S) (scripts : list (list (op S R)))
           (st : MutexAtomicity.state S R),
         MutexAtomicity.reachable s0 scripts st ->
         (forall (t : nat) (th : thread S R),
          nth_error (MutexAtomicity.thr st) t = Some th -> finished th) \/
         (exists t : nat, MutexAtomicity.step st t <> None).
Proof. exact MutexAtomicity.deadlock_free. Qed.

(* generic: some lock holder is always enabled *)
Theorem c07_two_lock_no_cycle :
  forall (S R : Type) (s0 : S) (scripts : list (list (op S R)))
           (st : MutexAtomicity.state S R),
         MutexAtomicity.reachable s0 scripts st ->
         wlk st = false /\ rdc st = 0%nat /\ olk st = false \/
         (exists t : nat, holds_lock st t /\ MutexAtomicity.step st t <> None).
Proof. exact MutexAtomicity.lock_order_no_cycle. Qed.

(* expiry callbacks run with no cache lock held (so they may call back into the cache) *)
Theorem c07_callbacks_hold_no_lock :
  forall (dflt : Z) (s : CallbackLts.state) (t : tid) (tk : task) (g : tg) (w : tid),
         CallbackLts.reachable dflt s ->
         thr s t = TCall tk g w -> rw_w (smu s) <> Some t /\ ~ In t (rw_r (smu s)) /\ dmu s <> Some t.
Proof. exact CallbackProofs.B7_no_lock_held. Qed.

(* removal listeners run with no shard lock held by the notifier, so a listener that calls back into the cache cannot self-deadlock on the shard mutex *)
Theorem c07_listeners_hold_no_lock :
  forall (re : Z -> option (nat * Z)) (n : nat) (scripts : list (list (nat * Z))) (s : state),
         reachable re n scripts s ->
         match npos s with
         | NDeliver _ | NReent _ MIdle _ _ => forall sh : nat, mu (shards s sh) <> Some OwNot
         | NReent _ MLocked j _ | NReent _ MAppended j _ | NReent _ MFlagged j _ |
           NReent _ MSignalled j _ => forall sh : nat, mu (shards s sh) = Some OwNot -> sh = j
         | _ => True
         end.
Proof. exact NotifierProofs.listener_without_lock. Qed.

(* a removal caused by a re-entrant listener call is delivered in the same pass or covered by the wake token it signalled *)
Theorem c07_reentrant_listener_progress :
  forall (re : Z -> option (nat * Z)) (n : nat) (scripts : list (list (nat * Z))) 
           (s : state) (c : bool) (s' : state) (i j : nat) (y : Z),
         reachable re n scripts s ->
         npos s = NReent i MSignalled j y ->
         step re s (LNot c) = Some s' ->
         npos s' = NDeliver i /\
         (exists pre : list Z, buf (shards s' j) = pre ++ [y]) /\
         pending (shards s' j) = true /\
         wakeTok s' = true /\
         ((i < j)%nat -> covers (npos s') j) /\
         (closeCh s' = false -> npos s' = NDeliver i /\ ((i < j)%nat \/ wakeTok s' = true)).
Proof. exact NotifierProofs.reentrant_stage_delivered. Qed.

(* the notifier is blocked only at its select without a token or behind a mutator that is itself enabled; every notifier step decreases a measure *)
Theorem c07_notifier_never_stuck :
  forall (re : Z -> option (nat * Z)) (rank : Z -> nat) (n : nat)
           (scripts : list (list (nat * Z))) (s : state),
         (forall (x : Z) (j : nat) (y : Z), re x = Some (j, y) -> (rank y < rank x)%nat) ->
         reachable re n scripts s ->
         closeCh s = false ->
         (forall t : nat, mpos (muts s t) <> MIdle -> exists s' : state, step re s (LMut t) = Some s') /\
         (forall c : bool,
          step re s (LNot c) = None ->
          npos s = NSelect /\ wakeTok s = false \/
          (exists sh t : nat,
             mu (shards s sh) = Some (OwMut t) /\
             mpos (muts s t) <> MIdle /\ (exists s' : state, step re s (LMut t) = Some s'))) /\
         (quiescent s ->
          forall sh : nat,
          buf (shards s sh) <> [] -> forall c : bool, exists s' : state, step re s (LNot c) = Some s') /\
         (forall (c : bool) (s' : state),
          step re s (LNot c) = Some s' -> (measure rank s' < measure rank s)%nat) /\
         (quiescent s ->
          npos s = NSelect ->
          wakeTok s = false ->
          forall sh : nat, buf (shards s sh) = [] /\ proj sh (staged s) = proj sh (delivered s)).
Proof. exact NotifierProofs.eventual_delivery. Qed.

(* non-vacuity: blocked producer released by the space token *)
Theorem c07_backpressure_example :
  let r := run_sched_obs (init_scripts true 2 1 ex_scripts) ex_sched_backpressure in
         snd r =
         [[101; 0; 0]; [102; 0; 0]; [103; 0; 0]; [104; 0; 0]; [105; 0; 0]; [
          106; 0; 0]; [0; 0; 0]; [101; 0; 0]; [102; 0; 0]; [103; 0; 0]; [
          104; 0; 0]; [105; 0; 0]; [106; 0; 0]; [0; 0; 0]; [101; 0; 0]; [
          102; 0; 0]; [108; 0; 0]; [-2]; [301; 0; 0]; [302; 0; 0]; [311; 0; 0]; [
          121; 0; 0]; [122; 0; 0]; [123; 0; 0]; [124; 0; 0]; [125; 0; 0]; [
          126; 0; 0]; [312; 0; 0]; [313; 0; 0]; [121; 0; 0]; [101; 0; 0]; [
          102; 0; 0]; [103; 0; 0]; [104; 0; 0]; [105; 0; 0]; [106; 0; 0]; [
          0; 0; 0]] /\
         head (fst r) = 3 /\ tail (fst r) = 1 /\ applied (fst r) = [1] /\ overwrote (fst r) = false.
Proof. exact QueueLtsProofs.backpressure_and_lap. Qed.

(* non-vacuity: the worker's re-arm CAS path with a producer publishing in the window *)
Theorem c07_rearm_example :
  let r := run_sched_obs (init_scripts true 2 1 ex_scripts) ex_sched_rearm in
         skipn 42 (snd r) =
         [[121; 0; 0]; [122; 0; 0]; [303; 0; 0]; [304; 0; 0]; [106; 0; 0]; [
          305; 0; 0]; [302; 0; 0]; [311; 0; 0]; [0; 0; 0]; [121; 0; 0]; [
          122; 0; 0]; [123; 0; 0]; [124; 0; 0]; [125; 0; 0]; [126; 0; 0]; [
          312; 0; 0]; [313; 0; 0]; [121; 0; 0]; [122; 0; 0]; [303; 0; 0]; [
          304; 0; 0]] /\
         applied (fst r) = [1; 2; 3] /\
         QueueLts.wakeTok (fst r) = false /\ head (fst r) = 3 /\ tail (fst r) = 3.
Proof. exact QueueLtsProofs.rearm_cas. Qed.

Print Assumptions c07_lock_order.
Print Assumptions c07_no_lost_wake.
Print Assumptions c07_wake_state_sound.
Print Assumptions c07_progress.
Print Assumptions c07_set_wait_bounded.
Print Assumptions c07_close_releases.
Print Assumptions c07_close_waits_for_workers.
Print Assumptions c07_ring_shape.
Print Assumptions c07_two_lock_deadlock_free.
Print Assumptions c07_two_lock_no_cycle.
Print Assumptions c07_callbacks_hold_no_lock.
Print Assumptions c07_listeners_hold_no_lock.
Print Assumptions c07_reentrant_listener_progress.
Print Assumptions c07_notifier_never_stuck.
Print Assumptions c07_backpressure_example.
Print Assumptions c07_rearm_example.
