(* CallbackLts.v — executable labelled transition system of expiry callbacks (writes.go: setAndWait / applySetSync /
   syncMutate, newCallbackTask, scheduleCallback; cache.go: Close, Cleanup, get) over virtual time.

   One shard (one table [tab : key -> entry], one RWMutex [smu] = s.mu, one Mutex [dmu] = s.drainMu), any number of
   keys and threads, a global clock [now] advanced by [LTick d] (d >= 0) at any moment.
   Threads (started at any time by [LSpawn c]; thread 0 is the shard's write worker, started by New):
     CSet k v ttl cb accept pre_err   Set (cb = None) / SetWithCallback (cb = Some id) through setAndWait:
                                     setCommand (default-TTL resolution; pre_err = itemCost / ErrItemTooLarge failure),
                                     syncMutate (isClosed; drainMu.Lock; isClosed; s.mu.Lock; stamp deadline; applySet
                                     - [accept] is the admission decision for an insert, an update always commits -;
                                     newCallbackTask; unlock both), then scheduleCallback.
     CDelete k                       deleteSync through the same syncMutate.
     CEvict k / CClear               removal of one key / of everything under s.mu (eviction by another key's Set,
                                     a Clear command applied by whoever drains the queue).
     CExpire k / CCleanup            expiry removal by Get/Exists (one key) or Cleanup (all keys): isClosed, read the
                                     clock, s.mu.Lock, remove entries with 0 < deadline < (the clock value read).
     CClose                          closeOnce { closed=true; (flush); close(closeCh); workers.Wait(); clearDirect }.
   The worker (thread 0) waits for a wake-up or closeCh, takes drainMu, applies queued asynchronous callback-less
   Sets under s.mu (parameters supplied by the label [LWk], one clock reading per batch), and exits after its final
   drain once closeCh is closed.
   A timer thread (spawned by scheduleCallback) is: NewTimer(delay); select {timer.C | closeCh}; RLock; validate;
   RUnlock; callback.  Both select cases may be ready; Go then chooses either, so does the model ([ch]).
   Ghost state: entry writer, write log, timer ghost record (fire time, time and close-status at the select),
   [close_at] (clock when Close returned), event list.  Stdlib only. *)
From KV Require Import Base.
Open Scope Z_scope.

Definition key := nat.
Definition val := nat.
Definition cbid := nat.
Definition tid := nat.
Bind Scope nat_scope with key val cbid tid.

Definition upd {A} (f : nat -> A) (k : nat) (v : A) : nat -> A :=
  fun x => if Nat.eqb x k then v else f x.
Definition rem (n : nat) (l : list nat) : list nat := filter (fun x => negb (Nat.eqb x n)) l.

(* saturatingDeadline(ttl, now) *)
Definition sat_deadline (ttl now : Z) : Z :=
  if (0 <? now) && (max_int64 - now <? ttl) then max_int64 else ttl + now.

(* setCommand: ttl == DefaultExpiration(0) -> config.DefaultTTL; expireTime = ttl if ttl > 0 else 0 *)
Definition resolve_ttl (dflt ttl : Z) : Z :=
  let t := if ttl =? 0 then dflt else ttl in if 0 <? t then t else 0.

Record entry := mkEntry { e_val : val; e_dl : Z; e_writer : tid (* ghost *) }.

(* callbackTask; tk_owner (ghost) = the SetWithCallback call (thread) it belongs to *)
Record task := mkTask { tk_key : key; tk_val : val; tk_dl : Z; tk_cb : cbid; tk_owner : tid }.

(* ghost record of a timer thread that took the timer.C branch of its select *)
Record tg := mkTg { g_fire : Z;     (* virtual time at which its timer elapses *)
                    g_sel : Z;      (* clock when it passed the select *)
                    g_sac : bool }. (* had Close already returned when it passed the select? *)

Inductive mop :=
| OSet (k : key) (v : val) (exp : Z) (cb : option cbid) (accept : bool)
| ODel (k : key).

Inductive call :=
| CSet (k : key) (v : val) (ttl : Z) (cb : option cbid) (accept pre_err : bool)
| CDelete (k : key)
| CEvict (k : key)
| CClear
| CExpire (k : key)
| CCleanup
| CClose.

Inductive mres := ROk | EClosed | EErr.

Inductive ostate := ONone | ORunning | ODone.

Inductive pc :=
| Idle
(* setAndWait / deleteSync *)
| MStart (op : mop) (pre_err : bool)       (* setCommand result; syncMutate: if c.isClosed() *)
| MLockD (op : mop)                        (* s.drainMu.Lock() *)
| MCheck2 (op : mop)                       (* if c.isClosed() (under drainMu) *)
| MUnlockDErr                              (* deferred drainMu.Unlock(), return ErrCacheClosed *)
| MLockS (op : mop)                        (* (drainShardQueue;) s.mu.Lock() *)
| MApply (op : mop)                        (* stampExpireTimeNow; applySet; newCallbackTask  /  deleteKey *)
| MUnlockS (committed : bool) (dl : Z) (tk : option task)   (* s.mu.Unlock() *)
| MUnlockD (committed : bool) (dl : Z) (tk : option task)   (* deferred drainMu.Unlock() *)
| MSched (committed : bool) (dl : Z) (tk : task)            (* c.scheduleCallback(task) *)
| MDone (r : mres) (committed : bool) (dl : Z) (sched : bool)
(* eviction / Clear *)
| ELock (o : option key) | EApply (o : option key) | EUnlock
(* expiry removal *)
| XStart (o : option key) | XLock (o : option key) (n0 : Z) | XApply (o : option key) (n0 : Z) | XUnlock
(* Close *)
| KStart | KSetClosed | KCloseCh | KWait | KLockS | KClear | KUnlockS
(* write worker *)
| WkIdle | WkLockD (fin : bool) | WkHold (fin : bool) | WkLockS (fin : bool) | WkApply (fin : bool) (bnow : Z)
| WkExited
(* expiry-callback timer goroutine *)
| TStart (tk : task) (delay : Z)           (* time.NewTimer(delay) *)
| TSelect (tk : task) (fire : Z)           (* select { case <-timer.C | case <-c.closeCh } *)
| TRLock (tk : task) (g : tg)              (* s.mu.RLock() *)
| TValidate (tk : task) (g : tg)           (* lookup; expired := exists && item.expireTime == task.expireTime && now > it *)
| TRUnlock (tk : task) (g : tg) (r : option tid)   (* s.mu.RUnlock(); r = Some (writer of the entry seen) iff expired *)
| TCall (tk : task) (g : tg) (w : tid)     (* task.callback(task.key, task.value) *)
| TFired (tk : task)
| TQuiet (tk : task)
| PDone.

(* the callback invocation: task (key, value, callback id, deadline, owner), timer ghost, writer of the entry seen at
   validation (ghost), clock at the call *)
Inductive event := ECb (tk : task) (g : tg) (seen : tid) (at_ : Z).

Record rwlock := mkRw { rw_w : option tid; rw_r : list tid }.

Record state := mkState {
  now : Z;
  cfg_ttl : Z;                       (* config.DefaultTTL *)
  tab : key -> option entry;
  closed : bool;                     (* c.closed *)
  closeCh : bool;                    (* closeCh has been closed *)
  once : ostate;                     (* c.closeOnce; ODone = some Close call has returned *)
  close_at : option Z;               (* ghost: clock when Close returned *)
  smu : rwlock;                      (* s.mu *)
  dmu : option tid;                  (* s.drainMu *)
  thr : tid -> pc;
  nthr : nat;
  calls : tid -> option call;        (* ghost: the call each thread was started for *)
  wlog : list (tid * key * val * Z); (* ghost: committed Sets (writer, key, value, stamped deadline) *)
  events : list event                (* newest first *)
}.

Definition init (dflt : Z) : state :=
  mkState 0 dflt (fun _ => None) false false ONone None (mkRw None []) None
          (upd (fun _ => Idle) 0%nat WkIdle) 1 (fun _ => None) [] [].

(* ---------------- setters ---------------- *)
Definition set_now s x := mkState x (cfg_ttl s) (tab s) (closed s) (closeCh s) (once s) (close_at s) (smu s) (dmu s)
  (thr s) (nthr s) (calls s) (wlog s) (events s).
Definition set_tab s x := mkState (now s) (cfg_ttl s) x (closed s) (closeCh s) (once s) (close_at s) (smu s) (dmu s)
  (thr s) (nthr s) (calls s) (wlog s) (events s).
Definition set_closed s x := mkState (now s) (cfg_ttl s) (tab s) x (closeCh s) (once s) (close_at s) (smu s) (dmu s)
  (thr s) (nthr s) (calls s) (wlog s) (events s).
Definition set_closeCh s x := mkState (now s) (cfg_ttl s) (tab s) (closed s) x (once s) (close_at s) (smu s) (dmu s)
  (thr s) (nthr s) (calls s) (wlog s) (events s).
Definition set_once s x := mkState (now s) (cfg_ttl s) (tab s) (closed s) (closeCh s) x (close_at s) (smu s) (dmu s)
  (thr s) (nthr s) (calls s) (wlog s) (events s).
Definition set_close_at s x := mkState (now s) (cfg_ttl s) (tab s) (closed s) (closeCh s) (once s) x (smu s) (dmu s)
  (thr s) (nthr s) (calls s) (wlog s) (events s).
Definition set_smu s x := mkState (now s) (cfg_ttl s) (tab s) (closed s) (closeCh s) (once s) (close_at s) x (dmu s)
  (thr s) (nthr s) (calls s) (wlog s) (events s).
Definition set_dmu s x := mkState (now s) (cfg_ttl s) (tab s) (closed s) (closeCh s) (once s) (close_at s) (smu s) x
  (thr s) (nthr s) (calls s) (wlog s) (events s).
Definition set_thr s t p := mkState (now s) (cfg_ttl s) (tab s) (closed s) (closeCh s) (once s) (close_at s) (smu s) (dmu s)
  (upd (thr s) t p) (nthr s) (calls s) (wlog s) (events s).
Definition add_thr s p (c : option call) :=
  mkState (now s) (cfg_ttl s) (tab s) (closed s) (closeCh s) (once s) (close_at s) (smu s) (dmu s)
  (upd (thr s) (nthr s) p) (S (nthr s)) (upd (calls s) (nthr s) c) (wlog s) (events s).
Definition log_write s (x : tid * key * val * Z) :=
  mkState (now s) (cfg_ttl s) (tab s) (closed s) (closeCh s) (once s) (close_at s) (smu s) (dmu s)
  (thr s) (nthr s) (calls s) (x :: wlog s) (events s).
Definition emit s e := mkState (now s) (cfg_ttl s) (tab s) (closed s) (closeCh s) (once s) (close_at s) (smu s) (dmu s)
  (thr s) (nthr s) (calls s) (wlog s) (e :: events s).
Definition goto := set_thr.

Definition smu_free (s : state) : bool :=
  match rw_w (smu s), rw_r (smu s) with None, [] => true | _, _ => false end.
Definition lock_w s t := set_smu s (mkRw (Some t) []).
Definition unlock_w s := set_smu s (mkRw None (rw_r (smu s))).

(* applySet for key k (shard lock held): stamp the deadline with clock value [n], commit unless a new key is rejected *)
Definition stamp (exp n : Z) : Z := if 0 <? exp then sat_deadline exp n else 0.
Definition commits (s : state) (k : key) (accept : bool) : bool :=
  match tab s k with Some _ => true | None => accept end.
Definition apply_set (s : state) (w : tid) (k : key) (v : val) (dl : Z) : state :=
  log_write (set_tab s (upd (tab s) k (Some (mkEntry v dl w)))) (w, k, v, dl).

(* item.expireTime > 0 && n0 > item.expireTime *)
Definition expired_at (n0 : Z) (e : entry) : bool := (0 <? e_dl e) && (e_dl e <? n0).
Definition expire_entry (n0 : Z) (x : option entry) : option entry :=
  match x with Some e => if expired_at n0 e then None else Some e | None => None end.

(* the timer's re-validation under the read lock *)
Definition validate (s : state) (tk : task) : option tid :=
  match tab s (tk_key tk) with
  | Some e => if (e_dl e =? tk_dl tk) && (e_dl e <? now s) then Some (e_writer e) else None
  | None => None
  end.

Definition is_done (o : ostate) : bool := match o with ODone => true | _ => false end.

Definition init_pc (s : state) (c : call) : pc :=
  match c with
  | CSet k v ttl cb accept pre_err => MStart (OSet k v (resolve_ttl (cfg_ttl s) ttl) cb accept) pre_err
  | CDelete k => MStart (ODel k) false
  | CEvict k => ELock (Some k)
  | CClear => ELock None
  | CExpire k => XStart (Some k)
  | CCleanup => XStart None
  | CClose => KStart
  end.

(* ---------------- one atomic step of thread t ---------------- *)
Definition step_thread (s : state) (t : tid) (ch : nat) (p : pc) : option state :=
  match p with
  | Idle | PDone | MDone _ _ _ _ | WkExited | TFired _ | TQuiet _ => None

  (* ---- setAndWait / deleteSync via syncMutate ---- *)
  | MStart op pre_err =>
      if pre_err then Some (goto s t (MDone EErr false 0 false))
      else if closed s then Some (goto s t (MDone EClosed false 0 false))
      else Some (goto s t (MLockD op))
  | MLockD op =>
      match dmu s with
      | None => Some (goto (set_dmu s (Some t)) t (MCheck2 op))
      | Some _ => None
      end
  | MCheck2 op => if closed s then Some (goto s t MUnlockDErr) else Some (goto s t (MLockS op))
  | MUnlockDErr => Some (goto (set_dmu s None) t (MDone EClosed false 0 false))
  | MLockS op => if smu_free s then Some (goto (lock_w s t) t (MApply op)) else None
  | MApply op =>
      match op with
      | OSet k v exp cb accept =>
          let dl := stamp exp (now s) in
          if commits s k accept then
            let tk := if 0 <? dl then match cb with Some c => Some (mkTask k v dl c t) | None => None end
                      else None in
            Some (goto (apply_set s t k v dl) t (MUnlockS true dl tk))
          else Some (goto s t (MUnlockS false dl None))
      | ODel k => Some (goto (set_tab s (upd (tab s) k None)) t (MUnlockS false 0 None))
      end
  | MUnlockS c dl tk => Some (goto (unlock_w s) t (MUnlockD c dl tk))
  | MUnlockD c dl tk =>
      match tk with
      | Some k => Some (goto (set_dmu s None) t (MSched c dl k))
      | None => Some (goto (set_dmu s None) t (MDone ROk c dl false))
      end
  | MSched c dl tk =>
      (* delay := max(task.expireTime - c.nowNano(), 0); go func() {...}() *)
      let delay := Z.max (tk_dl tk - now s) 0 in
      Some (goto (add_thr s (TStart tk delay) None) t (MDone ROk c dl true))

  (* ---- eviction / Clear ---- *)
  | ELock o => if smu_free s then Some (goto (lock_w s t) t (EApply o)) else None
  | EApply o =>
      match o with
      | Some k => Some (goto (set_tab s (upd (tab s) k None)) t EUnlock)
      | None => Some (goto (set_tab s (fun _ => None)) t EUnlock)
      end
  | EUnlock => Some (goto (unlock_w s) t PDone)

  (* ---- expiry removal (Get / Exists / Cleanup) ---- *)
  | XStart o => if closed s then Some (goto s t PDone) else Some (goto s t (XLock o (now s)))
  | XLock o n0 => if smu_free s then Some (goto (lock_w s t) t (XApply o n0)) else None
  | XApply o n0 =>
      match o with
      | Some k => Some (goto (set_tab s (upd (tab s) k (expire_entry n0 (tab s k)))) t XUnlock)
      | None => Some (goto (set_tab s (fun k => expire_entry n0 (tab s k))) t XUnlock)
      end
  | XUnlock => Some (goto (unlock_w s) t PDone)

  (* ---- Close ---- *)
  | KStart =>
      match once s with
      | ONone => Some (goto (set_once s ORunning) t KSetClosed)
      | ORunning => None                       (* closeOnce.Do blocks until the running Do returns *)
      | ODone => Some (goto s t PDone)
      end
  | KSetClosed => Some (goto (set_closed s true) t KCloseCh)     (* c.closed.Store(true); c.flush() *)
  | KCloseCh => Some (goto (set_closeCh s true) t KWait)          (* close(c.closeCh) *)
  | KWait => match thr s 0%nat with WkExited => Some (goto s t KLockS) | _ => None end   (* c.workers.Wait() *)
  | KLockS => if smu_free s then Some (goto (lock_w s t) t KClear) else None   (* clearDirect *)
  | KClear => Some (goto (set_tab s (fun _ => None)) t KUnlockS)
  | KUnlockS => Some (goto (set_close_at (set_once (unlock_w s) ODone) (Some (now s))) t PDone)

  (* ---- write worker ---- *)
  | WkIdle =>
      match ch with
      | O => Some (goto s t (WkLockD false))                                   (* case <-s.wake *)
      | _ => if closeCh s then Some (goto s t (WkLockD true)) else None        (* case <-c.closeCh *)
      end
  | WkLockD f =>
      match dmu s with
      | None => Some (goto (set_dmu s (Some t)) t (WkHold f))
      | Some _ => None
      end
  | WkHold f =>
      match ch with
      | O => Some (goto (set_dmu s None) t (if f then WkExited else WkIdle))   (* queue empty: Unlock; loop / return *)
      | _ => Some (goto s t (WkLockS f))                                        (* a batch was dequeued *)
      end
  | WkLockS f => if smu_free s then Some (goto (lock_w s t) t (WkApply f (now s))) else None
  | WkApply f _ => Some (goto (unlock_w s) t (WkHold f))                        (* batch done: s.mu.Unlock() *)

  (* ---- timer goroutine of scheduleCallback ---- *)
  | TStart tk delay => Some (goto s t (TSelect tk (now s + delay)))
  | TSelect tk fire =>
      match ch with
      | O => if fire <=? now s
             then Some (goto s t (TRLock tk (mkTg fire (now s) (is_done (once s)))))
             else None
      | _ => if closeCh s then Some (goto s t (TQuiet tk)) else None
      end
  | TRLock tk g =>
      match rw_w (smu s) with
      | None => Some (goto (set_smu s (mkRw None (t :: rw_r (smu s)))) t (TValidate tk g))
      | Some _ => None
      end
  | TValidate tk g => Some (goto s t (TRUnlock tk g (validate s tk)))
  | TRUnlock tk g r =>
      let s1 := set_smu s (mkRw (rw_w (smu s)) (rem t (rw_r (smu s)))) in
      match r with
      | Some w => Some (goto s1 t (TCall tk g w))
      | None => Some (goto s1 t (TQuiet tk))
      end
  | TCall tk g w => Some (goto (emit s (ECb tk g w (now s))) t (TFired tk))
  end.

Inductive label :=
| LSpawn (c : call)
| LStep (t : tid) (ch : nat)
| LTick (d : Z)                                          (* the clock advances by d >= 0 *)
| LWk (k : key) (v : val) (exp : Z) (accept : bool).      (* the worker applies one queued callback-less Set *)

Definition step (s : state) (l : label) : option state :=
  match l with
  | LSpawn c => Some (add_thr s (init_pc s c) (Some c))
  | LStep t ch => step_thread s t ch (thr s t)
  | LTick d => if 0 <=? d then Some (set_now s (now s + d)) else None
  | LWk k v exp accept =>
      match thr s 0%nat with
      | WkApply f bnow =>
          if commits s k accept then Some (apply_set s 0%nat k v (stamp exp bnow)) else Some s
      | _ => None
      end
  end.

Fixpoint exec (s : state) (ls : list label) : option state :=
  match ls with
  | [] => Some s
  | l :: r => match step s l with Some s1 => exec s1 r | None => None end
  end.

Inductive reachable (dflt : Z) : state -> Prop :=
| reach_init : reachable dflt (init dflt)
| reach_step s l s' : reachable dflt s -> step s l = Some s' -> reachable dflt s'.

Lemma exec_reachable dflt s ls s' : reachable dflt s -> exec s ls = Some s' -> reachable dflt s'.
Proof.
  revert s. induction ls as [|l r IH]; cbn [exec]; intros s R E.
  - injection E as <-. exact R.
  - destruct (step s l) as [s1|] eqn:S1; [|discriminate]. eapply IH; [|exact E]. econstructor; eauto.
Qed.

Definition steps (t : tid) (k : nat) : list label := repeat (LStep t 0%nat) k.

(* observation helpers *)
Definition cb_of (e : event) : (cbid * key * val * Z) :=
  match e with ECb tk _ _ a => (tk_cb tk, tk_key tk, tk_val tk, a) end.
Definition fired (s : state) : list (cbid * key * val * Z) := rev (map cb_of (events s)).
Definition entry_of (s : state) (k : key) : option (val * Z) :=
  match tab s k with Some e => Some (e_val e, e_dl e) | None => None end.
