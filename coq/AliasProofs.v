(* AliasProofs.v: isolation of the stored HTTP response from every reference held outside the middleware.
   Proved about the executable model AliasModel.v.  Stdlib only, no assumptions, every proof closed. *)
From Coq Require Import List ZArith Bool Lia.
From KV Require Import AliasModel.
Import ListNotations.
Open Scope Z_scope.

(* ------------------------------------------------------------------------------------------------------------ *)
(* 0. Small lemmas about the heap update functions and the association-list helpers                             *)
(* ------------------------------------------------------------------------------------------------------------ *)

Lemma aupd_same f k v : aupd f k v k = v.
Proof. unfold aupd. rewrite Z.eqb_refl. reflexivity. Qed.
Lemma aupd_other f k v x : x <> k -> aupd f k v x = f x.
Proof. intros H. unfold aupd. destruct (Z.eqb_spec x k); [contradiction|reflexivity]. Qed.
Lemma mupd_same f k v : mupd f k v k = v.
Proof. unfold mupd. rewrite Z.eqb_refl. reflexivity. Qed.
Lemma mupd_other f k v x : x <> k -> mupd f k v x = f x.
Proof. intros H. unfold mupd. destruct (Z.eqb_spec x k); [contradiction|reflexivity]. Qed.

Arguments aupd : simpl never.
Arguments mupd : simpl never.

Lemma zmem_In l k : zmem l k = true <-> In k l.
Proof.
  induction l as [|a l IH]; simpl.
  - split; [discriminate|tauto].
  - rewrite orb_true_iff, IH, Z.eqb_eq. tauto.
Qed.
Lemma zmem_notIn l k : ~ In k l -> zmem l k = false.
Proof.
  intros H. destruct (zmem l k) eqn:E; [|reflexivity]. apply zmem_In in E. contradiction.
Qed.

Lemma zins_In {A} (l : list (Z * A)) k v e : In e (zins l k v) -> e = (k, v) \/ In e l.
Proof.
  induction l as [|[a b] l IH]; simpl.
  - intros [H|[]]; auto.
  - destruct (k =? a).
    + intros [H|H]; auto.
    + destruct (k <? a).
      * intros [H|H]; auto.
      * intros [H|H]; auto. destruct (IH H); auto.
Qed.
Lemma zdel_In {A} (l : list (Z * A)) k e : In e (zdel l k) -> In e l.
Proof.
  induction l as [|[a b] l IH]; simpl; [tauto|].
  destruct (a =? k); [auto|]. intros [H|H]; auto.
Qed.

(* ------------------------------------------------------------------------------------------------------------ *)
(* 1. Dereferenced entries, the encoding used by view / hit                                                      *)
(* ------------------------------------------------------------------------------------------------------------ *)

Definition deref (s : ast) (es : list (Z * Z)) : list (Z * list Z) :=
  map (fun e => (fst e, arr s (snd e))) es.
Definition enc (l : list (Z * list Z)) : list Z :=
  flat_map (fun p => fst p :: Z.of_nat (length (snd p)) :: snd p) l.
Definition keep (skip : list Z) (e : Z * Z) : bool := negb (zmem skip (fst e)).

Lemma enc_deref s es :
  flat_map (fun e => fst e :: Z.of_nat (length (arr s (snd e))) :: arr s (snd e)) es = enc (deref s es).
Proof.
  induction es as [|e es IH]; [reflexivity|].
  simpl. rewrite IH. reflexivity.
Qed.

Lemma deref_ext s s' es :
  (forall k a, In (k, a) es -> arr s' a = arr s a) -> deref s' es = deref s es.
Proof.
  intros H. unfold deref. apply map_ext_in. intros [k a] Hin. simpl. rewrite (H k a Hin). reflexivity.
Qed.

Lemma filter_keep_nil es : filter (keep []) es = es.
Proof. induction es as [|e es IH]; [reflexivity|]. simpl. rewrite IH. reflexivity. Qed.

Lemma view_eq s :
  view s = match stored s with
           | None => [-1]
           | Some (st, m, b) => st :: enc (deref s (hmap s m)) ++ [-2] ++ arr s b
           end.
Proof.
  unfold view. destruct (stored s) as [[[st m] b]|]; [|reflexivity].
  rewrite enc_deref. reflexivity.
Qed.

(* ------------------------------------------------------------------------------------------------------------ *)
(* 2. clone_entries                                                                                             *)
(* ------------------------------------------------------------------------------------------------------------ *)

(* every field that is not part of the heap *)
Definition same_ctl (s s' : ast) : Prop :=
  wmap s' = wmap s /\ committed s' = committed s /\ rwh s' = rwh s /\ status s' = status s /\
  bufarr s' = bufarr s /\ stored s' = stored s /\ adv_arr s' = adv_arr s /\ adv_map s' = adv_map s /\
  ignored s' = ignored s.

Lemma same_ctl_refl s : same_ctl s s.
Proof. unfold same_ctl. repeat split. Qed.

Lemma clone_entries_cons s k a r skip :
  clone_entries s ((k, a) :: r) skip =
  if zmem skip k then clone_entries s r skip
  else let '(s2, r') := clone_entries (fst (alloc_arr s (arr s a))) r skip in (s2, (k, nxt s) :: r').
Proof. reflexivity. Qed.

Lemma filter_keep_cons skip k a r :
  filter (keep skip) ((k, a) :: r) = if zmem skip k then filter (keep skip) r else (k, a) :: filter (keep skip) r.
Proof. simpl. unfold keep at 1. simpl. destruct (zmem skip k); reflexivity. Qed.

Lemma clone_spec : forall es s skip s' es',
  clone_entries s es skip = (s', es') ->
  same_ctl s s' /\ hmap s' = hmap s /\ nxt s <= nxt s' /\
  (forall x, x < nxt s -> arr s' x = arr s x) /\
  (forall k a, In (k, a) es' -> nxt s <= a < nxt s') /\
  ((forall k a, In (k, a) es -> a < nxt s) -> deref s' es' = deref s (filter (keep skip) es)).
Proof.
  induction es as [|[k a] r IH]; intros s skip s' es' H.
  - simpl in H. inversion H; subst.
    split; [apply same_ctl_refl|]. split; [reflexivity|]. split; [lia|]. split; [reflexivity|].
    split; [intros k0 a0 []|]. reflexivity.
  - rewrite clone_entries_cons in H. rewrite filter_keep_cons.
    destruct (zmem skip k) eqn:Ez.
    + destruct (IH _ _ _ _ H) as (C & Hm & Hn & Ha & Hr & Hd).
      split; [exact C|]. split; [exact Hm|]. split; [exact Hn|]. split; [exact Ha|]. split; [exact Hr|].
      intros Hb. apply Hd. intros k0 a0 Hin. apply (Hb k0 a0). right; exact Hin.
    + destruct (clone_entries (fst (alloc_arr s (arr s a))) r skip) as [s2 r'] eqn:E.
      inversion H; subst s' es'; clear H.
      destruct (IH _ _ _ _ E) as (C & Hm & Hn & Ha & Hr & Hd).
      unfold alloc_arr, with_heap, same_ctl in *. cbn [fst arr hmap nxt wmap committed rwh status bufarr stored
                                                      adv_arr adv_map ignored] in *.
      split; [exact C|]. split; [exact Hm|]. split; [lia|].
      split; [intros x Hx; rewrite Ha by lia; apply aupd_other; lia|].
      split.
      * intros k0 a0 [H|H]; [inversion H; subst; lia|]. apply Hr in H. lia.
      * intros Hb.
        unfold deref at 1 2. simpl map. fold (deref s2 r'). fold (deref s (filter (keep skip) r)).
        f_equal.
        -- f_equal. rewrite Ha by lia. apply aupd_same.
        -- rewrite Hd.
           ++ apply deref_ext. intros k0 a0 Hin. apply filter_In in Hin. destruct Hin as [Hin _].
              apply aupd_other. specialize (Hb k0 a0 (or_intror Hin)). lia.
           ++ intros k0 a0 Hin. specialize (Hb k0 a0 (or_intror Hin)). lia.
Qed.

Arguments clone_entries : simpl never.

(* ------------------------------------------------------------------------------------------------------------ *)
(* 3. The invariant                                                                                             *)
(* ------------------------------------------------------------------------------------------------------------ *)

(* Bnd: every reference that exists anywhere is below the allocation counter (so a fresh id aliases nothing). *)
Record Bnd (s : ast) : Prop := {
  b_pos : 0 < nxt s;
  b_wmap : wmap s < nxt s;
  b_rwh : rwh s < nxt s;
  b_buf : bufarr s < nxt s;
  b_aarr : forall a, In a (adv_arr s) -> a < nxt s;
  b_amap : forall m, In m (adv_map s) -> m < nxt s;
  b_vals : forall x k a, In (k, a) (hmap s x) -> a < nxt s;
  b_st : forall st m b, stored s = Some (st, m, b) -> m < nxt s /\ b < nxt s }.

(* Sep: nothing that anybody can write through reaches the stored response. *)
Definition Sep (s : ast) : Prop :=
  forall st m b, stored s = Some (st, m, b) ->
    ~ In m (adv_map s) /\ m <> wmap s /\ m <> rwh s /\ ~ In b (adv_arr s) /\ b <> bufarr s /\
    forall k a, In (k, a) (hmap s m) -> ~ In a (adv_arr s) /\ a <> bufarr s.

Definition WF (s : ast) : Prop := Bnd s /\ Sep s.

Theorem init_wf : forall ign, WF (init ign).
Proof.
  intros ign. split.
  - constructor; simpl; try lia; try (intros; discriminate).
  - intros st m b H; discriminate.
Qed.

(* references that stay the same in steps that only touch the heap *)
Definition same_refs (s s' : ast) : Prop :=
  wmap s' = wmap s /\ rwh s' = rwh s /\ bufarr s' = bufarr s /\ stored s' = stored s /\
  adv_arr s' = adv_arr s /\ adv_map s' = adv_map s.

Lemma same_ctl_refs s s' : same_ctl s s' -> same_refs s s'.
Proof. unfold same_ctl, same_refs. tauto. Qed.

Lemma Bnd_grow s s' : Bnd s -> same_refs s s' -> nxt s <= nxt s' ->
  (forall x k a, In (k, a) (hmap s' x) -> a < nxt s') -> Bnd s'.
Proof.
  intros B (R1 & R2 & R3 & R4 & R5 & R6) Hn Hv. destruct B.
  constructor; rewrite ?R1, ?R2, ?R3, ?R4, ?R5, ?R6; try lia; auto.
  - intros a H. apply b_aarr0 in H. lia.
  - intros m H. apply b_amap0 in H; lia.
  - intros st m b H. apply b_st0 in H; lia.
Qed.

Lemma Sep_same s s' : Sep s -> same_refs s s' ->
  (forall st m b, stored s = Some (st, m, b) -> hmap s' m = hmap s m) -> Sep s'.
Proof.
  intros S (R1 & R2 & R3 & R4 & R5 & R6) Hh st m b Hst. rewrite R4 in Hst.
  rewrite R1, R2, R3, R5, R6, (Hh _ _ _ Hst). exact (S _ _ _ Hst).
Qed.

Ltac fld := cbn [arr hmap nxt wmap committed rwh status bufarr stored adv_arr adv_map ignored fst snd
                 with_heap with_adv alloc_arr alloc_map] in *.

(* ------------------------------------------------------------------------------------------------------------ *)
(* 4. commit                                                                                                    *)
(* ------------------------------------------------------------------------------------------------------------ *)

Lemma commit_eq s code : commit s code =
  if committed s then s else
  let '(s1, es) := clone_entries s (hmap s (wmap s)) [] in
  {| arr := arr s1; hmap := mupd (hmap s1) (nxt s1) es; nxt := nxt s1 + 1; wmap := wmap s1; committed := true;
     rwh := nxt s1; status := code; bufarr := bufarr s1; stored := stored s1; adv_arr := adv_arr s1;
     adv_map := adv_map s1; ignored := ignored s1 |}.
Proof.
  unfold commit. destruct (committed s); [reflexivity|].
  destruct (clone_entries s (hmap s (wmap s)) []) as [s1 es]. reflexivity.
Qed.

Lemma commit_committed s code : committed s = true -> commit s code = s.
Proof. intros H. rewrite commit_eq, H. reflexivity. Qed.

Lemma commit_is_committed s code : committed (commit s code) = true.
Proof.
  rewrite commit_eq. destruct (committed s) eqn:E; [exact E|].
  destruct (clone_entries s (hmap s (wmap s)) []) as [s1 es]. reflexivity.
Qed.

Lemma commit_bnd s code : Bnd s -> Bnd (commit s code).
Proof.
  intros B. rewrite commit_eq. destruct (committed s); [exact B|].
  destruct (clone_entries s (hmap s (wmap s)) []) as [s1 es] eqn:E.
  destruct (clone_spec _ _ _ _ _ E) as (C & Hm & Hn & Ha & Hr & _).
  destruct C as (C1 & C2 & C3 & C4 & C5 & C6 & C7 & C8 & C9).
  destruct B. constructor; fld; rewrite ?C1, ?C5, ?C6, ?C7, ?C8; try lia.
  - intros a H. apply b_aarr0 in H. lia.
  - intros m H. apply b_amap0 in H. lia.
  - intros x k a H. destruct (Z.eq_dec x (nxt s1)) as [->|Hx].
    + rewrite mupd_same in H. apply Hr in H. lia.
    + rewrite mupd_other in H by exact Hx. rewrite Hm in H. apply b_vals0 in H. lia.
  - intros st m b H. apply b_st0 in H. lia.
Qed.

Lemma commit_sep s code : Bnd s -> Sep s -> Sep (commit s code).
Proof.
  intros B S. rewrite commit_eq. destruct (committed s); [exact S|].
  destruct (clone_entries s (hmap s (wmap s)) []) as [s1 es] eqn:E.
  destruct (clone_spec _ _ _ _ _ E) as (C & Hm & Hn & Ha & Hr & _).
  destruct C as (C1 & C2 & C3 & C4 & C5 & C6 & C7 & C8 & C9).
  intros st m b Hst. fld. rewrite C6 in Hst. rewrite C1, C5, C7, C8.
  destruct (S _ _ _ Hst) as (S1 & S2 & S3 & S4 & S5 & S6).
  destruct (b_st _ B _ _ _ Hst) as [Bm Bb].
  rewrite mupd_other by lia. rewrite Hm.
  repeat split; auto; try lia; apply (S6 _ _ H).
Qed.

Lemma commit_wf s code : WF s -> WF (commit s code).
Proof. intros [B S]. split; [apply commit_bnd|apply commit_sep]; assumption. Qed.

(* ------------------------------------------------------------------------------------------------------------ *)
(* 5. The small steps: h_set, adv_write, adv_mapset, adv_mapdel                                                 *)
(* ------------------------------------------------------------------------------------------------------------ *)

(* Bnd and Sep do not mention array contents *)
Lemma Bnd_arr s a : Bnd s -> Bnd (with_heap s a (hmap s) (nxt s)).
Proof. intros B. destruct B. constructor; fld; assumption. Qed.
Lemma Sep_arr s a n : Sep s -> Sep (with_heap s a (hmap s) n).
Proof. intros S. exact S. Qed.

Lemma h_set_bnd s k v1 v2 : Bnd s -> Bnd (h_set s k v1 v2).
Proof.
  intros B. destruct B. unfold h_set. constructor; fld; try lia.
  - intros a [H|H]; [lia|]. apply b_aarr0 in H. lia.
  - intros m H. apply b_amap0 in H. lia.
  - intros x k0 a H. destruct (Z.eq_dec x (wmap s)) as [->|Hx].
    + rewrite mupd_same in H. apply zins_In in H. destruct H as [H|H].
      * inversion H. lia.
      * apply b_vals0 in H. lia.
    + rewrite mupd_other in H by exact Hx. apply b_vals0 in H. lia.
  - intros st m b H. apply b_st0 in H. lia.
Qed.

Lemma h_set_sep s k v1 v2 : Bnd s -> Sep s -> Sep (h_set s k v1 v2).
Proof.
  intros B S st m b Hst. unfold h_set in *. fld.
  destruct (S _ _ _ Hst) as (S1 & S2 & S3 & S4 & S5 & S6).
  destruct (b_st _ B _ _ _ Hst) as [Bm Bb].
  rewrite mupd_other by exact S2.
  repeat split; auto.
  - intros [H|H]; [lia|contradiction].
  - intros [H0|H0]; [apply (b_vals _ B) in H; lia|]. apply (proj1 (S6 _ _ H)). exact H0.
  - apply (proj2 (S6 _ _ H)).
Qed.

Lemma adv_write_bnd s i pos v : Bnd s -> Bnd (adv_write s i pos v).
Proof.
  intros B. unfold adv_write. destruct (nth_error (adv_arr s) (Z.to_nat i)); [|exact B].
  apply Bnd_arr. exact B.
Qed.
Lemma adv_write_sep s i pos v : Sep s -> Sep (adv_write s i pos v).
Proof.
  intros S. unfold adv_write. destruct (nth_error (adv_arr s) (Z.to_nat i)); [|exact S].
  apply Sep_arr. exact S.
Qed.

Lemma adv_mapset_bnd s i k v : Bnd s -> Bnd (adv_mapset s i k v).
Proof.
  intros B. unfold adv_mapset. destruct (nth_error (adv_map s) (Z.to_nat i)) as [m0|] eqn:E; [|exact B].
  destruct B. constructor; fld; try lia.
  - intros a [H|H]; [lia|]. apply b_aarr0 in H. lia.
  - intros m H. apply b_amap0 in H. lia.
  - intros x k0 a H. destruct (Z.eq_dec x m0) as [->|Hx].
    + rewrite mupd_same in H. apply zins_In in H. destruct H as [H|H].
      * inversion H. lia.
      * apply b_vals0 in H. lia.
    + rewrite mupd_other in H by exact Hx. apply b_vals0 in H. lia.
  - intros st m b H. apply b_st0 in H. lia.
Qed.

Lemma adv_mapset_sep s i k v : Bnd s -> Sep s -> Sep (adv_mapset s i k v).
Proof.
  intros B S. unfold adv_mapset. destruct (nth_error (adv_map s) (Z.to_nat i)) as [m0|] eqn:E; [|exact S].
  apply nth_error_In in E.
  intros st m b Hst. fld.
  destruct (S _ _ _ Hst) as (S1 & S2 & S3 & S4 & S5 & S6).
  destruct (b_st _ B _ _ _ Hst) as [Bm Bb].
  assert (m <> m0) by (intros ->; contradiction).
  rewrite mupd_other by assumption.
  repeat split; auto.
  - intros [H1|H1]; [lia|contradiction].
  - intros [H1|H1]; [apply (b_vals _ B) in H0; lia|]. apply (proj1 (S6 _ _ H0)). exact H1.
  - apply (proj2 (S6 _ _ H0)).
Qed.

Lemma adv_mapdel_bnd s i k : Bnd s -> Bnd (adv_mapdel s i k).
Proof.
  intros B. unfold adv_mapdel. destruct (nth_error (adv_map s) (Z.to_nat i)) as [m0|] eqn:E; [|exact B].
  destruct B. constructor; fld; try lia; auto.
  intros x k0 a H. destruct (Z.eq_dec x m0) as [->|Hx].
  - rewrite mupd_same in H. apply zdel_In in H. apply b_vals0 in H. lia.
  - rewrite mupd_other in H by exact Hx. apply b_vals0 in H. lia.
Qed.

Lemma adv_mapdel_sep s i k : Sep s -> Sep (adv_mapdel s i k).
Proof.
  intros S. unfold adv_mapdel. destruct (nth_error (adv_map s) (Z.to_nat i)) as [m0|] eqn:E; [|exact S].
  apply nth_error_In in E.
  intros st m b Hst. fld.
  destruct (S _ _ _ Hst) as (S1 & S2 & S3 & S4 & S5 & S6).
  assert (m <> m0) by (intros ->; contradiction).
  rewrite mupd_other by assumption.
  repeat split; auto; apply (S6 _ _ H0).
Qed.

(* ------------------------------------------------------------------------------------------------------------ *)
(* 6. h_write                                                                                                   *)
(* ------------------------------------------------------------------------------------------------------------ *)

(* the part of h_write before the implicit commit: the handler's slice exists and the handler keeps it *)
Definition hw_pre (s : ast) (b1 b2 b3 : Z) : ast :=
  with_adv (fst (alloc_arr s [b1; b2; b3])) (nxt s :: adv_arr s) (adv_map s).

Lemma h_write_eq s b1 b2 b3 : h_write s b1 b2 b3 =
  let s3 := commit (hw_pre s b1 b2 b3) 200 in
  with_heap s3 (aupd (arr s3) (bufarr s3) (arr s3 (bufarr s3) ++ arr s3 (nxt s))) (hmap s3) (nxt s3).
Proof. reflexivity. Qed.

Lemma hw_pre_bnd s b1 b2 b3 : Bnd s -> Bnd (hw_pre s b1 b2 b3).
Proof.
  intros B. destruct B. unfold hw_pre. constructor; fld; try lia.
  - intros a [H|H]; [lia|]. apply b_aarr0 in H. lia.
  - intros m H. apply b_amap0 in H. lia.
  - intros x k0 a H. apply b_vals0 in H. lia.
  - intros st m b H. apply b_st0 in H. lia.
Qed.

Lemma hw_pre_sep s b1 b2 b3 : Bnd s -> Sep s -> Sep (hw_pre s b1 b2 b3).
Proof.
  intros B S st m b Hst. unfold hw_pre in *. fld.
  destruct (S _ _ _ Hst) as (S1 & S2 & S3 & S4 & S5 & S6).
  destruct (b_st _ B _ _ _ Hst) as [Bm Bb].
  repeat split; auto.
  - intros [H|H]; [lia|contradiction].
  - intros [H0|H0]; [apply (b_vals _ B) in H; lia|]. apply (proj1 (S6 _ _ H)). exact H0.
  - apply (proj2 (S6 _ _ H)).
Qed.

Lemma h_write_wf s b1 b2 b3 : WF s -> WF (h_write s b1 b2 b3).
Proof.
  intros [B S]. rewrite h_write_eq. cbv zeta.
  assert (W : WF (commit (hw_pre s b1 b2 b3) 200)).
  { apply commit_wf. split; [apply hw_pre_bnd|apply hw_pre_sep]; assumption. }
  destruct W as [B3 S3]. split; [apply Bnd_arr|apply Sep_arr]; assumption.
Qed.

(* ------------------------------------------------------------------------------------------------------------ *)
(* 7. store                                                                                                     *)
(* ------------------------------------------------------------------------------------------------------------ *)

(* the policy call: a retaining policy keeps rw.headers, every value slice in it, and the buffer's bytes *)
Definition st_pre (s0 : ast) (retain : bool) : ast :=
  if retain
  then with_adv s0 (bufarr s0 :: map snd (hmap s0 (rwh s0)) ++ adv_arr s0) (rwh s0 :: adv_map s0)
  else s0.

Lemma store_eq s retain : store s retain =
  let s1 := st_pre (commit s 200) retain in
  let '(s2, es) := clone_entries s1 (hmap s1 (rwh s1)) (ignored s1) in
  {| arr := aupd (arr s2) (nxt s2 + 1) (arr s2 (bufarr s2)); hmap := mupd (hmap s2) (nxt s2) es;
     nxt := nxt s2 + 1 + 1; wmap := wmap s2; committed := committed s2; rwh := rwh s2; status := status s2;
     bufarr := bufarr s2; stored := Some (status s2, nxt s2, nxt s2 + 1); adv_arr := adv_arr s2;
     adv_map := adv_map s2; ignored := ignored s2 |}.
Proof.
  unfold store, st_pre. cbv zeta.
  destruct (clone_entries _ _ _) as [s2 es]. reflexivity.
Qed.

Lemma st_pre_bnd s0 retain : Bnd s0 -> Bnd (st_pre s0 retain).
Proof.
  intros B. unfold st_pre. destruct retain; [|exact B].
  destruct B. constructor; fld; try lia; auto.
  - intros a [H|H]; [lia|]. apply in_app_or in H. destruct H as [H|H]; [|auto].
    apply in_map_iff in H. destruct H as [[k a0] [<- H]]. apply b_vals0 in H. exact H.
  - intros m [H|H]; [lia|auto].
Qed.

Lemma store_bnd s retain : Bnd s -> Bnd (store s retain).
Proof.
  intros B. rewrite store_eq. cbv zeta.
  assert (B1 : Bnd (st_pre (commit s 200) retain)) by (apply st_pre_bnd, commit_bnd, B).
  set (s1 := st_pre (commit s 200) retain) in *. clearbody s1.
  destruct (clone_entries s1 (hmap s1 (rwh s1)) (ignored s1)) as [s2 es] eqn:E.
  destruct (clone_spec _ _ _ _ _ E) as (C & Hm & Hn & Ha & Hr & _).
  destruct C as (C1 & C2 & C3 & C4 & C5 & C6 & C7 & C8 & C9).
  destruct B1. constructor; fld; rewrite ?C1, ?C3, ?C5, ?C7, ?C8; try lia.
  - intros a H. apply b_aarr0 in H. lia.
  - intros m H. apply b_amap0 in H. lia.
  - intros x k a H. destruct (Z.eq_dec x (nxt s2)) as [->|Hx].
    + rewrite mupd_same in H. apply Hr in H. lia.
    + rewrite mupd_other in H by exact Hx. rewrite Hm in H. apply b_vals0 in H. lia.
  - intros st m b H. inversion H. lia.
Qed.

Lemma store_sep s retain : Bnd s -> Sep (store s retain).
Proof.
  intros B. rewrite store_eq. cbv zeta.
  assert (B1 : Bnd (st_pre (commit s 200) retain)) by (apply st_pre_bnd, commit_bnd, B).
  set (s1 := st_pre (commit s 200) retain) in *. clearbody s1.
  destruct (clone_entries s1 (hmap s1 (rwh s1)) (ignored s1)) as [s2 es] eqn:E.
  destruct (clone_spec _ _ _ _ _ E) as (C & Hm & Hn & Ha & Hr & _).
  destruct C as (C1 & C2 & C3 & C4 & C5 & C6 & C7 & C8 & C9).
  intros st m b Hst. fld. inversion Hst; subst st m b; clear Hst.
  rewrite C1, C3, C5, C7, C8, mupd_same.
  destruct B1.
  split; [intros H; apply b_amap0 in H; lia|].
  split; [lia|]. split; [lia|].
  split; [intros H; apply b_aarr0 in H; lia|].
  split; [lia|].
  intros k a H. apply Hr in H. split; [|lia].
  intros H1. apply b_aarr0 in H1. lia.
Qed.

Lemma store_wf s retain : WF s -> WF (store s retain).
Proof. intros [B S]. split; [apply store_bnd|apply store_sep]; assumption. Qed.

(* ------------------------------------------------------------------------------------------------------------ *)
(* 8. hit                                                                                                       *)
(* ------------------------------------------------------------------------------------------------------------ *)

Lemma hit_eq s : hit s =
  match stored s with
  | None => (s, [-1])
  | Some (st, m, b) =>
      let '(s1, es) := clone_entries s (hmap s m) [] in
      ({| arr := arr s1; hmap := mupd (hmap s1) (nxt s1) es; nxt := nxt s1 + 1; wmap := wmap s1;
          committed := committed s1; rwh := rwh s1; status := status s1; bufarr := bufarr s1;
          stored := stored s1; adv_arr := map snd es ++ adv_arr s1; adv_map := nxt s1 :: adv_map s1;
          ignored := ignored s1 |},
       st :: enc (deref s1 es) ++ [-2] ++ arr s1 b)
  end.
Proof.
  unfold hit. destruct (stored s) as [[[st m] b]|]; [|reflexivity].
  destruct (clone_entries s (hmap s m) []) as [s1 es]. fld.
  rewrite enc_deref. reflexivity.
Qed.

Lemma hit_bnd s : Bnd s -> Bnd (fst (hit s)).
Proof.
  intros B. rewrite hit_eq. destruct (stored s) as [[[st m] b]|] eqn:Hst; [|exact B].
  destruct (clone_entries s (hmap s m) []) as [s1 es] eqn:E.
  destruct (clone_spec _ _ _ _ _ E) as (C & Hm & Hn & Ha & Hr & _).
  destruct C as (C1 & C2 & C3 & C4 & C5 & C6 & C7 & C8 & C9).
  destruct B. constructor; fld; rewrite ?C1, ?C3, ?C5, ?C6, ?C7, ?C8; try lia.
  - intros a H. apply in_app_or in H. destruct H as [H|H].
    + apply in_map_iff in H. destruct H as [[k a0] [<- H]]. apply Hr in H. simpl. lia.
    + apply b_aarr0 in H. lia.
  - intros m0 [H|H]; [lia|]. apply b_amap0 in H. lia.
  - intros x k a H. destruct (Z.eq_dec x (nxt s1)) as [->|Hx].
    + rewrite mupd_same in H. apply Hr in H. lia.
    + rewrite mupd_other in H by exact Hx. rewrite Hm in H. apply b_vals0 in H. lia.
  - intros st0 m0 b0 H. apply b_st0 in H. lia.
Qed.

Lemma hit_sep s : Bnd s -> Sep s -> Sep (fst (hit s)).
Proof.
  intros B S. rewrite hit_eq. destruct (stored s) as [[[st m] b]|] eqn:Hst; [|exact S].
  destruct (clone_entries s (hmap s m) []) as [s1 es] eqn:E.
  destruct (clone_spec _ _ _ _ _ E) as (C & Hm & Hn & Ha & Hr & _).
  destruct C as (C1 & C2 & C3 & C4 & C5 & C6 & C7 & C8 & C9).
  intros st0 m0 b0 Hst0. fld. rewrite C6, Hst in Hst0. inversion Hst0; subst st0 m0 b0; clear Hst0.
  rewrite C1, C3, C5, C7, C8.
  destruct (S _ _ _ Hst) as (S1 & S2 & S3 & S4 & S5 & S6).
  destruct (b_st _ B _ _ _ Hst) as [Bm Bb].
  rewrite mupd_other by lia. rewrite Hm.
  split; [intros [H|H]; [lia|contradiction]|].
  split; [exact S2|]. split; [exact S3|].
  split.
  { intros H. apply in_app_or in H. destruct H as [H|H]; [|contradiction].
    apply in_map_iff in H. destruct H as [[k a0] [H0 H]]. simpl in H0. subst a0. apply Hr in H. lia. }
  split; [exact S5|].
  intros k a H. split; [|apply (proj2 (S6 _ _ H))].
  intros H1. apply in_app_or in H1. destruct H1 as [H1|H1]; [|apply (proj1 (S6 _ _ H)); exact H1].
  apply in_map_iff in H1. destruct H1 as [[k1 a1] [H0 H1]]. simpl in H0. subst a1. apply Hr in H1.
  apply (b_vals _ B) in H. lia.
Qed.

Lemma hit_wf s : WF s -> WF (fst (hit s)).
Proof. intros [B S]. split; [apply hit_bnd|apply hit_sep]; assumption. Qed.

(* the four small steps, packaged *)
Lemma h_set_wf s k v1 v2 : WF s -> WF (h_set s k v1 v2).
Proof. intros [B S]. split; [apply h_set_bnd|apply h_set_sep]; assumption. Qed.
Lemma adv_write_wf s i pos v : WF s -> WF (adv_write s i pos v).
Proof. intros [B S]. split; [apply adv_write_bnd|apply adv_write_sep]; assumption. Qed.
Lemma adv_mapset_wf s i k v : WF s -> WF (adv_mapset s i k v).
Proof. intros [B S]. split; [apply adv_mapset_bnd|apply adv_mapset_sep]; assumption. Qed.
Lemma adv_mapdel_wf s i k : WF s -> WF (adv_mapdel s i k).
Proof. intros [B S]. split; [apply adv_mapdel_bnd|apply adv_mapdel_sep]; assumption. Qed.

(* ------------------------------------------------------------------------------------------------------------ *)
(* 9. al_step: case analysis of the integer encoding, preservation, reachable states                             *)
(* ------------------------------------------------------------------------------------------------------------ *)

Definition step (s : ast) (op : list Z) : ast := fst (al_step s op).
Definition steps (s : ast) (ops : list (list Z)) : ast := fold_left step ops s.

Ltac pick :=
  first [ solve [repeat eexists]
        | solve [left; repeat eexists]
        | right; pick ].

Lemma al_step_cases s op :
  (exists k v1 v2, op = [1; k; v1; v2]) \/ (exists c, op = [2; c]) \/ (exists a b c, op = [3; a; b; c]) \/
  (exists r, op = [4; r]) \/ (exists i p v, op = [5; i; p; v]) \/ (exists i k v, op = [6; i; k; v]) \/
  (exists i k, op = [7; i; k]) \/ op = [8] \/ al_step s op = (s, [-9]).
Proof.
  destruct op as [|c l]; [pick|].
  destruct c as [|p|p]; [pick| |pick].
  destruct p as [[[[p|p|]|[p|p|]|]|[[p|p|]|[p|p|]|]|]|[[[p|p|]|[p|p|]|]|[[p|p|]|[p|p|]|]|]|];
    destruct l as [|x1 [|x2 [|x3 [|x4 l]]]]; pick.
Qed.

Theorem al_step_wf s op : WF s -> WF (fst (al_step s op)).
Proof.
  intros W.
  destruct (al_step_cases s op) as
    [(k & v1 & v2 & ->)|[(c & ->)|[(a & b & c & ->)|[(r & ->)|[(i & p & v & ->)|[(i & k & v & ->)|
     [(i & k & ->)|[->|E]]]]]]]].
  - apply h_set_wf, W.
  - apply commit_wf, W.
  - apply h_write_wf, W.
  - apply store_wf, W.
  - apply adv_write_wf, W.
  - apply adv_mapset_wf, W.
  - apply adv_mapdel_wf, W.
  - change (al_step s [8]) with (let '(s', o) := hit s in (s', o ++ [-3] ++ shares s')).
    pose proof (hit_wf s W) as Hh. destruct (hit s) as [s' o]. exact Hh.
  - rewrite E. exact W.
Qed.

Lemma steps_wf ops : forall s, WF s -> WF (steps s ops).
Proof.
  induction ops as [|op ops IH]; intros s W; [exact W|].
  simpl. apply IH. apply al_step_wf, W.
Qed.

Theorem reachable_wf : forall ign ops, WF (fold_left (fun s o => fst (al_step s o)) ops (init ign)).
Proof. intros ign ops. apply (steps_wf ops), init_wf. Qed.

(* ------------------------------------------------------------------------------------------------------------ *)
(* 10. Footprint: what a step can write (no invariant needed)                                                    *)
(* ------------------------------------------------------------------------------------------------------------ *)

(* frame s s': going from s to s', the only EXISTING map objects written are the handler's map and maps the
   adversary holds; the only EXISTING arrays written are the capture buffer and arrays the adversary holds. *)
Definition frame (s s' : ast) : Prop :=
  (forall x, x <> wmap s -> ~ In x (adv_map s) -> x < nxt s -> hmap s' x = hmap s x) /\
  (forall x, x <> bufarr s -> ~ In x (adv_arr s) -> x < nxt s -> arr s' x = arr s x).

(* allocation only *)
Definition heap_ext (s s' : ast) : Prop :=
  nxt s <= nxt s' /\ (forall x, x < nxt s -> arr s' x = arr s x) /\ (forall x, x < nxt s -> hmap s' x = hmap s x).

Lemma heap_ext_frame s s' : heap_ext s s' -> frame s s'.
Proof. intros (_ & Ha & Hm). split; intros x _ _ Hx; auto. Qed.

Lemma frame_refl s : frame s s.
Proof. split; reflexivity. Qed.

Lemma heap_ext_refl s : heap_ext s s.
Proof. unfold heap_ext. repeat split; try reflexivity; lia. Qed.

Lemma commit_ext s code : heap_ext s (commit s code).
Proof.
  rewrite commit_eq. destruct (committed s); [apply heap_ext_refl|].
  destruct (clone_entries s (hmap s (wmap s)) []) as [s1 es] eqn:E.
  destruct (clone_spec _ _ _ _ _ E) as (C & Hm & Hn & Ha & Hr & _).
  unfold heap_ext. fld. split; [lia|]. split; [exact Ha|].
  intros x Hx. rewrite mupd_other by lia. rewrite Hm. reflexivity.
Qed.

Lemma commit_refs s code :
  wmap (commit s code) = wmap s /\ bufarr (commit s code) = bufarr s /\ stored (commit s code) = stored s /\
  adv_arr (commit s code) = adv_arr s /\ adv_map (commit s code) = adv_map s /\ ignored (commit s code) = ignored s.
Proof.
  rewrite commit_eq. destruct (committed s); [repeat split|].
  destruct (clone_entries s (hmap s (wmap s)) []) as [s1 es] eqn:E.
  destruct (clone_spec _ _ _ _ _ E) as (C & _).
  destruct C as (C1 & C2 & C3 & C4 & C5 & C6 & C7 & C8 & C9). fld. tauto.
Qed.

Lemma h_set_frame s k v1 v2 : frame s (h_set s k v1 v2).
Proof.
  unfold h_set. split; fld; intros x H1 H2 H3.
  - apply mupd_other. exact H1.
  - apply aupd_other. lia.
Qed.

Lemma h_write_frame s b1 b2 b3 : frame s (h_write s b1 b2 b3).
Proof.
  rewrite h_write_eq. cbv zeta.
  destruct (commit_ext (hw_pre s b1 b2 b3) 200) as (Hn & Ha & Hm).
  destruct (commit_refs (hw_pre s b1 b2 b3) 200) as (_ & Hb & _).
  set (s3 := commit (hw_pre s b1 b2 b3) 200) in *. clearbody s3.
  unfold hw_pre in *. fld.
  split; fld; intros x H1 H2 H3.
  - apply Hm. lia.
  - rewrite aupd_other by (rewrite Hb; exact H1). rewrite Ha by lia. apply aupd_other. lia.
Qed.

Lemma store_ext s retain : heap_ext s (store s retain).
Proof.
  rewrite store_eq. cbv zeta.
  destruct (commit_ext s 200) as (Hn0 & Ha0 & Hm0).
  assert (H1 : nxt (st_pre (commit s 200) retain) = nxt (commit s 200) /\
               arr (st_pre (commit s 200) retain) = arr (commit s 200) /\
               hmap (st_pre (commit s 200) retain) = hmap (commit s 200))
    by (unfold st_pre; destruct retain; repeat split).
  destruct H1 as (N1 & A1 & M1).
  set (s1 := st_pre (commit s 200) retain) in *. clearbody s1.
  destruct (clone_entries s1 (hmap s1 (rwh s1)) (ignored s1)) as [s2 es] eqn:E.
  destruct (clone_spec _ _ _ _ _ E) as (C & Hm & Hn & Ha & Hr & _).
  unfold heap_ext. fld. split; [lia|]. split; intros x Hx.
  - rewrite aupd_other by lia. rewrite Ha by lia. rewrite A1. apply Ha0. exact Hx.
  - rewrite mupd_other by lia. rewrite Hm, M1. apply Hm0. exact Hx.
Qed.

Lemma hit_ext s : heap_ext s (fst (hit s)).
Proof.
  rewrite hit_eq. destruct (stored s) as [[[st m] b]|] eqn:Hst; [|apply heap_ext_refl].
  destruct (clone_entries s (hmap s m) []) as [s1 es] eqn:E.
  destruct (clone_spec _ _ _ _ _ E) as (C & Hm & Hn & Ha & Hr & _).
  unfold heap_ext. fld. split; [lia|]. split; [exact Ha|].
  intros x Hx. rewrite mupd_other by lia. rewrite Hm. reflexivity.
Qed.

Lemma adv_write_frame s i pos v : frame s (adv_write s i pos v).
Proof.
  unfold adv_write. destruct (nth_error (adv_arr s) (Z.to_nat i)) as [a|] eqn:E; [|apply frame_refl].
  apply nth_error_In in E. split; fld; intros x H1 H2 H3; [reflexivity|].
  apply aupd_other. intros ->. contradiction.
Qed.

Lemma adv_mapset_frame s i k v : frame s (adv_mapset s i k v).
Proof.
  unfold adv_mapset. destruct (nth_error (adv_map s) (Z.to_nat i)) as [m|] eqn:E; [|apply frame_refl].
  apply nth_error_In in E. split; fld; intros x H1 H2 H3.
  - apply mupd_other. intros ->. contradiction.
  - apply aupd_other. lia.
Qed.

Lemma adv_mapdel_frame s i k : frame s (adv_mapdel s i k).
Proof.
  unfold adv_mapdel. destruct (nth_error (adv_map s) (Z.to_nat i)) as [m|] eqn:E; [|apply frame_refl].
  apply nth_error_In in E. split; fld; intros x H1 H2 H3; [|reflexivity].
  apply mupd_other. intros ->. contradiction.
Qed.

Lemma step_hit s : step s [8] = fst (hit s).
Proof. unfold step. change (al_step s [8]) with (let '(s', o) := hit s in (s', o ++ [-3] ++ shares s')).
  destruct (hit s); reflexivity. Qed.

Theorem footprint s op : frame s (step s op).
Proof.
  destruct (al_step_cases s op) as
    [(k & v1 & v2 & ->)|[(c & ->)|[(a & b & c & ->)|[(r & ->)|[(i & p & v & ->)|[(i & k & v & ->)|
     [(i & k & ->)|[->|E]]]]]]]].
  - apply h_set_frame.
  - apply heap_ext_frame, commit_ext.
  - apply h_write_frame.
  - apply heap_ext_frame, store_ext.
  - apply adv_write_frame.
  - apply adv_mapset_frame.
  - apply adv_mapdel_frame.
  - rewrite step_hit. apply heap_ext_frame, hit_ext.
  - unfold step. rewrite E. apply frame_refl.
Qed.

(* ------------------------------------------------------------------------------------------------------------ *)
(* 11. Isolation: no operation other than store changes the view                                                 *)
(* ------------------------------------------------------------------------------------------------------------ *)

Definition nonstore (op : list Z) : Prop := forall r, op <> [4; r].

Lemma view_frame s s' : WF s -> frame s s' -> stored s' = stored s -> view s' = view s.
Proof.
  intros [B S] [Fm Fa] Hst. rewrite !view_eq, Hst.
  destruct (stored s) as [[[st m] b]|] eqn:E; [|reflexivity].
  destruct (S _ _ _ E) as (S1 & S2 & S3 & S4 & S5 & S6).
  destruct (b_st _ B _ _ _ E) as [Bm Bb].
  rewrite (Fm m S2 S1 Bm), (Fa b S5 S4 Bb).
  f_equal. f_equal. f_equal. apply deref_ext.
  intros k a H. destruct (S6 _ _ H) as [Ha1 Ha2]. apply Fa; auto. apply (b_vals _ B _ _ _ H).
Qed.

Lemma hit_stored s : stored (fst (hit s)) = stored s.
Proof.
  rewrite hit_eq. destruct (stored s) as [[[st m] b]|] eqn:Hst; [|exact Hst].
  destruct (clone_entries s (hmap s m) []) as [s1 es] eqn:E.
  destruct (clone_spec _ _ _ _ _ E) as (C & _).
  destruct C as (C1 & C2 & C3 & C4 & C5 & C6 & C7 & C8 & C9). fld. congruence.
Qed.

Lemma nonstore_stored s op : nonstore op -> stored (step s op) = stored s.
Proof.
  intros N.
  destruct (al_step_cases s op) as
    [(k & v1 & v2 & ->)|[(c & ->)|[(a & b & c & ->)|[(r & ->)|[(i & p & v & ->)|[(i & k & v & ->)|
     [(i & k & ->)|[->|E]]]]]]]].
  - reflexivity.
  - apply commit_refs.
  - unfold step. cbn [al_step fst]. rewrite h_write_eq. cbv zeta. fld.
    destruct (commit_refs (hw_pre s a b c) 200) as (_ & _ & H & _). rewrite H. reflexivity.
  - exfalso. apply (N r). reflexivity.
  - unfold step. cbn [al_step fst]. unfold adv_write. destruct (nth_error _ _); reflexivity.
  - unfold step. cbn [al_step fst]. unfold adv_mapset. destruct (nth_error _ _); reflexivity.
  - unfold step. cbn [al_step fst]. unfold adv_mapdel. destruct (nth_error _ _); reflexivity.
  - rewrite step_hit. apply hit_stored.
  - unfold step. rewrite E. reflexivity.
Qed.

Theorem view_stable s op : WF s -> (forall r, op <> [4; r]) -> view (fst (al_step s op)) = view s.
Proof.
  intros W N. apply (view_frame s (step s op) W (footprint s op) (nonstore_stored s op N)).
Qed.

Theorem view_stable_seq ops : forall s, WF s -> Forall (fun op => forall r, op <> [4; r]) ops ->
  view (fold_left (fun s o => fst (al_step s o)) ops s) = view s.
Proof.
  induction ops as [|op ops IH]; intros s W F; [reflexivity|].
  inversion F; subst. simpl. rewrite IH; [|apply al_step_wf, W|assumption].
  apply view_stable; assumption.
Qed.

(* ------------------------------------------------------------------------------------------------------------ *)
(* 12. Hits deliver the view; no sharing                                                                         *)
(* ------------------------------------------------------------------------------------------------------------ *)

Theorem hit_output s : WF s -> stored s <> None -> snd (hit s) = view s.
Proof.
  intros [B S] Hne. rewrite hit_eq, view_eq.
  destruct (stored s) as [[[st m] b]|] eqn:Hst; [|contradiction].
  destruct (clone_entries s (hmap s m) []) as [s1 es] eqn:E.
  destruct (clone_spec _ _ _ _ _ E) as (C & Hm & Hn & Ha & Hr & Hd).
  fld. destruct (b_st _ B _ _ _ Hst) as [Bm Bb].
  rewrite Hd by (intros k a H; apply (b_vals _ B _ _ _ H)).
  rewrite filter_keep_nil, (Ha b Bb). reflexivity.
Qed.

(* also true without a stored response: both are [-1] *)
Lemma hit_output_all s : WF s -> snd (hit s) = view s.
Proof.
  intros W. destruct (stored s) eqn:E.
  - apply hit_output; [exact W|congruence].
  - unfold hit, view. rewrite E. reflexivity.
Qed.

Theorem shares_zero s : WF s -> shares s = [0; 0; 0].
Proof.
  intros [B S]. unfold shares. destruct (stored s) as [[[st m] b]|] eqn:Hst; [|reflexivity].
  destruct (S _ _ _ Hst) as (S1 & S2 & S3 & S4 & S5 & S6).
  rewrite (zmem_notIn _ _ S4), (zmem_notIn _ _ S1).
  destruct (existsb (fun e => zmem (adv_arr s) (snd e)) (hmap s m)) eqn:Ex; [|reflexivity].
  apply existsb_exists in Ex. destruct Ex as [[k a] [Hin Hz]]. simpl in Hz. apply zmem_In in Hz.
  destruct (S6 _ _ Hin) as [Hn _]. contradiction.
Qed.

Theorem reachable_shares_zero ign ops :
  shares (fold_left (fun s o => fst (al_step s o)) ops (init ign)) = [0; 0; 0].
Proof. apply shares_zero, reachable_wf. Qed.

(* the complete output of the [8] operation of the al stream *)
Lemma al_hit_output s : WF s -> snd (al_step s [8]) = view s ++ [-3; 0; 0; 0].
Proof.
  intros W. change (al_step s [8]) with (let '(s', o) := hit s in (s', o ++ [-3] ++ shares s')).
  pose proof (hit_output_all s W) as Ho. pose proof (hit_wf s W) as Hw.
  destruct (hit s) as [s' o]. simpl in *. rewrite Ho, (shares_zero s' Hw). reflexivity.
Qed.

(* the store operation reports no sharing either *)
Lemma al_store_output s r : WF s -> snd (al_step s [4; r]) = [0; 0; 0].
Proof. intros W. cbn [al_step snd]. apply shares_zero, store_wf, W. Qed.

(* outputs of the [8] operations along a run *)
Definition is_hit (op : list Z) : bool := match op with [8] => true | _ => false end.
Fixpoint hit_outs (s : ast) (ops : list (list Z)) : list (list Z) :=
  match ops with
  | [] => []
  | op :: r => (if is_hit op then [snd (al_step s op)] else []) ++ hit_outs (fst (al_step s op)) r
  end.

Lemma is_hit_true op : is_hit op = true -> op = [8].
Proof.
  destruct op as [|c l]; [discriminate|].
  destruct c as [|p|p]; try discriminate.
  do 3 (destruct p as [p|p|]; try discriminate).
  destruct p as [p|p|]; try discriminate.
  destruct l; [reflexivity|discriminate].
Qed.

Theorem hits_constant ops : forall s, WF s -> Forall (fun op => forall r, op <> [4; r]) ops ->
  Forall (fun o => o = view s ++ [-3; 0; 0; 0]) (hit_outs s ops).
Proof.
  induction ops as [|op ops IH]; intros s W F; [constructor|].
  inversion F; subst. cbn [hit_outs].
  assert (T : Forall (fun o => o = view s ++ [-3; 0; 0; 0]) (hit_outs (fst (al_step s op)) ops)).
  { rewrite <- (view_stable s op W H1). apply IH; [apply al_step_wf, W|assumption]. }
  destruct (is_hit op) eqn:Eh; [|exact T].
  apply is_hit_true in Eh. subst op. constructor; [|exact T]. apply al_hit_output, W.
Qed.

(* stated on hit directly: after any run without a store, a hit delivers the view the run started with *)
Theorem hit_after_run s ops : WF s -> Forall (fun op => forall r, op <> [4; r]) ops ->
  snd (hit (fold_left (fun s o => fst (al_step s o)) ops s)) = view s.
Proof.
  intros W F. rewrite hit_output_all by (apply (steps_wf ops), W).
  apply view_stable_seq; assumption.
Qed.

(* the instance the isolation clause talks about: store, then anything but a store *)
Corollary hits_after_store s r ops : WF s -> Forall (fun op => forall r, op <> [4; r]) ops ->
  Forall (fun o => o = view (store s r) ++ [-3; 0; 0; 0]) (hit_outs (store s r) ops).
Proof. intros W F. apply hits_constant; [apply store_wf, W|exact F]. Qed.

(* ------------------------------------------------------------------------------------------------------------ *)
(* 13. What is stored is the committed snapshot                                                                  *)
(* ------------------------------------------------------------------------------------------------------------ *)

Lemma st_pre_heap s0 r :
  arr (st_pre s0 r) = arr s0 /\ hmap (st_pre s0 r) = hmap s0 /\ nxt (st_pre s0 r) = nxt s0 /\
  rwh (st_pre s0 r) = rwh s0 /\ status (st_pre s0 r) = status s0 /\ bufarr (st_pre s0 r) = bufarr s0 /\
  ignored (st_pre s0 r) = ignored s0 /\ wmap (st_pre s0 r) = wmap s0 /\ committed (st_pre s0 r) = committed s0.
Proof. unfold st_pre. destruct r; repeat split. Qed.

(* general form: the store captures rw.headers and the buffer as they are right after the (possibly implicit)
   commit *)
Lemma store_view_commit s r : WF s ->
  view (store s r) =
  let s0 := commit s 200 in
  status s0 :: enc (deref s0 (filter (keep (ignored s0)) (hmap s0 (rwh s0)))) ++ [-2] ++ arr s0 (bufarr s0).
Proof.
  intros [B S]. rewrite store_eq. cbv zeta. pose proof (commit_bnd s 200 B) as B0.
  set (s0 := commit s 200) in *. clearbody s0.
  destruct (st_pre_heap s0 r) as (A1 & M1 & N1 & R1 & T1 & F1 & I1 & _).
  pose proof (st_pre_bnd s0 r B0) as B1.
  set (s1 := st_pre s0 r) in *. clearbody s1.
  destruct (clone_entries s1 (hmap s1 (rwh s1)) (ignored s1)) as [s2 es] eqn:E.
  destruct (clone_spec _ _ _ _ _ E) as (C & Hm & Hn & Ha & Hr & Hd).
  destruct C as (C1 & C2 & C3 & C4 & C5 & C6 & C7 & C8 & C9).
  rewrite view_eq. fld. rewrite mupd_same, aupd_same.
  assert (Hes : deref
    {| arr := aupd (arr s2) (nxt s2 + 1) (arr s2 (bufarr s2)); hmap := mupd (hmap s2) (nxt s2) es;
       nxt := nxt s2 + 1 + 1; wmap := wmap s2; committed := committed s2; rwh := rwh s2; status := status s2;
       bufarr := bufarr s2; stored := Some (status s2, nxt s2, nxt s2 + 1); adv_arr := adv_arr s2;
       adv_map := adv_map s2; ignored := ignored s2 |} es = deref s2 es).
  { apply deref_ext. intros k a H. fld. apply Hr in H. apply aupd_other. lia. }
  rewrite Hes, Hd by (intros k a H; apply (b_vals _ B1 _ _ _ H)).
  rewrite C4, C5, T1, F1, R1, I1, M1.
  rewrite (Ha (bufarr s0)) by (rewrite N1; apply (b_buf _ B0)).
  rewrite A1. f_equal. f_equal. f_equal.
  apply deref_ext. intros k a _. rewrite A1. reflexivity.
Qed.

Theorem store_view s r : WF s -> committed s = true ->
  view (store s r) =
  status s :: flat_map (fun e => fst e :: Z.of_nat (length (arr s (snd e))) :: arr s (snd e))
                (filter (fun e => negb (zmem (ignored s) (fst e))) (hmap s (rwh s)))
           ++ [-2] ++ arr s (bufarr s).
Proof.
  intros W Hc. rewrite (store_view_commit s r W). cbv zeta. rewrite (commit_committed s 200 Hc).
  rewrite enc_deref. reflexivity.
Qed.

(* Privacy of the snapshot rw.headers between the commit and a retaining policy call. *)
Definition Priv (s : ast) : Prop :=
  ~ In (rwh s) (adv_map s) /\ rwh s <> wmap s /\
  forall k a, In (k, a) (hmap s (rwh s)) -> ~ In a (adv_arr s) /\ a <> bufarr s.

(* the form suggested in the task follows *)
Lemma Priv_weak s : Priv s ->
  ~ In (rwh s) (adv_map s) /\ forall k a, In (k, a) (hmap s (rwh s)) -> ~ In a (adv_arr s).
Proof. intros (P1 & P2 & P3). split; [exact P1|]. intros k a H. apply (proj1 (P3 _ _ H)). Qed.

Definition snap (s : ast) : list (Z * list Z) := map (fun e => (fst e, arr s (snd e))) (hmap s (rwh s)).

Lemma init_priv ign : Priv (init ign).
Proof. unfold Priv. simpl. repeat split; try lia; try contradiction. Qed.

Lemma commit_establishes_priv s code : Bnd s -> committed s = false -> Priv (commit s code).
Proof.
  intros B Hc. rewrite commit_eq, Hc.
  destruct (clone_entries s (hmap s (wmap s)) []) as [s1 es] eqn:E.
  destruct (clone_spec _ _ _ _ _ E) as (C & Hm & Hn & Ha & Hr & _).
  destruct C as (C1 & C2 & C3 & C4 & C5 & C6 & C7 & C8 & C9).
  unfold Priv. fld. rewrite C1, C5, C7, C8, mupd_same. destruct B.
  split; [intros H; apply b_amap0 in H; lia|]. split; [lia|].
  intros k a H. apply Hr in H. split; [|lia]. intros H1. apply b_aarr0 in H1. lia.
Qed.

Lemma commit_priv s code : Bnd s -> Priv s -> Priv (commit s code).
Proof.
  intros B P. destruct (committed s) eqn:Hc.
  - rewrite commit_committed by exact Hc. exact P.
  - apply commit_establishes_priv; assumption.
Qed.

Lemma h_set_priv s k v1 v2 : Bnd s -> Priv s -> Priv (h_set s k v1 v2).
Proof.
  intros B (P1 & P2 & P3). unfold Priv, h_set. fld. rewrite mupd_other by exact P2.
  split; [exact P1|]. split; [exact P2|].
  intros k0 a H. destruct (P3 _ _ H) as [Q1 Q2]. split; [|exact Q2].
  intros [H1|H1]; [apply (b_vals _ B) in H; lia|contradiction].
Qed.

Lemma hw_pre_priv s b1 b2 b3 : Bnd s -> Priv s -> Priv (hw_pre s b1 b2 b3).
Proof.
  intros B (P1 & P2 & P3). unfold Priv, hw_pre. fld.
  split; [exact P1|]. split; [exact P2|].
  intros k0 a H. destruct (P3 _ _ H) as [Q1 Q2]. split; [|exact Q2].
  intros [H1|H1]; [apply (b_vals _ B) in H; lia|contradiction].
Qed.

Lemma h_write_priv s b1 b2 b3 : Bnd s -> Priv s -> Priv (h_write s b1 b2 b3).
Proof.
  intros B P. rewrite h_write_eq. cbv zeta.
  exact (commit_priv _ 200 (hw_pre_bnd s b1 b2 b3 B) (hw_pre_priv s b1 b2 b3 B P)).
Qed.

Lemma store_false_priv s : Bnd s -> Priv s -> Priv (store s false).
Proof.
  intros B P. rewrite store_eq. cbv zeta. unfold st_pre.
  pose proof (commit_priv s 200 B P) as P0. pose proof (commit_bnd s 200 B) as B0.
  set (s0 := commit s 200) in *. clearbody s0.
  destruct (clone_entries s0 (hmap s0 (rwh s0)) (ignored s0)) as [s2 es] eqn:E.
  destruct (clone_spec _ _ _ _ _ E) as (C & Hm & Hn & Ha & Hr & _).
  destruct C as (C1 & C2 & C3 & C4 & C5 & C6 & C7 & C8 & C9).
  unfold Priv. fld. rewrite C1, C3, C5, C7, C8.
  rewrite mupd_other by (pose proof (b_rwh _ B0); lia). rewrite Hm. exact P0.
Qed.

Lemma adv_write_priv s i pos v : Priv s -> Priv (adv_write s i pos v).
Proof. intros P. unfold adv_write. destruct (nth_error _ _); exact P. Qed.

Lemma adv_mapset_priv s i k v : Bnd s -> Priv s -> Priv (adv_mapset s i k v).
Proof.
  intros B (P1 & P2 & P3). unfold adv_mapset.
  destruct (nth_error (adv_map s) (Z.to_nat i)) as [m0|] eqn:E; [|exact (conj P1 (conj P2 P3))].
  apply nth_error_In in E. unfold Priv. fld.
  rewrite mupd_other by (intros Heq; rewrite Heq in P1; contradiction).
  split; [exact P1|]. split; [exact P2|].
  intros k0 a H. destruct (P3 _ _ H) as [Q1 Q2]. split; [|exact Q2].
  intros [H1|H1]; [apply (b_vals _ B) in H; lia|contradiction].
Qed.

Lemma adv_mapdel_priv s i k : Priv s -> Priv (adv_mapdel s i k).
Proof.
  intros (P1 & P2 & P3). unfold adv_mapdel.
  destruct (nth_error (adv_map s) (Z.to_nat i)) as [m0|] eqn:E; [|exact (conj P1 (conj P2 P3))].
  apply nth_error_In in E. unfold Priv. fld.
  rewrite mupd_other by (intros Heq; rewrite Heq in P1; contradiction).
  exact (conj P1 (conj P2 P3)).
Qed.

Lemma hit_priv s : Bnd s -> Priv s -> Priv (fst (hit s)).
Proof.
  intros B (P1 & P2 & P3). rewrite hit_eq.
  destruct (stored s) as [[[st m] b]|] eqn:Hst; [|exact (conj P1 (conj P2 P3))].
  destruct (clone_entries s (hmap s m) []) as [s1 es] eqn:E.
  destruct (clone_spec _ _ _ _ _ E) as (C & Hm & Hn & Ha & Hr & _).
  destruct C as (C1 & C2 & C3 & C4 & C5 & C6 & C7 & C8 & C9).
  unfold Priv. fld. rewrite C1, C3, C5, C7, C8. pose proof (b_rwh _ B) as Br.
  rewrite mupd_other by lia. rewrite Hm.
  split; [intros [H|H]; [lia|contradiction]|]. split; [exact P2|].
  intros k a H. destruct (P3 _ _ H) as [Q1 Q2]. split; [|exact Q2].
  intros H1. apply in_app_or in H1. destruct H1 as [H1|H1]; [|contradiction].
  apply in_map_iff in H1. destruct H1 as [[k1 a1] [H0 H1]]. simpl in H0. subst a1. apply Hr in H1.
  apply (b_vals _ B) in H. lia.
Qed.

Theorem step_priv s op : WF s -> Priv s -> op <> [4; 1] -> Priv (step s op).
Proof.
  intros [B _] P N.
  destruct (al_step_cases s op) as
    [(k & v1 & v2 & ->)|[(c & ->)|[(a & b & c & ->)|[(r & ->)|[(i & p & v & ->)|[(i & k & v & ->)|
     [(i & k & ->)|[->|E]]]]]]]].
  - apply h_set_priv; assumption.
  - apply commit_priv; assumption.
  - apply h_write_priv; assumption.
  - unfold step. cbn [al_step fst]. destruct (Z.eqb_spec r 1) as [->|Hr]; [contradiction|].
    apply store_false_priv; assumption.
  - apply adv_write_priv; assumption.
  - apply adv_mapset_priv; assumption.
  - apply adv_mapdel_priv; assumption.
  - rewrite step_hit. apply hit_priv; assumption.
  - unfold step. rewrite E. exact P.
Qed.

Theorem steps_priv ops : forall s, WF s -> Priv s -> Forall (fun op => op <> [4; 1]) ops -> Priv (steps s ops).
Proof.
  induction ops as [|op ops IH]; intros s W P F; [exact P|].
  inversion F; subst. simpl. apply IH; [apply al_step_wf, W|apply step_priv; assumption|assumption].
Qed.

Theorem reachable_priv ign ops : Forall (fun op => op <> [4; 1]) ops -> Priv (steps (init ign) ops).
Proof. intros F. apply steps_priv; [apply init_wf|apply init_priv|exact F]. Qed.

Lemma snap_frame s s' : Bnd s -> Priv s -> frame s s' -> rwh s' = rwh s -> snap s' = snap s.
Proof.
  intros B (P1 & P2 & P3) [Fm Fa] Hr. unfold snap. rewrite Hr.
  rewrite (Fm (rwh s) P2 P1 (b_rwh _ B)).
  apply (deref_ext s s'). intros k a H. destruct (P3 _ _ H) as [Q1 Q2].
  apply Fa; auto. apply (b_vals _ B _ _ _ H).
Qed.

(* once committed, rw.headers is never re-assigned *)
Lemma committed_step s op : committed s = true -> committed (step s op) = true /\ rwh (step s op) = rwh s.
Proof.
  intros Hc.
  destruct (al_step_cases s op) as
    [(k & v1 & v2 & ->)|[(c & ->)|[(a & b & c & ->)|[(r & ->)|[(i & p & v & ->)|[(i & k & v & ->)|
     [(i & k & ->)|[->|E]]]]]]]]; unfold step.
  - split; [exact Hc|reflexivity].
  - cbn [al_step fst]. rewrite commit_committed by exact Hc. split; [exact Hc|reflexivity].
  - cbn [al_step fst]. rewrite h_write_eq. cbv zeta. rewrite (commit_committed (hw_pre s a b c)) by exact Hc.
    split; [exact Hc|reflexivity].
  - cbn [al_step fst]. rewrite store_eq. cbv zeta. rewrite (commit_committed s 200 Hc).
    destruct (st_pre_heap s (r =? 1)) as (_ & _ & _ & R1 & _ & _ & _ & _ & K1).
    set (s1 := st_pre s (r =? 1)) in *. clearbody s1.
    destruct (clone_entries s1 (hmap s1 (rwh s1)) (ignored s1)) as [s2 es] eqn:E.
    destruct (clone_spec _ _ _ _ _ E) as (C & _).
    destruct C as (C1 & C2 & C3 & C4 & C5 & C6 & C7 & C8 & C9). fld. split; congruence.
  - cbn [al_step fst]. unfold adv_write. destruct (nth_error _ _); split; (exact Hc || reflexivity).
  - cbn [al_step fst]. unfold adv_mapset. destruct (nth_error _ _); split; (exact Hc || reflexivity).
  - cbn [al_step fst]. unfold adv_mapdel. destruct (nth_error _ _); split; (exact Hc || reflexivity).
  - fold (step s [8]). rewrite step_hit, hit_eq. destruct (stored s) as [[[st m] b]|] eqn:Hst.
    + destruct (clone_entries s (hmap s m) []) as [s1 es] eqn:E.
      destruct (clone_spec _ _ _ _ _ E) as (C & _).
      destruct C as (C1 & C2 & C3 & C4 & C5 & C6 & C7 & C8 & C9). fld. split; congruence.
    + split; [exact Hc|reflexivity].
  - rewrite E. split; [exact Hc|reflexivity].
Qed.

(* after the commit no operation whatsoever changes the snapshot (a retaining store ends the privacy, though) *)
Theorem snap_stable s op : WF s -> Priv s -> committed s = true -> snap (step s op) = snap s.
Proof.
  intros [B _] P Hc. apply snap_frame; [exact B|exact P|apply footprint|apply committed_step, Hc].
Qed.

Theorem snap_stable_seq ops : forall s, WF s -> Priv s -> committed s = true ->
  Forall (fun op => op <> [4; 1]) ops -> snap (steps s ops) = snap s.
Proof.
  induction ops as [|op ops IH]; intros s W P Hc F; [reflexivity|].
  inversion F; subst. simpl. rewrite IH.
  - apply snap_stable; assumption.
  - apply al_step_wf, W.
  - apply step_priv; assumption.
  - apply committed_step, Hc.
  - assumption.
Qed.

Theorem commit_snapshot s code : committed s = false -> WF s ->
  snap (commit s code) = map (fun e => (fst e, arr s (snd e))) (hmap s (wmap s)).
Proof.
  intros Hc [B _]. unfold snap. rewrite commit_eq, Hc.
  destruct (clone_entries s (hmap s (wmap s)) []) as [s1 es] eqn:E.
  destruct (clone_spec _ _ _ _ _ E) as (C & Hm & Hn & Ha & Hr & Hd).
  fld. rewrite mupd_same.
  specialize (Hd (fun k a H => b_vals _ B _ _ _ H)). rewrite filter_keep_nil in Hd.
  unfold deref in Hd. rewrite <- Hd. reflexivity.
Qed.

(* ------------------------------------------------------------------------------------------------------------ *)
(* 14. The copies are necessary: variants without one of the clones are refuted by computation                   *)
(* ------------------------------------------------------------------------------------------------------------ *)

(* cachedHeaders without slices.Clone: the stored Headers entries reuse the arrays of rw.headers *)
Definition store_nocloneH (s : ast) (retain : bool) : ast :=
  let s0 := commit s 200 in
  let s1 := if retain
            then with_adv s0 (bufarr s0 :: map snd (hmap s0 (rwh s0)) ++ adv_arr s0) (rwh s0 :: adv_map s0)
            else s0 in
  let es := filter (fun e => negb (zmem (ignored s1) (fst e))) (hmap s1 (rwh s1)) in
  let '(s3, m) := alloc_map s1 es in
  let '(s4, b) := alloc_arr s3 (arr s3 (bufarr s3)) in
  {| arr := arr s4; hmap := hmap s4; nxt := nxt s4; wmap := wmap s4; committed := committed s4; rwh := rwh s4;
     status := status s4; bufarr := bufarr s4; stored := Some (status s4, m, b);
     adv_arr := adv_arr s4; adv_map := adv_map s4; ignored := ignored s4 |}.

(* Body: body instead of bytes.Clone(body): the stored Body is the capture buffer's array *)
Definition store_nocloneB (s : ast) (retain : bool) : ast :=
  let s0 := commit s 200 in
  let s1 := if retain
            then with_adv s0 (bufarr s0 :: map snd (hmap s0 (rwh s0)) ++ adv_arr s0) (rwh s0 :: adv_map s0)
            else s0 in
  let '(s2, es) := clone_entries s1 (hmap s1 (rwh s1)) (ignored s1) in
  let '(s3, m) := alloc_map s2 es in
  {| arr := arr s3; hmap := hmap s3; nxt := nxt s3; wmap := wmap s3; committed := committed s3; rwh := rwh s3;
     status := status s3; bufarr := bufarr s3; stored := Some (status s3, m, bufarr s3);
     adv_arr := adv_arr s3; adv_map := adv_map s3; ignored := ignored s3 |}.

(* serveCached without slices.Clone: the front's header map gets the stored arrays themselves *)
Definition hit_noclone (s : ast) : ast * list Z :=
  match stored s with
  | None => (s, [-1])
  | Some (st, m, b) =>
      let es := hmap s m in
      let '(s2, mw) := alloc_map s es in
      let out := st :: flat_map (fun e => fst e :: Z.of_nat (length (arr s2 (snd e))) :: arr s2 (snd e)) es
                    ++ [-2] ++ arr s2 b in
      (with_adv s2 (map snd es ++ adv_arr s2) (mw :: adv_map s2), out)
  end.

(* a miss in progress: the handler has set header 5 = [1;2] and written the body [7;8;9] *)
Definition miss_done : ast := steps (init []) [[1; 5; 1; 2]; [3; 7; 8; 9]].

(* with the real store a retaining policy is harmless (instance of view_stable) ... *)
Example store_retain_ok :
  view (step (store miss_done true) [5; 1; 0; 99]) = view (store miss_done true) /\
  view (step (store miss_done true) [5; 0; 0; 99]) = view (store miss_done true).
Proof. split; vm_compute; reflexivity. Qed.

(* ... but without the header clone, the policy's retained value slice (its reference number 1) reaches the entry *)
Theorem nocloneH_refuted :
  let s0 := store_nocloneH miss_done true in
  view s0 = [200; 5; 2; 1; 2; -2; 7; 8; 9] /\
  view (step s0 [5; 1; 0; 99]) = [200; 5; 2; 99; 2; -2; 7; 8; 9] /\
  view (step s0 [5; 1; 0; 99]) <> view s0 /\ shares s0 = [1; 0; 0].
Proof. vm_compute. repeat split; discriminate. Qed.

(* without the body clone, the policy's retained body slice (its reference number 0) is the stored Body; even the
   handler's own later Write changes the entry *)
Theorem nocloneB_refuted :
  let s0 := store_nocloneB miss_done true in
  view s0 = [200; 5; 2; 1; 2; -2; 7; 8; 9] /\
  view (step s0 [5; 0; 0; 99]) = [200; 5; 2; 1; 2; -2; 99; 8; 9] /\
  view (step s0 [5; 0; 0; 99]) <> view s0 /\ shares s0 = [0; 1; 0] /\
  view (step (store_nocloneB miss_done false) [3; 4; 4; 4]) <> view (store_nocloneB miss_done false).
Proof. vm_compute. repeat split; discriminate. Qed.

(* without the clone in serveCached, the front's write into its own header map after a hit reaches the entry,
   and the next hit delivers the altered value *)
Theorem hit_noclone_refuted :
  let s0 := store miss_done false in
  let s1 := fst (hit_noclone s0) in
  snd (hit_noclone s0) = view s0 /\ view s1 = view s0 /\
  view (step s1 [5; 0; 0; 99]) = [200; 5; 2; 99; 2; -2; 7; 8; 9] /\
  view (step s1 [5; 0; 0; 99]) <> view s0 /\
  snd (hit_noclone (step s1 [5; 0; 0; 99])) <> snd (hit_noclone s0) /\ shares s1 = [1; 0; 0].
Proof. vm_compute. repeat split; discriminate. Qed.

(* Two boundary remarks on item 6(b), by computation. *)
(* before the commit, the handler's Write commits implicitly and so does change rw.headers *)
Theorem snap_uncommitted_refuted :
  let s := step (init []) [1; 5; 1; 2] in
  committed s = false /\ snap s = [] /\ snap (step s [3; 7; 8; 9]) = [(5, [1; 2])].
Proof. vm_compute. repeat split. Qed.

(* after a retaining policy call the snapshot is no longer private: the policy can write rw.headers' slices
   (the stored entry is still untouched, by view_stable) *)
Theorem priv_retain_refuted :
  let s := store miss_done true in
  snap s = [(5, [1; 2])] /\ snap (step s [5; 1; 0; 99]) = [(5, [99; 2])] /\
  snap (step s [6; 0; 6; 1]) = [(5, [1; 2]); (6, [1])] /\ view (step (step s [5; 1; 0; 99]) [6; 0; 6; 1]) = view s.
Proof. vm_compute. repeat split. Qed.

(* ------------------------------------------------------------------------------------------------------------ *)
(* 15. Non-vacuity                                                                                               *)
(* ------------------------------------------------------------------------------------------------------------ *)

(* ignored key 9; the handler sets 5 and 9 and writes a body; retaining policy; a hit; then the adversary writes
   through the front's clone (ref 0), the buffer (ref 1), rw.headers' slice (ref 2), sets key 5 in the front's
   map (map ref 0), deletes there, adds key 6 to rw.headers (map ref 1), writes once more; a second hit. *)
Definition ex_ops : list (list Z) :=
  [[1; 5; 1; 2]; [1; 9; 4; 4]; [3; 7; 8; 9]; [4; 1]; [8];
   [5; 0; 0; 99]; [5; 1; 0; 98]; [5; 2; 1; 97]; [6; 0; 5; 77]; [7; 0; 9]; [6; 1; 6; 55]; [5; 6; 0; 96]; [8]].
Definition ex_final : ast := fold_left (fun s o => fst (al_step s o)) ex_ops (init [9]).

Example ex_wf : WF ex_final.
Proof. apply reachable_wf. Qed.

Example ex_hits_equal :
  hit_outs (init [9]) ex_ops =
  [[200; 5; 2; 1; 2; -2; 7; 8; 9; -3; 0; 0; 0]; [200; 5; 2; 1; 2; -2; 7; 8; 9; -3; 0; 0; 0]].
Proof. vm_compute. reflexivity. Qed.

(* the adversary's writes did happen: the buffer and rw.headers were altered, the adversary holds ten array and
   four map references; the entry is what it was *)
Example ex_state :
  stored ex_final = Some (200, 10, 11) /\
  adv_arr ex_final = [16; 15; 14; 12; 2; 6; 7; 5; 4; 3] /\ adv_map ex_final = [17; 13; 8; 1] /\
  arr ex_final 2 = [98; 8; 9] /\ snap ex_final = [(5, [1; 97]); (6, [55]); (9, [4; 4])] /\
  view ex_final = [200; 5; 2; 1; 2; -2; 7; 8; 9] /\ shares ex_final = [0; 0; 0].
Proof. vm_compute. repeat split. Qed.

(* the concrete facts behind WF for this state, checked by computation on the finitely many live objects *)
Example ex_sep_computed :
  forallb (fun x => negb (zmem (adv_arr ex_final) x)) (11 :: map snd (hmap ex_final 10)) = true /\
  zmem (adv_map ex_final) 10 = false /\ forallb (fun x => x <? nxt ex_final) (adv_arr ex_final ++ adv_map ex_final) = true.
Proof. vm_compute. repeat split. Qed.

(* ------------------------------------------------------------------------------------------------------------ *)
(* 16. Assumptions                                                                                               *)
(* ------------------------------------------------------------------------------------------------------------ *)

Print Assumptions init_wf.
Print Assumptions al_step_wf.
Print Assumptions reachable_wf.
Print Assumptions footprint.
Print Assumptions view_stable.
Print Assumptions view_stable_seq.
Print Assumptions hit_output.
Print Assumptions hits_constant.
Print Assumptions hit_after_run.
Print Assumptions hits_after_store.
Print Assumptions shares_zero.
Print Assumptions reachable_shares_zero.
Print Assumptions store_view.
Print Assumptions store_view_commit.
Print Assumptions step_priv.
Print Assumptions reachable_priv.
Print Assumptions snap_stable.
Print Assumptions snap_stable_seq.
Print Assumptions commit_snapshot.
Print Assumptions nocloneH_refuted.
Print Assumptions nocloneB_refuted.
Print Assumptions hit_noclone_refuted.
Print Assumptions snap_uncommitted_refuted.
Print Assumptions priv_retain_refuted.
Print Assumptions ex_wf.
Print Assumptions ex_hits_equal.
Print Assumptions ex_state.
