(* C11 — no torn values, no corrupted structure under concurrent use. Table level (HtableLtsProofs.v): the (key, value) a lock-free lookup returns are fields of ONE item object created by ONE write (items are never mutated), the per-instant well-formedness invariant WFc holds in EVERY reachable state including between the two stores of an operation, and replaced arrays are frozen. Data-race freedom in the Go memory model sense is outside the model (trusted base item 6); the conc stream runs under -race in the thorough tier. Only `exact` + Print Assumptions. *)
Require Import KV.Base KV.HtableModel KV.HtableProofs KV.HtableTrace KV.HtableLts KV.HtableLtsProofs.
Open Scope Z_scope.

(* a hit's key and value come from one item object of one write *)
Theorem c11_single_item_snapshot :
  forall hashf : Z -> Z,
         (forall k : Z, 0 <= hashf k) ->
         forall (cap : Z) (ws : list wop) (rss : list (list rop)) (sch0 : list nat) 
           (r : nat) (k h : Z) (rest : list rop) (sch : list nat) (g2 : gstate) 
           (v : Z),
         wproto hashf ainit ws ->
         Forall (Forall (rop_ok hashf)) rss ->
         let g0 := lfinal (init_state cap ws rss) sch0 in
         rpcof (rth g0 r) = RB ->
         rscript (rth g0 r) = RLookup k h :: rest ->
         rpcof (rth (lfinal g0 sch) r) <> RB ->
         rscript (rth (lfinal g0 sch) r) = rest ->
         lstep (lfinal g0 sch) (S r) = Some (g2, [0; 1; v]) ->
         exists it : item,
           In it (script_items ws) /\
           ikey it = k /\
           ival it = v /\
           (forall it' : item, In it' (script_items ws) -> iid it' = iid it -> it' = it).
Proof. exact single_item_snapshot. Qed.

(* per-instant structural invariant in every reachable state *)
Theorem c11_structure_every_instant :
  forall hashf : Z -> Z,
         (forall k : Z, 0 <= hashf k) -> forall g : gstate, reachable hashf g -> WFc hashf g.
Proof. exact wfc_invariant. Qed.

(* a reader's array snapshot is never written again after being replaced *)
Theorem c11_old_arrays_frozen :
  forall hashf : Z -> Z,
         (forall k : Z, 0 <= hashf k) ->
         forall (g : gstate) (t : nat) (g' : gstate) (o : list Z),
         reachable hashf g ->
         lstep g t = Some (g', o) ->
         (data (gmem g) <= data (gmem g'))%nat /\
         (forall d : nat, (d < data (gmem g))%nat -> getarr (gmem g') d = getarr (gmem g) d) /\
         ((data (gmem g) < data (gmem g'))%nat ->
          getarr (gmem g') (data (gmem g)) = getarr (gmem g) (data (gmem g))).
Proof. exact old_arrays_frozen. Qed.

(* with no reader steps the LTS writer produces exactly the sequential model's results *)
Theorem c11_writer_alone_is_sequential :
  forall hashf : Z -> Z,
         (forall k : Z, 0 <= hashf k) ->
         forall (cap : Z) (ws : list wop) (rss : list (list rop)) (N : nat),
         wproto hashf ainit ws ->
         let run := lrun (init_state cap ws rss) (repeat 0%nat N) in
         (exists j : nat, completions (snd run) = firstn j (srun (cinit cap) ws)) /\
         (gwpc (fst run) = WB -> gws (fst run) = [] -> completions (snd run) = srun (cinit cap) ws).
Proof. exact writer_alone_refines_sequential. Qed.

(* a lookup takes at most n * (w + 1) tag loads, w = writer stores during it *)
Theorem c11_reader_terminates :
  forall hashf : Z -> Z,
         (forall k : Z, 0 <= hashf k) ->
         forall (g1 : gstate) (r : nat) (k h : Z) (sch : list nat) (d i : nat) (k' h' : Z),
         reachable hashf g1 ->
         rpcof (rth g1 r) = R201 k h ->
         (forall gj : gstate, In gj (ltrace g1 sch) -> rpcof (rth gj r) <> RB) ->
         rpcof (rth (lfinal g1 sch) r) = R202 d i k' h' \/
         rpcof (rth (lfinal g1 sch) r) = R203 d i k' h' ->
         (tagloads r g1 sch + 1 <= length (getarr (gmem (lfinal g1 sch)) d) * (wstores g1 sch + 1))%nat.
Proof. exact reader_terminates. Qed.

(* non-vacuity: a 3-thread execution through half-removed and half-inserted cells *)
Theorem c11_nonvacuous :
  Forall (WFc NonVacuity.hf) (ltrace NonVacuity.g0 NonVacuity.sch).
Proof. exact NonVacuity.wfc_every_state. Qed.

Print Assumptions c11_single_item_snapshot.
Print Assumptions c11_structure_every_instant.
Print Assumptions c11_old_arrays_frozen.
Print Assumptions c11_writer_alone_is_sequential.
Print Assumptions c11_reader_terminates.
Print Assumptions c11_nonvacuous.
