(* C11 — no torn values, no corrupted structure under concurrent use. Table level (HtableLtsProofs.v): the (key, value) a lock-free lookup returns are fields of ONE item object created by ONE write (items are never mutated), the per-instant well-formedness invariant WFc holds in EVERY reachable state including between the two stores of an operation, and replaced arrays are frozen. Data-race freedom in the Go memory model sense is outside the model (trusted base item 6); the conc stream runs under -race in the thorough tier. Only `exact` + Print Assumptions. Read-sample ring (ReadBuffer.v, tied by the rb stream): indices stay in range and nothing is fabricated under any interleaving of wait-free producers and the single consumer. Locked structures (MutexAtomicity.v): every reader under the RWMutex sees a state satisfying the invariant preserved by lock-protected bodies. *)
Require Import KV.Base KV.HtableModel KV.HtableProofs KV.HtableTrace KV.HtableLts KV.HtableLtsProofs KV.ReadBuffer KV.MutexAtomicity KV.PtrModel KV.PtrProofs KV.ItemImmutable.
Open Scope Z_scope.

(* a hit's key and value come from one item object of one write *)
Theorem c11_single_item_snapshot :
  forall hashf : Z -> Z,
         (forall k : Z, 0 <= hashf k) ->
         forall (cap : Z) (ws : list wop) (rss : list (list rop)) (sch0 : list nat) 
           (r : nat) (k h : Z) (rest : list rop) (sch : list nat) (g2 : gstate) 
           (v : Z),
         wproto hashf ainit ws ->
         Forall (Forall (rop_ok hashf)) rss ->
         let g0 := lfinal (init_state cap ws rss) sch0 in
         rpcof (rth g0 r) = RB ->
         rscript (rth g0 r) = RLookup k h :: rest ->
         rpcof (rth (lfinal g0 sch) r) <> RB ->
         rscript (rth (lfinal g0 sch) r) = rest ->
         lstep (lfinal g0 sch) (S r) = Some (g2, [0; 1; v]) ->
         exists it : HtableModel.item,
           In it (script_items ws) /\
           HtableModel.ikey it = k /\
           HtableModel.ival it = v /\
           (forall it' : HtableModel.item, In it' (script_items ws) -> iid it' = iid it -> it' = it).
Proof. exact single_item_snapshot. Qed.

(* per-instant structural invariant in every reachable state *)
Theorem c11_structure_every_instant :
  forall hashf : Z -> Z,
         (forall k : Z, 0 <= hashf k) ->
         forall g : gstate, HtableLtsProofs.reachable hashf g -> WFc hashf g.
Proof. exact wfc_invariant. Qed.

(* a reader's array snapshot is never written again after being replaced *)
Theorem c11_old_arrays_frozen :
  forall hashf : Z -> Z,
         (forall k : Z, 0 <= hashf k) ->
         forall (g : gstate) (t : nat) (g' : gstate) (o : list Z),
         HtableLtsProofs.reachable hashf g ->
         lstep g t = Some (g', o) ->
         (data (gmem g) <= data (gmem g'))%nat /\
         (forall d : nat, (d < data (gmem g))%nat -> getarr (gmem g') d = getarr (gmem g) d) /\
         ((data (gmem g) < data (gmem g'))%nat ->
          getarr (gmem g') (data (gmem g)) = getarr (gmem g) (data (gmem g))).
Proof. exact old_arrays_frozen. Qed.

(* with no reader steps the LTS writer produces exactly the sequential model's results *)
Theorem c11_writer_alone_is_sequential :
  forall hashf : Z -> Z,
         (forall k : Z, 0 <= hashf k) ->
         forall (cap : Z) (ws : list wop) (rss : list (list rop)) (N : nat),
         wproto hashf ainit ws ->
         let run := lrun (init_state cap ws rss) (repeat 0%nat N) in
         (exists j : nat, completions (snd run) = firstn j (srun (cinit cap) ws)) /\
         (gwpc (fst run) = WB -> gws (fst run) = [] -> completions (snd run) = srun (cinit cap) ws).
Proof. exact writer_alone_refines_sequential. Qed.

(* a lookup takes at most n * (w + 1) tag loads, w = writer stores during it *)
Theorem c11_reader_terminates :
  forall hashf : Z -> Z,
         (forall k : Z, 0 <= hashf k) ->
         forall (g1 : gstate) (r : nat) (k h : Z) (sch : list nat) (d i : nat) (k' h' : Z),
         HtableLtsProofs.reachable hashf g1 ->
         rpcof (rth g1 r) = R201 k h ->
         (forall gj : gstate, In gj (ltrace g1 sch) -> rpcof (rth gj r) <> RB) ->
         rpcof (rth (lfinal g1 sch) r) = R202 d i k' h' \/
         rpcof (rth (lfinal g1 sch) r) = R203 d i k' h' ->
         (tagloads r g1 sch + 1 <= length (getarr (gmem (lfinal g1 sch)) d) * (wstores g1 sch + 1))%nat.
Proof. exact reader_terminates. Qed.

(* non-vacuity: a 3-thread execution through half-removed and half-inserted cells *)
Theorem c11_nonvacuous :
  Forall (WFc NonVacuity.hf) (ltrace NonVacuity.g0 NonVacuity.sch).
Proof. exact NonVacuity.wfc_every_state. Qed.

(* read-sample ring: every cell access uses index position mod 64 < 64 for a ticket below tail, under every interleaving (no out-of-range access, no panic) *)
Theorem c11_readbuffer_indices_in_range :
  forall (scripts : list (list Z)) (st : ReadBuffer.state),
         ReadBuffer.reachable scripts st ->
         length (buf st) = NSLOT /\
         Forall
           (fun a : nat * nat =>
            snd a = (fst a mod NSLOT)%nat /\ (snd a < length (buf st))%nat /\ (fst a < tail st)%nat)
           (acc st).
Proof. exact ReadBuffer.indices_in_range. Qed.

(* every fingerprint replayed into the sketch was sampled (at most as often as sampled), is non-zero, and comes from a caller's value *)
Theorem c11_readbuffer_no_fabrication :
  forall (scripts : list (list Z)) (st : ReadBuffer.state),
         ReadBuffer.reachable scripts st ->
         (forall x : Z, (cnt x (delivered st) <= cnt x (tick st))%nat) /\
         Forall nz (delivered st) /\
         (forall x : Z, In x (tick st) -> exists h : Z, In h (concat scripts) /\ x = fix0 h).
Proof. exact ReadBuffer.no_fabrication. Qed.

(* exact accounting: stored = delivered + overwritten-unread + still buffered *)
Theorem c11_readbuffer_accounting :
  forall (scripts : list (list Z)) (st : ReadBuffer.state),
         ReadBuffer.reachable scripts st ->
         (forall x : Z,
          x <> 0 -> cnt x (stored st) = (cnt x (delivered st) + cnt x (lost st) + cnt x (buf st))%nat) /\
         (forall x : Z,
          cnt x (tick st) = (cnt x (stored st) + ReadBuffer.count (pendp x) (prods st))%nat).
Proof. exact ReadBuffer.sample_accounting. Qed.

(* head <= tail always *)
Theorem c11_readbuffer_cursors :
  forall (scripts : list (list Z)) (st : ReadBuffer.state),
         ReadBuffer.reachable scripts st -> (head st <= tail st)%nat.
Proof. exact ReadBuffer.head_le_tail. Qed.

(* a drain running alone from a coherent window delivers exactly the most recent min(tail-head, 64) samples, in order *)
Theorem c11_readbuffer_window :
  forall (scripts : list (list Z)) (st : ReadBuffer.state),
         ReadBuffer.reachable scripts st ->
         cons st = CIdle ->
         window_ok st ->
         tail st <> head st ->
         let n := Nat.min (tail st - head st) NSLOT in
         let st' := ReadBuffer.exec (repeat 0%nat (n + 3)) st in
         cons st' = CIdle /\
         head st' = tail st /\
         tail st' = tail st /\
         delivered st' = delivered st ++ lastn n (tick st) /\
         lost st' = lost st /\ stored st' = stored st /\ prods st' = prods st.
Proof. exact ReadBuffer.window. Qed.

(* non-vacuity: 70 samples then one drain delivers 7..70, loses 1..6 *)
Theorem c11_readbuffer_lapped_example :
  Examples.view Examples.lap_final = (Examples.zs 7 64, Examples.zs 1 6, (70%nat, 70%nat), []).
Proof. exact ReadBuffer.Examples.lapped_stripe. Qed.

(* a reader holding the RWMutex in read mode sees a state that satisfies every invariant preserved by the write-locked bodies (no half-updated list or counter) *)
Theorem c11_locked_reader_sees_invariant :
  forall (S R : Type) (s0 : S) (scripts : list (list (MutexAtomicity.op S R)))
           (Inv : S -> Prop) (st : state S R) (t : nat),
         Inv s0 ->
         scripts_ok scripts (preserves Inv) -> reachable s0 scripts st -> in_read st t -> Inv (sh st).
Proof. exact MutexAtomicity.reader_sees_quiescent_state. Qed.

(* writers exclude writers and readers; the drain token has one holder *)
Theorem c11_locked_mutual_exclusion :
  forall (S R : Type) (s0 : S) (scripts : list (list (MutexAtomicity.op S R)))
           (st : state S R),
         reachable s0 scripts st ->
         (forall t1 t2 : nat, in_write st t1 -> in_write st t2 -> t1 = t2) /\
         (forall t1 t2 : nat, in_write st t1 -> ~ in_read st t2) /\
         (forall t1 t2 : nat, holds_outer st t1 -> holds_outer st t2 -> t1 = t2).
Proof. exact MutexAtomicity.mutual_exclusion. Qed.

(* pointer level: addToLRUHead keeps the list doubly linked and touches only the head sentinel, the item and the old first node *)
Theorem c11_ptr_lru_add :
  forall (s : pstate) (it : Z) (l : list Z),
         dll (hp s) lruHead lruTail l ->
         ~ In it l ->
         it <> lruHead ->
         it <> lruTail ->
         it <> 0 ->
         let s' := lru_add s it in
         dll (hp s') lruHead lruTail (it :: l) /\
         perr s' = perr s /\
         (forall x : Z, x <> lruHead -> x <> it -> x <> hd lruTail l -> hp s' x = hp s x) /\
         (forall x : Z,
          pq (hp s' x) = pq (hp s x) /\
          pown (hp s' x) = pown (hp s x) /\
          pvis (hp s' x) = pvis (hp s x) /\ preuse (hp s' x) = preuse (hp s x)) /\
         prob s' = prob s /\ mainq s' = mainq s /\ hand s' = hand s /\ maincap s' = maincap s.
Proof. exact lru_add_dll. Qed.

(* pointer level: removeFromLRU unlinks exactly the item (its links become nil), frame preserved *)
Theorem c11_ptr_lru_remove :
  forall (s : pstate) (it : Z) (l : list Z),
         dll (hp s) lruHead lruTail l ->
         In it l ->
         let s' := lru_remove s it in
         dll (hp s') lruHead lruTail (CacheModel.remz l it) /\
         perr s' = perr s /\
         pprev (hp s' it) = 0 /\
         pnext (hp s' it) = 0 /\
         (forall x : Z, x <> it -> x <> pprev (hp s it) -> x <> pnext (hp s it) -> hp s' x = hp s x) /\
         (forall x : Z,
          pq (hp s' x) = pq (hp s x) /\
          pown (hp s' x) = pown (hp s x) /\
          pvis (hp s' x) = pvis (hp s x) /\ preuse (hp s' x) = preuse (hp s x)) /\
         prob s' = prob s /\ mainq s' = mainq s /\ hand s' = hand s /\ maincap s' = maincap s.
Proof. exact lru_remove_dll. Qed.

(* pointer level: sieve.remove of a main member keeps both queues well formed and repairs the hand with the predecessor rule *)
Theorem c11_ptr_sieve_remove :
  forall (s : pstate) (P M : list Z) (it : Z),
         SInv s P M ->
         In it M ->
         let s' := fst (sieve_remove s it) in
         snd (sieve_remove s it) = true /\
         SInv s' P (CacheModel.remz M it) /\
         hand s' = (if hand s =? it then aprev M it else hand s) /\
         preuse (hp s' it) = 0 /\
         pvis (hp s' it) = false /\
         maincap s' = maincap s /\
         (forall x : Z,
          x <> it -> pvis (hp s' x) = pvis (hp s x) /\ preuse (hp s' x) = preuse (hp s x)).
Proof. exact sieve_remove_main. Qed.

(* pointer level: replaceNode substitutes the new node in place in whichever queue held the old one, moves the hand with it, leaves the old node unlinked *)
Theorem c11_ptr_sieve_replace :
  forall (s : pstate) (P M : list Z) (old new : Z),
         SInv s P M ->
         In old (P ++ M) ->
         0 < new ->
         ~ In new (P ++ M) ->
         let s' := sieve_replace s old new in
         SInv s' (subst_ptr P old new) (subst_ptr M old new) /\
         hand s' = (if hand s =? old then new else hand s) /\
         preuse (hp s' new) = preuse (hp s old) /\
         pvis (hp s' new) = pvis (hp s old) || pvis (hp s new) /\
         pq (hp s' old) = qNone /\
         pprev (hp s' old) = 0 /\
         pnext (hp s' old) = 0 /\
         maincap s' = maincap s /\
         (forall x : Z,
          x <> new -> pvis (hp s' x) = pvis (hp s x) /\ preuse (hp s' x) = preuse (hp s x)).
Proof. exact sieve_replace_spec. Qed.

(* pointer level: the SIEVE hand scan changes only visited/reuse bits and the hand, keeps both queues intact, and returns nil or a main member *)
Theorem c11_ptr_find_victim :
  forall (s : pstate) (P M : list Z) (scan : Z) (force : bool),
         SInv s P M ->
         exists (s' : pstate) (v : Z),
           find_main_victim_p s scan force = (s', v) /\
           afind_main (absM (hp s) M) (hand s) scan force = (absM (hp s') M, hand s', v) /\
           SInv s' P M /\
           maincap s' = maincap s /\
           (forall x : Z, ~ In x M -> hp s' x = hp s x) /\
           (v = 0 \/ In v M /\ (force = false -> pvis (hp s' v) = false)) /\
           (M = [] -> v = 0) /\ (force = true -> M <> [] -> In v M).
Proof. exact find_main_victim_p_spec. Qed.

(* the pointer-level hand scan computes the same victim, hand and bits as CacheModel.find_main_victim (the list-level model the cache theorems use) *)
Theorem c11_ptr_find_victim_refines :
  forall (s : pstate) (P M : list Z) (sh : CacheModel.shard) (scan : Z) (force : bool),
         SInv s P M ->
         absM (hp s) M = absI (CacheModel.main sh) ->
         hand s = oz (CacheModel.hand sh) ->
         let r := find_main_victim_p s scan force in
         let a := CacheModel.find_main_victim sh scan force in
         snd r = oz (snd a) /\
         hand (fst r) = oz (CacheModel.hand (fst a)) /\
         absM (hp (fst r)) M = absI (CacheModel.main (fst a)) /\
         SInv (fst r) P M /\
         map CacheModel.key (CacheModel.main (fst a)) = M /\
         CacheModel.prob (fst a) = CacheModel.prob sh.
Proof. exact find_main_victim_refines. Qed.

(* resetting the queues while items are still linked leaves stale tags (refuted clause; reset is only reached from Clear, which drops every item) *)
Theorem c11_ptr_sieve_init_refuted :
  let s := sieve_insert_prob (pinit 7 4) 1 in
         SInv s [1] [] /\
         ~ SInv (sieve_init s) [] [] /\ holds (hp (sieve_init s)) (prob (sieve_init s)) 1 = true.
Proof. exact sieve_init_refuted. Qed.

(* pointer level: walking the LFU ring from the sentinel visits exactly the abstract buckets and returns to the sentinel *)
Theorem c11_ptr_lfu_walk :
  forall (l : lfu) (b : list (Z * list Z)) (fuel : nat),
         LfuRing.LInv l b ->
         (length b < fuel)%nat -> LfuRing.ring_buckets fuel l (fnext (fh l (fhead l))) = b.
Proof. exact LfuRing.linv_walk. Qed.

(* a lock-free read paused between lookup and field copy, resumed after any writer activity, delivers the triple of one single Set of its key (items immutable once allocated) *)
Theorem c11_paused_read_delivers_one_write :
  forall (before : list op) (k : Z) (p : nat) (after : list op),
         let s := run false init before in
         lookup (tab s) k = Some p ->
         exists it : item,
           resume s p = Some it /\
           resume (run false s after) p = Some it /\ ikey it = k /\ In it (log s).
Proof. exact ItemImmutable.paused_read_delivers_one_write. Qed.

(* with recycling of rejected items (seeded change C11q-m1) the paused read returns another key's value *)
Theorem c11_item_recycling_refuted :
  exists (before : list op) (k : Z) (p : nat) (after : list op) (it it' : item),
           let s := run true init before in
           lookup (tab s) k = Some p /\
           resume s p = Some it /\
           ikey it = k /\ resume (run true s after) p = Some it' /\ ikey it' <> k.
Proof. exact ItemImmutable.recycling_refuted. Qed.

Print Assumptions c11_single_item_snapshot.
Print Assumptions c11_structure_every_instant.
Print Assumptions c11_old_arrays_frozen.
Print Assumptions c11_writer_alone_is_sequential.
Print Assumptions c11_reader_terminates.
Print Assumptions c11_nonvacuous.
Print Assumptions c11_readbuffer_indices_in_range.
Print Assumptions c11_readbuffer_no_fabrication.
Print Assumptions c11_readbuffer_accounting.
Print Assumptions c11_readbuffer_cursors.
Print Assumptions c11_readbuffer_window.
Print Assumptions c11_readbuffer_lapped_example.
Print Assumptions c11_locked_reader_sees_invariant.
Print Assumptions c11_locked_mutual_exclusion.
Print Assumptions c11_ptr_lru_add.
Print Assumptions c11_ptr_lru_remove.
Print Assumptions c11_ptr_sieve_remove.
Print Assumptions c11_ptr_sieve_replace.
Print Assumptions c11_ptr_find_victim.
Print Assumptions c11_ptr_find_victim_refines.
Print Assumptions c11_ptr_sieve_init_refuted.
Print Assumptions c11_ptr_lfu_walk.
Print Assumptions c11_paused_read_delivers_one_write.
Print Assumptions c11_item_recycling_refuted.
