(* ConfigModel.v — Config.Validate, New's shard-count and budget arithmetic,
   SieveTinyLFU segment sizing, component sizes. Transliterates config.go,
   cache.go (New), internal/mathx, sieve.go (newSieveTinyLFU), htable.go
   (newHtable), sketch.go, ghost.go, mpsc.go (newMPSCQueue).
   Go ints are 64-bit; arithmetic that can wrap is written with wrap64. *)
Require Import KV.Base.
Require Import KV.Gen.Consts.

Record config := {
  MaxSize : Z; MaxCost : Z; ShardCount : Z; CleanupInterval : Z; DefaultTTL : Z;
  Policy : Z; StatsEnabled : Z; ProbationRatio : Z; GhostRatio : Z;
  CostAdmission : Z; WriteBufferSize : Z; WriteBatchSize : Z
}.

(* ---- internal/mathx ---- *)

(* NextPowerOf2(n int) int : 1 << bits.Len(uint(n-1)), in a 64-bit int *)
Definition next_pow2 (n : Z) : Z :=
  if n <=? 1 then 1 else wrap64 (2 ^ bits_len (n - 1)).

(* PrevPowerOf2(n int64) int64 : 1 << (bits.Len64(uint64(n)) - 1); callers pass n >= 1 *)
Definition prev_pow2 (n : Z) : Z := 2 ^ (bits_len n - 1).

(* ---- Config.Validate: None = accepted, Some code = first rejected field ---- *)

Definition effective_policy (c : config) : Z :=
  if Policy c =? policyDefault then defaultPolicy else Policy c.

Definition validate (c : config) : option Z :=
  if MaxSize c <? 0 then Some 1 else
  if MaxCost c <? 0 then Some 2 else
  if ShardCount c <? 0 then Some 3 else
  if CleanupInterval c <? 0 then Some 4 else
  if (DefaultTTL c <? 0) && negb (DefaultTTL c =? noExpiration) then Some 5 else
  if (Policy c <? policyDefault) || (policySieve <? Policy c) then Some 6 else
  if (effective_policy c =? policySieve) && (MaxSize c <=? 0) && (0 <? MaxCost c) then Some 7 else
  if (CostAdmission c <? 0) || (2 <? CostAdmission c) then Some 8 else
  if 100 <? ProbationRatio c then Some 9 else
  if 100 <? GhostRatio c then Some 10 else
  if WriteBufferSize c <? 0 then Some 11 else
  if WriteBatchSize c <? 0 then Some 12 else None.

(* ---- New: shard count ---- *)

Definition shard_count (c : config) (ncpu : Z) : Z :=
  let sc0 := if ShardCount c <=? 0 then Z.min (ncpu * shardMultiplier) maxShardCount else ShardCount c in
  let sc1 := if 0 <? MaxSize c then Z.min sc0 (prev_pow2 (Z.min (MaxSize c) maxShardCount)) else sc0 in
  let sc2 := if 0 <? MaxCost c then Z.min sc1 (prev_pow2 (Z.min (MaxCost c) maxShardCount)) else sc1 in
  next_pow2 sc2.

(* per-shard share of a budget: base plus one for the first (budget mod n) shards *)
Definition share (budget n i : Z) : Z :=
  if 0 <? budget then budget / n + (if i <? budget mod n then 1 else 0) else 0.

Definition shard_cap (c : config) (n i : Z) : Z := share (MaxSize c) n i.
Definition shard_cost_cap (c : config) (n i : Z) : Z := share (MaxCost c) n i.

Definition queue_cap (c : config) : Z :=
  let w := if WriteBufferSize c =? 0 then defaultWriteBufferSize else WriteBufferSize c in
  Z.max (next_pow2 w) 2.

Definition batch_cap (c : config) : Z :=
  if WriteBatchSize c =? 0 then defaultWriteBatchSize else WriteBatchSize c.

Definition track_cost (c : config) : bool :=
  (0 <? MaxCost c) || negb (CostAdmission c =? 0).

(* ---- newSieveTinyLFU segment sizing for a shard of capacity cap >= 1 ---- *)

Record segs := { lo : Z; hi : Z; pc : Z; mc : Z; gc : Z; astep : Z }.

Definition sieve_segs (cap pr0 gr0 : Z) : segs :=
  let pr := if pr0 =? 0 then defaultProbationRatio else pr0 in
  let gr := if gr0 =? 0 then defaultGhostRatio else gr0 in
  let lo := Z.max 1 (cap / 100) in
  let hi0 := Z.max lo (cap * 60 / 100) in
  let hi := if (cap <=? hi0) && (1 <? cap) then cap - 1 else hi0 in
  let pc := Z.min (Z.max (cap * pr / 100) lo) hi in
  let mc := cap - pc in
  let gc0 := mc * gr / 100 in
  let gc := if (0 <? mc) && (gc0 <? 1) then 1 else gc0 in
  {| lo := lo; hi := hi; pc := pc; mc := mc; gc := gc; astep := Z.max 1 (cap / 100) |}.

(* ---- component sizes ---- *)

Definition htable_slots (cap : Z) : Z := Z.max (next_pow2 (cap * 2)) htMinSlots.

Definition sketch_samples (cap : Z) : Z := Z.max (cap * 10) sketchMinCounters.
Definition sketch_counters (n : Z) : Z := next_pow2 (if n <? sketchMinCounters then sketchMinCounters else n).
Definition sketch_words (n : Z) : Z := sketch_counters n / sketchCountersPerWord.
Definition sketch_reset_at (n : Z) : Z := sketch_counters n * sketchAgingMultiplier.
Definition door_bits (n : Z) : Z := next_pow2 (if n <? 64 then 64 else n).
Definition door_words (n : Z) : Z := door_bits n / 64.
Definition ghost_ring (n : Z) : Z := if n <=? 0 then 0 else n.
Definition ghost_slots (n : Z) : Z := if n <=? 0 then 0 else Z.max (next_pow2 (n * 2)) 8.

(* ---- observable description of a freshly built cache (what the harness reads back) ---- *)

Definition shard_obs (c : config) (n i : Z) : list Z :=
  let cap := shard_cap c n i in
  let sieve := (effective_policy c =? policySieve) && (0 <? cap) in
  let base := [cap; shard_cost_cap c n i; htable_slots cap; b2z sieve] in
  if sieve then
    let s := sieve_segs cap (ProbationRatio c) (GhostRatio c) in
    let smp := sketch_samples cap in
    base ++ [pc s; mc s; gc s; lo s; hi s; astep s;
             sketch_words smp; sketch_reset_at smp; door_words smp;
             ghost_ring (gc s); ghost_slots (gc s); ghost_ring cap]
  else base.

Definition new_obs (c : config) (ncpu : Z) : list Z :=
  match validate c with
  | Some _ => [0]
  | None =>
    let n := shard_count c ncpu in
    [1; n; MaxSize c; MaxCost c; queue_cap c; batch_cap c; b2z (track_cost c)]
      ++ flat_map (shard_obs c n) (zseq 0 (Z.to_nat n))
  end.

(* decoding of the harness' integer encoding *)
Definition decode_config (l : list Z) : option (config * Z) :=
  match l with
  | [a; b; c; d; e; f; g; h; i; j; k; m; ncpu] =>
    Some ({| MaxSize := a; MaxCost := b; ShardCount := c; CleanupInterval := d; DefaultTTL := e;
             Policy := f; StatsEnabled := g; ProbationRatio := h; GhostRatio := i;
             CostAdmission := j; WriteBufferSize := k; WriteBatchSize := m |}, ncpu)
  | _ => None
  end.

(* stream "cfg": every op is one configuration; mode 0 = Validate only, 1 = New *)
Definition cfg_step (st : unit) (op : list Z) : unit * list Z :=
  match op with
  | mode :: rest =>
    match decode_config rest with
    | Some (c, ncpu) =>
      if mode =? 0 then (st, [match validate c with None => 1 | Some _ => 0 end])
      else (st, new_obs c ncpu)
    | None => (st, [-1])
    end
  | [] => (st, [-1])
  end.
