(* C03 — resident entries and weight never exceed the budgets. CacheProofs.v (cache level) over SieveProofs.v / ClassicProofs.v (shard level). Only `exact` + Print Assumptions. *)
Require Import KV.Base KV.Gen.Consts KV.ConfigModel KV.CacheModel KV.ClassicProofs KV.SieveProofs KV.CacheProofs KV.TtlProofs KV.MutexAtomicity.
Open Scope Z_scope.

(* CacheInv (which contains over_capacity = false for every shard) is preserved by every well-sharded history, every event stream *)
Theorem c03_invariant_all_histories :
  forall (shard_of : Z -> Z) (ops : list (cop * list Z)) (c : cache),
         CacheInv shard_of c ->
         Forall (fun p : cop * list Z => wf_op shard_of (nshards c) (fst p)) ops ->
         CacheInv shard_of (crun c ops) /\ Cfg c (crun c ops).
Proof. exact CacheProofs.crun_inv. Qed.

(* every shard: size <= cap (cap > 0) and cost <= costcap (costcap > 0), in every state between operations (LFU: when the oracle pick was accepted) *)
Theorem c03_within_budget :
  forall (shard_of : Z -> Z) (c : cache) (i : nat) (s : shard),
         CacheInv shard_of c ->
         nth_error (shards c) i = Some s ->
         policy c <> policyLFU \/ serr s = 0 ->
         (0 < cap s -> size s <= cap s) /\ (0 < costcap s -> scost s <= costcap s).
Proof. exact CacheProofs.c03_within_budget. Qed.

(* len(Keys) <= total size <= MaxSize for every state reachable from a validated configuration with MaxSize > 0 *)
Theorem c03_keys_le_maxsize :
  forall (shard_of : Z -> Z) (c0 c : cache) (cfg : config) (ncpu : Z),
         map cap (shards c0) =
         map (shard_cap cfg (shard_count cfg ncpu)) (zseq 0 (Z.to_nat (shard_count cfg ncpu))) ->
         validate cfg = None ->
         1 <= ncpu ->
         ShardCount cfg <= 2 ^ 62 ->
         0 < MaxSize cfg ->
         Cfg c0 c ->
         CacheInv shard_of c ->
         policy c <> policyLFU \/ errs c = 0 -> zlen (op_keys c) <= total_size c <= MaxSize cfg.
Proof. exact CacheProofs.c03_keys_le_maxsize. Qed.

(* an insert into a shard with room evicts/rejects/notifies nothing and preserves every other key *)
Theorem c03_room_no_drop :
  forall (shard_of : Z -> Z) (c : cache) (k v ttl cst sh : Z) (s0 : shard),
         CacheInv shard_of c ->
         get_shard c sh = Some s0 ->
         set_check c sh cst = 0 ->
         let sd := fst (drained c s0) in
         view (policy c) sd k = None ->
         would_over sd cst = false ->
         exists s' : shard,
           get_shard (fst (op_set c k v ttl cst sh)) sh = Some s' /\
           staged s' = staged sd /\
           nlog s' = nlog sd /\
           glog s' = glog sd ++ [(0, k, v)] /\
           evictions (fst (op_set c k v ttl cst sh)) = evictions (drain_shard c sh) /\
           view (policy c) s' k = Some (v, stamp (norm_ttl c ttl) (now c), cst) /\
           (forall k' : Z, k' <> k -> view (policy c) s' k' = view (policy c) sd k').
Proof. exact CacheProofs.c03_room_no_drop. Qed.

(* an unweighted insert drops at most one entry (the Sieve's rejected candidate counts) *)
Theorem c03_unweighted_at_most_one :
  forall (shard_of : Z -> Z) (c : cache) (k v ttl cst sh : Z) (s0 : shard),
         CacheInv shard_of c ->
         get_shard c sh = Some s0 ->
         set_check c sh cst = 0 ->
         costcap s0 = 0 ->
         view (policy c) (fst (drained c s0)) k = None ->
         exists s' : shard,
           get_shard (fst (op_set c k v ttl cst sh)) sh = Some s' /\
           (policy c <> policyLFU \/ serr s' = 0 -> gdrops s' <= gdrops (fst (drained c s0)) + 1).
Proof. exact CacheProofs.c03_unweighted_at_most_one. Qed.

(* a cache without limits never drops anything *)
Theorem c03_unbounded_never_drops :
  forall (shard_of : Z -> Z) (c : cache) (k v ttl cst sh : Z) (s0 : shard),
         CacheInv shard_of c ->
         get_shard c sh = Some s0 ->
         set_check c sh cst = 0 ->
         cap s0 = 0 ->
         costcap s0 = 0 ->
         exists s' : shard,
           get_shard (fst (op_set c k v ttl cst sh)) sh = Some s' /\
           gdrops s' = gdrops s0 /\
           staged s' = staged s0 /\
           nlog s' = nlog s0 /\
           evictions (fst (op_set c k v ttl cst sh)) = evictions c /\
           view (policy c) s' k = Some (v, stamp (norm_ttl c ttl) (now c), cst) /\
           (forall k' : Z, k' <> k -> view (policy c) s' k' = view (policy c) (fst (drained c s0)) k').
Proof. exact CacheProofs.c03_unbounded_never_drops. Qed.

(* Sieve shard: after any write from a quiescent in-budget state the shard is back within budget, for every oracle stream (forced repair terminates) *)
Theorem c03_sieve_budget :
  forall e : env,
         e_pol e = policySieve ->
         forall (s : shard) (k v ex c : Z) (s' : shard) (cm : bool) (d : Z),
         SInv s ->
         Quiet s ->
         over_capacity s = false ->
         0 <= c ->
         costcap s = 0 \/ c <= costcap s ->
         apply_sieve e s k v ex c = (s', cm, d) ->
         SInv s' /\
         Quiet s' /\ over_capacity s' = false /\ (serr s' = serr s \/ serr s = 0 /\ code (serr s')).
Proof. exact SieveProofs.apply_sieve_budget_strong. Qed.

(* Sieve shard master theorem: sizes, drops, reasons, counters, permutation of contents *)
Theorem c03_sieve_summary :
  forall e : env,
         e_pol e = policySieve ->
         forall (fl : bool) (s : shard) (k v ex c : Z) (s' : shard) (cm : bool) (d : Z),
         SInv s ->
         Quiet s ->
         0 <= c ->
         FuelHyp fl s c -> apply_sieve e s k v ex c = (s', cm, d) -> ASum e fl s k v ex c s' cm d.
Proof. exact SieveProofs.apply_sieve_sum. Qed.

(* Sieve shard: room => nothing dropped *)
Theorem c03_sieve_room :
  forall e : env,
         e_pol e = policySieve ->
         forall (s : shard) (k v ex0 c : Z) (s' : shard) (cm : bool) (d : Z),
         SInv s ->
         Quiet s ->
         lookup s (e_pol e) k = None ->
         0 <= c ->
         size s + 1 <= cap s ->
         costcap s <= 0 \/ scost s + c <= costcap s ->
         apply_sieve e s k v ex0 c = (s', cm, d) ->
         cm = true /\
         d = 0 /\
         glog s' = glog s ++ [(0, k, v)] /\
         staged s' = staged s /\
         nlog s' = nlog s /\
         (exists it' : item, lookup s' (e_pol e) k = Some it' /\ ess it' = (k, v, ex0, c, false)) /\
         (forall (k' : Z) (it : item),
          lookup s (e_pol e) k' = Some it ->
          exists it' : item, lookup s' (e_pol e) k' = Some it' /\ ess it' = ess it).
Proof. exact SieveProofs.room_no_drop. Qed.

(* Sieve shard: unweighted insert drops at most one *)
Theorem c03_sieve_at_most_one :
  forall e : env,
         e_pol e = policySieve ->
         forall (s : shard) (k v ex0 c : Z) (s' : shard) (cm : bool) (d : Z),
         SInv s ->
         Quiet s ->
         lookup s (e_pol e) k = None ->
         0 <= c ->
         costcap s = 0 ->
         over_capacity s = false ->
         apply_sieve e s k v ex0 c = (s', cm, d) ->
         exists dl : list (item * Z),
           glog s' = glog s ++ [(0, k, v)] ++ map dent dl /\ (length dl <= 1)%nat.
Proof. exact SieveProofs.unweighted_at_most_one. Qed.

(* LRU/LFU/FIFO shard: within budget after every write *)
Theorem c03_classic_budget :
  forall (pol : Z) (e : env) (s : shard) (k v ex c : Z) (s' : shard) (cm : bool) (d : Z),
         e_pol e = pol ->
         CInv pol s ->
         0 <= c ->
         costcap s <= 0 \/ c <= costcap s ->
         0 <= cap s ->
         apply_classic e s k v ex c = (s', cm, d) ->
         pol <> policyLFU \/ serr s' = 0 -> CInv pol s' /\ over_capacity s' = false /\ cm = true.
Proof. exact ClassicProofs.apply_classic_budget_strong. Qed.

(* the per-shard shares of MaxSize / MaxCost sum to the configured total *)
Theorem c03_shares_sum :
  forall budget n : Z,
         0 < budget -> 1 <= n -> sumZ (map (share budget n) (zseq 0 (Z.to_nat n))) = budget.
Proof. exact ConfigProofs.share_sum. Qed.

(* an invariant preserved by every lock-protected body holds whenever no writer is inside (any schedule) *)
Theorem c03_locked_invariant_transfer :
  forall (S R : Type) (s0 : S) (scripts : list (list (op S R))) (Inv : S -> Prop)
           (st : state S R),
         Inv s0 ->
         scripts_ok scripts (preserves Inv) ->
         reachable s0 scripts st -> (forall t : nat, ~ in_write st t) -> Inv (sh st).
Proof. exact MutexAtomicity.invariant_transfer. Qed.

(* capacity-1 Sieve shard: the bounded pass cannot progress, only the forced pass restores the budget (safe, recorded) *)
Theorem c03_cap1_quirk :
  let
         '(s, cm, d) := ex_set c1_b [(1, 0)] 2 20 in
          ex_view s = ([2], [], None, [2], 1, 1, 0, false, []) /\
          cm = true /\ d = 1 /\ skipn 3 (glog s) = [(0, 2, 20); (10 + reasonCapacity, 1, 11)].
Proof. exact SieveProofs.ex_cap1_forced. Qed.

(* non-vacuity: Sieve cache at capacity with evictions *)
Theorem c03_example :
  (hits ex_sv_fin, misses ex_sv_fin, evictions ex_sv_fin, expirations ex_sv_fin,
          errs ex_sv_fin, leftover ex_sv_fin, closed ex_sv_fin, total_size ex_sv_fin,
          map glog (shards ex_sv_fin)) =
         (2, 1, 1, 2, 0, 0, true, 0,
          [[(0, 1, 10); (0, 2, 20); (0, 3, 30); (0, 4, 40); (10, 2, 20); (
            12, 4, 40); (0, 5, 50); (12, 5, 50); (0, 6, 60); (1, 6, 60); (
            0, 6, 61); (2, 3, 30); (2, 6, 61); (2, 1, 10)]]) /\
         ghost_hm false (chist ex_sv_init ex_sv_ops) = (2, 1) /\
         gsum reasonCapacity ex_sv_fin = 1 /\ gsum reasonExpired ex_sv_fin = 2.
Proof. exact CacheProofs.ex_sv_state. Qed.

Print Assumptions c03_invariant_all_histories.
Print Assumptions c03_within_budget.
Print Assumptions c03_keys_le_maxsize.
Print Assumptions c03_room_no_drop.
Print Assumptions c03_unweighted_at_most_one.
Print Assumptions c03_unbounded_never_drops.
Print Assumptions c03_sieve_budget.
Print Assumptions c03_sieve_summary.
Print Assumptions c03_sieve_room.
Print Assumptions c03_sieve_at_most_one.
Print Assumptions c03_classic_budget.
Print Assumptions c03_shares_sum.
Print Assumptions c03_locked_invariant_transfer.
Print Assumptions c03_cap1_quirk.
Print Assumptions c03_example.
