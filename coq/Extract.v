(* Extract.v — extraction of the executable models to OCaml for the correspondence
   checks. ExtrOcamlBasic only: bool/option/list/prod/unit/sumbool map to OCaml's;
   nat, positive, N, Z stay inductive. No Extract Constant / Extract Inductive of our own. *)
Require Import KV.Base KV.ConfigModel KV.EstimatorModel KV.GhostModel KV.HtableModel KV.CacheModel KV.HttpModel KV.HttpTrie KV.LinCheck KV.KeyHash KV.HtableLts KV.QueueLts KV.QueueStream KV.IndexLts KV.ReadBufferStream KV.NotifierStream KV.CallbackStream KV.RegistryStream KV.StripedCounterStream KV.PtrModel.
Require KV.AliasModel.
Require Import ExtrOcamlBasic.

(* arithmetic the driver needs for decimal <-> Z conversion *)
Definition drv_add (a b : Z) : Z := a + b.
Definition drv_mul (a b : Z) : Z := a * b.
Definition drv_divmod (a b : Z) : Z * Z := Z.div_eucl a b.

(* stream dispatch: sid selects the model; cfg configures it; ops are integer-encoded *)
Definition run_stream (sid : Z) (cfg : list Z) (ops : list (list Z)) : list (list Z) :=
  if sid =? 16 then run_out cfg_step tt ops
  else if sid =? 19 then run_out est_step (est_init cfg) ops
  else if sid =? 1 then run_out cache_step (cache_init cfg) ops
  else if sid =? 13 then run_out http_step (http_init cfg) ops
  else if sid =? 15 then run_out trie_step empty_node ops
  else if sid =? 2 then run_out lin_step tt ops
  else if sid =? 21 then run_out lin_chain_step [None] ops
  else if sid =? 17 then run_out reg_step reg_init ops
  else if sid =? 121 then run_out htl_step (htl_init cfg) ops
  else if sid =? 12 then run_out ht_step (ht_init cfg) ops
  else if sid =? 41 then run_out ql_step (ql_init cfg) ops
  else if sid =? 18 then run_out rl_step (rl_init cfg) ops
  else if sid =? 20 then run_out cb_step (cb_init cfg) ops
  else if sid =? 48 then run_out sc_step (sc_init cfg) ops
  else if sid =? 61 then run_out nl_step (nl_init cfg) ops
  else if sid =? 75 then run_out rb_step (rb_init cfg) ops
  else if sid =? 151 then run_out ix_step (ix_init cfg) ops
  else if sid =? 42 then run_out qc_step (ql_init cfg) ops
  else if sid =? 91 then run_out AliasModel.al_step (AliasModel.al_init cfg) ops
  else if sid =? 171 then run_out rgl_step (rgl_init cfg) ops
  else if sid =? 81 then run_out pl_step (pl_of_cfg cfg) ops
  else if sid =? 191 then run_out ghost_step (ghost_init cfg) ops
  else [].

Extraction "model.ml" run_stream drv_add drv_mul drv_divmod.
