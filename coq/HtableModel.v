(* HtableModel.v — the per-shard open-addressing table (htable.go) in its sequential view:
   every operation runs under the shard write lock, slots are {empty, tombstone, live item}.
   Loops carry explicit fuel = number of slots; `None`/error results mean "out of fuel" and
   are ruled out by the theorems (an empty slot always exists under the load bound). *)
Require Import KV.Base KV.Gen.Consts.
Open Scope Z_scope.

Record item := { ikey : Z; ihash : Z; ival : Z; iid : Z }.

Inductive cell := Empty | Tomb | Live (it : item).

Record cursor := { cgen : Z; cslot : nat; ctomb : bool }.

Record htable := {
  slots : list cell;
  live : Z;
  tombs : Z;
  pinned : option nat;
  gen : Z;          (* identity of the slot array: bumped by clear and rehash *)
  herr : bool       (* a loop ran out of fuel (never, under the invariant) *)
}.

(* htNormHash *)
Definition norm (h : Z) : Z := if h <? 2 then h + 2 else h.

Definition nslots (t : htable) : nat := length (slots t).
Definition home_in (n : nat) (h : Z) : nat := Z.to_nat (norm h mod Z.of_nat n).
Definition next_in (n i : nat) : nat := if Nat.eqb (S i) n then O else S i.
Definition prev_in (n i : nat) : nat := match i with O => Nat.pred n | S j => j end.

Definition getc (l : list cell) (i : nat) : cell := nth i l Empty.
Fixpoint setc (l : list cell) (i : nat) (c : cell) : list cell :=
  match l, i with
  | [], _ => []
  | _ :: r, O => c :: r
  | x :: r, S j => x :: setc r j c
  end.

Definition matches (it : item) (h k : Z) : bool := (norm (ihash it) =? norm h) && (ikey it =? k).

(* ---- lookup ---- *)
Fixpoint lookup_from (fuel : nat) (l : list cell) (n i : nat) (h k : Z) : option (option item) :=
  match fuel with
  | O => None
  | S f =>
    match getc l i with
    | Empty => Some None
    | Tomb => lookup_from f l n (next_in n i) h k
    | Live it => if matches it h k then Some (Some it) else lookup_from f l n (next_in n i) h k
    end
  end.
Definition lookup (t : htable) (h k : Z) : option item :=
  match lookup_from (nslots t) (slots t) (nslots t) (home_in (nslots t) h) h k with
  | Some r => r
  | None => None
  end.

(* ---- rehash / maybeGrow ---- *)
Fixpoint first_empty (fuel : nat) (l : list cell) (n i : nat) : option nat :=
  match fuel with
  | O => None
  | S f => match getc l i with Empty => Some i | _ => first_empty f l n (next_in n i) end
  end.

Definition reinsert (n : nat) (acc : list cell * bool) (c : cell) : list cell * bool :=
  match c with
  | Live it =>
    match first_empty n (fst acc) n (home_in n (ihash it)) with
    | Some j => (setc (fst acc) j (Live it), snd acc)
    | None => (fst acc, true)
    end
  | _ => acc
  end.

Definition count_live (l : list cell) : Z :=
  fold_left (fun a c => match c with Live _ => a + 1 | _ => a end) l 0.

Definition rehash (t : htable) (newN : nat) : htable :=
  let '(nl, e) := fold_left (reinsert newN) (slots t) (repeat Empty newN, false) in
  {| slots := nl; live := count_live nl; tombs := 0; pinned := None; gen := gen t + 1; herr := herr t || e |}.

Definition maybe_grow (t : htable) : htable :=
  let n := Z.of_nat (nslots t) in
  if (live t + tombs t) * htLoadDen <? n * htLoadNum then t
  else rehash t (if live t * htLoadDen >=? n * htLoadNum then (nslots t * 2)%nat else nslots t).

(* ---- store ---- *)
Inductive probe_res := PEmpty (at_ : nat) (tomb : bool) | PFound (slot : nat) (it : item) | PFuel.

(* one walk shared by store and probe: first tombstone remembered, stops at empty or match *)
Fixpoint walk_for (fuel : nat) (l : list cell) (n i : nat) (ft : option nat) (h k : Z) : probe_res :=
  match fuel with
  | O => PFuel
  | S f =>
    match getc l i with
    | Empty => match ft with Some j => PEmpty j true | None => PEmpty i false end
    | Tomb => walk_for f l n (next_in n i) (match ft with Some _ => ft | None => Some i end) h k
    | Live it => if matches it h k then PFound i it else walk_for f l n (next_in n i) ft h k
    end
  end.
Definition walk (t : htable) (h k : Z) : probe_res :=
  walk_for (nslots t) (slots t) (nslots t) (home_in (nslots t) h) None h k.

Definition with_slots (t : htable) (l : list cell) (lv tb : Z) (p : option nat) : htable :=
  {| slots := l; live := lv; tombs := tb; pinned := p; gen := gen t; herr := herr t |}.
Definition set_err (t : htable) : htable :=
  {| slots := slots t; live := live t; tombs := tombs t; pinned := pinned t; gen := gen t; herr := true |}.

Definition store (t : htable) (it : item) : htable * option item :=
  match walk t (ihash it) (ikey it) with
  | PEmpty j tomb =>
    (maybe_grow (with_slots t (setc (slots t) j (Live it)) (live t + 1)
                   (if tomb then tombs t - 1 else tombs t) (pinned t)), None)
  | PFound s cur => (with_slots t (setc (slots t) s (Live it)) (live t) (tombs t) (pinned t), Some cur)
  | PFuel => (set_err t, None)
  end.

(* ---- probe / publish / swapAt / unpin ---- *)
Definition probe (t : htable) (h k : Z) : htable * option (nat * item) * cursor :=
  match walk t h k with
  | PEmpty j tomb =>
    (with_slots t (slots t) (live t) (tombs t) (Some j), None, {| cgen := gen t; cslot := j; ctomb := tomb |})
  | PFound s it => (t, Some (s, it), {| cgen := -1; cslot := 0; ctomb := false |})
  | PFuel => (set_err t, None, {| cgen := -1; cslot := 0; ctomb := false |})
  end.

Definition publish (t : htable) (it : item) (cur : cursor) : htable :=
  let t0 := with_slots t (slots t) (live t) (tombs t) None in
  if negb (cgen cur =? gen t) then fst (store t0 it)
  else
    let wasTomb := ctomb cur && match getc (slots t) (cslot cur) with Tomb => true | _ => false end in
    maybe_grow (with_slots t (setc (slots t) (cslot cur) (Live it)) (live t + 1)
                  (if wasTomb then tombs t - 1 else tombs t) None).

Definition swap_at (t : htable) (s : nat) (it : item) : htable :=
  with_slots t (setc (slots t) s (Live it)) (live t) (tombs t) (pinned t).

Definition unpin (t : htable) : htable := with_slots t (slots t) (live t) (tombs t) None.

(* ---- removeExact / reclaimTombs ---- *)
Definition is_pin (p : option nat) (i : nat) : bool :=
  match p with Some q => Nat.eqb q i | None => false end.

Fixpoint reclaim_loop (fuel : nat) (l : list cell) (n i : nat) (p : option nat) (tb : Z) : list cell * Z :=
  match fuel with
  | O => (l, tb)
  | S f =>
    if is_pin p i then (l, tb)
    else match getc l i with
         | Tomb => reclaim_loop f (setc l i Empty) n (prev_in n i) p (tb - 1)
         | _ => (l, tb)
         end
  end.

Definition reclaim_tombs (l : list cell) (n i : nat) (p : option nat) (tb : Z) : list cell * Z :=
  let nx := next_in n i in
  if is_pin p nx then (l, tb)
  else match getc l nx with
       | Empty => reclaim_loop n l n i p tb
       | _ => (l, tb)
       end.

Fixpoint find_exact (fuel : nat) (l : list cell) (n i : nat) (it : item) : option (option nat) :=
  match fuel with
  | O => None
  | S f =>
    match getc l i with
    | Empty => Some None
    | Tomb => find_exact f l n (next_in n i) it
    | Live cur => if (norm (ihash cur) =? norm (ihash it)) && (iid cur =? iid it) then Some (Some i)
                  else find_exact f l n (next_in n i) it
    end
  end.

Definition remove_exact (t : htable) (it : item) : htable * bool :=
  match find_exact (nslots t) (slots t) (nslots t) (home_in (nslots t) (ihash it)) it with
  | Some (Some i) =>
    let l1 := setc (slots t) i Tomb in
    let '(l2, tb) := reclaim_tombs l1 (nslots t) i (pinned t) (tombs t + 1) in
    (with_slots t l2 (live t - 1) tb (pinned t), true)
  | Some None => (t, false)
  | None => (set_err t, false)
  end.

Definition clear (t : htable) : htable :=
  {| slots := repeat Empty (nslots t); live := 0; tombs := 0; pinned := None; gen := gen t + 1; herr := herr t |}.

Definition contents (t : htable) : list item :=
  flat_map (fun c => match c with Live it => [it] | _ => [] end) (slots t).

Definition new_table (capHint : Z) : htable :=
  let n := Z.to_nat (Z.max (if capHint * 2 <=? 1 then 1 else 2 ^ (Z.log2 (capHint * 2 - 1) + 1)) htMinSlots) in
  {| slots := repeat Empty n; live := 0; tombs := 0; pinned := None; gen := 0; herr := false |}.

(* ---- stream "ht": the VerifHtable wrapper ---- *)
Record htstate := {
  tab : htable;
  hcur : cursor;
  hslot : nat;
  lastobj : list (Z * item);   (* most recent item object created per key *)
  nextid : Z
}.

Fixpoint assoc_get (l : list (Z * item)) (k : Z) : option item :=
  match l with [] => None | (k', v) :: r => if k' =? k then Some v else assoc_get r k end.
Definition assoc_set (l : list (Z * item)) (k : Z) (v : item) : list (Z * item) := (k, v) :: l.

Definition mk (s : htstate) (k h v : Z) : item := {| ikey := k; ihash := h; ival := v; iid := nextid s |}.
Definition upd_state (s : htstate) (t : htable) (newobj : option item) : htstate :=
  {| tab := t; hcur := hcur s; hslot := hslot s;
     lastobj := match newobj with Some it => assoc_set (lastobj s) (ikey it) it | None => lastobj s end;
     nextid := match newobj with Some _ => nextid s + 1 | None => nextid s end |}.

Definition ht_obs (t : htable) : list Z := [live t; b2z (herr t)].

Definition ht_step (s : htstate) (op : list Z) : htstate * list Z :=
  match op with
  | [1; k; h; v] =>
    let it := mk s k h v in
    let '(t1, prev) := store (tab s) it in
    (upd_state s t1 (Some it),
     match prev with Some p => [1; ival p] | None => [0; 0] end ++ ht_obs t1)
  | [2; k; h] =>
    (s, match lookup (tab s) h k with Some it => [1; ival it] | None => [0; 0] end)
  | [3; k; h] =>
    let '(t1, found, cur) := probe (tab s) h k in
    ({| tab := t1; hcur := cur; hslot := match found with Some (sl, _) => sl | None => O end;
        lastobj := lastobj s; nextid := nextid s |},
     match found with Some (_, it) => [1; ival it] | None => [0; 0] end)
  | [4; k; h; v] =>
    let it := mk s k h v in
    let t1 := swap_at (tab s) (hslot s) it in
    (upd_state s t1 (Some it), ht_obs t1)
  | [5; k; h; v] =>
    let it := mk s k h v in
    let t1 := publish (tab s) it (hcur s) in
    (upd_state s t1 (Some it), ht_obs t1)
  | [6] => let t1 := unpin (tab s) in (upd_state s t1 None, ht_obs t1)
  | [7; k; h] =>
    match lookup (tab s) h k with
    | Some it => let '(t1, ok) := remove_exact (tab s) it in (upd_state s t1 None, [b2z ok] ++ ht_obs t1)
    | None => (s, [0] ++ ht_obs (tab s))
    end
  | [8; k] =>
    match assoc_get (lastobj s) k with
    | Some it => let '(t1, ok) := remove_exact (tab s) it in (upd_state s t1 None, [b2z ok; 1] ++ ht_obs t1)
    | None => (s, [0; 0] ++ ht_obs (tab s))
    end
  | [9] =>
    let t1 := clear (tab s) in
    ({| tab := t1; hcur := hcur s; hslot := hslot s; lastobj := []; nextid := nextid s |}, ht_obs t1)
  | _ => (s, [-1])
  end.

Definition ht_init (cfg : list Z) : htstate :=
  {| tab := new_table (match cfg with [c] => c | _ => 0 end);
     hcur := {| cgen := -1; cslot := 0; ctomb := false |}; hslot := O; lastobj := []; nextid := 0 |}.
