(* ShutdownApply.v: the end of Close against calls that drain a shard's ring after Close has finished (finding F15).

   Go code modelled (cache.go Close, writes.go applyWriteBatch / clearDirect), one shard:
     Close, last steps:   [finalized.Store(true)]          (only in the repaired code: parameter [fixed])
                          s.mu.Lock(); clearShard(s); s.mu.Unlock()
     a late drainer:      s.mu.Lock(); for each Set command: if finalized { skip } else { applySet }; s.mu.Unlock()
   A late drainer is any call that began before Close and reaches applyWriteBatch afterwards with a command that
   was published during shutdown (Sync, Clear, a SieveTinyLFU Get miss, the helper of a synchronous writer).
   Any number of them, every interleaving.  [size] counts the entries of the shard. *)
From Coq Require Import List Arith Bool Lia.
Import ListNotations.

Inductive pcC := C0 | C1 | C2 | C3 | CDone.           (* before the flag / flag set / lock held / cleared / released *)
Inductive pcD := D0 | D1 | D2 | DDone.                 (* before the lock / lock held / command handled / released *)

Record st := mkSt { fin : bool; lock : option nat; size : nat; pcc : pcC; pcd : list pcD }.
(* lock owner: 0 = the closer, S i = drainer i *)

Inductive label := LC | LD (i : nat).

Fixpoint upd_nth (l : list pcD) (i : nat) (x : pcD) : list pcD :=
  match l, i with
  | [], _ => []
  | _ :: r, O => x :: r
  | y :: r, S j => y :: upd_nth r j x
  end.

Definition step (fixed : bool) (s : st) (l : label) : option st :=
  match l with
  | LC =>
      match pcc s with
      | C0 => Some (mkSt (if fixed then true else fin s) (lock s) (size s) C1 (pcd s))
      | C1 => match lock s with
              | None => Some (mkSt (fin s) (Some 0) (size s) C2 (pcd s))
              | Some _ => None
              end
      | C2 => Some (mkSt (fin s) (lock s) 0 C3 (pcd s))
      | C3 => Some (mkSt (fin s) None (size s) CDone (pcd s))
      | CDone => None
      end
  | LD i =>
      match nth_error (pcd s) i with
      | Some D0 => match lock s with
                   | None => Some (mkSt (fin s) (Some (S i)) (size s) (pcc s) (upd_nth (pcd s) i D1))
                   | Some _ => None
                   end
      | Some D1 => Some (mkSt (fin s) (lock s) (if fin s then size s else S (size s)) (pcc s) (upd_nth (pcd s) i D2))
      | Some D2 => Some (mkSt (fin s) None (size s) (pcc s) (upd_nth (pcd s) i DDone))
      | _ => None
      end
  end.

Definition init (n0 : nat) (k : nat) : st := mkSt false None n0 C0 (repeat D0 k).

Inductive reachable (fixed : bool) (n0 k : nat) : st -> Prop :=
| r_init : reachable fixed n0 k (init n0 k)
| r_step s l s' : reachable fixed n0 k s -> step fixed s l = Some s' -> reachable fixed n0 k s'.

Fixpoint exec (fixed : bool) (s : st) (ls : list label) : option st :=
  match ls with
  | [] => Some s
  | l :: r => match step fixed s l with Some s1 => exec fixed s1 r | None => None end
  end.

(* the invariant of the repaired code: the flag is up from the closer's first step on, and once the closer has
   cleared the shard it stays empty *)
Definition Inv (s : st) : Prop :=
  (pcc s <> C0 -> fin s = true) /\ ((pcc s = C3 \/ pcc s = CDone) -> size s = 0).

Lemma inv_step s l s' : Inv s -> step true s l = Some s' -> Inv s'.
Proof.
  intros [Hf Hz] H. destruct l as [|i]; cbn [step] in H.
  - destruct (pcc s) eqn:E.
    + injection H as <-. split; cbn; [reflexivity|]. intros [X|X]; discriminate.
    + destruct (lock s); [discriminate|]. injection H as <-. split; cbn.
      * intros _. apply Hf. discriminate.
      * intros [X|X]; discriminate.
    + injection H as <-. split; cbn.
      * intros _. apply Hf. discriminate.
      * reflexivity.
    + injection H as <-. split; cbn.
      * intros _. apply Hf. discriminate.
      * intros _. apply Hz. left. reflexivity.
    + discriminate.
  - destruct (nth_error (pcd s) i) as [[| | |]|]; try discriminate.
    + destruct (lock s); [discriminate|]. injection H as <-. split; cbn; assumption.
    + injection H as <-. split; cbn; [assumption|].
      intros X. assert (F : fin s = true).
      { apply Hf. destruct X as [X|X]; rewrite X; discriminate. }
      rewrite F. apply Hz. exact X.
    + injection H as <-. split; cbn; assumption.
Qed.

Lemma inv_reachable n0 k s : reachable true n0 k s -> Inv s.
Proof.
  induction 1 as [|s l s' R IH S].
  - split; cbn; [congruence|]. intros [X|X]; discriminate.
  - eapply inv_step; eassumption.
Qed.

(* F15, repaired code: whatever the late drainers do and whenever they do it, once Close has returned the shard is
   empty and stays empty (for any number of drainers and any initial contents) *)
Theorem closed_cache_stays_empty n0 k s :
  reachable true n0 k s -> pcc s = CDone -> size s = 0.
Proof. intros R E. apply (inv_reachable _ _ _ R). right. exact E. Qed.

(* the code before the repair: one late drainer, the schedule of the replay (Close runs to completion, then the drainer
   applies its command) leaves an entry in the closed cache *)
Theorem closed_cache_refuted_before_fix :
  exists s, exec false (init 1 1) [LC; LC; LC; LC; LD 0; LD 0; LD 0] = Some s /\
            pcc s = CDone /\ pcd s = [DDone] /\ size s = 1.
Proof. eexists. split; [vm_compute; reflexivity|]. repeat split. Qed.

(* non-vacuity of the theorem: the same schedule on the repaired code is a reachable run, and ends empty *)
Lemma exec_reachable fixed n0 k ls : forall s s', reachable fixed n0 k s -> exec fixed s ls = Some s' -> reachable fixed n0 k s'.
Proof.
  induction ls as [|l r IH]; cbn [exec]; intros s s' R E.
  - injection E as <-. exact R.
  - destruct (step fixed s l) as [s1|] eqn:S1; [|discriminate]. eapply IH; [|exact E]. econstructor; eassumption.
Qed.

Example same_schedule_after_fix :
  exists s, exec true (init 1 1) [LC; LC; LC; LC; LD 0; LD 0; LD 0] = Some s /\
            reachable true 1 1 s /\ pcc s = CDone /\ pcd s = [DDone] /\ size s = 0.
Proof.
  eexists. split; [vm_compute; reflexivity|]. split.
  - apply (exec_reachable true 1 1 [LC; LC; LC; LC; LD 0; LD 0; LD 0] (init 1 1)); [apply r_init|]. vm_compute. reflexivity.
  - repeat split.
Qed.

Print Assumptions closed_cache_stays_empty.
Print Assumptions closed_cache_refuted_before_fix.
