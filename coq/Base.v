(* Base.v — shared definitions: Go integer arithmetic in Z, small list helpers.
   Style: stdlib only; every later file imports this one. *)
From Coq Require Export List ZArith NArith Bool Lia.
From Coq Require Export ZifyBool ZifyNat ZifyN.
Export ListNotations.
Open Scope Z_scope.

(* ---- Go int64 / int (64-bit) arithmetic: unbounded Z plus explicit wrap ---- *)

Definition two63 : Z := 9223372036854775808.
Definition two64 : Z := 18446744073709551616.
Definition max_int64 : Z := two63 - 1.

(* signed 64-bit wrap-around of a mathematical integer *)
Definition wrap64 (z : Z) : Z := ((z + two63) mod two64) - two63.

(* unsigned 64-bit wrap *)
Definition uwrap64 (z : Z) : Z := z mod two64.

Lemma wrap64_small z : - two63 <= z < two63 -> wrap64 z = z.
Proof.
  unfold wrap64, two63, two64; intros H.
  rewrite Z.mod_small by lia. lia.
Qed.

Lemma wrap64_range z : - two63 <= wrap64 z < two63.
Proof.
  unfold wrap64, two63, two64.
  pose proof (Z.mod_pos_bound (z + 9223372036854775808) 18446744073709551616 ltac:(lia)). lia.
Qed.

(* bits.Len of a non-negative integer: number of bits needed *)
Definition bits_len (z : Z) : Z := if z <=? 0 then 0 else Z.log2 z + 1.

(* Go: min / max builtins *)
Definition zmin := Z.min.
Definition zmax := Z.max.

(* Go integer division truncates toward zero; all uses here have non-negative
   operands, where it coincides with Z.div (checked in the theorems' hypotheses). *)

(* ---- booleans as Z ---- *)
Definition b2z (b : bool) : Z := if b then 1 else 0.
Definition z2b (z : Z) : bool := negb (z =? 0).

(* ---- lists ---- *)
Fixpoint zseq (start : Z) (len : nat) : list Z :=
  match len with O => [] | S n => start :: zseq (start + 1) n end.

Definition nthZ (l : list Z) (i : nat) : Z := nth i l 0.

Fixpoint sumZ (l : list Z) : Z :=
  match l with [] => 0 | x :: r => x + sumZ r end.

Lemma sumZ_app a b : sumZ (a ++ b) = sumZ a + sumZ b.
Proof. induction a as [|x a IH]; cbn [sumZ app]; lia. Qed.

(* generic driver fold: run a step function over inputs, collecting outputs *)
Section Run.
  Variables (S I O : Type) (step : S -> I -> S * O).
  Fixpoint run (s : S) (ins : list I) : S * list O :=
    match ins with
    | [] => (s, [])
    | i :: r => let '(s1, o) := step s i in
                let '(s2, os) := run s1 r in (s2, o :: os)
    end.
  Definition run_out (s : S) (ins : list I) : list O := snd (run s ins).
  Definition run_state (s : S) (ins : list I) : S := fst (run s ins).

  Lemma run_state_fold s ins :
    run_state s ins = fold_left (fun st i => fst (step st i)) ins s.
  Proof.
    unfold run_state. revert s; induction ins as [|i r IH]; intros s; cbn [run fold_left]; [reflexivity|].
    destruct (step s i) as [s1 o] eqn:E. specialize (IH s1).
    destruct (run s1 r) as [s2 os]. cbn [fst] in *. exact IH.
  Qed.
End Run.
Arguments run {S I O}.
Arguments run_out {S I O}.
Arguments run_state {S I O}.
