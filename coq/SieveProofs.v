(* SieveProofs.v — machine-checked properties of the SieveTinyLFU write path of CacheModel.v. *)
Require Import KV.Base KV.Gen.Consts KV.ConfigModel KV.CacheModel.
From Coq Require Import Permutation.
Open Scope Z_scope.

(* ================================================================== list library *)
Definition items (s : shard) : list item := prob s ++ main s.
Definition keys (l : list item) : list Z := map key l.

Lemma find_item_some l k it : find_item l k = Some it -> In it l /\ key it = k.
Proof.
  induction l as [|x l IH]; cbn [find_item]; [discriminate|].
  destruct (key x =? k) eqn:E; intros H.
  - injection H as <-. split; [left; reflexivity|lia].
  - destruct (IH H) as [A B]. split; [right; exact A|exact B].
Qed.

Lemma find_item_none l k : find_item l k = None <-> ~ In k (keys l).
Proof.
  induction l as [|x l IH]; cbn [find_item keys map In].
  - split; [intros _ []|reflexivity].
  - destruct (key x =? k) eqn:E.
    + split; [discriminate|]. intros H. exfalso. apply H. left. lia.
    + rewrite IH. unfold keys. split; intros H.
      * intros [A|A]; [lia|exact (H A)].
      * intros A. apply H. right. exact A.
Qed.

Lemma find_item_in l k : In k (keys l) -> exists it, find_item l k = Some it.
Proof.
  intros H. destruct (find_item l k) as [it|] eqn:E; [exists it; reflexivity|].
  apply find_item_none in E. contradiction.
Qed.

Lemma has_key_true l k : has_key l k = true <-> In k (keys l).
Proof.
  unfold has_key. destruct (find_item l k) as [it|] eqn:E.
  - split; [intros _|reflexivity]. apply find_item_some in E. destruct E as [A <-].
    unfold keys. apply in_map. exact A.
  - split; [discriminate|]. apply find_item_none in E. intros A. contradiction.
Qed.

Lemma has_key_false l k : has_key l k = false <-> ~ In k (keys l).
Proof.
  rewrite <- has_key_true. destruct (has_key l k); intuition congruence.
Qed.

Lemma memz_true l k : memz l k = true <-> In k l.
Proof.
  induction l as [|x l IH]; cbn [memz In]; [split; [discriminate|intros []]|].
  rewrite orb_true_iff, IH, Z.eqb_eq. reflexivity.
Qed.

Lemma memz_false l k : memz l k = false <-> ~ In k l.
Proof.
  rewrite <- memz_true. destruct (memz l k); intuition congruence.
Qed.

Lemma remz_in l k x : In x (remz l k) -> In x l.
Proof.
  induction l as [|y l IH]; cbn [remz]; [intros []|].
  destruct (y =? k); cbn [In]; intros H; [right; exact H|].
  destruct H as [H|H]; [left; exact H|right; exact (IH H)].
Qed.

Lemma remz_spec l k x : NoDup l -> (In x (remz l k) <-> In x l /\ x <> k).
Proof.
  induction l as [|y l IH]; cbn [remz In]; intros ND.
  - split; [intros []|intros [[] _]].
  - inversion ND as [|y' l' Hy ND']; subst. destruct (y =? k) eqn:E.
    + apply Z.eqb_eq in E. subst y. split.
      * intros H. split; [right; exact H|]. intros ->. contradiction.
      * intros [[H|H] N]; [congruence|exact H].
    + apply Z.eqb_neq in E. cbn [In]. rewrite (IH ND'). split.
      * intros [H|[H N]]; [subst; split; [left; reflexivity|exact E]|split; [right; exact H|exact N]].
      * intros [[H|H] N]; [left; exact H|right; split; assumption].
Qed.

Lemma remz_nodup l k : NoDup l -> NoDup (remz l k).
Proof.
  induction l as [|y l IH]; cbn [remz]; intros ND; [constructor|].
  inversion ND as [|y' l' Hy ND']; subst. destruct (y =? k); [exact ND'|].
  constructor; [|exact (IH ND')]. intros H. apply Hy. exact (remz_in _ _ _ H).
Qed.

(* split characterisations: with distinct keys, the first item carrying a key is the only one *)
Lemma in_split_key l it : In it l -> NoDup (keys l) ->
  exists l1 l2, l = l1 ++ it :: l2 /\ ~ In (key it) (keys l1) /\ ~ In (key it) (keys l2).
Proof.
  intros H ND. destruct (in_split _ _ H) as [l1 [l2 ->]]. exists l1, l2.
  split; [reflexivity|]. unfold keys in *. rewrite map_app in ND. cbn [map] in ND.
  pose proof (NoDup_remove_2 _ _ _ ND) as N. split; intros A; apply N; apply in_or_app; [left|right]; exact A.
Qed.

Lemma find_item_app l1 it l2 : ~ In (key it) (keys l1) -> find_item (l1 ++ it :: l2) (key it) = Some it.
Proof.
  induction l1 as [|x l1 IH]; cbn [app find_item keys map In]; intros H.
  - rewrite Z.eqb_refl. reflexivity.
  - destruct (key x =? key it) eqn:E; [exfalso; apply H; left; lia|].
    apply IH. intros A. apply H. right. exact A.
Qed.

Lemma replace_item_app l1 it l2 n : ~ In (key it) (keys l1) -> key n = key it ->
  replace_item (l1 ++ it :: l2) n = l1 ++ n :: l2.
Proof.
  intros H K. induction l1 as [|x l1 IH]; cbn [app replace_item keys map In] in *.
  - rewrite K, Z.eqb_refl. reflexivity.
  - destruct (key x =? key n) eqn:E; [exfalso; apply H; left; lia|].
    f_equal. apply IH. intros A. apply H. right. exact A.
Qed.

Lemma remove_key_app l1 it l2 : ~ In (key it) (keys l1) -> remove_key (l1 ++ it :: l2) (key it) = l1 ++ l2.
Proof.
  intros H. induction l1 as [|x l1 IH]; cbn [app remove_key keys map In] in *.
  - rewrite Z.eqb_refl. reflexivity.
  - destruct (key x =? key it) eqn:E; [exfalso; apply H; left; lia|].
    f_equal. apply IH. intros A. apply H. right. exact A.
Qed.

Lemma remove_key_notin l k : ~ In k (keys l) -> remove_key l k = l.
Proof.
  induction l as [|x l IH]; cbn [remove_key keys map In]; intros H; [reflexivity|].
  destruct (key x =? k) eqn:E; [exfalso; apply H; left; lia|].
  f_equal. apply IH. intros A. apply H. right. exact A.
Qed.

Lemma replace_item_notin l n : ~ In (key n) (keys l) -> replace_item l n = l.
Proof.
  induction l as [|x l IH]; cbn [replace_item keys map In]; intros H; [reflexivity|].
  destruct (key x =? key n) eqn:E; [exfalso; apply H; left; lia|].
  f_equal. apply IH. intros A. apply H. right. exact A.
Qed.

Lemma last_item_some l it : last_item l = Some it -> exists l', l = l' ++ [it].
Proof.
  unfold last_item. destruct (rev l) as [|x r] eqn:E; [discriminate|].
  intros H. injection H as ->. exists (rev r).
  rewrite <- (rev_involutive l), E. reflexivity.
Qed.

Lemma last_item_none l : last_item l = None -> l = [].
Proof.
  unfold last_item. destruct (rev l) as [|x r] eqn:E; [|discriminate].
  intros _. rewrite <- (rev_involutive l), E. reflexivity.
Qed.

Lemma last_item_in l it : last_item l = Some it -> In it l.
Proof. intros H. destruct (last_item_some _ _ H) as [l' ->]. apply in_or_app. right. left. reflexivity. Qed.

Lemma index_of_some l k : forall i j, index_of l k i = Some j -> (i <= j)%nat /\ exists it, nth_error l (j - i) = Some it /\ key it = k.
Proof.
  induction l as [|x l IH]; cbn [index_of]; intros i j H; [discriminate|].
  destruct (key x =? k) eqn:E.
  - injection H as <-. split; [lia|]. exists x. rewrite Nat.sub_diag. split; [reflexivity|lia].
  - destruct (IH _ _ H) as [A [it [B C]]]. split; [lia|]. exists it. split; [|exact C].
    replace (j - i)%nat with (S (j - S i)) by lia. exact B.
Qed.

Lemma key_at_in l i k : key_at l i = Some k -> In k (keys l).
Proof.
  unfold key_at. destruct (nth_error l i) as [it|] eqn:E; [|discriminate].
  intros H. injection H as <-. unfold keys. apply in_map. exact (nth_error_In _ _ E).
Qed.

Lemma prev_main_some m k pk : prev_main m k = Some pk -> In pk (keys m) /\ pk <> k.
Proof.
  unfold prev_main. destruct (index_of m k 0) as [i|]; [|discriminate].
  destruct i as [|j].
  - destruct (key_at m (Nat.pred (length m))) as [p|] eqn:E; [|discriminate].
    destruct (p =? k) eqn:F; [discriminate|]. intros H. injection H as <-.
    split; [exact (key_at_in _ _ _ E)|lia].
  - destruct (key_at m j) as [p|] eqn:E; [|discriminate].
    destruct (p =? k) eqn:F; [discriminate|]. intros H. injection H as <-.
    split; [exact (key_at_in _ _ _ E)|lia].
Qed.

(* ================================================================== essences, invariants *)
(* the part of an item that the policy never touches *)
Definition ess (it : item) : Z * Z * Z * Z * bool := (key it, val it, exp it, cost it, unpub it).
Definition ekey (t : Z * Z * Z * Z * bool) : Z := fst (fst (fst (fst t))).
Definition evalue (t : Z * Z * Z * Z * bool) : Z := snd (fst (fst (fst t))).
Definition ecost (t : Z * Z * Z * Z * bool) : Z := snd (fst t).
Definition eunpub (t : Z * Z * Z * Z * bool) : bool := snd t.

Lemma keys_ess l : keys l = map ekey (map ess l).
Proof. unfold keys. rewrite map_map. reflexivity. Qed.
Lemma costs_ess l : map cost l = map ecost (map ess l).
Proof. rewrite map_map. reflexivity. Qed.

Ltac fields :=
  cbn [cap costcap tabk lst lfu prob main hand pcap mcap pmin pmax size scost staged evs pend admits rejects
       ghosthits promos pevicts mevicts serr glog nlog sh_set sh_lists sh_caps sh_evs sh_stats sh_err sh_ghost
       set_hand bump].
Ltac fields_in H :=
  cbn [cap costcap tabk lst lfu prob main hand pcap mcap pmin pmax size scost staged evs pend admits rejects
       ghosthits promos pevicts mevicts serr glog nlog sh_set sh_lists sh_caps sh_evs sh_stats sh_err sh_ghost
       set_hand bump] in H.

Record SInvF (cap_ pcap_ mcap_ pmin_ pmax_ : Z) (tabk_ : list Z) (lst_ : list item) (lfu_ : list (Z * list Z))
   (prob_ main_ : list item) (hand_ : option Z) (size_ scost_ : Z) : Prop := {
  iv_nodup : NoDup (map key (prob_ ++ main_));
  iv_tabnd : NoDup tabk_;
  iv_tab : forall k, In k tabk_ <-> exists it, In it (prob_ ++ main_) /\ key it = k /\ unpub it = false;
  iv_size : size_ = zlen prob_ + zlen main_;
  iv_cost : scost_ = sumZ (map cost (prob_ ++ main_));
  iv_costnn : forall it, In it (prob_ ++ main_) -> 0 <= cost it;
  iv_hand : forall h, hand_ = Some h -> In h (map key main_);
  iv_caps : pcap_ + mcap_ = cap_;
  iv_bounds : 1 <= pmin_ /\ pmin_ <= pcap_ /\ pcap_ <= pmax_ /\ pmax_ <= cap_;
  iv_classic : lst_ = [] /\ lfu_ = [];
  iv_cap : 1 <= cap_ }.

Definition SInv (s : shard) : Prop :=
  SInvF (cap s) (pcap s) (mcap s) (pmin s) (pmax s) (tabk s) (lst s) (lfu s) (prob s) (main s) (hand s) (size s) (scost s).

Definition Quiet (s : shard) : Prop := forall it, In it (items s) -> unpub it = false.
Definition PendLe (s : shard) (k : Z) : Prop := forall it, In it (items s) -> unpub it = true -> key it = k.
Definition Pending (s : shard) (k : Z) : Prop :=
  PendLe s k /\ exists it, In it (items s) /\ key it = k /\ unpub it = true.

Lemma Quiet_PendLe s k : Quiet s -> PendLe s k.
Proof. intros Q it H U. rewrite (Q it H) in U. discriminate. Qed.

(* the list-dependent part of SInv, over essences *)
Definition EInv (tb : list Z) (sz sc : Z) (E : list (Z * Z * Z * Z * bool)) : Prop :=
  NoDup (map ekey E) /\
  (forall k, In k tb <-> exists t, In t E /\ ekey t = k /\ eunpub t = false) /\
  sz = Z.of_nat (length E) /\ sc = sumZ (map ecost E) /\ (forall t, In t E -> 0 <= ecost t).

Lemma sumZ_perm a b : Permutation a b -> sumZ a = sumZ b.
Proof. induction 1; cbn [sumZ]; lia. Qed.

Lemma EInv_perm tb sz sc E E' : Permutation E E' -> EInv tb sz sc E -> EInv tb sz sc E'.
Proof.
  intros P (A & B & C & D & F). repeat split.
  - exact (Permutation_NoDup (Permutation_map ekey P) A).
  - intros H. apply B in H. destruct H as [t [H1 H2]]. exists t. split; [exact (Permutation_in _ P H1)|exact H2].
  - intros [t [H1 H2]]. apply B. exists t. split; [exact (Permutation_in _ (Permutation_sym P) H1)|exact H2].
  - rewrite <- (Permutation_length P). exact C.
  - rewrite <- (sumZ_perm _ _ (Permutation_map ecost P)). exact D.
  - intros t H. apply F. exact (Permutation_in _ (Permutation_sym P) H).
Qed.

Lemma EInv_drop tb sz sc t E : NoDup tb -> EInv tb sz sc (t :: E) ->
  EInv (if eunpub t then tb else remz tb (ekey t)) (sz - 1) (sc - ecost t) E.
Proof.
  intros ND (A & B & C & D & F). cbn [map length sumZ] in *.
  inversion A as [|x l Hx A']; subst. repeat split.
  - exact A'.
  - intros H. destruct (eunpub t) eqn:U.
    + apply B in H. destruct H as [t' [[H1|H1] [H2 H3]]]; [subst t'; congruence|].
      exists t'. repeat split; assumption.
    + apply (remz_spec _ _ _ ND) in H. destruct H as [H N]. apply B in H.
      destruct H as [t' [[H1|H1] [H2 H3]]]; [subst t'; congruence|].
      exists t'. repeat split; assumption.
  - intros [t' [H1 [H2 H3]]]. assert (G : In k tb).
    { apply B. exists t'. split; [right; exact H1|split; assumption]. }
    destruct (eunpub t); [exact G|]. apply (remz_spec _ _ _ ND). split; [exact G|].
    intros ->. apply Hx. rewrite <- H2. apply in_map. exact H1.
  - lia.
  - lia.
  - intros t' H. apply F. right. exact H.
Qed.

Lemma SInv_ess s :
  SInv s <->
  EInv (tabk s) (size s) (scost s) (map ess (items s)) /\ NoDup (tabk s) /\
  (forall h, hand s = Some h -> In h (keys (main s))) /\
  pcap s + mcap s = cap s /\ (1 <= pmin s /\ pmin s <= pcap s /\ pcap s <= pmax s /\ pmax s <= cap s) /\
  (lst s = [] /\ lfu s = []) /\ 1 <= cap s.
Proof.
  unfold SInv, items, keys. split.
  - intros [A B C D F G H I J K L]. repeat split; try assumption; try lia; try tauto.
    + change (map key (prob s ++ main s)) with (keys (prob s ++ main s)) in A. rewrite keys_ess in A. exact A.
    + intros X. apply C in X. destruct X as [it [X1 [X2 X3]]]. exists (ess it).
      split; [apply in_map; exact X1|split; assumption].
    + intros [t [X1 [X2 X3]]]. apply in_map_iff in X1. destruct X1 as [it [<- X1]]. apply C.
      exists it. split; [exact X1|split; assumption].
    + rewrite map_length, app_length, Nat2Z.inj_add. exact D.
    + rewrite <- costs_ess. exact F.
    + intros t X. apply in_map_iff in X. destruct X as [it [<- X]]. exact (G it X).
  - intros ((A & C & D & F & G) & B & H & I & J & K & L). constructor; try assumption.
    + change (map key (prob s ++ main s)) with (keys (prob s ++ main s)). rewrite keys_ess. exact A.
    + intros k. rewrite C. split.
      * intros [t [X1 [X2 X3]]]. apply in_map_iff in X1. destruct X1 as [it [<- X1]].
        exists it. split; [exact X1|split; assumption].
      * intros [it [X1 [X2 X3]]]. exists (ess it). split; [apply in_map; exact X1|split; assumption].
    + rewrite map_length, app_length, Nat2Z.inj_add in D. exact D.
    + rewrite costs_ess. exact F.
    + intros it X. apply (G (ess it)). apply in_map. exact X.
Qed.

(* config and classic-policy fields that the Sieve write path never changes *)
Definition Frame (s s' : shard) : Prop :=
  cap s' = cap s /\ costcap s' = costcap s /\ pcap s' = pcap s /\ mcap s' = mcap s /\
  pmin s' = pmin s /\ pmax s' = pmax s /\ lst s' = lst s /\ lfu s' = lfu s.

Lemma Frame_refl s : Frame s s.
Proof. unfold Frame. repeat split. Qed.
Lemma Frame_trans a b c : Frame a b -> Frame b c -> Frame a c.
Proof. unfold Frame. intros H1 H2. intuition congruence. Qed.

(* transfer: same essences up to permutation *)
Lemma SInv_transfer s s' :
  SInv s -> Frame s s' -> Permutation (map ess (items s)) (map ess (items s')) ->
  tabk s' = tabk s -> size s' = size s -> scost s' = scost s ->
  (forall h, hand s' = Some h -> In h (keys (main s'))) -> SInv s'.
Proof.
  intros I F P T Zs C H. apply SInv_ess in I. apply SInv_ess.
  destruct I as (A & B & _ & D). destruct F as (F1 & F2 & F3 & F4 & F5 & F6 & F7 & F8).
  rewrite T, Zs, C, F1, F3, F4, F5, F6, F7, F8.
  split; [exact (EInv_perm _ _ _ _ _ P A)|]. split; [exact B|]. split; [exact H|exact D].
Qed.

Lemma SInv_transfer_drop s s' it :
  SInv s -> Frame s s' -> Permutation (map ess (items s)) (ess it :: map ess (items s')) ->
  tabk s' = (if unpub it then tabk s else remz (tabk s) (key it)) -> size s' = size s - 1 ->
  scost s' = scost s - cost it ->
  (forall h, hand s' = Some h -> In h (keys (main s'))) -> SInv s'.
Proof.
  intros I F P T Zs C H. apply SInv_ess in I. apply SInv_ess.
  destruct I as (A & B & _ & D). destruct F as (F1 & F2 & F3 & F4 & F5 & F6 & F7 & F8).
  rewrite T, Zs, C, F1, F3, F4, F5, F6, F7, F8.
  split; [exact (EInv_drop _ _ _ _ _ B (EInv_perm _ _ _ _ _ P A))|].
  split; [destruct (unpub it); [exact B|exact (remz_nodup _ _ B)]|]. split; [exact H|exact D].
Qed.

(* ================================================================== queue surgery *)
Lemma nodup_app_both {A} (a b : list A) : NoDup (a ++ b) -> NoDup a /\ NoDup b.
Proof.
  induction a as [|x a IH]; cbn [app]; intros ND; [split; [constructor|exact ND]|].
  inversion ND as [|y l Hy ND']; subst. destruct (IH ND') as [A1 B]. split; [|exact B].
  constructor; [|exact A1]. intros H. apply Hy. apply in_or_app. left. exact H.
Qed.
Lemma nodup_keys_app_l p m : NoDup (keys (p ++ m)) -> NoDup (keys p).
Proof. unfold keys. rewrite map_app. intros H. exact (proj1 (nodup_app_both _ _ H)). Qed.
Lemma nodup_keys_app_r p m : NoDup (keys (p ++ m)) -> NoDup (keys m).
Proof. unfold keys. rewrite map_app. intros H. exact (proj2 (nodup_app_both _ _ H)). Qed.
Lemma nodup_keys_disj p m k : NoDup (keys (p ++ m)) -> In k (keys p) -> ~ In k (keys m).
Proof.
  unfold keys. rewrite map_app. induction (map key p) as [|x l IH]; cbn [app In]; intros ND H; [destruct H|].
  inversion ND as [|y l' Hy ND']; subst. destruct H as [->|H]; [|exact (IH ND' H)].
  intros A. apply Hy. apply in_or_app. right. exact A.
Qed.

Lemma replace_ess l it n : In it l -> NoDup (keys l) -> ess n = ess it ->
  map ess (replace_item l n) = map ess l.
Proof.
  intros H ND E. destruct (in_split_key _ _ H ND) as [l1 [l2 [-> [N1 N2]]]].
  assert (K : key n = key it) by (unfold ess in E; congruence).
  rewrite (replace_item_app _ _ _ _ N1 K). rewrite !map_app. cbn [map]. rewrite E. reflexivity.
Qed.

Lemma replace_keys l it n : In it l -> NoDup (keys l) -> ess n = ess it -> keys (replace_item l n) = keys l.
Proof. intros H ND E. rewrite !keys_ess, (replace_ess _ _ _ H ND E). reflexivity. Qed.

Lemma replace_flags_ess l it r v : In it l -> NoDup (keys l) ->
  map ess (replace_item l (set_flags it r v (unpub it))) = map ess l.
Proof. intros H ND. exact (replace_ess l it (set_flags it r v (unpub it)) H ND eq_refl). Qed.
Lemma replace_flags_keys l it r v : In it l -> NoDup (keys l) ->
  keys (replace_item l (set_flags it r v (unpub it))) = keys l.
Proof. intros H ND. exact (replace_keys l it (set_flags it r v (unpub it)) H ND eq_refl). Qed.

Lemma remove_perm l it : In it l -> NoDup (keys l) ->
  Permutation l (it :: remove_key l (key it)) /\ (forall k, In k (keys l) -> k <> key it -> In k (keys (remove_key l (key it)))).
Proof.
  intros H ND. destruct (in_split_key _ _ H ND) as [l1 [l2 [-> [N1 N2]]]].
  rewrite (remove_key_app _ _ _ N1). split.
  - apply Permutation_sym, Permutation_middle.
  - intros k A B. unfold keys in *. rewrite map_app in *. cbn [map] in A.
    apply in_app_or in A. apply in_or_app. destruct A as [A|[A|A]]; [left; exact A|congruence|right; exact A].
Qed.

Definition HandOK (h : option Z) (m : list item) : Prop := forall x, h = Some x -> In x (keys m).

Lemma sieve_unlink_spec s it :
  NoDup (keys (items s)) -> HandOK (hand s) (main s) -> In it (items s) ->
  exists p m h, sieve_unlink s (key it) = sh_lists s p m h /\
    Permutation (map ess (items s)) (ess it :: map ess (p ++ m)) /\ HandOK h m.
Proof.
  unfold items. intros ND HO H. unfold sieve_unlink. apply in_app_or in H.
  destruct (has_key (main s) (key it)) eqn:HM.
  - apply has_key_true in HM. assert (Hm : In it (main s)).
    { destruct H as [H|H]; [|exact H]. exfalso. refine (nodup_keys_disj _ _ _ ND _ HM).
      unfold keys. apply in_map. exact H. }
    destruct (remove_perm _ _ Hm (nodup_keys_app_r _ _ ND)) as [P Q].
    eexists _, _, _. split; [reflexivity|]. split.
    + rewrite !map_app. change (ess it :: map ess (prob s) ++ map ess (remove_key (main s) (key it)))
        with ((ess it :: map ess (prob s)) ++ map ess (remove_key (main s) (key it))).
      eapply Permutation_trans; [apply Permutation_app_head; exact (Permutation_map ess P)|].
      cbn [map]. apply Permutation_sym. apply Permutation_cons_app. reflexivity.
    + intros x Hx. destruct (hand s) as [hk|] eqn:HH; [|discriminate].
      destruct (hk =? key it) eqn:E.
      * apply prev_main_some in Hx. destruct Hx as [A B]. exact (Q _ A B).
      * injection Hx as <-. apply Q; [apply HO; reflexivity|lia].
  - apply has_key_false in HM. assert (Hp : In it (prob s)).
    { destruct H as [H|H]; [exact H|]. exfalso. apply HM. unfold keys. apply in_map. exact H. }
    assert (HP : has_key (prob s) (key it) = true).
    { apply has_key_true. unfold keys. apply in_map. exact Hp. }
    rewrite HP. destruct (remove_perm _ _ Hp (nodup_keys_app_l _ _ ND)) as [P Q].
    eexists _, _, _. split; [reflexivity|]. split; [|exact HO].
    rewrite !map_app. change (ess it :: map ess (remove_key (prob s) (key it)) ++ map ess (main s))
      with (map ess (it :: remove_key (prob s) (key it)) ++ map ess (main s)).
    apply Permutation_app_tail. exact (Permutation_map ess P).
Qed.

Section Env.
Variable e : env.
Hypothesis Hpol : e_pol e = policySieve.

Lemma is_sieve_true s : 1 <= cap s -> is_sieve s (e_pol e) = true.
Proof. intros H. unfold is_sieve. rewrite Hpol, Z.eqb_refl. cbn [andb]. lia. Qed.

Definition final_reason (it : item) (r0 : Z) : Z := if unpub it && (r0 =? reasonCapacity) then reasonRejected else r0.
Definition notif_of (it : item) (r : Z) : list notif :=
  if mask_has (e_mask e) r then [{| nkey := key it; nval := val it; nreason := r |}] else [].

Lemma SInv_items_nodup s : SInv s -> NoDup (keys (items s)).
Proof. intros I. exact (iv_nodup _ _ _ _ _ _ _ _ _ _ _ _ _ I). Qed.
Lemma SInv_hand s : SInv s -> HandOK (hand s) (main s).
Proof. intros I. exact (iv_hand _ _ _ _ _ _ _ _ _ _ _ _ _ I). Qed.
Lemma SInv_cap s : SInv s -> 1 <= cap s.
Proof. intros I. exact (iv_cap _ _ _ _ _ _ _ _ _ _ _ _ _ I). Qed.
Lemma SInv_tab s : SInv s -> forall k, In k (tabk s) <-> exists it, In it (items s) /\ key it = k /\ unpub it = false.
Proof. intros I. exact (iv_tab _ _ _ _ _ _ _ _ _ _ _ _ _ I). Qed.

Lemma drop_item_spec s it r0 :
  SInv s -> In it (items s) ->
  let r := final_reason it r0 in
  exists s', drop_item e s it r0 = (s', true, if e_stats e && (r =? reasonCapacity) then 1 else 0) /\
    Frame s s' /\ Permutation (map ess (items s)) (ess it :: map ess (items s')) /\
    tabk s' = (if unpub it then tabk s else remz (tabk s) (key it)) /\
    size s' = size s - 1 /\ scost s' = scost s - cost it /\ HandOK (hand s') (main s') /\
    glog s' = glog s ++ [(10 + r, key it, val it)] /\ nlog s' = nlog s ++ notif_of it r /\
    staged s' = staged s ++ notif_of it r /\ serr s' = serr s /\ evs s' = evs s.
Proof.
  intros I H r. unfold drop_item.
  assert (G : negb (unpub it) && negb (memz (tabk s) (key it)) = false).
  { destruct (unpub it) eqn:U; [reflexivity|]. cbn [negb andb].
    assert (M : memz (tabk s) (key it) = true).
    { apply memz_true. apply (SInv_tab _ I). exists it. repeat split; assumption. }
    rewrite M. reflexivity. }
  rewrite G, (is_sieve_true _ (SInv_cap _ I)).
  destruct (sieve_unlink_spec s it (SInv_items_nodup _ I) (SInv_hand _ I) H) as [p [m [h [E [P HO]]]]].
  rewrite E. fold (final_reason it r0). fold r. unfold notif_of.
  eexists. split; [reflexivity|]. fields. unfold Frame, items. fields.
  destruct (mask_has (e_mask e) r); repeat split; try reflexivity; try exact P; try exact HO;
    rewrite app_nil_r; reflexivity.
Qed.

(* ================================================================== primitive steps *)
Definition code (c : Z) : Prop := 100 <= c <= 104 \/ 200 <= c <= 204 \/ c = 301.
Definition ErrOK (fl : bool) (a b : Z) : Prop := a = b \/ (a = 0 /\ (code b \/ (fl = true /\ b = 305))).

Lemma ErrOK_refl fl a : ErrOK fl a a.
Proof. left. reflexivity. Qed.
Lemma ErrOK_trans fl a b c : ErrOK fl a b -> ErrOK fl b c -> ErrOK fl a c.
Proof.
  unfold ErrOK, code. intros [->|[-> H1]] [->|[E H2]]; auto.
Qed.
Lemma ErrOK_err fl s c : code c \/ (fl = true /\ c = 305) -> ErrOK fl (serr s) (serr (sh_err s c)).
Proof.
  intros H. unfold ErrOK. fields. destruct (serr s =? 0) eqn:E; [right; split; [lia|exact H]|left; reflexivity].
Qed.

Inductive step (fl : bool) : shard -> shard -> Z -> nat -> Prop :=
| st_evs s ev pe : step fl s (sh_evs s ev pe) 0 0
| st_err s c : code c -> step fl s (sh_err s c) 0 0
| st_fuel s : fl = true -> step fl s (sh_err s 305) 0 0
| st_stats s a r g p pe me : step fl s (sh_stats s a r g p pe me) 0 0
| st_hand s h : HandOK h (main s) -> step fl s (set_hand s h) 0 0
| st_fprob s it r v : In it (prob s) ->
    step fl s (sh_lists s (replace_item (prob s) (set_flags it r v (unpub it))) (main s) (hand s)) 0 0
| st_fmain s it r v : In it (main s) ->
    step fl s (sh_lists s (prob s) (replace_item (main s) (set_flags it r v (unpub it))) (hand s)) 0 0
| st_promote s it : In it (prob s) -> step fl s (promote s it) 0 0
| st_drop s it r0 s' d : In it (items s) -> (r0 = reasonCapacity \/ r0 = reasonRejected) ->
    drop_item e s it r0 = (s', true, d) -> step fl s s' d 1.

Definition Keep (s s' : shard) : Prop :=
  Frame s s' /\ Permutation (map ess (items s)) (map ess (items s')) /\ tabk s' = tabk s /\
  size s' = size s /\ scost s' = scost s /\ glog s' = glog s /\ nlog s' = nlog s /\ staged s' = staged s.

Lemma Keep_refl s : Keep s s.
Proof. unfold Keep. repeat split; try reflexivity. Qed.

Lemma promote_spec s it : SInv s -> In it (prob s) ->
  Keep s (promote s it) /\ HandOK (hand (promote s it)) (main (promote s it)) /\ serr (promote s it) = serr s.
Proof.
  intros I H. unfold promote.
  destruct (has_key (prob s) (key it) && (0 <? mcap s)) eqn:G.
  - fields. unfold Keep, Frame, items. fields. repeat split; try reflexivity.
    + pose proof (SInv_items_nodup _ I) as ND. unfold items in ND.
      destruct (remove_perm _ _ H (nodup_keys_app_l _ _ ND)) as [P _].
      rewrite !map_app. cbn [map].
      eapply Permutation_trans; [apply Permutation_app_tail; exact (Permutation_map ess P)|].
      cbn [map app]. apply Permutation_middle.
    + intros x Hx. unfold keys. cbn [map key set_flags]. destruct (hand s) as [hk|] eqn:HH.
      * right. injection Hx as <-. apply (SInv_hand _ I). exact HH.
      * left. congruence.
  - split; [apply Keep_refl|]. split; [exact (SInv_hand _ I)|reflexivity].
Qed.

Lemma step_cases fl s s' d n : step fl s s' d n -> SInv s ->
  (n = 0%nat /\ d = 0 /\ Keep s s' /\ HandOK (hand s') (main s') /\ ErrOK fl (serr s) (serr s')) \/
  (n = 1%nat /\ exists it r0, In it (items s) /\ (r0 = reasonCapacity \/ r0 = reasonRejected) /\
                            drop_item e s it r0 = (s', true, d)).
Proof.
  intros S I. destruct S.
  - left. repeat split; try reflexivity. exact (SInv_hand _ I). apply ErrOK_refl.
  - left. repeat split; try reflexivity. exact (SInv_hand _ I). apply ErrOK_err. left. assumption.
  - left. repeat split; try reflexivity. exact (SInv_hand _ I). apply ErrOK_err. right. split; [assumption|reflexivity].
  - left. repeat split; try reflexivity. exact (SInv_hand _ I). apply ErrOK_refl.
  - left. repeat split; try reflexivity. assumption. apply ErrOK_refl.
  - left. pose proof (SInv_items_nodup _ I) as ND. unfold items in ND.
    repeat split; try reflexivity; fields; [|exact (SInv_hand _ I)|apply ErrOK_refl].
    unfold items. fields. rewrite !map_app.
    rewrite (replace_ess _ it (set_flags it r v (unpub it)) H (nodup_keys_app_l _ _ ND) eq_refl). reflexivity.
  - left. pose proof (SInv_items_nodup _ I) as ND. unfold items in ND.
    repeat split; try reflexivity; fields; [| |apply ErrOK_refl].
    + unfold items. fields. rewrite !map_app.
      rewrite (replace_ess _ it (set_flags it r v (unpub it)) H (nodup_keys_app_r _ _ ND) eq_refl). reflexivity.
    + intros x Hx. rewrite (replace_keys _ it (set_flags it r v (unpub it)) H (nodup_keys_app_r _ _ ND) eq_refl).
      exact (SInv_hand _ I x Hx).
  - left. destruct (promote_spec s it I H) as [K [HO E]]. repeat split; try apply K; try exact HO.
    rewrite E. apply ErrOK_refl.
  - right. split; [reflexivity|]. exists it, r0. repeat split; assumption.
Qed.

Lemma step_SInv fl s s' d n : step fl s s' d n -> SInv s -> SInv s'.
Proof.
  intros S I. destruct (step_cases _ _ _ _ _ S I) as [(_ & _ & K & HO & _)|(_ & it & r0 & H & _ & D)].
  - destruct K as (F & P & T & Z1 & C & _). exact (SInv_transfer _ _ I F P T Z1 C HO).
  - destruct (drop_item_spec s it r0 I H) as [s2 (D' & F & P & T & Z1 & C & HO & _)].
    rewrite D in D'. injection D' as <- _. exact (SInv_transfer_drop _ _ it I F P T Z1 C HO).
Qed.

Inductive steps (fl : bool) : shard -> shard -> Z -> nat -> Prop :=
| steps_refl s : steps fl s s 0 0
| steps_cons s1 s2 s3 d1 d2 n1 n2 : step fl s1 s2 d1 n1 -> steps fl s2 s3 d2 n2 ->
    steps fl s1 s3 (d1 + d2) (n1 + n2).

Lemma steps_eq fl s s' d n d' n' : steps fl s s' d n -> d = d' -> n = n' -> steps fl s s' d' n'.
Proof. intros H -> ->. exact H. Qed.

Lemma steps_one fl s s' d n : step fl s s' d n -> steps fl s s' d n.
Proof.
  intros H. eapply steps_eq; [exact (steps_cons _ _ _ _ _ _ _ _ H (steps_refl _ _))|lia|lia].
Qed.

Lemma steps_trans fl s1 s2 s3 d1 d2 n1 n2 : steps fl s1 s2 d1 n1 -> steps fl s2 s3 d2 n2 ->
  steps fl s1 s3 (d1 + d2) (n1 + n2).
Proof.
  intros H. revert s3 d2 n2. induction H as [s|a b c e1 e2 m1 m2 S _ IH]; intros s3 d2 n2 H2.
  - exact H2.
  - eapply steps_eq; [exact (steps_cons _ _ _ _ _ _ _ _ S (IH _ _ _ H2))|lia|lia].
Qed.

Lemma steps_SInv fl s s' d n : steps fl s s' d n -> SInv s -> SInv s'.
Proof. induction 1 as [s|a b c e1 e2 m1 m2 S _ IH]; intros I; [exact I|]. exact (IH (step_SInv _ _ _ _ _ S I)). Qed.

Lemma step_mono fl s s' d n : step fl s s' d n -> step true s s' d n.
Proof. intros S. destruct S; try (constructor; assumption). - apply st_fuel. reflexivity. - eapply st_drop; eassumption. Qed.
Lemma steps_mono fl s s' d n : steps fl s s' d n -> steps true s s' d n.
Proof. induction 1; [constructor|]. econstructor; [eapply step_mono; eassumption|assumption]. Qed.

(* ------------------------------------------------------------------ the summary of a run of steps *)
Definition dent (p : item * Z) : Z * Z * Z := (10 + snd p, key (fst p), val (fst p)).
Definition dnots (dl : list (item * Z)) : list notif := flat_map (fun p => notif_of (fst p) (snd p)) dl.
Definition dcount (dl : list (item * Z)) : Z := Z.of_nat (length (filter (fun p => snd p =? reasonCapacity) dl)).
Definition reason_ok (p : item * Z) : Prop :=
  (snd p = reasonCapacity \/ snd p = reasonRejected) /\ (unpub (fst p) = true -> snd p = reasonRejected) /\
  (snd p = reasonCapacity -> unpub (fst p) = false).

Definition Sum (fl : bool) (s s' : shard) (d : Z) (n : nat) : Prop :=
  exists dl, length dl = n /\ Frame s s' /\
    Permutation (map ess (items s)) (map ess (map fst dl) ++ map ess (items s')) /\
    size s' = size s - Z.of_nat n /\
    glog s' = glog s ++ map dent dl /\ nlog s' = nlog s ++ dnots dl /\ staged s' = staged s ++ dnots dl /\
    Forall reason_ok dl /\ d = (if e_stats e then dcount dl else 0) /\ ErrOK fl (serr s) (serr s').

Lemma final_reason_ok it r0 : r0 = reasonCapacity \/ r0 = reasonRejected -> reason_ok (it, final_reason it r0).
Proof.
  unfold reason_ok, final_reason, reasonCapacity, reasonRejected. cbn [fst snd].
  intros [->| ->]; destruct (unpub it); cbn; repeat split; auto; try lia; try discriminate.
Qed.

Lemma steps_sum fl s s' d n : steps fl s s' d n -> SInv s -> SInv s' /\ Sum fl s s' d n.
Proof.
  induction 1 as [s|s1 s2 s3 d1 d2 n1 n2 S SS IH]; intros I.
  - split; [exact I|]. exists []. cbn [length map app dnots flat_map]. rewrite !app_nil_r.
    repeat split; try reflexivity; try apply Frame_refl; try constructor.
    + lia.
    + unfold dcount. cbn. destruct (e_stats e); reflexivity.
    + reflexivity.
  - pose proof (step_SInv _ _ _ _ _ S I) as I2. destruct (IH I2) as [I3 [dl (L & F & P & Z1 & G & N & T & R & D & E)]].
    split; [exact I3|].
    destruct (step_cases _ _ _ _ _ S I) as [(-> & -> & K & HO & E1)|(-> & it & r0 & H & R0 & Dr)].
    + destruct K as (F1 & P1 & T1 & Z2 & C1 & G1 & N1 & S1).
      exists dl. split; [exact L|]. split; [exact (Frame_trans _ _ _ F1 F)|].
      split; [exact (Permutation_trans P1 P)|]. split; [lia|].
      rewrite G, N, T, G1, N1, S1. repeat split; try assumption; try lia.
      exact (ErrOK_trans _ _ _ _ E1 E).
    + destruct (drop_item_spec s1 it r0 I H) as [s2' (D' & F1 & P1 & T1 & Z2 & C1 & HO & G1 & N1 & S1 & E1 & _)].
      rewrite Dr in D'. injection D' as <- Dd.
      exists ((it, final_reason it r0) :: dl). split; [cbn [length]; lia|].
      split; [exact (Frame_trans _ _ _ F1 F)|].
      split; [cbn [map fst app]; exact (Permutation_trans P1 (perm_skip _ P))|].
      split; [lia|].
      rewrite G, N, T, G1, N1, S1, <- !app_assoc. cbn [map dent app dnots flat_map fst snd].
      split; [reflexivity|]. split; [reflexivity|]. split; [reflexivity|].
      split; [constructor; [exact (final_reason_ok _ _ R0)|exact R]|].
      split; [|rewrite <- E1; exact E].
      rewrite Dd, D. unfold dcount. cbn [filter snd].
      destruct (e_stats e); cbn [andb]; [|reflexivity].
      destruct (final_reason it r0 =? reasonCapacity); cbn [length]; lia.
Qed.

(* ================================================================== the model functions as runs of steps *)
Lemma pop_ev_step fl s kind s' a : 0 <= kind <= 4 -> pop_ev s kind = (s', a) -> step fl s s' 0 0.
Proof.
  intros K. unfold pop_ev. destruct (evs s) as [|[k x] r].
  - intros H. apply pair_equal_spec in H. destruct H as [<- _]. apply st_err. unfold code. lia.
  - destruct (k =? kind); intros H; apply pair_equal_spec in H; destruct H as [<- _]; [apply st_evs|apply st_err; unfold code; lia].
Qed.

Lemma main_candidate_in s c it : main_candidate s c = Some it -> In it (main s).
Proof.
  unfold main_candidate. destruct c as [k|].
  - destruct (find_item (main s) k) as [x|] eqn:E.
    + intros H. injection H as <-. exact (proj1 (find_item_some _ _ _ E)).
    + apply last_item_in.
  - apply last_item_in.
Qed.

Lemma main_candidate_none s c : main_candidate s c = None -> main s = [].
Proof.
  unfold main_candidate. destruct c as [k|]; [|apply last_item_none].
  destruct (find_item (main s) k); [discriminate|apply last_item_none].
Qed.

Lemma find_q_in s k it : find_q s k = Some it -> In it (items s) /\ key it = k.
Proof.
  unfold find_q, items. destruct (find_item (prob s) k) as [x|] eqn:E.
  - intros H. injection H as <-. destruct (find_item_some _ _ _ E) as [A B]. split; [apply in_or_app; left; exact A|exact B].
  - intros H. destruct (find_item_some _ _ _ H) as [A B]. split; [apply in_or_app; right; exact A|exact B].
Qed.

Lemma prev_main_handok m k : HandOK (prev_main m k) m.
Proof. intros x H. exact (proj1 (prev_main_some _ _ _ H)). Qed.

Lemma find_victim_steps fl n : forall s c force s' v,
  SInv s -> HandOK c (main s) -> find_victim n s c force = (s', v) ->
  steps fl s s' 0 0 /\ prob s' = prob s /\ keys (main s') = keys (main s) /\
  (forall vk, v = Some vk -> In vk (keys (main s'))) /\
  (force = true -> main s <> [] -> v <> None).
Proof.
  induction n as [|n IH]; intros s c force s' v I HC; cbn [find_victim].
  - destruct force.
    + destruct (main_candidate s c) as [it|] eqn:MC; intros H; injection H as <- <-.
      * split; [apply steps_one, st_hand, prev_main_handok|]. fields.
        repeat split; try reflexivity; try discriminate.
        intros vk H. injection H as <-. unfold keys. apply in_map. exact (main_candidate_in _ _ _ MC).
      * split; [apply steps_refl|]. repeat split; try reflexivity; try discriminate.
        intros _ H. exfalso. exact (H (main_candidate_none _ _ MC)).
    + intros H; injection H as <- <-. split; [apply steps_one, st_hand, HC|]. fields.
      repeat split; try reflexivity; discriminate.
  - destruct (main_candidate s c) as [it|] eqn:MC.
    + pose proof (main_candidate_in _ _ _ MC) as Hin.
      destruct (visited it) eqn:V.
      * set (r := if 0 <? reuse it then reuse it - 1 else reuse it).
        set (s1 := sh_lists s (prob s) (replace_item (main s) (set_flags it r false (unpub it))) (hand s)).
        assert (S1 : step fl s s1 0 0) by (apply st_fmain; exact Hin).
        pose proof (step_SInv _ _ _ _ _ S1 I) as I1. intros H.
        destruct (IH s1 _ force s' v I1 (prev_main_handok _ _) H) as (A & B & C & D & F).
        pose proof (SInv_items_nodup _ I) as ND. unfold items in ND.
        assert (K1 : keys (main s1) = keys (main s)).
        { unfold s1. fields. exact (replace_flags_keys _ it _ _ Hin (nodup_keys_app_r _ _ ND)). }
        split; [eapply steps_eq; [exact (steps_trans _ _ _ _ _ _ _ _ (steps_one _ _ _ _ _ S1) A)|lia|lia]|].
        split; [rewrite B; reflexivity|]. split; [rewrite C; exact K1|]. split; [exact D|].
        intros Hf Hm. apply (F Hf). intros Hm1. rewrite Hm1 in K1. cbn in K1. apply Hm.
        unfold keys in K1. symmetry in K1. exact (map_eq_nil _ _ K1).
      * intros H; injection H as <- <-. split; [apply steps_one, st_hand, prev_main_handok|]. fields.
        repeat split; try reflexivity; try discriminate.
        intros vk H. injection H as <-. unfold keys. apply in_map. exact Hin.
    + intros H; injection H as <- <-. split; [apply steps_refl|]. repeat split; try reflexivity; try discriminate.
      intros _ H. exfalso. exact (H (main_candidate_none _ _ MC)).
Qed.

Lemma find_main_victim_steps fl s scan force s' v :
  SInv s -> find_main_victim s scan force = (s', v) ->
  steps fl s s' 0 0 /\ prob s' = prob s /\ keys (main s') = keys (main s) /\
  (forall vk, v = Some vk -> In vk (keys (main s'))) /\
  (force = true -> main s <> [] -> v <> None).
Proof.
  intros I. unfold find_main_victim. destruct (main s) as [|x m] eqn:M.
  - intros H; injection H as <- <-. split; [apply steps_refl|]. rewrite M.
    repeat split; try reflexivity; try discriminate. intros _ H; congruence.
  - rewrite <- M. apply find_victim_steps; [exact I|exact (SInv_hand _ I)].
Qed.

Lemma drop_found fl s it r0 : SInv s -> In it (items s) -> r0 = reasonCapacity \/ r0 = reasonRejected ->
  exists s' d, drop_item e s it r0 = (s', true, d) /\ steps fl s s' d 1.
Proof.
  intros I H R. destruct (drop_item_spec s it r0 I H) as [s' [D _]].
  eexists _, _. split; [exact D|]. apply steps_one. eapply st_drop; eassumption.
Qed.

Lemma drop_prob_victim_steps fl s it s' ok d : SInv s -> In it (items s) ->
  drop_prob_victim e s it = (s', ok, d) -> ok = true /\ steps fl s s' d 1.
Proof.
  intros I H. unfold drop_prob_victim.
  destruct (drop_found fl s it reasonCapacity I H (or_introl eq_refl)) as [s1 [d1 [D S]]]. rewrite D.
  intros E; injection E as <- <- <-. split; [reflexivity|].
  eapply steps_eq; [exact (steps_trans _ _ _ _ _ _ _ _ S (steps_one _ _ _ _ _ (st_stats _ _ _ _ _ _ _ _)))|lia|lia].
Qed.

Lemma evict_probation_steps fl s s' p d : SInv s -> evict_probation e s = (s', p, d) ->
  exists n, steps fl s s' d n /\ (n <= 1)%nat /\ (prob s <> [] -> p = None -> n = 1%nat).
Proof.
  intros I. unfold evict_probation. destruct (last_item (prob s)) as [it|] eqn:L.
  - pose proof (last_item_in _ _ L) as Hin.
    destruct ((probationPromotionReuse <=? reuse it) || visited it).
    + intros H; injection H as <- <- <-. exists 0%nat. split; [apply steps_one, st_promote, Hin|].
      split; [lia|]. discriminate.
    + destruct (drop_prob_victim e s it) as [[s1 ok] d1] eqn:D. intros H; injection H as <- <- <-.
      assert (Hi : In it (items s)) by (unfold items; apply in_or_app; left; exact Hin).
      destruct (drop_prob_victim_steps fl _ _ _ _ _ I Hi D) as [_ S]. exists 1%nat. split; [exact S|]. split; [lia|reflexivity].
  - intros H; injection H as <- <- <-. exists 0%nat. split; [apply steps_refl|]. split; [lia|].
    intros N. exfalso. exact (N (last_item_none _ L)).
Qed.

Definition em_tail (s2 : shard) (inn : option Z) (vk : Z) (adm : bool) : shard * bool * Z :=
  if negb adm then
    match inn with
    | Some k => match find_q s2 k with
                | Some it => let '(s3, ok, d) := drop_item e s2 it reasonRejected in (s3, ok, d)
                | None => (s2, false, 0)
                end
    | None => (s2, false, 0)
    end
  else
    match find_q s2 vk with
    | Some it => let '(s3, ok, d) := drop_item e s2 it reasonCapacity in
                 if ok then (bump s3 0 0 0 1, true, d) else (s3, false, d)
    | None => (s2, false, 0)
    end.

Lemma em_tail_steps fl s2 inn vk adm s' ok d : SInv s2 -> em_tail s2 inn vk adm = (s', ok, d) ->
  exists n, steps fl s2 s' d n /\ (n <= 1)%nat.
Proof.
  intros I. unfold em_tail. destruct (negb adm).
  - destruct inn as [k|].
    + destruct (find_q s2 k) as [it|] eqn:FQ.
      * destruct (drop_found fl s2 it reasonRejected I (proj1 (find_q_in _ _ _ FQ)) (or_intror eq_refl)) as [s3 [d3 [D S]]].
        rewrite D. intros H; injection H as <- <- <-. exists 1%nat. split; [exact S|lia].
      * intros H; injection H as <- <- <-. exists 0%nat. split; [apply steps_refl|lia].
    + intros H; injection H as <- <- <-. exists 0%nat. split; [apply steps_refl|lia].
  - destruct (find_q s2 vk) as [it|] eqn:FQ.
    + destruct (drop_found fl s2 it reasonCapacity I (proj1 (find_q_in _ _ _ FQ)) (or_introl eq_refl)) as [s3 [d3 [D S]]].
      rewrite D. intros H; injection H as <- <- <-. exists 1%nat. split; [|lia].
      eapply steps_eq; [exact (steps_trans _ _ _ _ _ _ _ _ S (steps_one _ _ _ _ _ (st_stats _ _ _ _ _ _ _ _)))|lia|lia].
    + intros H; injection H as <- <- <-. exists 0%nat. split; [apply steps_refl|lia].
Qed.

Lemma evict_main_steps fl s inn tie scan force s' ok d : SInv s ->
  evict_main e s inn tie scan force = (s', ok, d) -> exists n, steps fl s s' d n /\ (n <= 1)%nat.
Proof.
  intros I. unfold evict_main.
  generalize (match inn with Some k => if owns s k then Some k else None | None => None end). intros inn'.
  destruct (find_main_victim s scan force) as [s1 v] eqn:FV.
  destruct (find_main_victim_steps fl _ _ _ _ _ I FV) as (S1 & _).
  pose proof (steps_SInv _ _ _ _ _ S1 I) as I1.
  destruct v as [vk|].
  - assert (G : forall s2 adm, steps fl s1 s2 0 0 -> em_tail s2 inn' vk adm = (s', ok, d) ->
                exists n, steps fl s s' d n /\ (n <= 1)%nat).
    { intros s2 adm S2 H. pose proof (steps_SInv _ _ _ _ _ S2 I1) as I2.
      destruct (em_tail_steps fl _ _ _ _ _ _ _ I2 H) as [n [S3 L]]. exists n. split; [|exact L].
      eapply steps_eq; [exact (steps_trans _ _ _ _ _ _ _ _ S1 (steps_trans _ _ _ _ _ _ _ _ S2 S3))|lia|lia]. }
    destruct inn' as [k|].
    + destruct (k =? vk).
      * intros H. exact (G s1 true (steps_refl _ _) H).
      * destruct (pop_ev s1 evAdmit) as [s2 a] eqn:PE. intros H.
        refine (G s2 _ (steps_one _ _ _ _ _ (pop_ev_step fl _ _ _ _ _ PE)) H). unfold evAdmit. lia.
    + intros H. exact (G s1 true (steps_refl _ _) H).
  - destruct inn' as [k|].
    + destruct force.
      * destruct (find_q s1 k) as [it|] eqn:FQ.
        -- destruct (drop_found fl s1 it reasonRejected I1 (proj1 (find_q_in _ _ _ FQ)) (or_intror eq_refl)) as [s3 [d3 [D S]]].
           rewrite D. intros H; injection H as <- <- <-. exists 1%nat. split; [|lia].
           eapply steps_eq; [exact (steps_trans _ _ _ _ _ _ _ _ S1 S)|lia|lia].
        -- intros H; injection H as <- <- <-. exists 0%nat. split; [exact S1|lia].
      * intros H; injection H as <- <- <-. exists 0%nat. split; [exact S1|lia].
    + intros H; injection H as <- <- <-. exists 0%nat. split; [exact S1|lia].
Qed.

Lemma force_evict_steps fl s s' ok d : SInv s -> force_evict e s = (s', ok, d) ->
  exists n, steps fl s s' d n /\ (n <= 1)%nat /\ (items s <> [] -> ok = true /\ n = 1%nat).
Proof.
  intros I. unfold force_evict. destruct (last_item (prob s)) as [it|] eqn:L.
  - intros H. assert (Hi : In it (items s)) by (unfold items; apply in_or_app; left; exact (last_item_in _ _ L)).
    destruct (drop_prob_victim_steps fl _ _ _ _ _ I Hi H) as [-> S]. exists 1%nat. split; [exact S|]. split; [lia|]. split; reflexivity.
  - pose proof (last_item_none _ L) as P0. destruct (main s) as [|x m] eqn:M.
    + intros H; injection H as <- <- <-. exists 0%nat. split; [apply steps_refl|]. split; [lia|].
      intros N. exfalso. apply N. unfold items. rewrite P0, M. reflexivity.
    + destruct (find_main_victim s 1 true) as [s1 v] eqn:FV.
      destruct (find_main_victim_steps fl _ _ _ _ _ I FV) as (S1 & P1 & K1 & V1 & V2).
      pose proof (steps_SInv _ _ _ _ _ S1 I) as I1.
      destruct v as [vk|]; [|exfalso; apply (V2 eq_refl); [rewrite M; discriminate|reflexivity]].
      assert (FQ : exists it, find_q s1 vk = Some it).
      { unfold find_q. rewrite P1, P0. cbn [find_item]. apply find_item_in. apply V1. reflexivity. }
      destruct FQ as [it FQ]. rewrite FQ.
      destruct (drop_found fl s1 it reasonCapacity I1 (proj1 (find_q_in _ _ _ FQ)) (or_introl eq_refl)) as [s3 [d3 [D S]]].
      rewrite D. intros H; injection H as <- <- <-. exists 1%nat. split; [|split; [lia|split; reflexivity]].
      eapply steps_eq; [exact (steps_trans _ _ _ _ _ _ _ _ S1 (steps_trans _ _ _ _ _ _ _ _ S (steps_one _ _ _ _ _ (st_stats _ _ _ _ _ _ _ _))))|lia|lia].
Qed.

(* ------------------------------------------------------------------ what every run preserves *)
Definition CostOK (s : shard) : Prop := 0 < costcap s -> forall it, In it (items s) -> cost it <= costcap s.

Lemma steps_sub fl s s' d n : steps fl s s' d n -> SInv s ->
  forall it', In it' (items s') -> exists it, In it (items s) /\ ess it = ess it'.
Proof.
  intros S I it' H. destruct (steps_sum _ _ _ _ _ S I) as [_ [dl (_ & _ & P & _)]].
  assert (A : In (ess it') (map ess (items s))).
  { apply (Permutation_in _ (Permutation_sym P)). apply in_or_app. right. apply in_map. exact H. }
  apply in_map_iff in A. destruct A as [it [A B]]. exists it. split; assumption.
Qed.

Lemma steps_pres fl s s' d n : steps fl s s' d n -> SInv s ->
  SInv s' /\ Frame s s' /\ size s' = size s - Z.of_nat n /\ (length (items s) = n + length (items s'))%nat /\
  (forall k, PendLe s k -> PendLe s' k) /\ (CostOK s -> CostOK s') /\ (Quiet s -> Quiet s').
Proof.
  intros S I. destruct (steps_sum _ _ _ _ _ S I) as [I' [dl (L & F & P & Z1 & _)]].
  split; [exact I'|]. split; [exact F|]. split; [exact Z1|]. split.
  - apply Permutation_length in P. rewrite app_length, !map_length, L in P. exact P.
  - split; [|split].
    + intros k Q it' H U. destruct (steps_sub _ _ _ _ _ S I it' H) as [it [A B]].
      unfold ess in B. injection B as B1 _ _ _ B5. rewrite <- B1. apply Q; [exact A|congruence].
    + intros C Hc it' H. destruct (steps_sub _ _ _ _ _ S I it' H) as [it [A B]].
      destruct F as (_ & F2 & _). rewrite F2 in *. unfold ess in B. injection B as _ _ _ B4 _. rewrite <- B4. exact (C Hc it A).
    + intros Q it' H. destruct (steps_sub _ _ _ _ _ S I it' H) as [it [A B]].
      unfold ess in B. injection B as _ _ _ _ B5. rewrite <- B5. exact (Q it A).
Qed.

Lemma over_true_size s : over_capacity s = true -> costcap s <= 0 -> cap s < size s.
Proof. unfold over_capacity. lia. Qed.

Lemma loop_combine fl s s1 s' d1 n1 d2 n2 :
  SInv s -> steps fl s s1 d1 n1 -> (n1 <= 1)%nat -> over_capacity s = true -> steps fl s1 s' d2 n2 ->
  (costcap s1 <= 0 -> Z.of_nat n2 <= Z.max 0 (size s1 - cap s1)) ->
  steps fl s s' (d1 + d2) (n1 + n2) /\ (costcap s <= 0 -> Z.of_nat (n1 + n2) <= Z.max 0 (size s - cap s)).
Proof.
  intros I S1 L O S2 B. split; [exact (steps_trans _ _ _ _ _ _ _ _ S1 S2)|].
  intros C. destruct (steps_pres _ _ _ _ _ S1 I) as (_ & F & Z1 & _). destruct F as (F1 & F2 & _).
  pose proof (over_true_size _ O C). rewrite F1, F2, Z1 in B. specialize (B C). lia.
Qed.

Lemma enforce_loop_steps fl w : forall s inn tie acc s' inn' tie' a',
  SInv s -> enforce_loop w e s inn tie acc = (s', inn', tie', a') ->
  exists d n, steps fl s s' d n /\ a' = acc + d /\ (costcap s <= 0 -> Z.of_nat n <= Z.max 0 (size s - cap s)).
Proof.
  induction w as [|w IH]; intros s inn tie acc s' inn' tie' a' I; cbn [enforce_loop].
  - intros H; injection H as <- _ _ <-. exists 0, 0%nat. split; [apply steps_refl|]. split; lia.
  - destruct (over_capacity s) eqn:OC; cbn [negb].
    2:{ intros H; injection H as <- _ _ <-. exists 0, 0%nat. split; [apply steps_refl|]. split; lia. }
    assert (G : forall s1 d1 n1 inn1 tie1, steps fl s s1 d1 n1 -> (n1 <= 1)%nat ->
                 enforce_loop w e s1 inn1 tie1 (acc + d1) = (s', inn', tie', a') ->
                 exists d n, steps fl s s' d n /\ a' = acc + d /\ (costcap s <= 0 -> Z.of_nat n <= Z.max 0 (size s - cap s))).
    { intros s1 d1 n1 inn1 tie1 S1 L1 H. pose proof (steps_SInv _ _ _ _ _ S1 I) as I1.
      destruct (IH _ _ _ _ _ _ _ _ I1 H) as [d2 [n2 (S2 & A & B)]].
      destruct (loop_combine _ _ _ _ _ _ _ _ I S1 L1 OC S2 B) as [S3 B3].
      exists (d1 + d2), (n1 + n2)%nat. split; [exact S3|]. split; [lia|exact B3]. }
    destruct ((pcap s <? zlen (prob s)) && negb (zlen (prob s) =? 0)).
    { destruct (evict_probation e s) as [[s1 p] d1] eqn:EP.
      destruct (evict_probation_steps fl _ _ _ _ I EP) as [n1 (S1 & L1 & _)].
      destruct p as [k|]; intros H; exact (G _ _ _ _ _ S1 L1 H). }
    destruct (negb (zlen (main s) =? 0)).
    { assert (G2 : forall (s0 : shard) (keep : bool), step fl s s0 0 0 ->
        (let '(s1, ok, d) := evict_main e s0 (if keep then None else inn) (if keep then false else tie) defaultMainVictimScan false in
         if ok then enforce_loop w e s1 None false (acc + d) else enforce_loop w e s1 inn tie (acc + d)) = (s', inn', tie', a') ->
        exists d n, steps fl s s' d n /\ a' = acc + d /\ (costcap s <= 0 -> Z.of_nat n <= Z.max 0 (size s - cap s))).
      { intros s0 keep S0. pose proof (step_SInv _ _ _ _ _ S0 I) as I0.
        destruct (evict_main e s0 (if keep then None else inn) (if keep then false else tie) defaultMainVictimScan false)
          as [[s1 ok] d1] eqn:EM.
        destruct (evict_main_steps fl _ _ _ _ _ _ _ _ I0 EM) as [n1 [S1 L1]].
        assert (S01 : steps fl s s1 d1 n1).
        { eapply steps_eq; [exact (steps_trans _ _ _ _ _ _ _ _ (steps_one _ _ _ _ _ S0) S1)|lia|lia]. }
        destruct ok; intros H; exact (G _ _ _ _ _ S01 L1 H). }
      destruct (pop_ev s evKeep) as [s0 a] eqn:PE.
      assert (S0 : step fl s s0 0 0) by (refine (pop_ev_step fl _ _ _ _ _ PE); unfold evKeep; lia).
      destruct (in_probation_below_cap s inn); intros H;
        [exact (G2 s0 (match a with Some x => negb (x =? 0) | None => false end) S0 H)|exact (G2 s0 false S0 H)]. }
    destruct (negb (zlen (prob s) =? 0)).
    { destruct (evict_probation e s) as [[s1 p] d1] eqn:EP.
      destruct (evict_probation_steps fl _ _ _ _ I EP) as [n1 (S1 & L1 & _)].
      destruct p as [k|]; intros H; exact (G _ _ _ _ _ S1 L1 H). }
    intros H; injection H as <- _ _ <-. exists 0, 0%nat. split; [apply steps_refl|]. split; lia.
Qed.

Lemma nodup_all_eq (l : list Z) k : NoDup l -> (forall x, In x l -> x = k) -> (length l <= 1)%nat.
Proof.
  intros ND H. destruct l as [|a [|b r]]; cbn [length]; try lia.
  exfalso. inversion ND as [|x l Hx _]; subst. apply Hx.
  rewrite (H a (or_introl eq_refl)), (H b (or_intror (or_introl eq_refl))). left. reflexivity.
Qed.

Lemma small_not_over s k : SInv s -> CostOK s -> PendLe s k ->
  (length (items s) <= 1)%nat \/ tabk s = [] -> over_capacity s = false.
Proof.
  intros I C P H.
  assert (L : (length (items s) <= 1)%nat).
  { destruct H as [H|H]; [exact H|].
    assert (A : forall x, In x (keys (items s)) -> x = k).
    { intros x Hx. unfold keys in Hx. apply in_map_iff in Hx. destruct Hx as [it [<- Hi]].
      apply P; [exact Hi|]. destruct (unpub it) eqn:U; [reflexivity|]. exfalso.
      assert (B : In (key it) (tabk s)) by (apply (SInv_tab _ I); exists it; repeat split; assumption).
      rewrite H in B. destruct B. }
    pose proof (nodup_all_eq _ _ (SInv_items_nodup _ I) A) as B. unfold keys in B. rewrite map_length in B. exact B. }
  pose proof (SInv_cap _ I) as C1. apply SInv_ess in I. destruct I as ((_ & _ & Z1 & Z2 & Z3) & _).
  unfold CostOK in C. destruct (items s) as [|x [|y r]] eqn:E; cbn [length] in L; try lia.
  - cbn in Z1, Z2. unfold over_capacity. lia.
  - cbn [map length sumZ] in Z1, Z2. change (ecost (ess x)) with (cost x) in Z2.
    unfold over_capacity. destruct (0 <? costcap s) eqn:G.
    + assert (cost x <= costcap s) by (apply C; [lia|left; reflexivity]). lia.
    + lia.
Qed.

Lemma force_loop_steps : forall fuel s acc s' a', SInv s -> force_loop fuel e s acc = (s', a') ->
  exists d n, steps true s s' d n /\ a' = acc + d /\ (costcap s <= 0 -> Z.of_nat n <= Z.max 0 (size s - cap s)).
Proof.
  induction fuel as [|f IH]; intros s acc s' a' I; cbn [force_loop].
  - intros H; injection H as <- <-. exists 0, 0%nat. split; [apply steps_one, st_fuel; reflexivity|]. split; lia.
  - destruct (over_capacity s && (0 <? zlen (tabk s))) eqn:G.
    2:{ intros H; injection H as <- <-. exists 0, 0%nat. split; [apply steps_refl|]. split; lia. }
    apply andb_true_iff in G. destruct G as [OC _].
    destruct (force_evict e s) as [[s1 ok] d1] eqn:FE.
    destruct (force_evict_steps true _ _ _ _ I FE) as [n1 (S1 & L1 & _)].
    pose proof (steps_SInv _ _ _ _ _ S1 I) as I1. destruct ok.
    + intros H. destruct (IH _ _ _ _ I1 H) as [d2 [n2 (S2 & A & B)]].
      destruct (loop_combine _ _ _ _ _ _ _ _ I S1 L1 OC S2 B) as [S3 B3].
      exists (d1 + d2), (n1 + n2)%nat. split; [exact S3|]. split; [lia|exact B3].
    + intros H; injection H as <- <-. exists d1, n1. split; [exact S1|]. split; [lia|].
      intros C. pose proof (over_true_size _ OC C). lia.
Qed.

Lemma force_loop_fuel : forall fuel s acc s' a' k, SInv s -> CostOK s -> PendLe s k ->
  (length (items s) <= fuel)%nat -> (1 <= fuel)%nat -> force_loop fuel e s acc = (s', a') ->
  exists d n, steps false s s' d n /\ a' = acc + d /\ over_capacity s' = false /\
              (costcap s <= 0 -> Z.of_nat n <= Z.max 0 (size s - cap s)).
Proof.
  induction fuel as [|f IH]; intros s acc s' a' k I C P L F; [lia|]. cbn [force_loop].
  destruct (over_capacity s && (0 <? zlen (tabk s))) eqn:G.
  2:{ intros H; injection H as <- <-. exists 0, 0%nat. split; [apply steps_refl|]. split; [lia|]. split; [|lia].
      apply andb_false_iff in G. destruct G as [G|G]; [exact G|].
      apply (small_not_over _ k I C P). right. destruct (tabk s); [reflexivity|]. unfold zlen in G. cbn [length] in G. lia. }
  apply andb_true_iff in G. destruct G as [OC _].
  assert (L2 : (2 <= length (items s))%nat).
  { destruct (le_lt_dec 2 (length (items s))) as [A|A]; [exact A|]. exfalso.
    rewrite (small_not_over _ k I C P) in OC; [discriminate|]. left. lia. }
  destruct (force_evict e s) as [[s1 ok] d1] eqn:FE.
  destruct (force_evict_steps false _ _ _ _ I FE) as [n1 (S1 & L1 & N1)].
  assert (NE : items s <> []) by (intros E0; rewrite E0 in L2; cbn in L2; lia).
  destruct (N1 NE) as [-> ->].
  destruct (steps_pres _ _ _ _ _ S1 I) as (I1 & _ & _ & LL & PP & CC & _).
  intros H. destruct (IH s1 _ _ _ k I1 (CC C) (PP k P) ltac:(lia) ltac:(lia) H) as [d2 [n2 (S2 & A & O2 & B)]].
  destruct (loop_combine _ _ _ _ _ _ _ _ I S1 L1 OC S2 B) as [S3 B3].
  exists (d1 + d2), (1 + n2)%nat. split; [exact S3|]. split; [lia|]. split; [exact O2|exact B3].
Qed.

Definition Bnd (s : shard) (n : nat) : Prop := costcap s <= 0 -> Z.of_nat n <= Z.max 0 (size s - cap s).

Lemma Bnd_zero s : Bnd s 0.
Proof. unfold Bnd. lia. Qed.

Lemma Bnd_one s n : over_capacity s = true -> (n <= 1)%nat -> Bnd s n.
Proof. unfold Bnd. intros O L C. pose proof (over_true_size _ O C). lia. Qed.

Lemma Bnd_combine fl s s1 d1 n1 n2 : SInv s -> steps fl s s1 d1 n1 -> Bnd s n1 -> Bnd s1 n2 -> Bnd s (n1 + n2).
Proof.
  unfold Bnd. intros I S1 B1 B2 C. destruct (steps_pres _ _ _ _ _ S1 I) as (_ & F & Z1 & _).
  destruct F as (F1 & F2 & _). rewrite F1, F2, Z1 in B2. specialize (B1 C). specialize (B2 C). lia.
Qed.

Lemma filter_split_length {A} (f : A -> bool) l :
  (length (filter f l) + length (filter (fun x => negb (f x)) l) = length l)%nat.
Proof. induction l as [|x l IH]; cbn [filter length]; [reflexivity|]. destruct (f x); cbn [negb length]; lia. Qed.

Lemma nodup_keys_filter f l : NoDup (keys l) -> NoDup (keys (filter f l)).
Proof.
  unfold keys. induction l as [|x l IH]; cbn [filter map]; intros ND; [constructor|].
  inversion ND as [|y r Hy ND']; subst. destruct (f x); [|exact (IH ND')].
  cbn [map]. constructor; [|exact (IH ND')]. intros H. apply Hy.
  apply in_map_iff in H. destruct H as [z [E Hz]]. apply filter_In in Hz. rewrite <- E. apply in_map. tauto.
Qed.

Lemma items_le_tab s k : SInv s -> PendLe s k -> (length (items s) <= S (length (tabk s)))%nat.
Proof.
  intros I P. pose proof (SInv_items_nodup _ I) as ND.
  rewrite <- (filter_split_length unpub (items s)).
  assert (A : (length (filter unpub (items s)) <= 1)%nat).
  { rewrite <- (map_length key). apply (nodup_all_eq _ k).
    - exact (nodup_keys_filter _ _ ND).
    - intros x Hx. apply in_map_iff in Hx. destruct Hx as [it [<- Hi]]. apply filter_In in Hi. apply P; tauto. }
  assert (B : (length (filter (fun x => negb (unpub x)) (items s)) <= length (tabk s))%nat).
  { rewrite <- (map_length key). apply NoDup_incl_length.
    - exact (nodup_keys_filter _ _ ND).
    - intros x Hx. apply in_map_iff in Hx. destruct Hx as [it [<- Hi]]. apply filter_In in Hi. destruct Hi as [Hi U].
      apply (SInv_tab _ I). exists it. repeat split; [exact Hi|]. destruct (unpub it); [discriminate|reflexivity]. }
  lia.
Qed.

Lemma enforce_cases fl s inn tie s' d : SInv s -> enforce e s inn tie = (s', d) ->
  exists s3 a3 n3, steps fl s s3 a3 n3 /\ Bnd s n3 /\
    (((s', d) = (s3, a3) /\ over_capacity s3 = false) \/ force_loop (S (length (tabk s3))) e s3 a3 = (s', d)).
Proof.
  intros I. unfold enforce.
  destruct (enforce_loop (Z.to_nat maxEvictionWork) e s inn tie 0) as [[[s1 inn1] tie1] a1] eqn:EL.
  destruct (enforce_loop_steps fl _ _ _ _ _ _ _ _ _ I EL) as [d1 [n1 (S1 & A1 & B1)]].
  rewrite Z.add_0_l in A1. subst a1.
  pose proof (steps_SInv _ _ _ _ _ S1 I) as I1.
  destruct (over_capacity s1) eqn:O1; cbn [negb].
  2:{ intros H. exists s1, d1, n1. split; [exact S1|]. split; [exact B1|]. left. split; [symmetry; exact H|exact O1]. }
  assert (G : exists s2 inn2 tie2 a2 n2, steps fl s s2 a2 n2 /\ Bnd s n2 /\
     (if negb (zlen (prob s1) =? 0)
      then let '(s', p, d) := evict_probation e s1 in
           match p with Some k => (s', Some k, true, d1 + d) | None => (s', inn1, tie1, d1 + d) end
      else (s1, inn1, tie1, d1)) = (s2, inn2, tie2, a2)).
  { destruct (negb (zlen (prob s1) =? 0)).
    - destruct (evict_probation e s1) as [[sx p] dx] eqn:EP.
      destruct (evict_probation_steps fl _ _ _ _ I1 EP) as [nx (Sx & Lx & _)].
      pose proof (Bnd_combine _ _ _ _ _ _ I S1 B1 (Bnd_one _ _ O1 Lx)) as Bx.
      pose proof (steps_trans _ _ _ _ _ _ _ _ S1 Sx) as Sy.
      destruct p as [k|]; eexists _, _, _, _, _; (split; [exact Sy|split; [exact Bx|reflexivity]]).
    - eexists _, _, _, _, _. split; [exact S1|split; [exact B1|reflexivity]]. }
  destruct G as [s2 [inn2 [tie2 [a2 [n2 (S2 & B2 & E2)]]]]]. rewrite E2.
  pose proof (steps_SInv _ _ _ _ _ S2 I) as I2.
  destruct (over_capacity s2) eqn:O2; cbn [negb].
  2:{ intros H. exists s2, a2, n2. split; [exact S2|]. split; [exact B2|]. left. split; [symmetry; exact H|exact O2]. }
  destruct (negb (zlen (main s2) =? 0)).
  - destruct (evict_main e s2 inn2 tie2 defaultMainVictimScan true) as [[sx okx] dx] eqn:EM.
    destruct (evict_main_steps fl _ _ _ _ _ _ _ _ I2 EM) as [nx [Sx Lx]].
    intros H. exists sx, (a2 + dx), (n2 + nx)%nat. split; [exact (steps_trans _ _ _ _ _ _ _ _ S2 Sx)|].
    split; [exact (Bnd_combine _ _ _ _ _ _ I S2 B2 (Bnd_one _ _ O2 Lx))|]. right. exact H.
  - intros H. exists s2, a2, n2. split; [exact S2|]. split; [exact B2|]. right. exact H.
Qed.

Lemma enforce_steps s inn tie s' d : SInv s -> enforce e s inn tie = (s', d) ->
  exists n, steps true s s' d n /\ Bnd s n.
Proof.
  intros I H. destruct (enforce_cases true _ _ _ _ _ I H) as [s3 [a3 [n3 (S3 & B3 & [[E O]|FL])]]].
  - injection E as -> ->. exists n3. split; assumption.
  - pose proof (steps_SInv _ _ _ _ _ S3 I) as I3.
    destruct (force_loop_steps _ _ _ _ _ I3 FL) as [d4 [n4 (S4 & -> & B4)]].
    exists (n3 + n4)%nat. split; [exact (steps_trans _ _ _ _ _ _ _ _ S3 S4)|].
    exact (Bnd_combine _ _ _ _ _ _ I S3 B3 B4).
Qed.

Lemma enforce_fuel s inn tie s' d k : SInv s -> CostOK s -> PendLe s k -> enforce e s inn tie = (s', d) ->
  exists n, steps false s s' d n /\ Bnd s n /\ over_capacity s' = false.
Proof.
  intros I C P H. destruct (enforce_cases false _ _ _ _ _ I H) as [s3 [a3 [n3 (S3 & B3 & [[E O]|FL])]]].
  - injection E as -> ->. exists n3. repeat split; assumption.
  - destruct (steps_pres _ _ _ _ _ S3 I) as (I3 & _ & _ & _ & PP & CC & _).
    destruct (force_loop_fuel _ _ _ _ _ k I3 (CC C) (PP k P) (items_le_tab _ _ I3 (PP k P)) ltac:(lia) FL)
      as [d4 [n4 (S4 & -> & O4 & B4)]].
    exists (n3 + n4)%nat. split; [exact (steps_trans _ _ _ _ _ _ _ _ S3 S4)|].
    split; [exact (Bnd_combine _ _ _ _ _ _ I S3 B3 B4)|exact O4].
Qed.

Lemma step_false_any fl s s' d n : step false s s' d n -> step fl s s' d n.
Proof. intros S. destruct S; try (constructor; assumption). - discriminate. - eapply st_drop; eassumption. Qed.
Lemma steps_false_any fl s s' d n : steps false s s' d n -> steps fl s s' d n.
Proof. induction 1; [constructor|]. econstructor; [eapply step_false_any; eassumption|assumption]. Qed.

Lemma enforce_any fl s inn tie s' d k : SInv s -> fl = true \/ (CostOK s /\ PendLe s k) ->
  enforce e s inn tie = (s', d) ->
  exists n, steps fl s s' d n /\ Bnd s n /\ (fl = false -> over_capacity s' = false).
Proof.
  intros I [->|[C P]] H.
  - destruct (enforce_steps _ _ _ _ _ I H) as [n [S B]]. exists n. repeat split; try assumption. discriminate.
  - destruct (enforce_fuel _ _ _ _ _ k I C P H) as [n (S & B & O)]. exists n.
    split; [exact (steps_false_any _ _ _ _ _ S)|]. split; [exact B|]. intros _. exact O.
Qed.

(* ------------------------------------------------------------------ lookup *)
Lemma find_item_app_l p m k it : find_item p k = Some it -> find_item (p ++ m) k = Some it.
Proof.
  induction p as [|x p IH]; cbn [find_item app]; [discriminate|]. destruct (key x =? k); [trivial|exact IH].
Qed.
Lemma find_item_app_r p m k : find_item p k = None -> find_item (p ++ m) k = find_item m k.
Proof.
  induction p as [|x p IH]; cbn [find_item app]; [reflexivity|]. destruct (key x =? k); [discriminate|exact IH].
Qed.
Lemma find_q_items s k : find_q s k = find_item (items s) k.
Proof.
  unfold find_q, items. destruct (find_item (prob s) k) as [it|] eqn:E.
  - symmetry. exact (find_item_app_l _ _ _ _ E).
  - symmetry. exact (find_item_app_r _ _ _ E).
Qed.

Lemma find_item_unique l k it : NoDup (keys l) -> In it l -> key it = k -> find_item l k = Some it.
Proof.
  intros ND H <-. destruct (in_split_key _ _ H ND) as [l1 [l2 [-> [N1 _]]]]. exact (find_item_app _ _ _ N1).
Qed.

Lemma lookup_sieve s k : SInv s -> lookup s (e_pol e) k = if memz (tabk s) k then find_item (items s) k else None.
Proof.
  intros I. unfold lookup. rewrite (is_sieve_true _ (SInv_cap _ I)). fold (find_q s k). rewrite find_q_items.
  destruct (memz (tabk s) k); reflexivity.
Qed.

(* Theorem 1 *)
Theorem lookup_spec s k : SInv s -> Quiet s ->
  lookup s (e_pol e) k = find_item (items s) k /\ (lookup s (e_pol e) k <> None <-> In k (tabk s)).
Proof.
  intros I Q. rewrite (lookup_sieve _ _ I). destruct (memz (tabk s) k) eqn:M.
  - apply memz_true in M. split; [reflexivity|]. split; [intros _; exact M|]. intros _.
    apply (SInv_tab _ I) in M. destruct M as [it [A [B _]]].
    rewrite (find_item_unique _ _ _ (SInv_items_nodup _ I) A B). discriminate.
  - apply memz_false in M. assert (N : find_item (items s) k = None).
    { destruct (find_item (items s) k) as [it|] eqn:E; [|reflexivity]. exfalso. apply M.
      destruct (find_item_some _ _ _ E) as [A B]. apply (SInv_tab _ I). exists it. repeat split; try assumption. exact (Q _ A). }
    rewrite N. split; [reflexivity|]. split; [congruence|]. intros H. contradiction.
Qed.

Lemma lookup_some s k it : SInv s -> lookup s (e_pol e) k = Some it ->
  In it (items s) /\ key it = k /\ unpub it = false /\ In k (tabk s) /\ find_item (items s) k = Some it.
Proof.
  intros I. rewrite (lookup_sieve _ _ I). destruct (memz (tabk s) k) eqn:M; [|discriminate].
  apply memz_true in M. intros H. destruct (find_item_some _ _ _ H) as [A B].
  split; [exact A|]. split; [exact B|]. split; [|split; assumption].
  apply (SInv_tab _ I) in M. destruct M as [it' [A' [B' C']]].
  rewrite (find_item_unique _ _ _ (SInv_items_nodup _ I) A' B') in H. congruence.
Qed.

Lemma lookup_none s k : SInv s -> Quiet s -> lookup s (e_pol e) k = None -> ~ In k (keys (items s)).
Proof.
  intros I Q H. destruct (lookup_spec s k I Q) as [E _]. rewrite H in E. symmetry in E. exact (proj1 (find_item_none _ _) E).
Qed.

(* ------------------------------------------------------------------ recordUpdate, adapts *)
Lemma replace_split l it n : In it l -> NoDup (keys l) -> key n = key it ->
  exists l1 l2, l = l1 ++ it :: l2 /\ replace_item l n = l1 ++ n :: l2.
Proof.
  intros H ND K. destruct (in_split_key _ _ H ND) as [l1 [l2 [-> [N1 _]]]].
  exists l1, l2. split; [reflexivity|exact (replace_item_app _ _ _ _ N1 K)].
Qed.

Lemma record_update_steps fl s k : SInv s -> steps fl s (record_update s k) 0 0.
Proof.
  intros I. unfold record_update. pose proof (SInv_items_nodup _ I) as ND. unfold items in ND.
  destruct (find_item (main s) k) as [it|] eqn:FM.
  - apply steps_one. apply st_fmain. exact (proj1 (find_item_some _ _ _ FM)).
  - destruct (find_item (prob s) k) as [it|] eqn:FP; [|apply steps_refl].
    pose proof (proj1 (find_item_some _ _ _ FP)) as Hin.
    set (r := if reuse it <? maxItemReuse then reuse it + 1 else reuse it).
    destruct ((visited it || (probationPromotionReuse <=? r)) && (0 <? mcap s)).
    + set (it' := set_flags it r (visited it) (unpub it)).
      assert (S1 : step fl s (sh_lists s (replace_item (prob s) it') (main s) (hand s)) 0 0) by (apply st_fprob; exact Hin).
      eapply steps_eq; [refine (steps_trans _ _ _ _ _ _ _ _ (steps_one _ _ _ _ _ S1) (steps_one _ _ _ _ _ (st_promote _ _ it' _)))|lia|lia].
      fields. destruct (replace_split _ it it' Hin (nodup_keys_app_l _ _ ND) eq_refl) as [l1 [l2 [_ ->]]].
      apply in_or_app. right. left. reflexivity.
    + apply steps_one. exact (st_fprob fl s it r true Hin).
Qed.

(* fields that adapts never touches (it may move the probation / main split) *)
Definition Same (s s' : shard) : Prop :=
  prob s' = prob s /\ main s' = main s /\ hand s' = hand s /\ tabk s' = tabk s /\ size s' = size s /\
  scost s' = scost s /\ glog s' = glog s /\ nlog s' = nlog s /\ staged s' = staged s /\ cap s' = cap s /\
  costcap s' = costcap s /\ lst s' = lst s /\ lfu s' = lfu s /\ pmin s' = pmin s /\ pmax s' = pmax s.

Lemma Same_refl s : Same s s.
Proof. unfold Same. repeat split. Qed.
Lemma Same_trans a b c : Same a b -> Same b c -> Same a c.
Proof. unfold Same. intros H1 H2. intuition congruence. Qed.

Definition CapsOK (s : shard) : Prop :=
  pcap s + mcap s = cap s /\ 1 <= pmin s /\ pmin s <= pcap s /\ pcap s <= pmax s /\ pmax s <= cap s.

Lemma SInv_same s s' : SInv s -> Same s s' -> CapsOK s' -> SInv s'.
Proof.
  intros I (A1 & A2 & A3 & A4 & A5 & A6 & _ & _ & _ & A10 & A11 & A12 & A13 & A14 & A15) (C1 & C2).
  unfold SInv in *. rewrite A1, A2, A3, A4, A5, A6, A10, A12, A13, A14. destruct I. constructor; try assumption; lia.
Qed.

Lemma apply_adapts_spec fuel : forall s, CapsOK s ->
  Same s (apply_adapts fuel s) /\ CapsOK (apply_adapts fuel s) /\ ErrOK false (serr s) (serr (apply_adapts fuel s)).
Proof.
  induction fuel as [|f IH]; intros s C; cbn [apply_adapts].
  - split; [apply Same_refl|]. split; [exact C|apply ErrOK_refl].
  - destruct (evs s) as [|[k a] r] eqn:E.
    + split; [apply Same_refl|]. split; [exact C|apply ErrOK_refl].
    + destruct (k =? evAdapt).
      * destruct ((pmin s <=? a) && (a <=? pmax s)) eqn:G.
        -- assert (C1 : CapsOK (sh_caps (sh_evs s r (pend s)) a)).
           { unfold CapsOK in *. fields. lia. }
           destruct (IH _ C1) as (A & B & D). split; [|split; [exact B|exact D]].
           refine (Same_trans _ _ _ _ A). unfold Same. fields. repeat split.
        -- split; [unfold Same; fields; repeat split|]. split; [exact C|].
           apply (ErrOK_err false (sh_evs s r (pend s)) 301). left. unfold code. lia.
      * split; [apply Same_refl|]. split; [exact C|apply ErrOK_refl].
Qed.

Lemma SInv_capsok s : SInv s -> CapsOK s.
Proof. intros I. destruct I. unfold CapsOK. tauto. Qed.

Lemma adapts_spec s : SInv s ->
  SInv (adapts s) /\ Same s (adapts s) /\ ErrOK false (serr s) (serr (adapts s)).
Proof.
  intros I. unfold adapts. destruct (apply_adapts_spec (length (evs s)) s (SInv_capsok _ I)) as (A & B & C).
  split; [exact (SInv_same _ _ I A B)|]. split; assumption.
Qed.

(* ------------------------------------------------------------------ apply_sieve: the update path *)
Definition upd_item (prev : item) (k v ex c : Z) : item :=
  {| key := k; val := v; exp := ex; cost := c; reuse := reuse prev; visited := visited prev; unpub := false |}.
Definition upd_state (s : shard) (prev : item) (k v ex c : Z) : shard :=
  let it := upd_item prev k v ex c in
  let s1 := if has_key (prob s) k then sh_lists s (replace_item (prob s) it) (main s) (hand s)
            else sh_lists s (prob s) (replace_item (main s) it) (hand s) in
  sh_ghost (sh_set s1 (tabk s1) (lst s1) (lfu s1) (prob s1) (main s1) (hand s1) (size s1)
                   (scost s1 + (c - cost prev)) (staged s1)) [(1, k, val prev); (0, k, v)] [].

Lemma apply_sieve_update_eq s k v ex c prev : lookup s (e_pol e) k = Some prev ->
  apply_sieve e s k v ex c =
  (let s3 := if warmup s then upd_state s prev k v ex c else record_update (upd_state s prev k v ex c) k in
   if over_capacity s3 then let '(s4, d) := enforce e s3 None false in (s4, true, d) else (s3, true, 0)).
Proof. intros H. unfold apply_sieve. rewrite H. reflexivity. Qed.

Lemma EInv_write tb sz sc E1 t E2 t' : EInv tb sz sc (E1 ++ t :: E2) ->
  ekey t' = ekey t -> eunpub t' = eunpub t -> 0 <= ecost t' ->
  EInv tb sz (sc + (ecost t' - ecost t)) (E1 ++ t' :: E2).
Proof.
  intros (A & B & C & D & F) K U N. repeat split.
  - rewrite map_app in *. cbn [map] in *. rewrite K. exact A.
  - intros H. apply B in H. destruct H as [x [H1 [H2 H3]]]. apply in_app_or in H1.
    destruct H1 as [H1|[H1|H1]].
    + exists x. split; [apply in_or_app; left; exact H1|split; assumption].
    + subst x. exists t'. split; [apply in_or_app; right; left; reflexivity|]. split; congruence.
    + exists x. split; [apply in_or_app; right; right; exact H1|split; assumption].
  - intros [x [H1 [H2 H3]]]. apply B. apply in_app_or in H1. destruct H1 as [H1|[H1|H1]].
    + exists x. split; [apply in_or_app; left; exact H1|split; assumption].
    + subst x. exists t. split; [apply in_or_app; right; left; reflexivity|]. split; congruence.
    + exists x. split; [apply in_or_app; right; right; exact H1|split; assumption].
  - rewrite app_length in *. cbn [length] in *. exact C.
  - rewrite map_app, sumZ_app in *. cbn [map sumZ] in *. lia.
  - intros x H. apply in_app_or in H. destruct H as [H|[H|H]].
    + apply F. apply in_or_app. left. exact H.
    + subst x. exact N.
    + apply F. apply in_or_app. right. right. exact H.
Qed.

Lemma upd_state_spec s prev k v ex c :
  SInv s -> lookup s (e_pol e) k = Some prev -> 0 <= c ->
  let s2 := upd_state s prev k v ex c in
  SInv s2 /\ Frame s s2 /\ tabk s2 = tabk s /\ size s2 = size s /\ scost s2 = scost s + (c - cost prev) /\
  glog s2 = glog s ++ [(1, k, val prev); (0, k, v)] /\ nlog s2 = nlog s /\ staged s2 = staged s /\
  serr s2 = serr s /\
  (exists L1 L2, items s = L1 ++ prev :: L2 /\ items s2 = L1 ++ upd_item prev k v ex c :: L2).
Proof.
  intros I L C s2. destruct (lookup_some _ _ _ I L) as (Hin & K & U & T & FI).
  pose proof (SInv_items_nodup _ I) as ND. unfold items in ND.
  assert (G : exists L1 L2, items s = L1 ++ prev :: L2 /\ items s2 = L1 ++ upd_item prev k v ex c :: L2 /\
                             keys (main s2) = keys (main s) /\ hand s2 = hand s).
  { unfold s2, upd_state, items in *. destruct (has_key (prob s) k) eqn:HK; fields.
    - apply has_key_true in HK. destruct (find_item_in _ _ HK) as [x Fx].
      rewrite (find_item_app_l _ (main s) _ _ Fx) in FI. injection FI as ->.
      pose proof (proj1 (find_item_some _ _ _ Fx)) as Hp.
      destruct (replace_split _ prev (upd_item prev k v ex c) Hp (nodup_keys_app_l _ _ ND) (eq_sym K)) as [l1 [l2 [E1 E2]]].
      exists l1, (l2 ++ main s). rewrite E2, E1, <- !app_assoc. repeat split.
    - apply has_key_false in HK. apply find_item_none in HK. rewrite (find_item_app_r _ _ _ HK) in FI.
      pose proof (proj1 (find_item_some _ _ _ FI)) as Hm.
      destruct (replace_split _ prev (upd_item prev k v ex c) Hm (nodup_keys_app_r _ _ ND) (eq_sym K)) as [l1 [l2 [E1 E2]]].
      exists (prob s ++ l1), l2. rewrite E2, E1, <- !app_assoc. repeat split.
      unfold keys. rewrite !map_app. cbn [map key upd_item]. rewrite K. reflexivity. }
  destruct G as [L1 [L2 (E1 & E2 & KM & HH)]].
  assert (FR : Frame s s2 /\ tabk s2 = tabk s /\ size s2 = size s /\ scost s2 = scost s + (c - cost prev) /\
               glog s2 = glog s ++ [(1, k, val prev); (0, k, v)] /\ nlog s2 = nlog s /\ staged s2 = staged s /\ serr s2 = serr s).
  { unfold s2, upd_state, Frame. destruct (has_key (prob s) k); fields; rewrite ?app_nil_r; repeat split. }
  destruct FR as (F & T2 & Z2 & C2 & G2 & N2 & S2 & R2).
  split; [|repeat split; try assumption; try (exists L1, L2; split; assumption); apply F].
  apply SInv_ess in I. apply SInv_ess. destruct I as (A & B & HO & D).
  destruct F as (F1 & F2 & F3 & F4 & F5 & F6 & F7 & F8).
  rewrite T2, Z2, C2, F1, F3, F4, F5, F6, F7, F8, E2, HH, KM. split; [|split; [exact B|split; [exact HO|exact D]]].
  rewrite E1 in A. rewrite map_app in *. cbn [map] in *.
  refine (EInv_write _ _ _ _ _ _ (ess (upd_item prev k v ex c)) A _ _ _).
  - cbn. congruence.
  - cbn. congruence.
  - exact C.
Qed.

(* ------------------------------------------------------------------ apply_sieve: the insert path *)
Definition ins_pre (s : shard) : shard * bool :=
  let '(s', a) := pop_ev s evGhost in
  (adapts s', negb (warmup s) && match a with Some x => negb (x =? 0) | None => false end).
Definition ins_item (k v ex c : Z) (to_main : bool) : item :=
  {| key := k; val := v; exp := ex; cost := c; reuse := if to_main then 1 else 0; visited := to_main; unpub := true |}.
Definition ins_state (s0 : shard) (gh : bool) (k v ex c : Z) : shard :=
  let to_main := gh && (0 <? mcap s0) in
  let it := ins_item k v ex c to_main in
  let s1 := sh_set s0 (tabk s0) (lst s0) (lfu s0)
                   (if to_main then prob s0 else it :: prob s0)
                   (if to_main then it :: main s0 else main s0)
                   (if to_main then match hand s0 with None => Some k | h => h end else hand s0)
                   (size s0 + 1) (scost s0 + c) (staged s0) in
  let s1 := sh_ghost s1 [(0, k, v)] [] in
  if to_main then sh_stats s1 (admits s1) (rejects s1) (ghosthits s1 + 1) (promos s1) (pevicts s1) (mevicts s1) else s1.
Definition pub_list (k : Z) (l : list item) : list item :=
  match find_item l k with Some x => replace_item l (set_flags x (reuse x) (visited x) false) | None => l end.
Definition pub_state (s2 : shard) (k : Z) : shard :=
  sh_set s2 (k :: tabk s2) (lst s2) (lfu s2) (pub_list k (prob s2)) (pub_list k (main s2)) (hand s2)
         (size s2) (scost s2) (staged s2).

Lemma apply_sieve_insert_eq s k v ex c : lookup s (e_pol e) k = None ->
  apply_sieve e s k v ex c =
  (let '(s0, gh) := ins_pre s in
   let s1 := ins_state s0 gh k v ex c in
   let '(s2, d) := if negb (warmup s) || over_capacity s1 then enforce e s1 (Some k) gh else (s1, 0) in
   if owns s2 k then (bump (pub_state s2 k) 1 0 0 0, true, d) else (bump s2 0 1 0 0, false, d)).
Proof.
  intros H. unfold apply_sieve, ins_pre. rewrite H. destruct (pop_ev s evGhost) as [s' a]. reflexivity.
Qed.

Lemma pop_ev_same s kind s' a : 0 <= kind <= 4 -> pop_ev s kind = (s', a) ->
  Same s s' /\ pcap s' = pcap s /\ mcap s' = mcap s /\ ErrOK false (serr s) (serr s').
Proof.
  intros K. unfold pop_ev.
  assert (G1 : forall c, code c -> Same s (sh_err s c) /\ pcap (sh_err s c) = pcap s /\ mcap (sh_err s c) = mcap s /\
                                  ErrOK false (serr s) (serr (sh_err s c))).
  { intros c Hc. split; [unfold Same; fields; repeat split|]. split; [reflexivity|]. split; [reflexivity|].
    apply ErrOK_err. left. exact Hc. }
  destruct (evs s) as [|[k x] r].
  - intros H. apply pair_equal_spec in H. destruct H as [<- _]. apply G1. unfold code. lia.
  - destruct (k =? kind); intros H; apply pair_equal_spec in H; destruct H as [<- _].
    + split; [unfold Same; fields; repeat split|]. split; [reflexivity|]. split; [reflexivity|apply ErrOK_refl].
    + apply G1. unfold code. lia.
Qed.

Lemma ins_pre_spec s s0 gh : SInv s -> ins_pre s = (s0, gh) ->
  SInv s0 /\ Same s s0 /\ ErrOK false (serr s) (serr s0).
Proof.
  intros I. unfold ins_pre. destruct (pop_ev s evGhost) as [s' a] eqn:PE. intros H. injection H as <- _.
  destruct (pop_ev_same s evGhost s' a ltac:(unfold evGhost; lia) PE) as (A & B & C & D).
  assert (I' : SInv s').
  { apply (SInv_same _ _ I A). destruct (SInv_capsok _ I) as (C1 & C2).
    destruct A as (_ & _ & _ & _ & _ & _ & _ & _ & _ & A10 & _ & _ & _ & A14 & A15).
    unfold CapsOK. rewrite B, C, A10, A14, A15. split; assumption. }
  destruct (adapts_spec _ I') as (I0 & A0 & E0).
  split; [exact I0|]. split; [exact (Same_trans _ _ _ A A0)|exact (ErrOK_trans _ _ _ _ D E0)].
Qed.

Lemma EInv_insert tb sz sc E1 E2 t : EInv tb sz sc (E1 ++ E2) -> ~ In (ekey t) (map ekey (E1 ++ E2)) ->
  eunpub t = true -> 0 <= ecost t -> EInv tb (sz + 1) (sc + ecost t) (E1 ++ t :: E2).
Proof.
  intros (A & B & C & D & F) N U P. apply (EInv_perm _ _ _ (t :: E1 ++ E2)); [apply Permutation_middle|].
  repeat split.
  - cbn [map]. constructor; assumption.
  - intros H. apply B in H. destruct H as [x [H1 H2]]. exists x. split; [right; exact H1|exact H2].
  - intros [x [[H1|H1] [H2 H3]]]; [subst x; congruence|]. apply B. exists x. split; [exact H1|split; assumption].
  - cbn [length]. lia.
  - cbn [map sumZ]. lia.
  - intros x [H|H]; [subst x; exact P|exact (F x H)].
Qed.

Lemma EInv_publish tb sz sc E1 t E2 t' : EInv tb sz sc (E1 ++ t :: E2) -> eunpub t = true ->
  ekey t' = ekey t -> ecost t' = ecost t -> eunpub t' = false ->
  EInv (ekey t :: tb) sz sc (E1 ++ t' :: E2) /\ ~ In (ekey t) tb.
Proof.
  intros (A & B & C & D & F) U K1 K2 U'.
  assert (NI : ~ In (ekey t) tb).
  { intros H. apply B in H. destruct H as [x [H1 [H2 H3]]].
    rewrite map_app in A. cbn [map] in A. pose proof (NoDup_remove_2 _ _ _ A) as N.
    apply in_app_or in H1. destruct H1 as [H1|[H1|H1]].
    - apply N. apply in_or_app. left. rewrite <- H2. apply in_map. exact H1.
    - subst x. congruence.
    - apply N. apply in_or_app. right. rewrite <- H2. apply in_map. exact H1. }
  split; [|exact NI]. repeat split.
  - rewrite map_app in *. cbn [map] in *. rewrite K1. exact A.
  - intros [H|H].
    + subst k. exists t'. split; [apply in_or_app; right; left; reflexivity|split; assumption].
    + apply B in H. destruct H as [x [H1 [H2 H3]]]. apply in_app_or in H1. destruct H1 as [H1|[H1|H1]].
      * exists x. split; [apply in_or_app; left; exact H1|split; assumption].
      * subst x. congruence.
      * exists x. split; [apply in_or_app; right; right; exact H1|split; assumption].
  - intros [x [H1 [H2 H3]]]. apply in_app_or in H1. destruct H1 as [H1|[H1|H1]].
    + right. apply B. exists x. split; [apply in_or_app; left; exact H1|split; assumption].
    + subst x. left. congruence.
    + right. apply B. exists x. split; [apply in_or_app; right; right; exact H1|split; assumption].
  - rewrite app_length in *. cbn [length] in *. exact C.
  - rewrite map_app, sumZ_app in *. cbn [map sumZ] in *. lia.
  - intros x H. apply in_app_or in H. destruct H as [H|[H|H]].
    + apply F. apply in_or_app. left. exact H.
    + subst x. rewrite K2. apply F. apply in_or_app. right. left. reflexivity.
    + apply F. apply in_or_app. right. right. exact H.
Qed.

Lemma ins_state_spec s0 gh k v ex c : SInv s0 -> ~ In k (keys (items s0)) -> 0 <= c ->
  let s1 := ins_state s0 gh k v ex c in
  SInv s1 /\ Frame s0 s1 /\ tabk s1 = tabk s0 /\ size s1 = size s0 + 1 /\ scost s1 = scost s0 + c /\
  glog s1 = glog s0 ++ [(0, k, v)] /\ nlog s1 = nlog s0 /\ staged s1 = staged s0 /\ serr s1 = serr s0 /\
  exists tm L1 L2, items s0 = L1 ++ L2 /\ items s1 = L1 ++ ins_item k v ex c tm :: L2.
Proof.
  intros I N C s1.
  assert (G : exists tm L1 L2, items s0 = L1 ++ L2 /\ items s1 = L1 ++ ins_item k v ex c tm :: L2 /\
     HandOK (hand s1) (main s1) /\
     Frame s0 s1 /\ tabk s1 = tabk s0 /\ size s1 = size s0 + 1 /\ scost s1 = scost s0 + c /\
     glog s1 = glog s0 ++ [(0, k, v)] /\ nlog s1 = nlog s0 /\ staged s1 = staged s0 /\ serr s1 = serr s0).
  { unfold s1, ins_state, items, Frame. destruct (gh && (0 <? mcap s0)) eqn:TM; fields; rewrite ?app_nil_r.
    - exists true, (prob s0), (main s0). repeat split.
      intros x Hx. unfold keys. cbn [map key ins_item]. destruct (hand s0) as [h|] eqn:HH.
      + injection Hx as <-. right. exact (SInv_hand _ I h HH).
      + injection Hx as <-. left. reflexivity.
    - exists false, [], (prob s0 ++ main s0). repeat split. exact (SInv_hand _ I). }
  destruct G as [tm [L1 [L2 (E0 & E1 & HO & F & T & Z1 & C1 & G1 & N1 & S1 & R1)]]].
  split; [|repeat split; try assumption; try apply F; exists tm, L1, L2; split; assumption].
  apply SInv_ess in I. apply SInv_ess. destruct I as (A & B & _ & D).
  destruct F as (F1 & F2 & F3 & F4 & F5 & F6 & F7 & F8).
  rewrite T, Z1, C1, F1, F3, F4, F5, F6, F7, F8, E1. split; [|split; [exact B|split; [exact HO|exact D]]].
  rewrite E0 in A, N. rewrite map_app in *. cbn [map].
  refine (EInv_insert _ _ _ _ _ (ess (ins_item k v ex c tm)) A _ eq_refl C).
  rewrite <- !map_app, <- keys_ess. exact N.
Qed.

Lemma pub_list_none k l : ~ In k (keys l) -> pub_list k l = l.
Proof. intros H. unfold pub_list. apply find_item_none in H. rewrite H. reflexivity. Qed.

Lemma pub_state_spec s2 k x : SInv s2 -> PendLe s2 k -> In x (items s2) -> key x = k -> unpub x = true ->
  let s3 := pub_state s2 k in
  SInv s3 /\ Quiet s3 /\ Frame s2 s3 /\ tabk s3 = k :: tabk s2 /\ size s3 = size s2 /\ scost s3 = scost s2 /\
  glog s3 = glog s2 /\ nlog s3 = nlog s2 /\ staged s3 = staged s2 /\ serr s3 = serr s2 /\
  exists L1 L2, items s2 = L1 ++ x :: L2 /\ items s3 = L1 ++ set_flags x (reuse x) (visited x) false :: L2.
Proof.
  intros I P Hin K U s3. pose proof (SInv_items_nodup _ I) as ND. unfold items in ND, Hin.
  set (x' := set_flags x (reuse x) (visited x) false).
  assert (G : exists L1 L2, items s2 = L1 ++ x :: L2 /\ items s3 = L1 ++ x' :: L2 /\ keys (main s3) = keys (main s2)).
  { unfold s3, pub_state, items. fields. apply in_app_or in Hin. destruct Hin as [Hp|Hm].
    - assert (NM : ~ In k (keys (main s2))).
      { apply (nodup_keys_disj _ _ _ ND). rewrite <- K. unfold keys. apply in_map. exact Hp. }
      rewrite (pub_list_none _ _ NM). unfold pub_list.
      rewrite (find_item_unique _ _ _ (nodup_keys_app_l _ _ ND) Hp K). fold x'.
      destruct (replace_split _ x x' Hp (nodup_keys_app_l _ _ ND) eq_refl) as [l1 [l2 [E1 E2]]].
      exists l1, (l2 ++ main s2). rewrite E2, E1, <- !app_assoc. repeat split.
    - assert (NP : ~ In k (keys (prob s2))).
      { intros A. apply (nodup_keys_disj _ _ _ ND A). rewrite <- K. unfold keys. apply in_map. exact Hm. }
      rewrite (pub_list_none _ _ NP). unfold pub_list.
      rewrite (find_item_unique _ _ _ (nodup_keys_app_r _ _ ND) Hm K). fold x'.
      destruct (replace_split _ x x' Hm (nodup_keys_app_r _ _ ND) eq_refl) as [l1 [l2 [E1 E2]]].
      exists (prob s2 ++ l1), l2. rewrite E2, E1, <- !app_assoc. repeat split.
      unfold keys. rewrite !map_app. reflexivity. }
  destruct G as [L1 [L2 (E2 & E3 & KM)]].
  assert (FR : Frame s2 s3 /\ tabk s3 = k :: tabk s2 /\ size s3 = size s2 /\ scost s3 = scost s2 /\
     glog s3 = glog s2 /\ nlog s3 = nlog s2 /\ staged s3 = staged s2 /\ serr s3 = serr s2 /\ hand s3 = hand s2).
  { unfold s3, pub_state, Frame. fields. repeat split. }
  destruct FR as (F & T & Z1 & C1 & G1 & N1 & S1 & R1 & HH).
  assert (Q : Quiet s3).
  { intros y Hy. rewrite E3 in Hy. apply in_app_or in Hy. destruct Hy as [Hy|[Hy|Hy]].
    - destruct (unpub y) eqn:Uy; [|reflexivity]. exfalso.
      assert (Hy2 : In y (items s2)) by (rewrite E2; apply in_or_app; left; exact Hy).
      pose proof (P y Hy2 Uy) as Ky. fold (items s2) in ND. rewrite E2 in ND. unfold keys in ND. rewrite map_app in ND. cbn [map] in ND.
      apply (NoDup_remove_2 _ _ _ ND). apply in_or_app. left. rewrite K, <- Ky. apply in_map. exact Hy.
    - subst y. reflexivity.
    - destruct (unpub y) eqn:Uy; [|reflexivity]. exfalso.
      assert (Hy2 : In y (items s2)) by (rewrite E2; apply in_or_app; right; right; exact Hy).
      pose proof (P y Hy2 Uy) as Ky. fold (items s2) in ND. rewrite E2 in ND. unfold keys in ND. rewrite map_app in ND. cbn [map] in ND.
      apply (NoDup_remove_2 _ _ _ ND). apply in_or_app. right. rewrite K, <- Ky. apply in_map. exact Hy. }
  split; [|split; [exact Q|repeat split; try assumption; try apply F; exists L1, L2; split; assumption]].
  apply SInv_ess in I. apply SInv_ess. destruct I as (A & B & HO & D).
  destruct F as (F1 & F2 & F3 & F4 & F5 & F6 & F7 & F8).
  rewrite T, Z1, C1, F1, F3, F4, F5, F6, F7, F8, E3, HH, KM. rewrite E2 in A. rewrite map_app in *. cbn [map] in *.
  destruct (EInv_publish _ _ _ _ _ _ (ess x') A U eq_refl eq_refl eq_refl) as [A' NI].
  change (ekey (ess x)) with (key x) in A', NI. rewrite K in A', NI.
  split; [exact A'|]. split; [constructor; assumption|]. split; [exact HO|exact D].
Qed.

(* ------------------------------------------------------------------ apply_sieve: master lemmas *)
Lemma over_eq s s' : cap s' = cap s -> costcap s' = costcap s -> size s' = size s -> scost s' = scost s ->
  over_capacity s' = over_capacity s.
Proof. intros A B C D. unfold over_capacity. rewrite A, B, C, D. reflexivity. Qed.

Lemma enforce_loop_not_over w s inn tie acc : over_capacity s = false ->
  enforce_loop w e s inn tie acc = (s, inn, tie, acc).
Proof. intros O. destruct w as [|w]; [reflexivity|]. cbn [enforce_loop]. rewrite O. reflexivity. Qed.

Lemma enforce_not_over s inn tie : over_capacity s = false -> enforce e s inn tie = (s, 0).
Proof.
  intros O. unfold enforce. rewrite (enforce_loop_not_over _ _ _ _ _ O). rewrite O. reflexivity.
Qed.

Definition FuelHyp (fl : bool) (s : shard) (c : Z) : Prop :=
  fl = true \/ (CostOK s /\ (0 < costcap s -> c <= costcap s)).

Lemma apply_sieve_update fl s k v ex c prev s' cm d :
  SInv s -> Quiet s -> lookup s (e_pol e) k = Some prev -> 0 <= c -> FuelHyp fl s c ->
  apply_sieve e s k v ex c = (s', cm, d) ->
  cm = true /\ exists n, steps fl (upd_state s prev k v ex c) s' d n /\ Bnd (upd_state s prev k v ex c) n /\
    (fl = false -> over_capacity s' = false) /\ (over_capacity (upd_state s prev k v ex c) = false -> n = 0%nat) /\
    Quiet (upd_state s prev k v ex c).
Proof.
  intros I Q L C FH. rewrite (apply_sieve_update_eq _ _ _ _ _ _ L).
  destruct (upd_state_spec s prev k v ex c I L C) as (I2 & F & T2 & Z2 & C2 & G2 & N2 & S2 & R2 & [L1 [L2 [E1 E2]]]).
  set (s2 := upd_state s prev k v ex c) in *.
  assert (Q2 : Quiet s2).
  { intros y Hy. rewrite E2 in Hy. apply in_app_or in Hy. destruct Hy as [Hy|[Hy|Hy]].
    - apply Q. rewrite E1. apply in_or_app. left. exact Hy.
    - subst y. reflexivity.
    - apply Q. rewrite E1. apply in_or_app. right. right. exact Hy. }
  assert (S3 : steps fl s2 (if warmup s then s2 else record_update s2 k) 0 0).
  { destruct (warmup s); [apply steps_refl|apply record_update_steps; exact I2]. }
  set (s3 := if warmup s then s2 else record_update s2 k) in *. cbv zeta.
  destruct (steps_pres _ _ _ _ _ S3 I2) as (I3 & F3 & Z3 & _ & PP & CC & QQ).
  assert (O3 : over_capacity s3 = over_capacity s2).
  { destruct (steps_sum _ _ _ _ _ S3 I2) as [_ [dl (Ld & _ & P & _)]]. destruct dl; [|discriminate].
    cbn [map app] in P. destruct F3 as (F31 & F32 & _). apply over_eq; try assumption; [lia|].
    apply SInv_ess in I2. apply SInv_ess in I3. destruct I2 as ((_ & _ & _ & X2 & _) & _).
    destruct I3 as ((_ & _ & _ & X3 & _) & _). rewrite X2, X3. symmetry. apply sumZ_perm. apply Permutation_map. exact P. }
  destruct (over_capacity s3) eqn:O.
  - destruct (enforce e s3 None false) as [s4 d4] eqn:EN. intros H. injection H as <- <- <-.
    split; [reflexivity|].
    assert (FH3 : fl = true \/ (CostOK s3 /\ PendLe s3 k)).
    { destruct FH as [->|[CK Cc]]; [left; reflexivity|right]. split; [|exact (Quiet_PendLe _ _ (QQ Q2))].
      apply CC. intros Hc y Hy. destruct F as (_ & Fc & _). rewrite Fc in *. rewrite E2 in Hy.
      apply in_app_or in Hy. destruct Hy as [Hy|[Hy|Hy]].
      - apply (CK Hc). rewrite E1. apply in_or_app. left. exact Hy.
      - subst y. cbn [cost upd_item]. exact (Cc Hc).
      - apply (CK Hc). rewrite E1. apply in_or_app. right. right. exact Hy. }
    destruct (enforce_any fl _ _ _ _ _ k I3 FH3 EN) as [n (S4 & B4 & O4)].
    exists n. split; [eapply steps_eq; [exact (steps_trans _ _ _ _ _ _ _ _ S3 S4)|lia|reflexivity]|].
    split; [|split; [exact O4|split; [congruence|exact Q2]]].
    unfold Bnd in *. destruct F3 as (F31 & F32 & _). rewrite F31, F32, Z3 in B4. intros Hc. specialize (B4 Hc). lia.
  - intros H. injection H as <- <- <-. split; [reflexivity|]. exists 0%nat.
    split; [exact S3|]. split; [apply Bnd_zero|]. split; [intros _; exact O|split; [reflexivity|exact Q2]].
Qed.

Lemma owns_true s k : owns s k = true <-> In k (keys (items s)).
Proof.
  unfold owns, items, keys. rewrite orb_true_iff, !has_key_true, map_app, in_app_iff. reflexivity.
Qed.

Lemma apply_sieve_insert fl s k v ex c s' cm d :
  SInv s -> Quiet s -> lookup s (e_pol e) k = None -> 0 <= c -> FuelHyp fl s c ->
  apply_sieve e s k v ex c = (s', cm, d) ->
  exists s0 gh s2 n, ins_pre s = (s0, gh) /\
    steps fl (ins_state s0 gh k v ex c) s2 d n /\ Bnd (ins_state s0 gh k v ex c) n /\
    (fl = false -> over_capacity s2 = false) /\ (over_capacity (ins_state s0 gh k v ex c) = false -> n = 0%nat) /\
    ((cm = true /\ In k (keys (items s2)) /\ s' = bump (pub_state s2 k) 1 0 0 0) \/
     (cm = false /\ ~ In k (keys (items s2)) /\ s' = bump s2 0 1 0 0)).
Proof.
  intros I Q L C FH. rewrite (apply_sieve_insert_eq _ _ _ _ _ L).
  destruct (ins_pre s) as [s0 gh] eqn:IP. destruct (ins_pre_spec _ _ _ I IP) as (I0 & SA & E0).
  pose proof (lookup_none _ _ I Q L) as NK.
  assert (NK0 : ~ In k (keys (items s0))).
  { destruct SA as (A1 & A2 & _). unfold items. rewrite A1, A2. exact NK. }
  destruct (ins_state_spec s0 gh k v ex c I0 NK0 C) as (I1 & F1 & T1 & Z1 & C1 & G1 & N1 & S1 & R1 & [tm [L1 [L2 [X0 X1]]]]).
  cbv zeta. set (s1 := ins_state s0 gh k v ex c) in *.
  destruct (if negb (warmup s) || over_capacity s1 then enforce e s1 (Some k) gh else (s1, 0)) as [s2 d2] eqn:EN.
  assert (G : exists n, steps fl s1 s2 d2 n /\ Bnd s1 n /\ (fl = false -> over_capacity s2 = false) /\
                        (over_capacity s1 = false -> n = 0%nat)).
  { destruct (over_capacity s1) eqn:O1.
    - rewrite orb_true_r in EN.
      assert (FH1 : fl = true \/ (CostOK s1 /\ PendLe s1 k)).
      { destruct FH as [->|[CK Cc]]; [left; reflexivity|right]. split.
        - intros Hc y Hy. destruct F1 as (_ & Fc & _). rewrite Fc in *.
          destruct SA as (A1 & A2 & _ & _ & _ & _ & _ & _ & _ & _ & A11 & _). rewrite A11 in *.
          rewrite X1 in Hy. apply in_app_or in Hy. destruct Hy as [Hy|[Hy|Hy]].
          + apply (CK Hc). unfold items. rewrite <- A1, <- A2. fold (items s0). rewrite X0. apply in_or_app. left. exact Hy.
          + subst y. cbn [cost ins_item]. exact (Cc Hc).
          + apply (CK Hc). unfold items. rewrite <- A1, <- A2. fold (items s0). rewrite X0. apply in_or_app. right. exact Hy.
        - intros y Hy Uy. rewrite X1 in Hy. apply in_app_or in Hy.
          assert (Q0 : forall z, In z (items s0) -> unpub z = false).
          { intros z Hz. apply Q. destruct SA as (A1 & A2 & _). unfold items in *. rewrite <- A1, <- A2. exact Hz. }
          destruct Hy as [Hy|[Hy|Hy]].
          + rewrite (Q0 y) in Uy; [discriminate|]. rewrite X0. apply in_or_app. left. exact Hy.
          + subst y. reflexivity.
          + rewrite (Q0 y) in Uy; [discriminate|]. rewrite X0. apply in_or_app. right. exact Hy. }
      destruct (enforce_any fl _ _ _ _ _ k I1 FH1 EN) as [n (S4 & B4 & O4)].
      exists n. split; [exact S4|]. split; [exact B4|]. split; [exact O4|discriminate].
    - assert (E2 : (s2, d2) = (s1, 0)).
      { destruct (negb (warmup s) || false); [rewrite (enforce_not_over _ _ _ O1) in EN|]; congruence. }
      injection E2 as -> ->. exists 0%nat. split; [apply steps_refl|]. split; [apply Bnd_zero|]. split; [intros _; exact O1|reflexivity]. }
  destruct G as [n (S2 & B2 & O2 & Z2)].
  destruct (owns s2 k) eqn:OW; intros H; injection H as <- <- <-; exists s0, gh, s2, n;
    (split; [reflexivity|]); (split; [exact S2|]); (split; [exact B2|]); (split; [exact O2|]); (split; [exact Z2|]).
  - left. split; [reflexivity|]. split; [apply owns_true; exact OW|reflexivity].
  - right. split; [reflexivity|]. split; [|reflexivity]. intros A. apply owns_true in A. congruence.
Qed.

(* ------------------------------------------------------------------ apply_sieve: the grand summary *)
Definition others (k : Z) (l : list item) : list item := filter (fun it => negb (key it =? k)) l.
Definition ess_as (k : Z) (b : bool) (it : item) : Z * Z * Z * Z * bool :=
  if key it =? k then (key it, val it, exp it, cost it, b) else ess it.

Lemma others_all k l : (forall y, In y l -> key y <> k) -> others k l = l.
Proof.
  unfold others. induction l as [|x l IH]; cbn [filter]; intros H; [reflexivity|].
  destruct (key x =? k) eqn:E; [exfalso; apply (H x (or_introl eq_refl)); lia|]. cbn [negb].
  f_equal. apply IH. intros y Hy. apply H. right. exact Hy.
Qed.

Lemma others_notin k l : ~ In k (keys l) -> others k l = l.
Proof. intros N. apply others_all. intros y Hy E. apply N. rewrite <- E. unfold keys. apply in_map. exact Hy. Qed.

Lemma others_split k L1 p L2 : NoDup (keys (L1 ++ p :: L2)) -> key p = k -> others k (L1 ++ p :: L2) = L1 ++ L2.
Proof.
  intros ND K. unfold keys in ND. rewrite map_app in ND. cbn [map] in ND. pose proof (NoDup_remove_2 _ _ _ ND) as N.
  unfold others. rewrite filter_app. cbn [filter]. rewrite K, Z.eqb_refl. cbn [negb].
  fold (others k L1). fold (others k L2). rewrite !others_all; [reflexivity| |].
  - intros y Hy E. apply N. apply in_or_app. right. rewrite K, <- E. apply in_map. exact Hy.
  - intros y Hy E. apply N. apply in_or_app. left. rewrite K, <- E. apply in_map. exact Hy.
Qed.

Lemma ess_as_id k b l : (forall y, In y l -> key y = k -> unpub y = b) -> map (ess_as k b) l = map ess l.
Proof.
  intros H. apply map_ext_in. intros y Hy. unfold ess_as, ess. destruct (key y =? k) eqn:E; [|reflexivity].
  rewrite (H y Hy) by lia. reflexivity.
Qed.

Definition is_none {A} (o : option A) : bool := match o with None => true | Some _ => false end.

Definition ASum (fl : bool) (s : shard) (k v ex c : Z) (s' : shard) (cm : bool) (d : Z) : Prop :=
  let old := lookup s (e_pol e) k in
  let ins := is_none old in
  let W := match old with Some prev => [(1, k, val prev); (0, k, v)] | None => [(0, k, v)] end in
  let sz := size s + (if ins then 1 else 0) in
  let sc := scost s + c - match old with Some prev => cost prev | None => 0 end in
  SInv s' /\ Quiet s' /\
  (cap s' = cap s /\ costcap s' = costcap s /\ pmin s' = pmin s /\ pmax s' = pmax s) /\
  exists dl,
    glog s' = glog s ++ W ++ map dent dl /\ nlog s' = nlog s ++ dnots dl /\ staged s' = staged s ++ dnots dl /\
    Forall reason_ok dl /\ d = (if e_stats e then dcount dl else 0) /\
    ErrOK fl (serr s) (serr s') /\ (fl = false -> over_capacity s' = false) /\
    size s' = sz - Z.of_nat (length dl) /\
    (costcap s <= 0 -> Z.of_nat (length dl) <= Z.max 0 (sz - cap s)) /\
    (sz <= cap s -> (0 < costcap s -> sc <= costcap s) -> dl = []) /\
    Permutation ((k, v, ex, c, ins) :: map ess (others k (items s)))
                (map ess (map fst dl) ++ map (ess_as k ins) (items s')) /\
    (cm = false -> ins = true /\ ~ In k (keys (items s'))) /\
    (cm = true -> ins = true -> In k (keys (items s'))).

Lemma not_over_fits s : 1 <= cap s -> over_capacity s = false <-> (size s <= cap s /\ (0 < costcap s -> scost s <= costcap s)).
Proof. intros H. unfold over_capacity. lia. Qed.

Lemma apply_sieve_update_sum fl s k v ex c prev s' cm d :
  SInv s -> Quiet s -> lookup s (e_pol e) k = Some prev -> 0 <= c -> FuelHyp fl s c ->
  apply_sieve e s k v ex c = (s', cm, d) -> ASum fl s k v ex c s' cm d.
Proof.
  intros I Q L C FH H.
  destruct (apply_sieve_update fl _ _ _ _ _ _ _ _ _ I Q L C FH H) as (-> & n & S & B & O & Z0 & Q2).
  destruct (upd_state_spec s prev k v ex c I L C) as (I2 & F & T2 & Z2 & C2 & G2 & N2 & S2 & R2 & [L1 [L2 [E1 E2]]]).
  set (s2 := upd_state s prev k v ex c) in *.
  destruct (steps_sum _ _ _ _ _ S I2) as [I' [dl (Ld & F' & P & Z' & G' & N' & T' & R' & D' & E')]].
  destruct (steps_pres _ _ _ _ _ S I2) as (_ & _ & _ & _ & _ & _ & QQ).
  pose proof (QQ Q2) as Q'. destruct (lookup_some _ _ _ I L) as (_ & Kp & _).
  unfold ASum. rewrite L. cbn [is_none]. cbv zeta.
  destruct F as (F1 & F2 & F3 & F4 & F5 & F6 & F7 & F8). destruct F' as (F1' & F2' & F3' & F4' & F5' & F6' & F7' & F8').
  split; [exact I'|]. split; [exact Q'|]. split; [repeat split; congruence|].
  exists dl. rewrite G', G2, N', N2, T', S2, <- !app_assoc, Ld.
  split; [reflexivity|]. split; [reflexivity|]. split; [reflexivity|]. split; [exact R'|]. split; [exact D'|].
  split; [rewrite <- R2; exact E'|]. split; [exact O|]. split; [lia|].
  split; [unfold Bnd in B; rewrite F1, F2, Z2 in B; intros Hc; specialize (B Hc); lia|].
  split.
  - intros A1 A2. assert (O2 : over_capacity s2 = false).
    { apply not_over_fits; [rewrite F1; exact (SInv_cap _ I)|]. rewrite Z2, F1, F2, C2. split; [lia|]. intros Hc. specialize (A2 Hc). lia. }
    specialize (Z0 O2). rewrite Z0 in Ld. destruct dl; [reflexivity|discriminate].
  - split; [|split; [discriminate|intros _; discriminate]].
    rewrite (ess_as_id k false (items s')) by (intros y Hy _; exact (Q' y Hy)).
    refine (Permutation_trans _ P). rewrite E2, E1.
    rewrite (others_split k L1 prev L2); [|rewrite <- E1; exact (SInv_items_nodup _ I)|exact Kp].
    rewrite !map_app. cbn [map]. apply Permutation_middle.
Qed.

Lemma ErrOK_false_any fl a b : ErrOK false a b -> ErrOK fl a b.
Proof. unfold ErrOK. intros [H|[H1 [H2|[H2 _]]]]; [left; exact H|right; split; [exact H1|left; exact H2]|discriminate]. Qed.

Lemma apply_sieve_insert_sum fl s k v ex c s' cm d :
  SInv s -> Quiet s -> lookup s (e_pol e) k = None -> 0 <= c -> FuelHyp fl s c ->
  apply_sieve e s k v ex c = (s', cm, d) -> ASum fl s k v ex c s' cm d.
Proof.
  intros I Q L C FH H.
  destruct (apply_sieve_insert fl _ _ _ _ _ _ _ _ I Q L C FH H) as [s0 [gh [s2 [n (IP & S & B & O & Z0 & CS)]]]].
  destruct (ins_pre_spec _ _ _ I IP) as (I0 & SA & E0).
  pose proof (lookup_none _ _ I Q L) as NK.
  destruct SA as (A1 & A2 & A3 & A4 & A5 & A6 & A7 & A8 & A9 & A10 & A11 & A12 & A13 & A14 & A15).
  assert (IT0 : items s0 = items s) by (unfold items; rewrite A1, A2; reflexivity).
  assert (NK0 : ~ In k (keys (items s0))) by (rewrite IT0; exact NK).
  destruct (ins_state_spec s0 gh k v ex c I0 NK0 C) as (I1 & F1 & T1 & Z1 & C1 & G1 & N1 & S1 & R1 & [tm [L1 [L2 [X0 X1]]]]).
  set (s1 := ins_state s0 gh k v ex c) in *.
  assert (IN1 : forall y, In y (items s1) -> y = ins_item k v ex c tm \/ In y (items s)).
  { intros y Hy. rewrite X1 in Hy. rewrite <- IT0, X0. apply in_app_or in Hy.
    destruct Hy as [Hy|[Hy|Hy]]; [right; apply in_or_app; left; exact Hy|left; congruence|right; apply in_or_app; right; exact Hy]. }
  assert (P1 : PendLe s1 k).
  { intros y Hy Uy. destruct (IN1 y Hy) as [->|Hs]; [reflexivity|]. rewrite (Q y Hs) in Uy. discriminate. }
  destruct (steps_sum _ _ _ _ _ S I1) as [I2 [dl (Ld & F' & P & Z' & G' & N' & T' & R' & D' & E')]].
  destruct (steps_pres _ _ _ _ _ S I1) as (_ & _ & _ & _ & PP & _).
  pose proof (PP k P1) as P2.
  destruct F1 as (F11 & F12 & F13 & F14 & F15 & F16 & F17 & F18).
  destruct F' as (F1' & F2' & F3' & F4' & F5' & F6' & F7' & F8').
  assert (PL : Permutation ((k, v, ex, c, true) :: map ess (others k (items s))) (map ess (map fst dl) ++ map ess (items s2))).
  { refine (Permutation_trans _ P). rewrite (others_notin _ _ NK), X1, <- IT0, X0, !map_app. cbn [map].
    apply Permutation_middle. }
  assert (COMMON : forall s3, glog s3 = glog s2 -> nlog s3 = nlog s2 -> staged s3 = staged s2 -> serr s3 = serr s2 ->
            size s3 = size s2 -> scost s3 = scost s2 -> cap s3 = cap s2 -> costcap s3 = costcap s2 ->
            exists dl0, dl0 = dl /\
            glog s3 = glog s ++ [(0, k, v)] ++ map dent dl /\ nlog s3 = nlog s ++ dnots dl /\ staged s3 = staged s ++ dnots dl /\
            Forall reason_ok dl /\ d = (if e_stats e then dcount dl else 0) /\
            ErrOK fl (serr s) (serr s3) /\ (fl = false -> over_capacity s3 = false) /\
            size s3 = size s + 1 - Z.of_nat (length dl) /\
            (costcap s <= 0 -> Z.of_nat (length dl) <= Z.max 0 (size s + 1 - cap s)) /\
            (size s + 1 <= cap s -> (0 < costcap s -> scost s + c - 0 <= costcap s) -> dl = [])).
  { intros s3 Y1 Y2 Y3 Y4 Y5 Y6 Y7 Y8. exists dl. split; [reflexivity|].
    rewrite Y1, Y2, Y3, Y4, Y5, G', G1, N', N1, T', S1, A7, A8, A9, <- !app_assoc, Ld.
    split; [reflexivity|]. split; [reflexivity|]. split; [reflexivity|]. split; [exact R'|]. split; [exact D'|].
    split; [rewrite R1 in E'; exact (ErrOK_trans _ _ _ _ (ErrOK_false_any _ _ _ E0) E')|].
    split; [intros Hf; rewrite <- (O Hf); apply over_eq; assumption|]. split; [lia|].
    split; [unfold Bnd in B; rewrite F11, F12, Z1, A5, A10, A11 in B; intros Hc; specialize (B Hc); lia|].
    intros B1 B2. assert (O1 : over_capacity s1 = false).
    { apply not_over_fits; [rewrite F11; exact (SInv_cap _ I0)|]. rewrite Z1, F11, F12, C1, A5, A6, A10, A11.
      split; [lia|]. intros Hc. specialize (B2 Hc). lia. }
    specialize (Z0 O1). rewrite Z0 in Ld. destruct dl; [reflexivity|discriminate]. }
  unfold ASum. rewrite L. cbn [is_none]. cbv zeta.
  destruct CS as [(-> & KI & ->)|(-> & KN & ->)].
  - (* committed: publish *)
    unfold keys in KI. apply in_map_iff in KI. destruct KI as [x [Kx Hx]].
    assert (Ux : unpub x = true).
    { destruct (steps_sub _ _ _ _ _ S I1 x Hx) as [y [Hy Ey]]. unfold ess in Ey. injection Ey as Ey1 _ _ _ Ey5.
      destruct (IN1 y Hy) as [->|Hs]; [rewrite <- Ey5; reflexivity|].
      exfalso. apply NK. rewrite <- Kx, <- Ey1. unfold keys. apply in_map. exact Hs. }
    destruct (pub_state_spec s2 k x I2 P2 Hx Kx Ux) as (I3 & Q3 & F3 & T3 & Z3 & C3 & G3 & N3 & S3 & R3 & [M1 [M2 [Y0 Y1]]]).
    destruct F3 as (F31 & F32 & F33 & F34 & F35 & F36 & F37 & F38).
    split; [exact I3|]. split; [exact Q3|]. split; [fields; repeat split; congruence|].
    destruct (COMMON (bump (pub_state s2 k) 1 0 0 0) G3 N3 S3 R3 Z3 C3 F31 F32) as [dl0 [-> CM]].
    exists dl. destruct CM as (M1' & M2' & M3 & M4 & M5 & M6 & M7 & M8 & M9 & M10).
    repeat (split; [assumption|]). split; [|split; [discriminate|]].
    + refine (Permutation_trans PL _). apply Permutation_app_head.
      change (items (bump (pub_state s2 k) 1 0 0 0)) with (items (pub_state s2 k)). rewrite Y1, Y0, !map_app. cbn [map].
      pose proof (SInv_items_nodup _ I2) as ND. rewrite Y0 in ND. unfold keys in ND. rewrite map_app in ND. cbn [map] in ND.
      pose proof (NoDup_remove_2 _ _ _ ND) as NN.
      assert (EA : forall M, (forall y, In y M -> In (key y) (map key M1 ++ map key M2)) -> map (ess_as k true) M = map ess M).
      { intros M HM. apply map_ext_in. intros y Hy. unfold ess_as. destruct (key y =? k) eqn:Ek; [|reflexivity].
        exfalso. apply NN. rewrite Kx. replace k with (key y) by lia. exact (HM y Hy). }
      rewrite (EA M1), (EA M2).
      * unfold ess_as, ess. cbn [key val exp cost unpub set_flags]. rewrite Kx, Z.eqb_refl, Ux. reflexivity.
      * intros y Hy. apply in_or_app. right. apply in_map. exact Hy.
      * intros y Hy. apply in_or_app. left. apply in_map. exact Hy.
    + intros _ _. change (items (bump (pub_state s2 k) 1 0 0 0)) with (items (pub_state s2 k)). rewrite Y1.
      unfold keys. rewrite map_app. apply in_or_app. right. left. cbn [key set_flags]. exact Kx.
  - (* rejected *)
    assert (Q2 : Quiet s2).
    { intros y Hy. destruct (unpub y) eqn:Uy; [|reflexivity]. exfalso. apply KN. rewrite <- (P2 y Hy Uy).
      unfold keys. apply in_map. exact Hy. }
    split; [exact I2|]. split; [exact Q2|]. split; [fields; repeat split; congruence|].
    destruct (COMMON (bump s2 0 1 0 0) eq_refl eq_refl eq_refl eq_refl eq_refl eq_refl eq_refl eq_refl) as [dl0 [-> CM]].
    exists dl. destruct CM as (M1' & M2' & M3 & M4 & M5 & M6 & M7 & M8 & M9 & M10).
    repeat (split; [assumption|]). split; [|split; [intros _; split; [reflexivity|exact KN]|discriminate]].
    refine (Permutation_trans PL _). apply Permutation_app_head.
    change (items (bump s2 0 1 0 0)) with (items s2). rewrite ess_as_id; [reflexivity|].
    intros y Hy Ky. exfalso. apply KN. rewrite <- Ky. unfold keys. apply in_map. exact Hy.
Qed.

Theorem apply_sieve_sum fl s k v ex c s' cm d :
  SInv s -> Quiet s -> 0 <= c -> FuelHyp fl s c ->
  apply_sieve e s k v ex c = (s', cm, d) -> ASum fl s k v ex c s' cm d.
Proof.
  intros I Q C FH H. destruct (lookup s (e_pol e) k) as [prev|] eqn:L.
  - exact (apply_sieve_update_sum fl _ _ _ _ _ _ _ _ _ I Q L C FH H).
  - exact (apply_sieve_insert_sum fl _ _ _ _ _ _ _ _ I Q L C FH H).
Qed.

(* ================================================================== the theorems *)
Lemma FuelHyp_true s c : FuelHyp true s c.
Proof. left. reflexivity. Qed.

(* Theorem 2 (apply_sieve): a write from a quiet state ends in a quiet state satisfying the invariant *)
Theorem apply_sieve_preserves s k v ex c s' cm d :
  SInv s -> Quiet s -> 0 <= c -> apply_sieve e s k v ex c = (s', cm, d) -> SInv s' /\ Quiet s'.
Proof.
  intros I Q C H. destruct (apply_sieve_sum true _ _ _ _ _ _ _ _ I Q C (FuelHyp_true _ _) H) as (A & B & _).
  split; assumption.
Qed.

Lemma sum_ge_elem (l : list Z) y : (forall x, In x l -> 0 <= x) -> In y l -> y <= sumZ l.
Proof.
  induction l as [|a l IH]; cbn [In sumZ]; intros N H; [destruct H|].
  assert (0 <= sumZ l).
  { clear IH H. induction l as [|b l IH]; cbn [sumZ]; [lia|].
    assert (0 <= b) by (apply N; right; left; reflexivity).
    assert (0 <= sumZ l) by (apply IH; intros x [Hx|Hx]; apply N; [left; exact Hx|right; right; exact Hx]). lia. }
  destruct H as [->|H]; [lia|]. assert (0 <= a) by (apply N; left; reflexivity).
  assert (y <= sumZ l) by (apply IH; [intros x Hx; apply N; right; exact Hx|exact H]). lia.
Qed.

Lemma CostOK_of_fits s : SInv s -> over_capacity s = false -> CostOK s.
Proof.
  intros I O Hc it Hin. pose proof (SInv_cap _ I) as C1. apply (not_over_fits _ C1) in O. destruct O as [_ O].
  specialize (O Hc). destruct I as [_ _ _ _ Cs Cn _ _ _ _ _]. fold (items s) in Cs, Cn.
  assert (cost it <= sumZ (map cost (items s))).
  { apply sum_ge_elem; [|apply in_map; exact Hin]. intros x Hx. apply in_map_iff in Hx. destruct Hx as [y [<- Hy]]. exact (Cn y Hy). }
  lia.
Qed.

Lemma FuelHyp_false s c : SInv s -> over_capacity s = false -> (costcap s = 0 \/ c <= costcap s) -> FuelHyp false s c.
Proof. intros I O H. right. split; [exact (CostOK_of_fits _ I O)|]. lia. Qed.

(* Theorem 3: the budget, for every oracle stream (the hypothesis serr s' = 0 is not even needed) *)
Theorem apply_sieve_budget_strong s k v ex c s' cm d :
  SInv s -> Quiet s -> over_capacity s = false -> 0 <= c -> (costcap s = 0 \/ c <= costcap s) ->
  apply_sieve e s k v ex c = (s', cm, d) ->
  SInv s' /\ Quiet s' /\ over_capacity s' = false /\
  (serr s' = serr s \/ (serr s = 0 /\ code (serr s'))).
Proof.
  intros I Q O C Hc H.
  destruct (apply_sieve_sum false _ _ _ _ _ _ _ _ I Q C (FuelHyp_false _ _ I O Hc) H) as (A & B & _ & dl & _ & _ & _ & _ & _ & E & OV & _).
  split; [exact A|]. split; [exact B|]. split; [exact (OV eq_refl)|].
  destruct E as [E|[E1 [E2|[E2 _]]]]; [left; congruence|right; split; assumption|discriminate].
Qed.

Theorem apply_sieve_budget s k v ex c :
  SInv s -> Quiet s -> over_capacity s = false -> 0 <= c -> (costcap s = 0 \/ c <= costcap s) ->
  let '(s', committed, d) := apply_sieve e s k v ex c in
  serr s' = 0 -> SInv s' /\ Quiet s' /\ over_capacity s' = false.
Proof.
  intros I Q O C Hc. destruct (apply_sieve e s k v ex c) as [[s' cm] d] eqn:H. intros _.
  destruct (apply_sieve_budget_strong _ _ _ _ _ _ _ _ I Q O C Hc H) as (A & B & D & _).
  split; [exact A|split; [exact B|exact D]].
Qed.

(* the fuel claim: force_loop never runs dry (305 is never raised) and only oracle codes can appear *)
Theorem apply_sieve_serr s k v ex c s' cm d :
  SInv s -> Quiet s -> over_capacity s = false -> 0 <= c -> (costcap s = 0 \/ c <= costcap s) ->
  apply_sieve e s k v ex c = (s', cm, d) -> serr s = 0 ->
  serr s' <> 305 /\ (serr s' = 0 \/ 100 <= serr s' <= 104 \/ 200 <= serr s' <= 204 \/ serr s' = 301).
Proof.
  intros I Q O C Hc H Z0. destruct (apply_sieve_budget_strong _ _ _ _ _ _ _ _ I Q O C Hc H) as (_ & _ & _ & [E|[_ E]]).
  - split; [lia|left; lia].
  - unfold code in E. split; [lia|right; exact E].
Qed.

(* Theorem 8: reasons and the eviction counter *)
Theorem apply_sieve_reasons s k v ex c s' cm d :
  SInv s -> Quiet s -> 0 <= c -> apply_sieve e s k v ex c = (s', cm, d) ->
  exists dl,
    glog s' = glog s ++ (match lookup s (e_pol e) k with Some prev => [(1, k, val prev); (0, k, v)] | None => [(0, k, v)] end)
                     ++ map dent dl /\
    nlog s' = nlog s ++ dnots dl /\ staged s' = staged s ++ dnots dl /\
    Forall (fun p => (snd p = reasonCapacity \/ snd p = reasonRejected) /\
                     (unpub (fst p) = true -> snd p = reasonRejected) /\
                     (snd p = reasonCapacity -> unpub (fst p) = false)) dl /\
    d = (if e_stats e then Z.of_nat (length (filter (fun p => snd p =? reasonCapacity) dl)) else 0).
Proof.
  intros I Q C H. destruct (apply_sieve_sum true _ _ _ _ _ _ _ _ I Q C (FuelHyp_true _ _) H) as (_ & _ & _ & dl & G & N & S & R & D & _).
  exists dl. repeat split; assumption.
Qed.

Lemma lookup_of_in s it : SInv s -> In it (items s) -> unpub it = false -> lookup s (e_pol e) (key it) = Some it.
Proof.
  intros I H U. rewrite (lookup_sieve _ _ I).
  assert (M : memz (tabk s) (key it) = true).
  { apply memz_true. apply (SInv_tab _ I). exists it. repeat split; assumption. }
  rewrite M. exact (find_item_unique _ _ _ (SInv_items_nodup _ I) H eq_refl).
Qed.

Lemma lhs_nodup s k (t : Z * Z * Z * Z * bool) : SInv s -> ekey t = k -> NoDup (map ekey (t :: map ess (others k (items s)))).
Proof.
  intros I K. cbn [map]. rewrite <- keys_ess. constructor.
  - rewrite K. unfold keys. intros H. apply in_map_iff in H. destruct H as [y [Ky Hy]].
    unfold others in Hy. apply filter_In in Hy. destruct Hy as [_ Hy]. lia.
  - apply nodup_keys_filter. exact (SInv_items_nodup _ I).
Qed.

Lemma ess_as_key k b y : ekey (ess_as k b y) = key y.
Proof. unfold ess_as. destruct (key y =? k); reflexivity. Qed.

(* Theorem 7: other keys are unchanged (up to reuse/visited) or lost; no new keys *)
Theorem others_unchanged_or_lost s k v ex c s' cm d k' it' :
  SInv s -> Quiet s -> 0 <= c -> apply_sieve e s k v ex c = (s', cm, d) -> k' <> k ->
  lookup s' (e_pol e) k' = Some it' ->
  exists it, lookup s (e_pol e) k' = Some it /\ ess it = ess it'.
Proof.
  intros I Q C H NK L'.
  destruct (apply_sieve_sum true _ _ _ _ _ _ _ _ I Q C (FuelHyp_true _ _) H) as (I' & Q' & _ & dl & _ & _ & _ & _ & _ & _ & _ & _ & _ & _ & P & _).
  destruct (lookup_some _ _ _ I' L') as (Hin & K' & U' & _).
  assert (A : In (ess it') ((k, v, ex, c, is_none (lookup s (e_pol e) k)) :: map ess (others k (items s)))).
  { apply (Permutation_in _ (Permutation_sym P)). apply in_or_app. right.
    replace (ess it') with (ess_as k (is_none (lookup s (e_pol e) k)) it'); [apply in_map; exact Hin|].
    unfold ess_as. destruct (key it' =? k) eqn:E; [lia|reflexivity]. }
  destruct A as [A|A]; [unfold ess in A; injection A as A _; lia|].
  apply in_map_iff in A. destruct A as [it [Ei Hi]]. unfold others in Hi. apply filter_In in Hi. destruct Hi as [Hi _].
  exists it. split; [|exact Ei]. assert (Ki : key it = k') by (unfold ess in Ei; congruence).
  rewrite <- Ki. apply lookup_of_in; [exact I|exact Hi|exact (Q it Hi)].
Qed.

(* Theorem 9: a rejected candidate is absent and reported exactly once, with reason rejected *)
Theorem rejected_means_absent s k v ex c s' d :
  SInv s -> Quiet s -> 0 <= c -> apply_sieve e s k v ex c = (s', false, d) ->
  lookup s (e_pol e) k = None /\ lookup s' (e_pol e) k = None /\
  exists dl1 x dl2,
    glog s' = glog s ++ [(0, k, v)] ++ map dent dl1 ++ (10 + reasonRejected, k, v) :: map dent dl2 /\
    ess x = (k, v, ex, c, true) /\ (forall p, In p (dl1 ++ dl2) -> key (fst p) <> k).
Proof.
  intros I Q C H.
  destruct (apply_sieve_sum true _ _ _ _ _ _ _ _ I Q C (FuelHyp_true _ _) H)
    as (I' & Q' & _ & dl & G & _ & _ & R & _ & _ & _ & _ & _ & _ & P & CF & _).
  destruct (CF eq_refl) as [INS NK]. destruct (lookup s (e_pol e) k) as [prev|] eqn:L; [discriminate|].
  cbn [is_none] in P. split; [reflexivity|]. split.
  { destruct (lookup s' (e_pol e) k) as [it'|] eqn:L'; [|reflexivity]. exfalso.
    destruct (lookup_some _ _ _ I' L') as (Hin & K' & _). apply NK. rewrite <- K'. unfold keys. apply in_map. exact Hin. }
  assert (A : In (k, v, ex, c, true) (map ess (map fst dl) ++ map (ess_as k true) (items s'))).
  { apply (Permutation_in _ P). left. reflexivity. }
  apply in_app_or in A. destruct A as [A|A].
  2:{ exfalso. apply in_map_iff in A. destruct A as [y [Ey Hy]]. apply NK.
      assert (key y = k) by (rewrite <- (ess_as_key k true y), Ey; reflexivity). subst k. unfold keys. apply in_map. exact Hy. }
  rewrite map_map in A. apply in_map_iff in A. destruct A as [p [Ep Hp]].
  destruct (in_split _ _ Hp) as [dl1 [dl2 ->]]. destruct p as [x r]. cbn [fst] in Ep.
  assert (Rr : r = reasonRejected).
  { rewrite Forall_forall in R. destruct (R _ Hp) as (_ & R2 & _). cbn [fst snd] in R2. apply R2. unfold ess in Ep. congruence. }
  subst r. exists dl1, x, dl2. split; [|split; [exact Ep|]].
  - rewrite G, map_app. cbn [map]. unfold dent at 2. cbn [fst snd]. unfold ess in Ep. injection Ep as -> -> _ _ _. reflexivity.
  - pose proof (lhs_nodup s k (k, v, ex, c, true) I eq_refl) as ND.
    pose proof (Permutation_NoDup (Permutation_map ekey P) ND) as ND2.
    rewrite map_app in ND2. apply nodup_app_both in ND2. destruct ND2 as [ND2 _].
    rewrite !map_map, map_app in ND2. cbn [map fst] in ND2.
    pose proof (NoDup_remove_2 _ _ _ ND2) as NN. intros p Hp2 Kp. apply NN.
    change (ekey (ess x)) with (key x). replace (key x) with k by (unfold ess in Ep; congruence). rewrite <- Kp.
    rewrite <- map_app. apply (in_map (fun y => ekey (ess (fst y)))). exact Hp2.
Qed.

(* Theorem 4: if there is room, nothing is dropped *)
Theorem room_no_drop s k v ex c s' cm d :
  SInv s -> Quiet s -> lookup s (e_pol e) k = None -> 0 <= c ->
  size s + 1 <= cap s -> (costcap s <= 0 \/ scost s + c <= costcap s) ->
  apply_sieve e s k v ex c = (s', cm, d) ->
  cm = true /\ d = 0 /\ glog s' = glog s ++ [(0, k, v)] /\ staged s' = staged s /\ nlog s' = nlog s /\
  (exists it', lookup s' (e_pol e) k = Some it' /\ ess it' = (k, v, ex, c, false)) /\
  (forall k' it, lookup s (e_pol e) k' = Some it -> exists it', lookup s' (e_pol e) k' = Some it' /\ ess it' = ess it).
Proof.
  intros I Q L C RS RC H.
  destruct (apply_sieve_sum true _ _ _ _ _ _ _ _ I Q C (FuelHyp_true _ _) H)
    as (I' & Q' & _ & dl & G & N & S & _ & D & _ & _ & _ & _ & FIT & P & CF & CT).
  rewrite L in *. cbn [is_none] in *.
  assert (DL : dl = []) by (apply FIT; lia). subst dl. cbn [map app dnots flat_map] in *.
  rewrite ?app_nil_r in G; rewrite ?app_nil_r in N; rewrite ?app_nil_r in S.
  assert (CM : cm = true).
  { destruct cm; [reflexivity|]. exfalso. destruct (CF eq_refl) as [_ NK].
    assert (A : In (k, v, ex, c, true) (map (ess_as k true) (items s'))) by (apply (Permutation_in _ P); left; reflexivity).
    apply in_map_iff in A. destruct A as [y [Ey Hy]]. apply NK.
    assert (key y = k) by (rewrite <- (ess_as_key k true y), Ey; reflexivity). subst k. unfold keys. apply in_map. exact Hy. }
  split; [exact CM|]. split; [rewrite D; unfold dcount; cbn; destruct (e_stats e); reflexivity|].
  split; [exact G|]. split; [exact S|]. split; [exact N|]. split.
  - assert (A : In (k, v, ex, c, true) (map (ess_as k true) (items s'))) by (apply (Permutation_in _ P); left; reflexivity).
    apply in_map_iff in A. destruct A as [y [Ey Hy]].
    assert (Ky : key y = k) by (rewrite <- (ess_as_key k true y), Ey; reflexivity).
    exists y. split; [rewrite <- Ky; apply lookup_of_in; [exact I'|exact Hy|exact (Q' y Hy)]|].
    unfold ess_as in Ey. rewrite Ky, Z.eqb_refl in Ey. unfold ess. rewrite (Q' y Hy). congruence.
  - intros k' it Lk. destruct (lookup_some _ _ _ I Lk) as (Hin & Ki & Ui & _).
    pose proof (lookup_none _ _ I Q L) as NK.
    assert (A : In (ess it) (map (ess_as k true) (items s'))).
    { apply (Permutation_in _ P). right. rewrite (others_notin _ _ NK). apply in_map. exact Hin. }
    apply in_map_iff in A. destruct A as [y [Ey Hy]].
    assert (Ky : key y = key it) by (rewrite <- (ess_as_key k true y), Ey; reflexivity).
    assert (Kn : key y <> k). { rewrite Ky. intros E0. apply NK. rewrite <- E0. unfold keys. apply in_map. exact Hin. }
    exists y. split; [rewrite <- Ki, <- Ky; apply lookup_of_in; [exact I'|exact Hy|exact (Q' y Hy)]|].
    unfold ess_as in Ey. destruct (key y =? k) eqn:E0; [lia|exact Ey].
Qed.

(* Theorem 5: without a cost cap an insert drops at most one entry (the rejected candidate counts) *)
Theorem unweighted_at_most_one s k v ex c s' cm d :
  SInv s -> Quiet s -> lookup s (e_pol e) k = None -> 0 <= c -> costcap s = 0 -> over_capacity s = false ->
  apply_sieve e s k v ex c = (s', cm, d) ->
  exists dl, glog s' = glog s ++ [(0, k, v)] ++ map dent dl /\ (length dl <= 1)%nat.
Proof.
  intros I Q L C CC O H.
  destruct (apply_sieve_sum true _ _ _ _ _ _ _ _ I Q C (FuelHyp_true _ _) H)
    as (_ & _ & _ & dl & G & _ & _ & _ & _ & _ & _ & _ & B & _).
  rewrite L in *. cbn [is_none] in *. exists dl. split; [exact G|].
  apply (not_over_fits _ (SInv_cap _ I)) in O. destruct O as [O _]. specialize (B ltac:(lia)). lia.
Qed.

(* Theorem 6: an update takes effect, or the key is gone *)
Theorem update_effective s k v ex c prev s' cm d :
  SInv s -> Quiet s -> lookup s (e_pol e) k = Some prev -> 0 <= c ->
  apply_sieve e s k v ex c = (s', cm, d) ->
  cm = true /\
  (forall it', lookup s' (e_pol e) k = Some it' -> ess it' = (k, v, ex, c, false)) /\
  (over_capacity s = false -> (costcap s <= 0 \/ c <= cost prev) ->
   exists it', lookup s' (e_pol e) k = Some it' /\ ess it' = (k, v, ex, c, false)).
Proof.
  intros I Q L C H.
  destruct (apply_sieve_sum true _ _ _ _ _ _ _ _ I Q C (FuelHyp_true _ _) H)
    as (I' & Q' & _ & dl & _ & _ & _ & _ & _ & _ & _ & _ & B & FIT & P & CF & _).
  rewrite L in *. cbn [is_none] in *.
  split; [destruct cm; [reflexivity|destruct (CF eq_refl); discriminate]|].
  assert (EK : forall y, In y (items s') -> key y = k -> ess y = (k, v, ex, c, false)).
  { intros y Hy Ky.
    assert (A : In (ess y) ((k, v, ex, c, false) :: map ess (others k (items s)))).
    { apply (Permutation_in _ (Permutation_sym P)). apply in_or_app. right.
      rewrite (ess_as_id k false) by (intros z Hz _; exact (Q' z Hz)). apply in_map. exact Hy. }
    destruct A as [A|A]; [symmetry; exact A|]. exfalso.
    apply in_map_iff in A. destruct A as [z [Ez Hz]]. unfold others in Hz. apply filter_In in Hz.
    assert (key z = key y) by (unfold ess in Ez; congruence). lia. }
  split.
  - intros it' L'. destruct (lookup_some _ _ _ I' L') as (Hin & K' & _). exact (EK _ Hin K').
  - intros O HC. apply (not_over_fits _ (SInv_cap _ I)) in O. destruct O as [O1 O2].
    assert (DL : dl = []) by (apply FIT; [lia|]; intros Hc; specialize (O2 Hc); lia). subst dl. cbn [map app] in P.
    assert (A : In (k, v, ex, c, false) (map (ess_as k false) (items s'))) by (apply (Permutation_in _ P); left; reflexivity).
    apply in_map_iff in A. destruct A as [y [Ey Hy]].
    assert (Ky : key y = k) by (rewrite <- (ess_as_key k false y), Ey; reflexivity).
    exists y. split; [rewrite <- Ky; apply lookup_of_in; [exact I'|exact Hy|exact (Q' y Hy)]|exact (EK _ Hy Ky)].
Qed.

(* ================================================================== ghost history: Ledger and NotifLog *)
Definition gmatch (P : Z -> bool) (k v : Z) (t : Z * Z * Z) : bool :=
  P (fst (fst t)) && (snd (fst t) =? k) && (snd t =? v).
Definition gcount (P : Z -> bool) (k v : Z) (g : list (Z * Z * Z)) : nat := length (filter (gmatch P k v) g).
Definition ematch (k v : Z) (t : Z * Z * Z * Z * bool) : bool := (ekey t =? k) && (evalue t =? v).
Definition ecount (k v : Z) (E : list (Z * Z * Z * Z * bool)) : nat := length (filter (ematch k v) E).
Definition icount (k v : Z) (l : list item) : nat := length (filter (fun it => (key it =? k) && (val it =? v)) l).

Definition tag_is (x : Z) (t : Z) : bool := t =? x.
Definition tag_drop (t : Z) : bool := 10 <=? t.
Definition Ledger (s : shard) : Prop :=
  forall k v, gcount (tag_is 0) k v (glog s) =
              (icount k v (items s) + gcount (tag_is 1) k v (glog s) + gcount (tag_is 2) k v (glog s)
               + gcount tag_drop k v (glog s))%nat.

Definition notif_of_entry (m : Z) (t : Z * Z * Z) : list notif :=
  if (10 <=? fst (fst t)) && mask_has m (fst (fst t) - 10)
  then [{| nkey := snd (fst t); nval := snd t; nreason := fst (fst t) - 10 |}] else [].
Definition NotifLog (m : Z) (s : shard) : Prop := nlog s = flat_map (notif_of_entry m) (glog s).

Lemma gcount_app P k v a b : gcount P k v (a ++ b) = (gcount P k v a + gcount P k v b)%nat.
Proof. unfold gcount. rewrite filter_app, app_length. reflexivity. Qed.
Lemma ecount_app k v a b : ecount k v (a ++ b) = (ecount k v a + ecount k v b)%nat.
Proof. unfold ecount. rewrite filter_app, app_length. reflexivity. Qed.

Lemma icount_ess k v l : icount k v l = ecount k v (map ess l).
Proof.
  unfold icount, ecount. induction l as [|x l IH]; cbn [filter map]; [reflexivity|].
  change (ematch k v (ess x)) with ((key x =? k) && (val x =? v)).
  destruct ((key x =? k) && (val x =? v)); cbn [length]; rewrite IH; reflexivity.
Qed.

Lemma filter_perm_length {A} (f : A -> bool) l l' : Permutation l l' -> length (filter f l) = length (filter f l').
Proof.
  induction 1 as [|x l l' _ IH|x y l|l l' l'' _ IH1 _ IH2]; cbn [filter].
  - reflexivity.
  - destruct (f x); cbn [length]; rewrite IH; reflexivity.
  - destruct (f x), (f y); reflexivity.
  - congruence.
Qed.

Lemma ecount_perm k v E E' : Permutation E E' -> ecount k v E = ecount k v E'.
Proof. apply filter_perm_length. Qed.

Lemma gcount_dent_low t k v dl : Forall reason_ok dl -> t < 10 -> gcount (tag_is t) k v (map dent dl) = 0%nat.
Proof.
  intros R T. unfold gcount. induction R as [|p dl Rp _ IH]; cbn [map filter]; [reflexivity|].
  destruct Rp as ([Rp|Rp] & _); unfold gmatch at 1, dent at 1, tag_is; cbn [fst snd]; rewrite Rp;
    unfold reasonCapacity, reasonRejected; (replace (_ =? t) with false by lia); cbn [andb]; exact IH.
Qed.

Lemma gcount_dent_high k v dl : Forall reason_ok dl ->
  gcount tag_drop k v (map dent dl) = ecount k v (map ess (map fst dl)).
Proof.
  intros R. unfold gcount, ecount. induction R as [|p dl Rp _ IH]; cbn [map filter]; [reflexivity|].
  assert (E : gmatch tag_drop k v (dent p) = ematch k v (ess (fst p))).
  { unfold gmatch, dent, ematch, ess, ekey, evalue, tag_drop. cbn [fst snd].
    destruct Rp as ([Rp|Rp] & _); rewrite Rp; unfold reasonCapacity, reasonRejected; cbn; reflexivity. }
  rewrite E. destruct (ematch k v (ess (fst p))); cbn [length]; rewrite IH; reflexivity.
Qed.

Lemma notif_dent dl : Forall reason_ok dl -> flat_map (notif_of_entry (e_mask e)) (map dent dl) = dnots dl.
Proof.
  intros R. unfold dnots. induction R as [|p dl Rp _ IH]; cbn [map flat_map]; [reflexivity|]. rewrite IH. f_equal.
  unfold notif_of_entry, dent, notif_of. cbn [fst snd]. replace (10 + snd p - 10) with (snd p) by lia.
  destruct Rp as ([Rp|Rp] & _); rewrite Rp; unfold reasonCapacity, reasonRejected; cbn [Z.leb Z.add Z.compare Pos.add Pos.succ Pos.compare Pos.compare_cont andb]; reflexivity.
Qed.

Theorem steps_ledger fl s s' d n : steps fl s s' d n -> SInv s -> Ledger s -> Ledger s'.
Proof.
  intros S I Lg k v. destruct (steps_sum _ _ _ _ _ S I) as [_ [dl (_ & _ & P & _ & G & _ & _ & R & _)]].
  specialize (Lg k v). rewrite G, !gcount_app, !(gcount_dent_low _ _ _ _ R) by lia. rewrite (gcount_dent_high _ _ _ R).
  rewrite icount_ess in *. rewrite (ecount_perm _ _ _ _ P), ecount_app in Lg. lia.
Qed.

Theorem steps_notiflog fl s s' d n : steps fl s s' d n -> SInv s -> NotifLog (e_mask e) s -> NotifLog (e_mask e) s'.
Proof.
  intros S I Nl. destruct (steps_sum _ _ _ _ _ S I) as [_ [dl (_ & _ & _ & _ & G & N & _ & R & _)]].
  unfold NotifLog in *. rewrite G, N, flat_map_app, (notif_dent _ R), Nl. reflexivity.
Qed.

(* everything a run of steps preserves, in one statement *)
Theorem steps_preserve fl s s' d n : steps fl s s' d n -> SInv s ->
  SInv s' /\ (Quiet s -> Quiet s') /\ (forall k, PendLe s k -> PendLe s' k) /\
  (Ledger s -> Ledger s') /\ (NotifLog (e_mask e) s -> NotifLog (e_mask e) s').
Proof.
  intros S I. destruct (steps_pres _ _ _ _ _ S I) as (I' & _ & _ & _ & PP & _ & QQ).
  split; [exact I'|]. split; [exact QQ|]. split; [exact PP|].
  split; [exact (steps_ledger _ _ _ _ _ S I)|exact (steps_notiflog _ _ _ _ _ S I)].
Qed.

(* ================================================================== Theorem 2: every function preserves the invariants *)
Definition Pres (s s' : shard) : Prop :=
  SInv s' /\ (Quiet s -> Quiet s') /\ (forall k, PendLe s k -> PendLe s' k) /\
  (Ledger s -> Ledger s') /\ (NotifLog (e_mask e) s -> NotifLog (e_mask e) s').

Lemma Pres_refl s : SInv s -> Pres s s.
Proof. intros I. unfold Pres. tauto. Qed.

Lemma Pres_of_steps fl s s' d n : steps fl s s' d n -> SInv s -> Pres s s'.
Proof. intros S I. exact (steps_preserve _ _ _ _ _ S I). Qed.

(* sieve_unlink alone leaves size/scost/tabk stale (drop_item repairs them); its own contract: *)
Theorem sieve_unlink_preserves s it : SInv s -> In it (items s) ->
  let s1 := sieve_unlink s (key it) in
  NoDup (keys (items s1)) /\ HandOK (hand s1) (main s1) /\
  Permutation (map ess (items s)) (ess it :: map ess (items s1)) /\
  tabk s1 = tabk s /\ size s1 = size s /\ scost s1 = scost s /\ glog s1 = glog s /\ nlog s1 = nlog s.
Proof.
  intros I H. cbv zeta.
  destruct (sieve_unlink_spec s it (SInv_items_nodup _ I) (SInv_hand _ I) H) as [p [m [h (E & P & HO)]]].
  rewrite E. unfold items. fields. split; [|repeat split; assumption].
  pose proof (SInv_items_nodup _ I) as ND. rewrite keys_ess in *.
  pose proof (Permutation_NoDup (Permutation_map ekey P) ND) as ND2. cbn [map] in ND2.
  inversion ND2; assumption.
Qed.

(* drop_item with any non-negative reason (capacity, rejected, expired, deleted) *)
Theorem drop_item_preserves s it r0 s' ok d : SInv s -> In it (items s) -> 0 <= r0 ->
  drop_item e s it r0 = (s', ok, d) -> ok = true /\ Pres s s'.
Proof.
  intros I H R0 D. destruct (drop_item_spec s it r0 I H) as [s2 (D' & F & P & T & Z1 & C & HO & G & N & S & _)].
  rewrite D in D'. injection D' as <- -> _. split; [reflexivity|].
  set (r := final_reason it r0) in *.
  assert (Rr : 0 <= r) by (unfold r, final_reason, reasonCapacity, reasonRejected; destruct (unpub it && (r0 =? 0)); lia).
  assert (SUB : forall y, In y (items s') -> exists x, In x (items s) /\ ess x = ess y).
  { intros y Hy. assert (A : In (ess y) (map ess (items s))).
    { apply (Permutation_in _ (Permutation_sym P)). right. apply in_map. exact Hy. }
    apply in_map_iff in A. destruct A as [x [A B]]. exists x. split; assumption. }
  split; [exact (SInv_transfer_drop _ _ it I F P T Z1 C HO)|]. split; [|split; [|split]].
  - intros Q y Hy. destruct (SUB y Hy) as [x [Hx Ex]]. unfold ess in Ex. injection Ex as _ _ _ _ <-. exact (Q x Hx).
  - intros k Pk y Hy Uy. destruct (SUB y Hy) as [x [Hx Ex]]. unfold ess in Ex. injection Ex as Ek _ _ _ Eu.
    rewrite <- Ek. apply Pk; [exact Hx|congruence].
  - intros Lg k v. specialize (Lg k v). rewrite G, !gcount_app. rewrite icount_ess in *.
    rewrite (ecount_perm _ _ _ _ P) in Lg. change (ess it :: map ess (items s')) with ([ess it] ++ map ess (items s')) in Lg.
    rewrite ecount_app in Lg. unfold gcount at 2 4 6 8. unfold ecount at 1 in Lg. cbn [filter] in *.
    unfold gmatch at 1 2 3 4. unfold tag_is, tag_drop in *. cbn [fst snd].
    replace (10 + r =? 0) with false by lia. replace (10 + r =? 1) with false by lia.
    replace (10 + r =? 2) with false by lia. replace (10 <=? 10 + r) with true by lia. cbn [andb length].
    change (ematch k v (ess it)) with ((key it =? k) && (val it =? v)) in Lg.
    destruct ((key it =? k) && (val it =? v)); cbn [length] in *; lia.
  - unfold NotifLog. intros Nl. rewrite G, N, flat_map_app, Nl. f_equal. cbn [flat_map]. rewrite app_nil_r.
    unfold notif_of_entry, notif_of. cbn [fst snd]. replace (10 + r - 10) with r by lia.
    replace (10 <=? 10 + r) with true by lia. reflexivity.
Qed.

Theorem promote_preserves s it : SInv s -> In it (prob s) -> Pres s (promote s it).
Proof. intros I H. exact (Pres_of_steps false _ _ _ _ (steps_one _ _ _ _ _ (st_promote _ _ _ H)) I). Qed.

Theorem main_candidate_spec s c it : main_candidate s c = Some it -> In it (main s).
Proof. apply main_candidate_in. Qed.

Theorem find_victim_preserves n s c force s' v : SInv s -> HandOK c (main s) ->
  find_victim n s c force = (s', v) -> Pres s s' /\ (forall vk, v = Some vk -> In vk (keys (main s'))).
Proof.
  intros I HC H. destruct (find_victim_steps false n _ _ _ _ _ I HC H) as (S & _ & _ & V & _).
  split; [exact (Pres_of_steps _ _ _ _ _ S I)|exact V].
Qed.

Theorem find_main_victim_preserves s scan force s' v : SInv s ->
  find_main_victim s scan force = (s', v) -> Pres s s' /\ (forall vk, v = Some vk -> In vk (keys (main s'))).
Proof.
  intros I H. destruct (find_main_victim_steps false _ _ _ _ _ I H) as (S & _ & _ & V & _).
  split; [exact (Pres_of_steps _ _ _ _ _ S I)|exact V].
Qed.

Theorem drop_prob_victim_preserves s it s' ok d : SInv s -> In it (items s) ->
  drop_prob_victim e s it = (s', ok, d) -> Pres s s'.
Proof. intros I H D. destruct (drop_prob_victim_steps false _ _ _ _ _ I H D) as [_ S]. exact (Pres_of_steps _ _ _ _ _ S I). Qed.

Theorem evict_probation_preserves s s' p d : SInv s -> evict_probation e s = (s', p, d) -> Pres s s'.
Proof. intros I H. destruct (evict_probation_steps false _ _ _ _ I H) as [n [S _]]. exact (Pres_of_steps _ _ _ _ _ S I). Qed.

Theorem evict_main_preserves s inn tie scan force s' ok d : SInv s ->
  evict_main e s inn tie scan force = (s', ok, d) -> Pres s s'.
Proof. intros I H. destruct (evict_main_steps false _ _ _ _ _ _ _ _ I H) as [n [S _]]. exact (Pres_of_steps _ _ _ _ _ S I). Qed.

Theorem force_evict_preserves s s' ok d : SInv s -> force_evict e s = (s', ok, d) -> Pres s s'.
Proof. intros I H. destruct (force_evict_steps false _ _ _ _ I H) as [n [S _]]. exact (Pres_of_steps _ _ _ _ _ S I). Qed.

Theorem enforce_loop_preserves w s inn tie acc s' inn' tie' a' : SInv s ->
  enforce_loop w e s inn tie acc = (s', inn', tie', a') -> Pres s s'.
Proof. intros I H. destruct (enforce_loop_steps false w _ _ _ _ _ _ _ _ I H) as [d [n [S _]]]. exact (Pres_of_steps _ _ _ _ _ S I). Qed.

Theorem force_loop_preserves fuel s acc s' a' : SInv s -> force_loop fuel e s acc = (s', a') -> Pres s s'.
Proof. intros I H. destruct (force_loop_steps fuel _ _ _ _ I H) as [d [n [S _]]]. exact (Pres_of_steps _ _ _ _ _ S I). Qed.

(* enforce, from a Quiet state or from a Pending one: Quiet stays Quiet, at most the pending key stays unpublished *)
Theorem enforce_preserves s inn tie s' d : SInv s -> enforce e s inn tie = (s', d) -> Pres s s'.
Proof. intros I H. destruct (enforce_steps _ _ _ _ _ I H) as [n [S _]]. exact (Pres_of_steps _ _ _ _ _ S I). Qed.

Theorem record_update_preserves s k : SInv s -> Pres s (record_update s k).
Proof. intros I. exact (Pres_of_steps false _ _ _ _ (record_update_steps _ _ _ I) I). Qed.

Theorem adapts_preserves s : SInv s -> Pres s (adapts s).
Proof.
  intros I. destruct (adapts_spec _ I) as (I' & (A1 & A2 & _ & _ & _ & _ & A7 & A8 & _) & _).
  unfold Pres, Quiet, PendLe, Ledger, NotifLog, items. rewrite A1, A2, A7, A8. tauto.
Qed.

(* ------------------------------------------------------------------ apply_sieve keeps the ghost history consistent *)
Lemma ecount_ess_as k0 v0 k b l : ecount k0 v0 (map (ess_as k b) l) = ecount k0 v0 (map ess l).
Proof.
  unfold ecount. induction l as [|x l IH]; cbn [map filter]; [reflexivity|].
  assert (E : ematch k0 v0 (ess_as k b x) = ematch k0 v0 (ess x)).
  { unfold ess_as. destruct (key x =? k); reflexivity. }
  rewrite E. destruct (ematch k0 v0 (ess x)); cbn [length]; rewrite IH; reflexivity.
Qed.

Lemma others_perm l p : NoDup (keys l) -> In p l -> Permutation l (p :: others (key p) l).
Proof.
  intros ND H. destruct (in_split_key _ _ H ND) as [l1 [l2 [-> _]]].
  rewrite (others_split (key p) l1 p l2 ND eq_refl). apply Permutation_sym, Permutation_middle.
Qed.

Lemma gcount_cons P k0 v0 t g : gcount P k0 v0 (t :: g) = ((if gmatch P k0 v0 t then 1 else 0) + gcount P k0 v0 g)%nat.
Proof. unfold gcount. cbn [filter]. destruct (gmatch P k0 v0 t); reflexivity. Qed.
Lemma gcount_nil P k0 v0 : gcount P k0 v0 [] = 0%nat.
Proof. reflexivity. Qed.
Lemma ecount_cons k0 v0 t E : ecount k0 v0 (t :: E) = ((if ematch k0 v0 t then 1 else 0) + ecount k0 v0 E)%nat.
Proof. unfold ecount. cbn [filter]. destruct (ematch k0 v0 t); reflexivity. Qed.
Lemma ecount_nil k0 v0 : ecount k0 v0 [] = 0%nat.
Proof. reflexivity. Qed.

Theorem apply_sieve_ledger s k v ex c s' cm d :
  SInv s -> Quiet s -> 0 <= c -> Ledger s -> apply_sieve e s k v ex c = (s', cm, d) -> Ledger s'.
Proof.
  intros I Q C Lg H k0 v0.
  destruct (apply_sieve_sum true _ _ _ _ _ _ _ _ I Q C (FuelHyp_true _ _) H)
    as (_ & _ & _ & dl & G & _ & _ & R & _ & _ & _ & _ & _ & _ & P & _).
  specialize (Lg k0 v0). rewrite G, !gcount_app, !(gcount_dent_low _ _ _ _ R) by lia. rewrite (gcount_dent_high _ _ _ R).
  rewrite icount_ess in *. rewrite <- (ecount_ess_as k0 v0 k (is_none (lookup s (e_pol e) k)) (items s')).
  pose proof (ecount_perm k0 v0 _ _ P) as EP. rewrite ecount_app in EP.
  change ((k, v, ex, c, is_none (lookup s (e_pol e) k)) :: map ess (others k (items s)))
    with ([(k, v, ex, c, is_none (lookup s (e_pol e) k))] ++ map ess (others k (items s))) in EP.
  rewrite ecount_app in EP.
  destruct (lookup s (e_pol e) k) as [prev|] eqn:L.
  - destruct (lookup_some _ _ _ I L) as (Hin & Kp & _).
    pose proof (others_perm _ _ (SInv_items_nodup _ I) Hin) as OP. rewrite Kp in OP.
    rewrite (ecount_perm k0 v0 _ _ (Permutation_map ess OP)) in Lg. cbn [map] in Lg.
    change (ess prev :: map ess (others k (items s))) with ([ess prev] ++ map ess (others k (items s))) in Lg.
    rewrite ecount_app in Lg.
    rewrite !gcount_cons, !gcount_nil. rewrite ecount_cons, ecount_nil in Lg, EP.
    unfold gmatch, tag_is, tag_drop, ematch, ekey, evalue, ess in *. cbn [fst snd] in *. rewrite Kp in Lg.
    destruct (k =? k0), (v =? v0), (val prev =? v0); cbn in *; lia.
  - pose proof (lookup_none _ _ I Q L) as NK. rewrite (others_notin _ _ NK) in EP.
    rewrite !gcount_cons, !gcount_nil. rewrite ecount_cons, ecount_nil in EP.
    unfold gmatch, tag_is, tag_drop, ematch, ekey, evalue in *. cbn [fst snd] in *.
    destruct (k =? k0), (v =? v0); cbn in *; lia.
Qed.

Theorem apply_sieve_notiflog s k v ex c s' cm d :
  SInv s -> Quiet s -> 0 <= c -> NotifLog (e_mask e) s -> apply_sieve e s k v ex c = (s', cm, d) ->
  NotifLog (e_mask e) s'.
Proof.
  intros I Q C Nl H.
  destruct (apply_sieve_sum true _ _ _ _ _ _ _ _ I Q C (FuelHyp_true _ _) H)
    as (_ & _ & _ & dl & G & N & _ & R & _).
  unfold NotifLog in *. rewrite G, N, !flat_map_app, (notif_dent _ R), Nl. f_equal.
  destruct (lookup s (e_pol e) k); reflexivity.
Qed.

(* ------------------------------------------------------------------ Get (Sieve branch), Cleanup, Clear *)
Lemma Pres_trans a b c : Pres a b -> Pres b c -> Pres a c.
Proof.
  unfold Pres. intros (A1 & A2 & A3 & A4 & A5) (B1 & B2 & B3 & B4 & B5).
  split; [exact B1|]. split; [tauto|]. split; [intros k H; exact (B3 k (A3 k H))|]. split; tauto.
Qed.

(* the state change of op_get's SieveTinyLFU hit branch (before the trailing adapts) *)
Definition get_touch (s : shard) (k : Z) (it : item) : shard :=
  if warmup s then s
  else let it' := set_flags it (reuse it) true (unpub it) in
       if has_key (prob s) k then sh_lists s (replace_item (prob s) it') (main s) (hand s)
       else sh_lists s (prob s) (replace_item (main s) it') (hand s).

Theorem get_touch_preserves s k it : SInv s -> lookup s (e_pol e) k = Some it -> Pres s (get_touch s k it).
Proof.
  intros I L. destruct (lookup_some _ _ _ I L) as (Hin & K & _ & _ & FI). unfold get_touch.
  destruct (warmup s); [apply Pres_refl; exact I|]. cbv zeta.
  destruct (has_key (prob s) k) eqn:HK.
  - apply has_key_true in HK. destruct (find_item_in _ _ HK) as [x Fx].
    unfold items in FI. rewrite (find_item_app_l _ (main s) _ _ Fx) in FI. injection FI as ->.
    refine (Pres_of_steps false _ _ _ _ (steps_one _ _ _ _ _ (st_fprob _ _ it (reuse it) true _)) I).
    exact (proj1 (find_item_some _ _ _ Fx)).
  - apply has_key_false in HK. apply find_item_none in HK. unfold items in FI. rewrite (find_item_app_r _ _ _ HK) in FI.
    refine (Pres_of_steps false _ _ _ _ (steps_one _ _ _ _ _ (st_fmain _ _ it (reuse it) true _)) I).
    exact (proj1 (find_item_some _ _ _ FI)).
Qed.

Theorem cleanup_shard_preserves nw s ev ex k : SInv s ->
  Pres s (fst (fst (cleanup_shard e nw (s, ev, ex) k))).
Proof.
  intros I. unfold cleanup_shard. destruct (lookup s (e_pol e) k) as [it|] eqn:L; [|apply Pres_refl; exact I].
  destruct (expired it nw); [|apply Pres_refl; exact I].
  destruct (drop_item e s it reasonExpired) as [[s1 ok] d1] eqn:D. cbn [fst].
  destruct (lookup_some _ _ _ I L) as (Hin & _).
  assert (R0 : 0 <= reasonExpired) by (unfold reasonExpired; lia).
  exact (proj2 (drop_item_preserves _ _ _ _ _ _ I Hin R0 D)).
Qed.

Theorem cleanup_fold_preserves nw l : forall s ev ex, SInv s ->
  Pres s (fst (fst (fold_left (cleanup_shard e nw) l (s, ev, ex)))).
Proof.
  induction l as [|k l IH]; intros s ev ex I; cbn [fold_left]; [apply Pres_refl; exact I|].
  pose proof (cleanup_shard_preserves nw s ev ex k I) as P1.
  destruct (cleanup_shard e nw (s, ev, ex) k) as [[s1 ev1] ex1]. cbn [fst] in P1.
  exact (Pres_trans _ _ _ P1 (IH s1 ev1 ex1 (proj1 P1))).
Qed.

Lemma filter_all {A} (f : A -> bool) l : (forall x, In x l -> f x = true) -> filter f l = l.
Proof.
  induction l as [|x l IH]; cbn [filter]; intros H; [reflexivity|].
  rewrite (H x (or_introl eq_refl)). f_equal. apply IH. intros y Hy. apply H. right. exact Hy.
Qed.

Lemma gcount_tag2 t k v l :
  gcount (tag_is t) k v (map (fun it : item => (2, key it, val it)) l) = if t =? 2 then icount k v l else 0%nat.
Proof.
  unfold gcount, icount. induction l as [|x l IH]; cbn [map filter]; [destruct (t =? 2); reflexivity|].
  unfold gmatch at 1, tag_is at 1. cbn [fst snd]. rewrite Z.eqb_sym.
  destruct (t =? 2); cbn [andb]; [|exact IH].
  destruct ((key x =? k) && (val x =? v)); cbn [length]; rewrite IH; reflexivity.
Qed.

Lemma gcount_tag2_drop k v l : gcount tag_drop k v (map (fun it : item => (2, key it, val it)) l) = 0%nat.
Proof. unfold gcount. induction l as [|x l IH]; cbn [map filter]; [reflexivity|exact IH]. Qed.

Theorem clear_shard_preserves m s : SInv s -> Quiet s ->
  let s' := clear_shard (e_pol e) s in
  SInv s' /\ Quiet s' /\ (Ledger s -> Ledger s') /\ (NotifLog m s -> NotifLog m s') /\
  size s' = 0 /\ scost s' = 0 /\ tabk s' = [] /\ staged s' = staged s.
Proof.
  intros I Q. cbv zeta. unfold clear_shard, shard_items. rewrite (is_sieve_true _ (SInv_cap _ I)).
  fold (items s).
  assert (E1 : filter (fun it => negb (unpub it)) (items s) = items s).
  { apply filter_all. intros x Hx. rewrite (Q x Hx). reflexivity. }
  rewrite E1.
  assert (E2 : filter (fun it => memz (tabk s) (key it)) (items s) = items s).
  { apply filter_all. intros x Hx. apply memz_true. apply (SInv_tab _ I). exists x. repeat split; [exact Hx|exact (Q x Hx)]. }
  rewrite E2. split; [|split; [|split; [|split]]].
  - destruct I as [_ _ _ _ _ _ _ J8 J9 _ J11]. unfold SInv. fields. constructor; cbn [app map length sumZ].
    + constructor.
    + constructor.
    + intros k0. split; [intros []|intros [it [[] _]]].
    + reflexivity.
    + reflexivity.
    + intros it [].
    + discriminate.
    + exact J8.
    + exact J9.
    + split; reflexivity.
    + exact J11.
  - intros x Hx. unfold items in Hx. fields_in Hx. destruct Hx.
  - intros Lg k v. specialize (Lg k v).
    match goal with |- context [items (sh_ghost ?a ?b ?c)] => change (items (sh_ghost a b c)) with (@nil item) end.
    fields. rewrite !gcount_app, !gcount_tag2, gcount_tag2_drop.
    cbn [Z.eqb Pos.eqb app]. unfold icount at 1. cbn [filter length]. lia.
  - unfold NotifLog. intros Nl. fields. rewrite flat_map_app, app_nil_r, <- Nl.
    assert (E3 : forall l, flat_map (notif_of_entry m) (map (fun it : item => (2, key it, val it)) l) = []).
    { induction l as [|x l IH]; cbn [map flat_map]; [reflexivity|]. rewrite IH. reflexivity. }
    rewrite E3, app_nil_r. reflexivity.
  - fields. repeat split.
Qed.

(* enforce from a Pending state: the candidate either stays pending or is gone (Quiet) *)
Theorem enforce_from_pending s inn tie s' d k : SInv s -> Pending s k -> enforce e s inn tie = (s', d) ->
  SInv s' /\ (Pending s' k \/ Quiet s').
Proof.
  intros I [P _] H. destruct (enforce_preserves _ _ _ _ _ I H) as (I' & _ & PP & _). split; [exact I'|].
  pose proof (PP k P) as P'. destruct (find_item (items s') k) as [x|] eqn:F.
  - destruct (find_item_some _ _ _ F) as [Hx Kx]. destruct (unpub x) eqn:U.
    + left. split; [exact P'|]. exists x. repeat split; assumption.
    + right. intros y Hy. destruct (unpub y) eqn:Uy; [|reflexivity]. exfalso.
      pose proof (P' y Hy Uy) as Ky. rewrite (find_item_unique _ _ _ (SInv_items_nodup _ I') Hy Ky) in F. congruence.
  - right. intros y Hy. destruct (unpub y) eqn:Uy; [|reflexivity]. exfalso.
    apply find_item_none in F. apply F. rewrite <- (P' y Hy Uy). unfold keys. apply in_map. exact Hy.
Qed.

Theorem enforce_from_quiet s inn tie s' d : SInv s -> Quiet s -> enforce e s inn tie = (s', d) -> SInv s' /\ Quiet s'.
Proof. intros I Q H. destruct (enforce_preserves _ _ _ _ _ I H) as (I' & QQ & _). split; [exact I'|exact (QQ Q)]. Qed.

(* inside apply_sieve, right after the candidate is linked: the invariant holds and exactly the candidate is pending *)
Theorem ins_state_pending s k v ex c s0 gh :
  SInv s -> Quiet s -> lookup s (e_pol e) k = None -> 0 <= c -> ins_pre s = (s0, gh) ->
  SInv (ins_state s0 gh k v ex c) /\ Pending (ins_state s0 gh k v ex c) k.
Proof.
  intros I Q L C IP. destruct (ins_pre_spec _ _ _ I IP) as (I0 & SA & _).
  pose proof (lookup_none _ _ I Q L) as NK. destruct SA as (A1 & A2 & _).
  assert (IT0 : items s0 = items s) by (unfold items; rewrite A1, A2; reflexivity).
  assert (NK0 : ~ In k (keys (items s0))) by (rewrite IT0; exact NK).
  destruct (ins_state_spec s0 gh k v ex c I0 NK0 C) as (I1 & _ & _ & _ & _ & _ & _ & _ & _ & [tm [L1 [L2 [X0 X1]]]]).
  split; [exact I1|]. split.
  - intros y Hy Uy. rewrite X1 in Hy. apply in_app_or in Hy.
    assert (Q0 : forall z, In z (items s0) -> unpub z = false) by (intros z Hz; apply Q; rewrite <- IT0; exact Hz).
    destruct Hy as [Hy|[Hy|Hy]].
    + rewrite (Q0 y) in Uy; [discriminate|]. rewrite X0. apply in_or_app. left. exact Hy.
    + subst y. reflexivity.
    + rewrite (Q0 y) in Uy; [discriminate|]. rewrite X0. apply in_or_app. right. exact Hy.
  - exists (ins_item k v ex c tm). split; [rewrite X1; apply in_or_app; right; left; reflexivity|]. split; reflexivity.
Qed.

(* publishing the pending candidate restores Quiet *)
Theorem pub_state_quiet s2 k : SInv s2 -> Pending s2 k -> SInv (pub_state s2 k) /\ Quiet (pub_state s2 k).
Proof.
  intros I [P [x (Hx & Kx & Ux)]]. destruct (pub_state_spec s2 k x I P Hx Kx Ux) as (A & B & _). split; assumption.
Qed.

(* ==END-ENV== *)
End Env.

(* ================================================================== closed statements and non-vacuity *)
(* Theorem 1 with the literal policy constant *)
Corollary lookup_spec_sieve s k : SInv s -> Quiet s ->
  lookup s policySieve k = find_item (prob s ++ main s) k /\ (lookup s policySieve k <> None <-> In k (tabk s)).
Proof. exact (lookup_spec {| e_pol := policySieve; e_stats := false; e_mask := 0 |} eq_refl s k). Qed.

(* Theorem 10: a concrete shard of capacity 4 (probation 1, main 3, adaptive range [1,2]) *)
Definition ex_env : env := {| e_pol := policySieve; e_stats := true; e_mask := 3 |}.
Definition ex_s0 : shard :=
  {| cap := 4; costcap := 0; tabk := []; lst := []; lfu := []; prob := []; main := []; hand := None;
     pcap := 1; mcap := 3; pmin := 1; pmax := 2; size := 0; scost := 0; staged := []; evs := []; pend := [];
     admits := 0; rejects := 0; ghosthits := 0; promos := 0; pevicts := 0; mevicts := 0; serr := 0; glog := []; nlog := [] |}.
(* one Set(k, v) of cost 1, no TTL, with the oracle events [ev] recorded for it *)
Definition ex_set (s : shard) (ev : list (Z * Z)) (k v : Z) : shard * bool * Z :=
  apply_sieve ex_env (sh_evs s ev []) k v 0 1.
Definition ex_st (r : shard * bool * Z) : shard := fst (fst r).
(* fill: four inserts (two in warm-up), each consuming one EvGhost = 0 *)
Definition ex_fill : shard :=
  ex_st (ex_set (ex_st (ex_set (ex_st (ex_set (ex_st (ex_set ex_s0 [(1,0)] 1 10)) [(1,0)] 2 20)) [(1,0)] 3 30)) [(1,0)] 4 40).
(* update-all: every key is rewritten once, recordUpdate promotes each to main *)
Definition ex_upd : shard :=
  ex_st (ex_set (ex_st (ex_set (ex_st (ex_set (ex_st (ex_set ex_fill [] 1 11)) [] 2 21)) [] 3 31)) [] 4 41).
(* a fifth key with events EvGhost 0, EvKeep 0, EvAdmit a *)
Definition ex_accept := ex_set ex_upd [(1,0);(2,0);(3,1)] 5 50.
Definition ex_reject := ex_set ex_upd [(1,0);(2,0);(3,0)] 5 50.

Definition ex_view (s : shard) :=
  (map key (prob s), map key (main s), hand s, tabk s, size s, scost s, serr s, over_capacity s, evs s).
Definition Good (s : shard) : Prop := SInv s /\ Quiet s /\ Ledger s /\ NotifLog 3 s.

Lemma ex_s0_good : Good ex_s0.
Proof.
  unfold Good. split; [|split; [|split]].
  - unfold SInv, ex_s0. cbn [cap pcap mcap pmin pmax tabk lst lfu prob main hand size scost].
    constructor; cbn [app map]; try lia.
    + constructor.
    + constructor.
    + intros k. split; [intros []|intros [it [[] _]]].
    + reflexivity.
    + reflexivity.
    + intros it [].
    + discriminate.
    + split; reflexivity.
  - intros it [].
  - intros k v. reflexivity.
  - reflexivity.
Qed.

Lemma ex_set_good s ev k v : Good s -> Good (ex_st (ex_set s ev k v)).
Proof.
  intros (I & Q & L & N). unfold ex_st, ex_set.
  destruct (apply_sieve ex_env (sh_evs s ev []) k v 0 1) as [[s' cm] d] eqn:H. cbn [fst].
  assert (I1 : SInv (sh_evs s ev [])) by exact I.
  assert (Q1 : Quiet (sh_evs s ev [])) by exact Q.
  assert (L1 : Ledger (sh_evs s ev [])) by exact L.
  assert (N1 : NotifLog (e_mask ex_env) (sh_evs s ev [])) by exact N.
  assert (C1 : 0 <= 1) by lia.
  destruct (apply_sieve_preserves ex_env eq_refl _ _ _ _ _ _ _ _ I1 Q1 C1 H) as [I' Q'].
  split; [exact I'|]. split; [exact Q'|]. split.
  - exact (apply_sieve_ledger ex_env eq_refl _ _ _ _ _ _ _ _ I1 Q1 C1 L1 H).
  - exact (apply_sieve_notiflog ex_env eq_refl _ _ _ _ _ _ _ _ I1 Q1 C1 N1 H).
Qed.

Example ex_fill_view : ex_view ex_fill = ([4; 3; 2; 1], [], None, [4; 3; 2; 1], 4, 4, 0, false, []).
Proof. vm_compute. reflexivity. Qed.
Example ex_fill_good : Good ex_fill.
Proof. unfold ex_fill. do 4 apply ex_set_good. exact ex_s0_good. Qed.

Example ex_upd_view : ex_view ex_upd = ([], [4; 3; 2; 1], Some 1, [4; 3; 2; 1], 4, 4, 0, false, []).
Proof. vm_compute. reflexivity. Qed.
Example ex_upd_good : Good ex_upd.
Proof. unfold ex_upd. do 4 apply ex_set_good. exact ex_fill_good. Qed.
Example ex_upd_values : map (fun k => match lookup ex_upd policySieve k with Some it => val it | None => -1 end) [1; 2; 3; 4; 5]
                        = [11; 21; 31; 41; -1].
Proof. vm_compute. reflexivity. Qed.

(* accepted: the SIEVE hand clears the visited bits, evicts key 1 (reason capacity), key 5 is published *)
Example ex_accept_result :
  let '(s, cm, d) := ex_accept in
  ex_view s = ([5], [4; 3; 2], Some 2, [5; 4; 3; 2], 4, 4, 0, false, []) /\ cm = true /\ d = 1 /\
  skipn 12 (glog s) = [(0, 5, 50); (10 + reasonCapacity, 1, 11)] /\
  nlog s = [{| nkey := 1; nval := 11; nreason := reasonCapacity |}] /\
  (mevicts s, pevicts s, admits s, rejects s, promos s) = (1, 0, 5, 0, 4).
Proof. vm_compute. repeat split; reflexivity. Qed.
Example ex_accept_good : Good (ex_st ex_accept).
Proof. unfold ex_accept. apply ex_set_good. exact ex_upd_good. Qed.

(* rejected: the candidate is dropped with reason rejected, never published, nothing else changes *)
Example ex_reject_result :
  let '(s, cm, d) := ex_reject in
  ex_view s = ([], [4; 3; 2; 1], Some 2, [4; 3; 2; 1], 4, 4, 0, false, []) /\ cm = false /\ d = 0 /\
  skipn 12 (glog s) = [(0, 5, 50); (10 + reasonRejected, 5, 50)] /\
  nlog s = [{| nkey := 5; nval := 50; nreason := reasonRejected |}] /\
  lookup s policySieve 5 = None /\
  (mevicts s, pevicts s, admits s, rejects s, promos s) = (0, 0, 4, 1, 4).
Proof. vm_compute. repeat split; reflexivity. Qed.
Example ex_reject_good : Good (ex_st ex_reject).
Proof. unfold ex_reject. apply ex_set_good. exact ex_upd_good. Qed.

(* why the forced section matters: a capacity-1 shard has pcap = 1, mcap = 0 (sieve_segs 1), so promotion is
   impossible; once the resident key has been rewritten (reuse 1, visited) evict_probation keeps answering
   "promoted" without moving anything, the bounded pass burns its 32 work units without progress, and only
   force_loop restores the budget (evicting the resident with reason capacity). *)
Definition c1_s0 : shard :=
  {| cap := 1; costcap := 0; tabk := []; lst := []; lfu := []; prob := []; main := []; hand := None;
     pcap := 1; mcap := 0; pmin := 1; pmax := 1; size := 0; scost := 0; staged := []; evs := []; pend := [];
     admits := 0; rejects := 0; ghosthits := 0; promos := 0; pevicts := 0; mevicts := 0; serr := 0; glog := []; nlog := [] |}.
Definition c1_b : shard := ex_st (ex_set (ex_st (ex_set c1_s0 [(1,0)] 1 10)) [] 1 11).
Definition c1_in : shard := ins_state (fst (ins_pre (sh_evs c1_b [(1,0)] []))) false 2 20 0 1.

Example ex_cap1_bounded_pass_stuck :
  let '(s, inn, tie, a) := enforce_loop (Z.to_nat maxEvictionWork) ex_env c1_in (Some 2) false 0 in
  over_capacity s = true /\ map key (prob s) = [2; 1] /\ glog s = glog c1_in /\ inn = Some 1 /\ a = 0.
Proof. vm_compute. repeat split; reflexivity. Qed.

Example ex_cap1_forced :
  let '(s, cm, d) := ex_set c1_b [(1,0)] 2 20 in
  ex_view s = ([2], [], None, [2], 1, 1, 0, false, []) /\ cm = true /\ d = 1 /\
  skipn 3 (glog s) = [(0, 2, 20); (10 + reasonCapacity, 1, 11)].
Proof. vm_compute. repeat split; reflexivity. Qed.

(* Theorem 6 needs the budget hypothesis [over_capacity s = false] for its "takes effect" clause: from a state
   that satisfies SInv and Quiet but is ALREADY over capacity (unreachable between operations, by Theorem 3)
   the freshly updated key itself can be the forced victim, even with costcap = 0. *)
Definition s_over : shard :=
  {| cap := 1; costcap := 0; tabk := [2; 1]; lst := []; lfu := [];
     prob := [ {| key := 2; val := 20; exp := 0; cost := 1; reuse := 0; visited := false; unpub := false |};
               {| key := 1; val := 10; exp := 0; cost := 1; reuse := 0; visited := false; unpub := false |} ];
     main := []; hand := None;
     pcap := 1; mcap := 0; pmin := 1; pmax := 1; size := 2; scost := 2; staged := []; evs := []; pend := [];
     admits := 0; rejects := 0; ghosthits := 0; promos := 0; pevicts := 0; mevicts := 0; serr := 0; glog := []; nlog := [] |}.

Lemma s_over_inv : SInv s_over /\ Quiet s_over.
Proof.
  split.
  - unfold SInv, s_over. cbn [cap pcap mcap pmin pmax tabk lst lfu prob main hand size scost].
    constructor; cbn [app map key cost sumZ]; try lia.
    + repeat constructor; cbn [In]; intuition lia.
    + repeat constructor; cbn [In]; intuition lia.
    + intros k. cbn [In]. split.
      * intros [H|[H|[]]]; subst k;
          [eexists; split; [left; reflexivity|split; reflexivity]|eexists; split; [right; left; reflexivity|split; reflexivity]].
      * intros [it [[H|[H|[]]] [K _]]]; subst it; cbn [key] in K; lia.
    + reflexivity.
    + intros it [H|[H|[]]]; subst it; cbn [cost]; lia.
    + discriminate.
    + split; reflexivity.
  - intros it [H|[H|[]]]; subst it; reflexivity.
Qed.

Example update_effective_literal_refuted :
  SInv s_over /\ Quiet s_over /\ costcap s_over = 0 /\ over_capacity s_over = true /\
  (exists prev, lookup s_over policySieve 1 = Some prev) /\
  let '(s', cm, d) := apply_sieve ex_env s_over 1 99 0 1 in
  cm = true /\ lookup s' policySieve 1 = None /\ glog s' = [(1, 1, 10); (0, 1, 99); (10 + reasonCapacity, 1, 99)].
Proof.
  split; [exact (proj1 s_over_inv)|]. split; [exact (proj2 s_over_inv)|].
  split; [reflexivity|]. split; [reflexivity|]. split; [eexists; vm_compute; reflexivity|].
  vm_compute. repeat split; reflexivity.
Qed.
