(* C01 — lookups return the latest value or nothing (lossy-map refinement). Statements over CacheModel's whole-cache machine (CacheProofs.v), for every configuration accepted by cache_init, every well-sharded operation sequence, every oracle event stream, all policies. Only `exact` + Print Assumptions. *)
Require Import KV.Base KV.Gen.Consts KV.ConfigModel KV.CacheModel KV.ClassicProofs KV.SieveProofs KV.CacheProofs KV.TtlProofs KV.MutexAtomicity.
Open Scope Z_scope.

(* the typed machine cstep is exactly the integer-encoded cache_step the correspondence stream runs *)
Theorem c01_typed_machine_is_the_stream_step :
  forall (c : cache) (op : cop) (ev : list Z),
         cache_step c (encode_op op ev) = (let '(c1, r) := cstep c op ev in finish c1 (encode_res r)).
Proof. exact CacheProofs.cache_step_cstep. Qed.

(* CacheInv (per-shard structure invariants, placement, closed => empty) holds after every well-sharded history *)
Theorem c01_invariant_all_histories :
  forall (shard_of : Z -> Z) (ops : list (cop * list Z)) (c : cache),
         CacheInv shard_of c ->
         Forall (fun p : cop * list Z => wf_op shard_of (nshards c) (fst p)) ops ->
         CacheInv shard_of (crun c ops) /\ Cfg c (crun c ops).
Proof. exact CacheProofs.crun_inv. Qed.

(* every validated configuration starts in CacheInv, open and empty *)
Theorem c01_initial :
  forall (shard_of : Z -> Z) (l : list Z) (cfg : config) (ncpu msk weigher t0 : Z),
         decode_config (firstn 13 l) = Some (cfg, ncpu) ->
         skipn 13 l = [msk; weigher; t0] ->
         validate cfg = None ->
         1 <= ncpu ->
         ShardCount cfg <= 2 ^ 62 ->
         CacheInv shard_of (cache_init l) /\
         closed (cache_init l) = false /\
         nshards (cache_init l) = shard_count cfg ncpu /\
         policy (cache_init l) = effective_policy cfg /\
         map cap (shards (cache_init l)) =
         map (shard_cap cfg (shard_count cfg ncpu)) (zseq 0 (Z.to_nat (shard_count cfg ncpu))) /\
         map costcap (shards (cache_init l)) =
         map (shard_cost_cap cfg (shard_count cfg ncpu)) (zseq 0 (Z.to_nat (shard_count cfg ncpu))) /\
         (forall s : shard,
          In s (shards (cache_init l)) -> tabk s = [] /\ pend s = [] /\ glog s = [] /\ serr s = 0) /\
         hits (cache_init l) = 0 /\
         misses (cache_init l) = 0 /\ evictions (cache_init l) = 0 /\ expirations (cache_init l) = 0.
Proof. exact CacheProofs.cache_init_inv. Qed.

(* every Get/GetWithTTL/Exists/Keys result of every run is justified by the lossy-map reference `latest` of the history so far; Keys has no duplicates *)
Theorem c01_lookups_justified_by_latest :
  forall (shard_of : Z -> Z) (ops : list (cop * list Z)) (c : cache) (L : Z -> option Z),
         CacheInv shard_of c ->
         Agree shard_of L c ->
         Forall (fun p : cop * list Z => wf_op shard_of (nshards c) (fst p)) ops -> run_ok c L ops.
Proof. exact CacheProofs.c01_lookup_latest_or_miss. Qed.

(* a hit implies latest k is defined, and equals it unless a SetAsync for k is still queued (Sieve misses drain first) *)
Theorem c01_get_hit_latest :
  forall (shard_of : Z -> Z) (L : Z -> option Z) (c : cache) (k sh : Z) 
           (s0 : shard) (c' : cache) (v t : Z),
         CacheInv shard_of c ->
         Agree shard_of L c ->
         sh = shard_of k ->
         get_shard c sh = Some s0 ->
         op_get c k sh = (c', true, v, t) ->
         (exists v' : Z, L k = Some v') /\
         (pend_last (pend s0) k = None \/ is_sieve s0 (policy c) = true /\ ~ In k (tabk s0) ->
          L k = Some v).
Proof. exact CacheProofs.get_hit_latest. Qed.

(* Exists true implies latest k is defined *)
Theorem c01_exists_true_latest :
  forall (shard_of : Z -> Z) (L : Z -> option Z) (c : cache) (k sh : Z),
         CacheInv shard_of c ->
         Agree shard_of L c ->
         sh = shard_of k -> snd (op_exists c k sh) = true -> exists v : Z, L k = Some v.
Proof. exact CacheProofs.exists_true_latest. Qed.

(* every listed key has latest defined *)
Theorem c01_keys_latest :
  forall (shard_of : Z -> Z) (L : Z -> option Z) (c : cache) (k : Z),
         CacheInv shard_of c -> Agree shard_of L c -> In k (op_keys c) -> exists v : Z, L k = Some v.
Proof. exact CacheProofs.keys_latest. Qed.

(* Keys never lists a key twice *)
Theorem c01_keys_nodup :
  forall (shard_of : Z -> Z) (c : cache), CacheInv shard_of c -> NoDup (op_keys c).
Proof. exact CacheProofs.op_keys_nodup. Qed.

(* a successful Set on a resident key leaves it absent or holding the new value/deadline/cost; holding it when unweighted or the cost did not grow *)
Theorem c01_update_takes_effect :
  forall (shard_of : Z -> Z) (c : cache) (k v ttl cst sh : Z) (s0 : shard) (x0 : Z * Z * Z),
         CacheInv shard_of c ->
         get_shard c sh = Some s0 ->
         set_check c sh cst = 0 ->
         view (policy c) (fst (drained c s0)) k = Some x0 ->
         exists s' : shard,
           get_shard (fst (op_set c k v ttl cst sh)) sh = Some s' /\
           snd (op_set c k v ttl cst sh) = 0 /\
           (view (policy c) s' k = None \/
            view (policy c) s' k = Some (v, stamp (norm_ttl c ttl) (now c), cst)) /\
           (policy c <> policyLFU \/ serr s' = 0 ->
            costcap s0 = 0 \/ cst <= snd x0 ->
            view (policy c) s' k = Some (v, stamp (norm_ttl c ttl) (now c), cst)).
Proof. exact CacheProofs.c01_update_effective. Qed.

(* Delete returns true iff the cache is open and the key was resident after draining its shard *)
Theorem c01_delete_true_iff_resident :
  forall (shard_of : Z -> Z) (c : cache) (k sh : Z),
         CacheInv shard_of c ->
         snd (op_delete c k sh) = true <->
         closed c = false /\
         (exists s0 : shard,
            get_shard c sh = Some s0 /\ view (policy c) (fst (drained c s0)) k <> None).
Proof. exact CacheProofs.c01_delete_iff_resident. Qed.

(* a Set/SetAsync that returns an error leaves the cache unchanged *)
Theorem c01_failed_set_changes_nothing :
  forall (c : cache) (k v ttl cst sh : Z),
         (snd (op_set c k v ttl cst sh) <> 0 -> fst (op_set c k v ttl cst sh) = c) /\
         (snd (op_set_async c k v ttl cst sh) <> 0 -> fst (op_set_async c k v ttl cst sh) = c).
Proof. exact CacheProofs.c01_failed_set_noop. Qed.

(* SetAsync batch + Sync = the same Sets applied synchronously (whole-cache equality incl. counters) *)
Theorem c01_async_then_sync_is_sync :
  forall (shard_of : Z -> Z) (reqs : list req) (c : cache),
         CacheInv shard_of c ->
         Forall (wf_req shard_of (nshards c)) reqs ->
         drain_all (async_all c reqs) = sync_all (drain_all c) reqs.
Proof. exact CacheProofs.c01_async_then_sync. Qed.

(* writes to different shards commute *)
Theorem c01_shards_commute :
  forall (c : cache) (sh1 k1 v1 t1 c1 sh2 k2 v2 t2 c2 : Z),
         Z.to_nat sh1 <> Z.to_nat sh2 ->
         apply_cmd (apply_cmd c sh1 k1 v1 t1 c1) sh2 k2 v2 t2 c2 =
         apply_cmd (apply_cmd c sh2 k2 v2 t2 c2) sh1 k1 v1 t1 c1.
Proof. exact CacheProofs.apply_cmd_commute. Qed.

(* closed cache: Set/SetAsync refuse and change nothing, Get misses, Exists/Delete false, Keys empty *)
Theorem c01_closed_cache :
  forall (c : cache) (k v ttl cst sh : Z),
         closed c = true ->
         fst (op_set c k v ttl cst sh) = c /\
         snd (op_set c k v ttl cst sh) <> 0 /\
         (0 <= cst ->
          (forall s : shard, get_shard c sh = Some s -> ~ 0 < costcap s < cst) ->
          get_shard c sh <> None ->
          snd (op_set c k v ttl cst sh) = 3 /\ snd (op_set_async c k v ttl cst sh) = 3) /\
         fst (op_set_async c k v ttl cst sh) = c /\
         snd (op_set_async c k v ttl cst sh) <> 0 /\
         op_get c k sh = (c, false, 0, 0) /\
         op_exists c k sh = (c, false) /\
         op_delete c k sh = (c, false) /\
         op_keys c = [] /\ op_clear c = c /\ op_cleanup c = c /\ op_close c = c.
Proof. exact CacheProofs.closed_cache. Qed.

(* Sieve shard: lookup = find in the queues, defined iff in the table *)
Theorem c01_sieve_lookup_spec :
  forall e : env,
         e_pol e = policySieve ->
         forall (s : shard) (k : Z),
         SInv s ->
         Quiet s ->
         lookup s (e_pol e) k = find_item (items s) k /\
         (lookup s (e_pol e) k <> None <-> In k (tabk s)).
Proof. exact SieveProofs.lookup_spec. Qed.

(* Sieve: a rejected candidate was absent and stays absent; it is reported rejected exactly once *)
Theorem c01_sieve_rejected_means_absent :
  forall e : env,
         e_pol e = policySieve ->
         forall (s : shard) (k v ex0 c : Z) (s' : shard) (d : Z),
         SInv s ->
         Quiet s ->
         0 <= c ->
         apply_sieve e s k v ex0 c = (s', false, d) ->
         lookup s (e_pol e) k = None /\
         lookup s' (e_pol e) k = None /\
         (exists (dl1 : list (item * Z)) (x : item) (dl2 : list (item * Z)),
            glog s' =
            glog s ++ [(0, k, v)] ++ map dent dl1 ++ (10 + reasonRejected, k, v) :: map dent dl2 /\
            ess x = (k, v, ex0, c, true) /\
            (forall p : item * Z, In p (dl1 ++ dl2) -> key (fst p) <> k)).
Proof. exact SieveProofs.rejected_means_absent. Qed.

(* Sieve: a write to k never changes another key's entry (it can only lose it) and never creates keys *)
Theorem c01_sieve_others_unchanged_or_lost :
  forall e : env,
         e_pol e = policySieve ->
         forall (s : shard) (k v ex0 c : Z) (s' : shard) (cm : bool) (d k' : Z) (it' : item),
         SInv s ->
         Quiet s ->
         0 <= c ->
         apply_sieve e s k v ex0 c = (s', cm, d) ->
         k' <> k ->
         lookup s' (e_pol e) k' = Some it' ->
         exists it : item, lookup s (e_pol e) k' = Some it /\ ess it = ess it'.
Proof. exact SieveProofs.others_unchanged_or_lost. Qed.

(* critical sections under the shard lock are atomic: any interleaving of lock-protected bodies equals their sequential execution in lock-acquisition order *)
Theorem c01_locked_sections_atomic :
  forall (S R : Type) (s0 : S) (scripts : list (list (op S R))) (st : state S R),
         reachable s0 scripts st ->
         ((forall t : nat, ~ in_write st t) ->
          sh st = seq_state s0 (map snd (g_acq st)) /\ g_ret st = seq_rets s0 (g_acq st)) /\
         (forall (t : nat) (c : call S R) (rem : list (mstep S R)) (r : R),
          in_w st t c rem r ->
          exists (acq' : list (nat * call S R)) (done : list (mstep S R)),
            g_acq st = acq' ++ [(t, c)] /\
            c_steps c = done ++ rem /\
            (sh st, r) = run_steps done (seq_state s0 (map snd acq'), c_init c) /\
            g_ret st = seq_rets s0 acq').
Proof. exact MutexAtomicity.atomicity. Qed.

(* the literal 'hit = latest' is false while a SetAsync is queued (intended async semantics): Set(1,10); SetAsync(1,20); Get(1) = 10 *)
Theorem c01_literal_refuted_async_visibility :
  map snd (chist (cache_init ex_stale_cfg) ex_stale_ops) = [RCode 0; RCode 0; RGet true 10] /\
         latest (chist (cache_init ex_stale_cfg) (firstn 2 ex_stale_ops)) 1 = Some 20.
Proof. exact CacheProofs.c01_get_returns_latest_refuted. Qed.

(* non-vacuity: 2-shard LRU, 24 operations *)
Theorem c01_example_lru :
  map snd (chist ex_lru_init ex_lru_ops) =
         [RCode 0; RCode 0; RCode 0; RGet false 0; RGetTTL true 40 50; RNow 200; 
          RGet false 0; RCode 0; RNow 300; RUnit; RCode 0; RCode 0; RCode 0; 
          RCode 0; RGet true 31; RBool true; RBool true; RKeys [3; 6]; RNums [2; 2; 2; 2; 1; 2];
          RUnit; RKeys []; RUnit; RCode 3; RGet false 0].
Proof. exact CacheProofs.ex_lru_results. Qed.

(* non-vacuity: 1-shard Sieve with oracle events *)
Theorem c01_example_sieve :
  map snd (chist ex_sv_init ex_sv_ops) =
         [RCode 0; RCode 0; RCode 0; RGet true 10; RCode 0; RNow 200; RGetTTL false 0 0; 
          RCode 0; RNow 300; RUnit; RCode 0; RCode 0; RCode 0; RGet true 61;
          RNums [3; 3; 2; 1; 1; 2]; RUnit; RKeys []; RUnit; RCode 3].
Proof. exact CacheProofs.ex_sv_results. Qed.

Print Assumptions c01_typed_machine_is_the_stream_step.
Print Assumptions c01_invariant_all_histories.
Print Assumptions c01_initial.
Print Assumptions c01_lookups_justified_by_latest.
Print Assumptions c01_get_hit_latest.
Print Assumptions c01_exists_true_latest.
Print Assumptions c01_keys_latest.
Print Assumptions c01_keys_nodup.
Print Assumptions c01_update_takes_effect.
Print Assumptions c01_delete_true_iff_resident.
Print Assumptions c01_failed_set_changes_nothing.
Print Assumptions c01_async_then_sync_is_sync.
Print Assumptions c01_shards_commute.
Print Assumptions c01_closed_cache.
Print Assumptions c01_sieve_lookup_spec.
Print Assumptions c01_sieve_rejected_means_absent.
Print Assumptions c01_sieve_others_unchanged_or_lost.
Print Assumptions c01_locked_sections_atomic.
Print Assumptions c01_literal_refuted_async_visibility.
Print Assumptions c01_example_lru.
Print Assumptions c01_example_sieve.
