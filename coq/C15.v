(* C15 — HTTP: Invalidate removes every cached response on a matching path. Part 1 (this file, TrieProofs.v): the path index is a map normalized-path -> key -> identity for every operation sequence, exact and wildcard matching are segment-wise, equivalent spellings coincide, pruning leaves no empty branch. Part 2 (index vs cache under interleavings) is in the HttpIndexLts section below when present. Only `exact` + Print Assumptions. Part 2 (IndexLtsProofs.v): the index against the backing cache as an interleaving LTS (store = index step then cache step, removal notifications delivered asynchronously by identity, Invalidate = snapshot then deletes, Clear = two steps). Part 3 (IndexLocked.v): the repaired store (per-key stripe lock across its two steps, Clear excluding every store) as a locked LTS on top of IndexLts: the locks enforce hypothesis H, so the agreement theorems hold without it. *)
Require Import KV.Base KV.HttpModel KV.HttpTrie KV.TrieProofs KV.IndexLts KV.IndexLtsProofs KV.IndexLocked.
Open Scope Z_scope.

(* addKey = map update at the normalized path *)
Theorem c15_add :
  forall (n : node) (segs : list str) (k i : Z),
         TWF n ->
         TWF (add_key n segs k i) /\
         abs (add_key n segs k i) segs = set_key (abs n segs) k i /\
         (forall p : list str, p <> segs -> abs (add_key n segs k i) p = abs n p).
Proof. exact add_key_spec. Qed.

(* removeKeyByIdentity removes exactly when the identity matches, prunes completely, leaves other paths alone *)
Theorem c15_remove_by_identity :
  forall (n : node) (segs : list str) (k i : Z),
         TWF n ->
         let
         '(n', ok) := remove_key n segs k i in
          TWF n' /\
          (ok = true <-> get_key (abs n segs) k = Some i) /\
          abs n' segs = (if ok then del_key (abs n segs) k else abs n segs) /\
          (forall p : list str, p <> segs -> abs n' p = abs n p).
Proof. exact remove_key_spec. Qed.

(* a stale notification (other identity) changes nothing *)
Theorem c15_stale_identity_noop :
  forall (n : node) (segs : list str) (k i j : Z),
         get_key (abs n segs) k = Some j -> j <> i -> remove_key n segs k i = (n, false).
Proof. exact remove_key_stale_id. Qed.

(* exact pattern = keys at that path *)
Theorem c15_match_exact :
  forall (n : node) (pat : list Z),
         (forall b : list Z, pat <> b ++ [42]) ->
         get_matching n pat = map fst (abs n (normalize pat)).
Proof. exact get_matching_exact. Qed.

(* p* = keys at p and everywhere below it, segment-wise *)
Theorem c15_match_wildcard :
  forall (n : node) (base : list Z) (k : Z),
         TWF n ->
         In k (get_matching n (base ++ [42])) <->
         (exists p : list str, prefix (normalize base) p /\ In k (map fst (abs n p))).
Proof. exact get_matching_wildcard. Qed.

(* normalize = the non-empty runs between slashes *)
Theorem c15_normalize :
  forall (path : str) (segs : list str),
         normalize path = segs <-> Forall good segs /\ Spells segs path.
Proof. exact normalize_characterisation. Qed.

(* trailing slash ignored *)
Theorem c15_trailing_slash :
  forall a : list Z, normalize (a ++ [47]) = normalize a.
Proof. exact normalize_trailing_slash. Qed.

(* leading slash ignored *)
Theorem c15_leading_slash :
  forall a : list Z, normalize ([47] ++ a) = normalize a.
Proof. exact normalize_leading_slash. Qed.

(* duplicate slashes ignored *)
Theorem c15_double_slash :
  forall a b : list Z, normalize (a ++ [47; 47] ++ b) = normalize (a ++ [47] ++ b).
Proof. exact normalize_double_slash. Qed.

(* equivalent spellings address the same node *)
Theorem c15_same_path_same_node :
  forall (n : node) (p q : str) (k i : Z),
         same_path p q -> add_key n (normalize p) k i = add_key n (normalize q) k i.
Proof. exact add_key_same_path. Qed.

(* for every raw operation stream the index equals the abstract map and gives the same answers *)
Theorem c15_trie_is_map_all_histories :
  forall ops : list (list Z),
         Rep (run_state trie_step empty_node ops) (run_state a_trie_step [] ops) /\
         run_out trie_step empty_node ops = run_out a_trie_step [] ops.
Proof. exact trie_trace. Qed.

(* well-formed (no empty branch, no duplicate child) after every history *)
Theorem c15_no_empty_branch :
  forall ops : list (list Z), TWF (run_state trie_step empty_node ops).
Proof. exact trie_trace_TWF. Qed.

(* matching answers = abstract answers (as multisets; exactly for exact patterns) *)
Theorem c15_match_all_histories :
  forall (ops : list (list Z)) (pattern : str),
         Permutation.Permutation (get_matching (run_state trie_step empty_node ops) pattern)
           (a_match (run_state a_trie_step [] ops) pattern) /\
         (last pattern 0 <> 42 ->
          get_matching (run_state trie_step empty_node ops) pattern =
          a_match (run_state a_trie_step [] ops) pattern).
Proof. exact trie_trace_match. Qed.

(* node count = 1 + distinct non-empty prefixes of live paths (what the harness monitors) *)
Theorem c15_node_count :
  forall ops : list (list Z),
         count_nodes (run_state trie_step empty_node ops) =
         1 + Z.of_nat (length (a_prefixes (run_state a_trie_step [] ops))).
Proof. exact trie_trace_count. Qed.

(* per key, in every reachable state in which no two stores of one key overlap and no store overlaps a Clear: a cached identity is indexed (or a store of the key is in flight); an indexed identity is cached, or its removal is still queued, or its store is in flight, or a Clear is between its two steps *)
Theorem c15_index_cache_invariant :
  forall (scripts : list (list op)) (s : state),
         wf_scripts scripts ->
         reachableH (init scripts) s ->
         closed s = false ->
         forall k : Z,
         (forall id : Z, get k (cache s) = Some id -> get k (idx s) = Some id \/ inflight_key k s) /\
         (forall id : Z,
          get k (idx s) = Some id ->
          get k (cache s) = Some id \/ In (k, id) (notes s) \/ inflight k id s \/ clearing s).
Proof. exact IndexLtsProofs.invariant. Qed.

(* the property's second sentence: at every quiescent state (nothing in flight, no pending notification) the index and the cache hold the same keys with the same identities, whatever interleaving of misses on distinct keys, evictions, rejections, expirations, deletions and late notifications preceded it *)
Theorem c15_quiescent_agreement :
  forall (scripts : list (list op)) (s : state),
         wf_scripts scripts ->
         reachableH (init scripts) s ->
         closed s = false -> quiescent s -> forall k : Z, get k (idx s) = get k (cache s).
Proof. exact IndexLtsProofs.quiescent_agreement. Qed.

(* Invalidate run with no request in flight: afterwards no matching key is cached, untouched keys keep their identity, and index = cache once notifications are drained *)
Theorem c15_invalidate_complete :
  forall (scripts : list (list op)) (s0 : state) (i : nat) (ks : list Z) 
           (rest : list op) (ls : list label) (s1 : state),
         wf_scripts scripts ->
         reachableH (init scripts) s0 ->
         closed s0 = false ->
         quiescent s0 ->
         nth_error (threads s0) i = Some {| t_pc := PIdle; t_script := OInvalidate ks :: rest |} ->
         (forall l : label,
          In l ls -> l = LDeliver \/ (exists k : Z, l = LEvict k) \/ (exists o : outcome, l = LT i o)) ->
         exec s0 ls = Some s1 ->
         nth_error (threads s1) i = Some {| t_pc := PIdle; t_script := rest |} ->
         let sd := deliver_all s1 in
         (forall k : Z, memZ k ks = true -> get k (cache s1) = None) /\
         (forall k id : Z,
          memZ k ks = false ->
          get k (cache s0) = Some id -> ~ In (LEvict k) ls -> get k (cache s1) = Some id) /\
         (forall k id : Z, get k (cache s1) = Some id -> get k (cache s0) = Some id) /\
         cache sd = cache s1 /\
         quiescent sd /\
         reachableH (init scripts) sd /\
         (forall k : Z, get k (idx sd) = get k (cache sd)) /\
         (notes s1 = [] -> forall k : Z, get k (idx s1) = get k (cache s1)).
Proof. exact IndexLtsProofs.invalidate_complete. Qed.

(* the drained state does not depend on when the notifier delivered (removal by identity commutes with everything but an Invalidate snapshot) *)
Theorem c15_delivery_time_irrelevant :
  forall (ls : list label) (s s1 : state),
         exec s ls = Some s1 ->
         quiet_run s (strip ls) ->
         exists s2 : state, exec s (strip ls) = Some s2 /\ deliver_all s2 = deliver_all s1.
Proof. exact IndexLtsProofs.drained_state_independent_of_delivery_times. Qed.

(* one delivery commutes with any step insensitive to it, including enabledness *)
Theorem c15_deliver_commutes :
  forall (s : state) (l : label) (k id : Z),
         headed s k id -> indep s l k id = true -> exec s [LDeliver; l] = exec s [l; LDeliver].
Proof. exact IndexLtsProofs.deliver_commutes. Qed.

(* a store rejected by admission leaves neither a cache nor an index entry *)
Theorem c15_rejected_store_clean :
  forall (s : state) (i : nat) (t : thread) (k id : Z) (r : list op) 
           (o : outcome) (s1 : state),
         nth_error (threads s) i = Some t ->
         t_pc t = PIdle ->
         t_script t = OStore k id :: r ->
         closed s = false ->
         exec s [LT i o; LT i Reject] = Some s1 ->
         let sd := deliver_all s1 in
         get k (cache sd) = None /\
         get k (idx sd) = None /\
         notes sd = [] /\
         nth_error (threads sd) i = Some {| t_pc := PIdle; t_script := r |} /\
         (forall k' : Z, k' <> k -> get k' (cache sd) = get k' (cache s)) /\
         (forall k' v : Z,
          k' <> k -> get k' (idx sd) = Some v <-> get k' (idx s) = Some v /\ ~ In (k', v) (notes s)).
Proof. exact IndexLtsProofs.rejected_store_clean. Qed.

(* a store on a closed cache removes its own index entry *)
Theorem c15_closed_store_clean :
  forall (s : state) (i : nat) (t : thread) (k id : Z) (r : list op) 
           (o1 o2 o3 : outcome) (s3 : state),
         nth_error (threads s) i = Some t ->
         t_pc t = PIdle ->
         t_script t = OStore k id :: r ->
         closed s = true ->
         exec s [LT i o1; LT i o2; LT i o3] = Some s3 ->
         idx s3 = rem k (idx s) /\
         get k (idx s3) = None /\
         (forall k' : Z, k' <> k -> get k' (idx s3) = get k' (idx s)) /\
         cache s3 = cache s /\
         notes s3 = notes s /\
         closed s3 = true /\ nth_error (threads s3) i = Some {| t_pc := PIdle; t_script := r |}.
Proof. exact IndexLtsProofs.closed_store_clean. Qed.

(* every state reachable by the repaired (locked) middleware satisfies H: no two stores of one key overlap, no store overlaps Clear, for every stripe function *)
Theorem c15_locks_enforce_H :
  forall (stripe : Z -> nat) (scripts : list (list op)) (s : lstate),
         lreachable stripe (linit scripts) s -> H (base s).
Proof. exact IndexLocked.locked_enforces_H. Qed.

(* erasing the lock steps, every locked execution is an IndexLts execution *)
Theorem c15_locked_refines :
  forall (stripe : Z -> nat) (ls : list llabel) (s s' : lstate),
         lexec stripe s ls = Some s' -> exec (base s) (erase ls) = Some (base s').
Proof. exact IndexLocked.locked_refines. Qed.

(* WITHOUT hypothesis H: at every quiescent state of the repaired middleware the index and the cache hold the same keys with the same identities *)
Theorem c15_quiescent_agreement_locked :
  forall (stripe : Z -> nat) (scripts : list (list op)) (s : lstate),
         wf_scripts scripts ->
         lreachable stripe (linit scripts) s ->
         closed (base s) = false ->
         quiescent (base s) -> forall k : Z, get k (idx (base s)) = get k (cache (base s)).
Proof. exact IndexLocked.quiescent_agreement_locked. Qed.

(* WITHOUT hypothesis H: Invalidate with no request in flight leaves no matching key cached *)
Theorem c15_invalidate_complete_locked :
  forall (stripe : Z -> nat) (scripts : list (list op)) (s0 : lstate) 
           (i : nat) (ks : list Z) (rest : list op) (ls : list llabel) (s1 : lstate),
         wf_scripts scripts ->
         lreachable stripe (linit scripts) s0 ->
         closed (base s0) = false ->
         quiescent (base s0) ->
         nth_error (threads (base s0)) i =
         Some {| t_pc := PIdle; t_script := OInvalidate ks :: rest |} ->
         (forall l : llabel,
          In l ls ->
          (exists j : tid, l = LLock j) \/
          l = LBase LDeliver \/
          (exists k : Z, l = LBase (LEvict k)) \/ (exists o : outcome, l = LBase (LT i o))) ->
         lexec stripe s0 ls = Some s1 ->
         nth_error (threads (base s1)) i = Some {| t_pc := PIdle; t_script := rest |} ->
         let sd := deliver_all (base s1) in
         (forall k : Z, memZ k ks = true -> get k (cache (base s1)) = None) /\
         (forall k id : Z,
          memZ k ks = false ->
          get k (cache (base s0)) = Some id ->
          ~ In (LBase (LEvict k)) ls -> get k (cache (base s1)) = Some id) /\
         (forall k id : Z, get k (cache (base s1)) = Some id -> get k (cache (base s0)) = Some id) /\
         cache sd = cache (base s1) /\
         quiescent sd /\
         (exists s' : lstate,
            lreachable stripe (linit scripts) s' /\
            base s' = sd /\
            clearW s' = clearW s1 /\
            clearR s' = clearR s1 /\ stripeOwner s' = stripeOwner s1 /\ lph s' = lph s1) /\
         (forall k : Z, get k (idx sd) = get k (cache sd)) /\
         (notes (base s1) = [] -> forall k : Z, get k (idx (base s1)) = get k (cache (base s1))).
Proof. exact IndexLocked.invalidate_complete_locked. Qed.

(* at a quiescent state no store or Clear lock is held *)
Theorem c15_locks_released :
  forall (stripe : Z -> nat) (scripts : list (list op)) (s : lstate),
         lreachable stripe (linit scripts) s -> lquiescent s -> lock_free s.
Proof. exact IndexLocked.locks_released. Qed.

(* the lock order (Clear lock, then stripe) is deadlock free: while anything is unfinished some thread is enabled *)
Theorem c15_locks_progress :
  forall (stripe : Z -> nat) (scripts : list (list op)) (s : lstate),
         lreachable stripe (linit scripts) s ->
         (exists i : tid, unfinished s i \/ lph s i <> LIdle) -> exists j : tid, enabled stripe s j.
Proof. exact IndexLocked.progress. Qed.

(* the F5 schedule cannot be executed by the repaired middleware, wherever the lock steps are placed *)
Theorem c15_f5_not_executable :
  forall (stripe : Z -> nat) (ls : list llabel),
         erase ls = f5_schedule -> lexec stripe (linit f5_scripts) ls = None.
Proof. exact IndexLocked.f5_not_executable. Qed.

(* finding F5 on the UNLOCKED model (the code before fix 1836925): overlapping stores of ONE key end quiescent with the key cached and not indexed *)
Theorem c15_overlap_same_key_refuted :
  let s0 := init [[OStore 7 1]; [OStore 7 2]] in
         wf_scripts [[OStore 7 1]; [OStore 7 2]] /\
         exec s0 [LT 0 acc; LT 1 acc; LT 1 acc; LEvict 7; LDeliver; LT 0 acc] =
         Some
           {|
             idx := [];
             cache := [(7, 1)];
             notes := [];
             closed := false;
             threads := [{| t_pc := PIdle; t_script := [] |}; {| t_pc := PIdle; t_script := [] |}]
           |} /\ execH s0 [LT 0 acc; LT 1 acc] = None.
Proof. exact IndexLtsProofs.overlap_same_key_refuted. Qed.

(* ...and Invalidate then removes nothing *)
Theorem c15_overlap_invalidate_blind :
  let s :=
           {|
             idx := [];
             cache := [(7, 1)];
             notes := [];
             closed := false;
             threads := [{| t_pc := PIdle; t_script := [OInvalidate [7]] |}]
           |} in
         exec s [LT 0 acc; LT 0 acc] =
         Some
           {|
             idx := [];
             cache := [(7, 1)];
             notes := [];
             closed := false;
             threads := [{| t_pc := PIdle; t_script := [] |}]
           |}.
Proof. exact IndexLtsProofs.overlap_same_key_invalidate_blind. Qed.

(* same family: a store overlapping Clear's two steps *)
Theorem c15_overlap_clear_refuted :
  let s0 := init [[OStore 7 1]; [OClear]] in
         exec s0 [LT 0 acc; LT 1 acc; LT 1 acc; LT 0 acc] =
         Some
           {|
             idx := [];
             cache := [(7, 1)];
             notes := [];
             closed := false;
             threads := [{| t_pc := PIdle; t_script := [] |}; {| t_pc := PIdle; t_script := [] |}]
           |} /\ execH s0 [LT 0 acc; LT 1 acc] = None.
Proof. exact IndexLtsProofs.overlap_clear_refuted. Qed.

(* non-vacuity: a 3-thread run with displacement, eviction and late deliveries meets every hypothesis of quiescent_agreement *)
Theorem c15_lts_nonvacuous :
  let s :=
           {|
             idx := [(2, 20)];
             cache := [(2, 20)];
             notes := [];
             closed := false;
             threads :=
               [{| t_pc := PIdle; t_script := [] |}; {| t_pc := PIdle; t_script := [] |};
                {| t_pc := PIdle; t_script := [] |}]
           |} in
         wf_scripts ex_scripts /\
         reachableH (init ex_scripts) s /\
         closed s = false /\ quiescent s /\ (forall k : Z, get k (idx s) = get k (cache s)).
Proof. exact IndexLtsProofs.nonvacuity_hypotheses. Qed.

Print Assumptions c15_add.
Print Assumptions c15_remove_by_identity.
Print Assumptions c15_stale_identity_noop.
Print Assumptions c15_match_exact.
Print Assumptions c15_match_wildcard.
Print Assumptions c15_normalize.
Print Assumptions c15_trailing_slash.
Print Assumptions c15_leading_slash.
Print Assumptions c15_double_slash.
Print Assumptions c15_same_path_same_node.
Print Assumptions c15_trie_is_map_all_histories.
Print Assumptions c15_no_empty_branch.
Print Assumptions c15_match_all_histories.
Print Assumptions c15_node_count.
Print Assumptions c15_index_cache_invariant.
Print Assumptions c15_quiescent_agreement.
Print Assumptions c15_invalidate_complete.
Print Assumptions c15_delivery_time_irrelevant.
Print Assumptions c15_deliver_commutes.
Print Assumptions c15_rejected_store_clean.
Print Assumptions c15_closed_store_clean.
Print Assumptions c15_locks_enforce_H.
Print Assumptions c15_locked_refines.
Print Assumptions c15_quiescent_agreement_locked.
Print Assumptions c15_invalidate_complete_locked.
Print Assumptions c15_locks_released.
Print Assumptions c15_locks_progress.
Print Assumptions c15_f5_not_executable.
Print Assumptions c15_overlap_same_key_refuted.
Print Assumptions c15_overlap_invalidate_blind.
Print Assumptions c15_overlap_clear_refuted.
Print Assumptions c15_lts_nonvacuous.
