(* C15 — HTTP: Invalidate removes every cached response on a matching path. Part 1 (this file, TrieProofs.v): the path index is a map normalized-path -> key -> identity for every operation sequence, exact and wildcard matching are segment-wise, equivalent spellings coincide, pruning leaves no empty branch. Part 2 (index vs cache under interleavings) is in the HttpIndexLts section below when present. Only `exact` + Print Assumptions. *)
Require Import KV.Base KV.HttpModel KV.HttpTrie KV.TrieProofs.
Open Scope Z_scope.

(* addKey = map update at the normalized path *)
Theorem c15_add :
  forall (n : node) (segs : list str) (k i : Z),
         TWF n ->
         TWF (add_key n segs k i) /\
         abs (add_key n segs k i) segs = set_key (abs n segs) k i /\
         (forall p : list str, p <> segs -> abs (add_key n segs k i) p = abs n p).
Proof. exact add_key_spec. Qed.

(* removeKeyByIdentity removes exactly when the identity matches, prunes completely, leaves other paths alone *)
Theorem c15_remove_by_identity :
  forall (n : node) (segs : list str) (k i : Z),
         TWF n ->
         let
         '(n', ok) := remove_key n segs k i in
          TWF n' /\
          (ok = true <-> get_key (abs n segs) k = Some i) /\
          abs n' segs = (if ok then del_key (abs n segs) k else abs n segs) /\
          (forall p : list str, p <> segs -> abs n' p = abs n p).
Proof. exact remove_key_spec. Qed.

(* a stale notification (other identity) changes nothing *)
Theorem c15_stale_identity_noop :
  forall (n : node) (segs : list str) (k i j : Z),
         get_key (abs n segs) k = Some j -> j <> i -> remove_key n segs k i = (n, false).
Proof. exact remove_key_stale_id. Qed.

(* exact pattern = keys at that path *)
Theorem c15_match_exact :
  forall (n : node) (pat : list Z),
         (forall b : list Z, pat <> b ++ [42]) ->
         get_matching n pat = map fst (abs n (normalize pat)).
Proof. exact get_matching_exact. Qed.

(* p* = keys at p and everywhere below it, segment-wise *)
Theorem c15_match_wildcard :
  forall (n : node) (base : list Z) (k : Z),
         TWF n ->
         In k (get_matching n (base ++ [42])) <->
         (exists p : list str, prefix (normalize base) p /\ In k (map fst (abs n p))).
Proof. exact get_matching_wildcard. Qed.

(* normalize = the non-empty runs between slashes *)
Theorem c15_normalize :
  forall (path : str) (segs : list str),
         normalize path = segs <-> Forall good segs /\ Spells segs path.
Proof. exact normalize_characterisation. Qed.

(* trailing slash ignored *)
Theorem c15_trailing_slash :
  forall a : list Z, normalize (a ++ [47]) = normalize a.
Proof. exact normalize_trailing_slash. Qed.

(* leading slash ignored *)
Theorem c15_leading_slash :
  forall a : list Z, normalize ([47] ++ a) = normalize a.
Proof. exact normalize_leading_slash. Qed.

(* duplicate slashes ignored *)
Theorem c15_double_slash :
  forall a b : list Z, normalize (a ++ [47; 47] ++ b) = normalize (a ++ [47] ++ b).
Proof. exact normalize_double_slash. Qed.

(* equivalent spellings address the same node *)
Theorem c15_same_path_same_node :
  forall (n : node) (p q : str) (k i : Z),
         same_path p q -> add_key n (normalize p) k i = add_key n (normalize q) k i.
Proof. exact add_key_same_path. Qed.

(* for every raw operation stream the index equals the abstract map and gives the same answers *)
Theorem c15_trie_is_map_all_histories :
  forall ops : list (list Z),
         Rep (run_state trie_step empty_node ops) (run_state a_trie_step [] ops) /\
         run_out trie_step empty_node ops = run_out a_trie_step [] ops.
Proof. exact trie_trace. Qed.

(* well-formed (no empty branch, no duplicate child) after every history *)
Theorem c15_no_empty_branch :
  forall ops : list (list Z), TWF (run_state trie_step empty_node ops).
Proof. exact trie_trace_TWF. Qed.

(* matching answers = abstract answers (as multisets; exactly for exact patterns) *)
Theorem c15_match_all_histories :
  forall (ops : list (list Z)) (pattern : str),
         Permutation.Permutation (get_matching (run_state trie_step empty_node ops) pattern)
           (a_match (run_state a_trie_step [] ops) pattern) /\
         (last pattern 0 <> 42 ->
          get_matching (run_state trie_step empty_node ops) pattern =
          a_match (run_state a_trie_step [] ops) pattern).
Proof. exact trie_trace_match. Qed.

(* node count = 1 + distinct non-empty prefixes of live paths (what the harness monitors) *)
Theorem c15_node_count :
  forall ops : list (list Z),
         count_nodes (run_state trie_step empty_node ops) =
         1 + Z.of_nat (length (a_prefixes (run_state a_trie_step [] ops))).
Proof. exact trie_trace_count. Qed.

Print Assumptions c15_add.
Print Assumptions c15_remove_by_identity.
Print Assumptions c15_stale_identity_noop.
Print Assumptions c15_match_exact.
Print Assumptions c15_match_wildcard.
Print Assumptions c15_normalize.
Print Assumptions c15_trailing_slash.
Print Assumptions c15_leading_slash.
Print Assumptions c15_double_slash.
Print Assumptions c15_same_path_same_node.
Print Assumptions c15_trie_is_map_all_histories.
Print Assumptions c15_no_empty_branch.
Print Assumptions c15_match_all_histories.
Print Assumptions c15_node_count.
