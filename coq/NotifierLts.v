(* NotifierLts.v — executable labelled transition system of the delivery of removal notifications
   (kioshun: shard.go stageRemoval, cache.go removeNotifyWorker / drainRemovals / Close).
   Threads: any number of Mutators (scripts of `OStage sh id`, five atomic steps each: lock, append,
   flag, signal, unlock), the single Notifier (select; per shard: load flag / lock / swap / clear flag /
   unlock / one listener call per step, a listener call may run a nested stage on the notifier thread),
   and a Closer (close(closeCh); wait for the notifier to have exited).
   One `step` runs one atomic action of one thread.  No proofs in this file (NotifierProofs.v). *)
Require Import KV.Base.
Local Open Scope nat_scope.

(* who holds a shard lock *)
Inductive owner := OwMut (t : nat) | OwNot.

Record shard := mkShard {
  buf : list Z;            (* s.removeBuf: staged notification ids, oldest first *)
  pending : bool;          (* s.removePending *)
  mu : option owner        (* s.mu *)
}.

(* progress of one stageRemoval call: before mu.Lock / after Lock / after append /
   after removePending.Store(true) / after signal(removeWake) (before Unlock) *)
Inductive mpc := MIdle | MLocked | MAppended | MFlagged | MSignalled.

(* a mutator: remaining script (head = the operation in progress when mpos <> MIdle) *)
Record mutator := mkMut { script : list (nat * Z); mpos : mpc }.

Inductive npc :=
| NSelect                                   (* parked at the select of removeNotifyWorker *)
| NCheck (i : nat)                          (* drainRemovals, shard i: about to Load removePending *)
| NLock (i : nat)                           (* about to s.mu.Lock() *)
| NSwap (i : nat)                           (* holding the lock: buf := removeBuf; removeBuf = nil *)
| NClear (i : nat)                          (* removePending.Store(false) *)
| NUnlock (i : nat)                         (* s.mu.Unlock() *)
| NDeliver (i : nat)                        (* listener loop over the swapped-out buffer (`hand`) *)
| NReent (i : nat) (p : mpc) (j : nat) (y : Z)  (* inside a listener call: nested stageRemoval(j, y) at p *)
| NExited.                                  (* worker returned (workers.Done) *)

Inductive cpc := CStart | CWait | CDone.

Record state := mkSt {
  nsh : nat;
  shards : nat -> shard;
  wakeTok : bool;                 (* removeWake holds its (single) token *)
  closeCh : bool;                 (* closeCh is closed *)
  muts : nat -> mutator;
  npos : npc;
  hand : list Z;                  (* rest of the swapped-out buffer still to be delivered *)
  final : bool;                   (* this drain is the closeCh one *)
  cpos : cpc;
  staged : list (nat * Z);        (* ghost: every (shard, id) ever appended, in order *)
  delivered : list (nat * Z);     (* ghost: every listener call, in order *)
  late : list (nat * Z)           (* ghost: ids whose flag store came after the final visit of their shard *)
}.

Definition set_shards (s : state) (v : nat -> shard) : state :=
  mkSt (nsh s) v (wakeTok s) (closeCh s) (muts s) (npos s) (hand s) (final s) (cpos s) (staged s) (delivered s) (late s).
Definition set_wakeTok (s : state) (v : bool) : state :=
  mkSt (nsh s) (shards s) v (closeCh s) (muts s) (npos s) (hand s) (final s) (cpos s) (staged s) (delivered s) (late s).
Definition set_closeCh (s : state) (v : bool) : state :=
  mkSt (nsh s) (shards s) (wakeTok s) v (muts s) (npos s) (hand s) (final s) (cpos s) (staged s) (delivered s) (late s).
Definition set_muts (s : state) (v : nat -> mutator) : state :=
  mkSt (nsh s) (shards s) (wakeTok s) (closeCh s) v (npos s) (hand s) (final s) (cpos s) (staged s) (delivered s) (late s).
Definition set_npos (s : state) (v : npc) : state :=
  mkSt (nsh s) (shards s) (wakeTok s) (closeCh s) (muts s) v (hand s) (final s) (cpos s) (staged s) (delivered s) (late s).
Definition set_hand (s : state) (v : list Z) : state :=
  mkSt (nsh s) (shards s) (wakeTok s) (closeCh s) (muts s) (npos s) v (final s) (cpos s) (staged s) (delivered s) (late s).
Definition set_final (s : state) (v : bool) : state :=
  mkSt (nsh s) (shards s) (wakeTok s) (closeCh s) (muts s) (npos s) (hand s) v (cpos s) (staged s) (delivered s) (late s).
Definition set_cpos (s : state) (v : cpc) : state :=
  mkSt (nsh s) (shards s) (wakeTok s) (closeCh s) (muts s) (npos s) (hand s) (final s) v (staged s) (delivered s) (late s).
Definition set_staged (s : state) (v : list (nat * Z)) : state :=
  mkSt (nsh s) (shards s) (wakeTok s) (closeCh s) (muts s) (npos s) (hand s) (final s) (cpos s) v (delivered s) (late s).
Definition set_delivered (s : state) (v : list (nat * Z)) : state :=
  mkSt (nsh s) (shards s) (wakeTok s) (closeCh s) (muts s) (npos s) (hand s) (final s) (cpos s) (staged s) v (late s).
Definition set_late (s : state) (v : list (nat * Z)) : state :=
  mkSt (nsh s) (shards s) (wakeTok s) (closeCh s) (muts s) (npos s) (hand s) (final s) (cpos s) (staged s) (delivered s) v.

(* function update *)
Definition fupd {A : Type} (f : nat -> A) (i : nat) (x : A) : nat -> A :=
  fun k => if k =? i then x else f k.

Definition set_shard (s : state) (i : nat) (d : shard) : state := set_shards s (fupd (shards s) i d).

(* the notifier's FINAL drain has already made its (only) visit of shard sh:
   it loaded removePending = false there, or it swapped the buffer out *)
Definition passed (s : state) (sh : nat) : bool :=
  final s &&
  match npos s with
  | NSelect => false
  | NCheck i | NLock i | NSwap i => sh <? i
  | NClear i | NUnlock i | NDeliver i | NReent i _ _ _ => sh <=? i
  | NExited => true
  end.

(* one atomic step of stageRemoval(sh, id) at progress p, run by `who` *)
Definition stage_step (s : state) (who : owner) (p : mpc) (sh : nat) (id : Z) : option (state * mpc) :=
  let d := shards s sh in
  match p with
  | MIdle =>
      match mu d with
      | None => Some (set_shard s sh (mkShard (buf d) (pending d) (Some who)), MLocked)
      | Some _ => None                                   (* blocked in mu.Lock *)
      end
  | MLocked =>
      Some (set_staged (set_shard s sh (mkShard (buf d ++ [id]) (pending d) (mu d))) (staged s ++ [(sh, id)]),
            MAppended)
  | MAppended =>
      let s1 := set_shard s sh (mkShard (buf d) true (mu d)) in
      Some (if passed s sh then set_late s1 (late s ++ [(sh, id)]) else s1, MFlagged)
  | MFlagged => Some (set_wakeTok s true, MSignalled)    (* non-blocking send, capacity 1: coalesces *)
  | MSignalled => Some (set_shard s sh (mkShard (buf d) (pending d) None), MIdle)
  end.

Definition mut_step (s : state) (t : nat) : option state :=
  let m := muts s t in
  match script m with
  | [] => None
  | (sh, id) :: r =>
      if sh <? nsh s then
        match stage_step s (OwMut t) (mpos m) sh id with
        | None => None
        | Some (s1, p') =>
            Some (set_muts s1 (fupd (muts s1) t
                    (mkMut (match p' with MIdle => r | _ => script m end) p')))
        end
      else None
  end.

(* re: the listener's re-entrant staging (delivered id -> optional (shard, new id));
   c: resolution of a select with both cases ready (true prefers closeCh) *)
Definition not_step (re : Z -> option (nat * Z)) (c : bool) (s : state) : option state :=
  match npos s with
  | NSelect =>
      if wakeTok s && negb (c && closeCh s) then Some (set_npos (set_wakeTok s false) (NCheck 0))
      else if closeCh s then Some (set_final (set_npos s (NCheck 0)) true)
      else None
  | NCheck i =>
      if i <? nsh s then
        if pending (shards s i) then Some (set_npos s (NLock i)) else Some (set_npos s (NCheck (S i)))
      else Some (set_npos s (if final s then NExited else NSelect))
  | NLock i =>
      let d := shards s i in
      match mu d with
      | None => Some (set_npos (set_shard s i (mkShard (buf d) (pending d) (Some OwNot))) (NSwap i))
      | Some _ => None
      end
  | NSwap i =>
      let d := shards s i in
      Some (set_npos (set_hand (set_shard s i (mkShard [] (pending d) (mu d))) (buf d)) (NClear i))
  | NClear i =>
      let d := shards s i in
      Some (set_npos (set_shard s i (mkShard (buf d) false (mu d))) (NUnlock i))
  | NUnlock i =>
      let d := shards s i in
      Some (set_npos (set_shard s i (mkShard (buf d) (pending d) None)) (NDeliver i))
  | NDeliver i =>
      match hand s with
      | [] => Some (set_npos s (NCheck (S i)))
      | x :: r =>
          let s1 := set_delivered (set_hand s r) (delivered s ++ [(i, x)]) in
          match re x with
          | Some (j, y) => if j <? nsh s then Some (set_npos s1 (NReent i MIdle j y)) else Some s1
          | None => Some s1
          end
      end
  | NReent i p j y =>
      match stage_step s OwNot p j y with
      | None => None
      | Some (s1, p') =>
          Some (set_npos s1 (match p' with MIdle => NDeliver i | _ => NReent i p' j y end))
      end
  | NExited => None
  end.

Definition close_step (s : state) : option state :=
  match cpos s with
  | CStart => Some (set_cpos (set_closeCh s true) CWait)          (* close(c.closeCh) *)
  | CWait => match npos s with NExited => Some (set_cpos s CDone) | _ => None end   (* workers.Wait *)
  | CDone => None
  end.

Inductive label := LMut (t : nat) | LNot (c : bool) | LClose.

Definition step (re : Z -> option (nat * Z)) (s : state) (l : label) : option state :=
  match l with
  | LMut t => mut_step s t
  | LNot c => not_step re c s
  | LClose => close_step s
  end.

Definition init (n : nat) (scripts : list (list (nat * Z))) : state :=
  mkSt n (fun _ => mkShard [] false None) false false
       (fun t => mkMut (nth t scripts []) MIdle)
       NSelect [] false CStart [] [] [].

Fixpoint exec (re : Z -> option (nat * Z)) (s : state) (ls : list label) : option state :=
  match ls with
  | [] => Some s
  | l :: r => match step re s l with Some s1 => exec re s1 r | None => None end
  end.

Inductive reachable (re : Z -> option (nat * Z)) (n : nat) (scripts : list (list (nat * Z))) : state -> Prop :=
| reach_init : reachable re n scripts (init n scripts)
| reach_step s l s' : reachable re n scripts s -> step re s l = Some s' -> reachable re n scripts s'.

(* per-shard projection of a ghost list *)
Definition proj (sh : nat) (l : list (nat * Z)) : list Z :=
  map snd (filter (fun p => fst p =? sh) l).

(* observation of a state for examples: (bufs of shards 0..n-1, pending flags, wakeTok, delivered) *)
Definition bufs (s : state) : list (list Z) := map (fun k => buf (shards s k)) (seq 0 (nsh s)).
Definition pendings (s : state) : list bool := map (fun k => pending (shards s k)) (seq 0 (nsh s)).

(* ------------------------------------------------------------------ order-swapped MUTANT (not the Go code)
   stageRemoval with the signal sent BEFORE removePending.Store(true).  Used only to show that the
   flag-before-signal order of the real code is necessary (NotifierProofs.signal_before_flag_loses_wake).
   The `late` ghost is not maintained here. *)
Definition stage_step_sigfirst (s : state) (who : owner) (p : mpc) (sh : nat) (id : Z) : option (state * mpc) :=
  let d := shards s sh in
  match p with
  | MAppended => Some (set_wakeTok s true, MFlagged)                                  (* signal first *)
  | MFlagged => Some (set_shard s sh (mkShard (buf d) true (mu d)), MSignalled)       (* then the flag *)
  | _ => stage_step s who p sh id
  end.

Definition mut_step_sigfirst (s : state) (t : nat) : option state :=
  let m := muts s t in
  match script m with
  | [] => None
  | (sh, id) :: r =>
      if sh <? nsh s then
        match stage_step_sigfirst s (OwMut t) (mpos m) sh id with
        | None => None
        | Some (s1, p') =>
            Some (set_muts s1 (fupd (muts s1) t
                    (mkMut (match p' with MIdle => r | _ => script m end) p')))
        end
      else None
  end.

Definition step_sigfirst (re : Z -> option (nat * Z)) (s : state) (l : label) : option state :=
  match l with
  | LMut t => mut_step_sigfirst s t
  | LNot c => not_step re c s
  | LClose => close_step s
  end.

Fixpoint exec_sigfirst (re : Z -> option (nat * Z)) (s : state) (ls : list label) : option state :=
  match ls with
  | [] => Some s
  | l :: r => match step_sigfirst re s l with Some s1 => exec_sigfirst re s1 r | None => None end
  end.
