(* HtableLtsProofs.v — theorems about the concurrent transition system HtableLts.v (one writer, lock-free
   readers) for every hash assignment (unsigned: 0 <= hashf k), table size, number of readers and
   schedule.  Stdlib only.

   Method.  The writer/memory invariant WInvAt ties every state — including the states between the two
   stores of one writer operation — to a sequential table `ctab c` of HtableModel that satisfies the
   refinement relation Rel of HtableTrace: the current array is `cmap l` (the two-word image of the
   sequential slots), or that image with ONE half-written cell (half_ins / half_rem), or an
   intermediate list of the reclaim loop, plus the not yet published array of a rehash.  Every writer
   segment is shown to preserve it (wstep_inv) and to end an operation exactly as HtableModel does
   (StepOut: same table, same results).  Readers are handled by history invariants over the list of
   visited states (HInv: items seen were alive; MInv: the key is published ahead of the reader or was
   seen absent; TInv: a potential bounding the remaining tag loads).

   Main results (all closed under the global context):
     wfc_invariant, old_arrays_frozen            (1)
     writer_alone_refines_sequential             (sanity: the writer alone = HtableModel)
     reader_sound_hit, reader_sound_miss,
     resident_key_found, absent_key_not_found,
     never_wrong_key                             (2)
     single_item_snapshot                        (3)
     reader_terminates(_idle_writer)             (4)
     Flicker.atomic_flicker_refuted              (5)
     NonVacuity.*                                (6) *)
Require Import KV.Base KV.Gen.Consts KV.HtableModel KV.HtableProofs KV.HtableTrace KV.HtableLts.
Require Import Lia List Arith ZArith Bool.
Import ListNotations.
Local Open Scope nat_scope.

(* ------------------------------------------------------------------ *)
(** * Part 1: lists, cells, memory                                       *)
(* ------------------------------------------------------------------ *)

Lemma length_setcc a : forall p c, length (setcc a p c) = length a.
Proof.
  induction a as [|x a IH]; intros p c; [reflexivity|].
  destruct p as [|p]; cbn [setcc length]; [reflexivity|]. rewrite IH. reflexivity.
Qed.

Lemma getcc_setcc_same a : forall p c, p < length a -> getcc (setcc a p c) p = c.
Proof.
  unfold getcc. induction a as [|x a IH]; intros p c H; cbn [length] in H; [lia|].
  destruct p as [|p]; cbn [setcc nth]; [reflexivity|]. apply IH. lia.
Qed.

Lemma getcc_setcc_other a : forall p q c, p <> q -> getcc (setcc a p c) q = getcc a q.
Proof.
  unfold getcc. induction a as [|x a IH]; intros p q c H; [reflexivity|].
  destruct p as [|p]; destruct q as [|q]; cbn [setcc nth]; try reflexivity; try lia.
  apply IH. lia.
Qed.

Lemma getcc_oob a p : length a <= p -> getcc a p = cempty.
Proof. unfold getcc. intros H. apply nth_overflow. exact H. Qed.

Lemma setcc_oob a : forall p c, length a <= p -> setcc a p c = a.
Proof.
  induction a as [|x a IH]; intros p c H; [reflexivity|].
  destruct p as [|p]; cbn [length] in H; [lia|]. cbn [setcc]. rewrite IH by lia. reflexivity.
Qed.

Lemma length_set_tag a p t : length (set_tag a p t) = length a.
Proof. apply length_setcc. Qed.
Lemma length_set_item a p x : length (set_item a p x) = length a.
Proof. apply length_setcc. Qed.

Lemma ctag_set_tag a p q t :
  ctag (getcc (set_tag a p t) q) = if Nat.eqb p q && Nat.ltb p (length a) then t else ctag (getcc a q).
Proof.
  unfold set_tag. destruct (Nat.eqb_spec p q) as [E|E]; cbn [andb].
  - subst q. destruct (Nat.ltb_spec p (length a)) as [L|L].
    + rewrite getcc_setcc_same by exact L. reflexivity.
    + rewrite setcc_oob by exact L. reflexivity.
  - rewrite getcc_setcc_other by exact E. reflexivity.
Qed.

Lemma citem_set_tag a p q t : citem (getcc (set_tag a p t) q) = citem (getcc a q).
Proof.
  unfold set_tag. destruct (Nat.eq_dec p q) as [E|E].
  - subst q. destruct (le_lt_dec (length a) p) as [L|L].
    + rewrite setcc_oob by exact L. reflexivity.
    + rewrite getcc_setcc_same by exact L. reflexivity.
  - rewrite getcc_setcc_other by exact E. reflexivity.
Qed.

Lemma ctag_set_item a p q x : ctag (getcc (set_item a p x) q) = ctag (getcc a q).
Proof.
  unfold set_item. destruct (Nat.eq_dec p q) as [E|E].
  - subst q. destruct (le_lt_dec (length a) p) as [L|L].
    + rewrite setcc_oob by exact L. reflexivity.
    + rewrite getcc_setcc_same by exact L. reflexivity.
  - rewrite getcc_setcc_other by exact E. reflexivity.
Qed.

Lemma citem_set_item a p q x :
  citem (getcc (set_item a p x) q) = if Nat.eqb p q && Nat.ltb p (length a) then x else citem (getcc a q).
Proof.
  unfold set_item. destruct (Nat.eqb_spec p q) as [E|E]; cbn [andb].
  - subst q. destruct (Nat.ltb_spec p (length a)) as [L|L].
    + rewrite getcc_setcc_same by exact L. reflexivity.
    + rewrite setcc_oob by exact L. reflexivity.
  - rewrite getcc_setcc_other by exact E. reflexivity.
Qed.

(* --- set_nth / arrays --- *)

Lemma length_set_nth {A} (l : list A) : forall i x, length (set_nth l i x) = length l.
Proof.
  induction l as [|y l IH]; intros i x; [reflexivity|].
  destruct i as [|i]; cbn [set_nth length]; [reflexivity|]. rewrite IH. reflexivity.
Qed.

Lemma nth_set_nth_same {A} (l : list A) d : forall i x, i < length l -> nth i (set_nth l i x) d = x.
Proof.
  induction l as [|y l IH]; intros i x H; cbn [length] in H; [lia|].
  destruct i as [|i]; cbn [set_nth nth]; [reflexivity|]. apply IH. lia.
Qed.

Lemma nth_set_nth_other {A} (l : list A) d : forall i j x, i <> j -> nth j (set_nth l i x) d = nth j l d.
Proof.
  induction l as [|y l IH]; intros i j x H; [reflexivity|].
  destruct i as [|i]; destruct j as [|j]; cbn [set_nth nth]; try reflexivity; try lia.
  apply IH. lia.
Qed.

Lemma nth_error_set_nth_same {A} (l : list A) : forall i x, i < length l -> nth_error (set_nth l i x) i = Some x.
Proof.
  induction l as [|y l IH]; intros i x H; cbn [length] in H; [lia|].
  destruct i as [|i]; cbn [set_nth nth_error]; [reflexivity|]. apply IH. lia.
Qed.

Lemma nth_error_set_nth_other {A} (l : list A) : forall i j x, i <> j -> nth_error (set_nth l i x) j = nth_error l j.
Proof.
  induction l as [|y l IH]; intros i j x H; [reflexivity|].
  destruct i as [|i]; destruct j as [|j]; cbn [set_nth nth_error]; try reflexivity; try lia.
  apply IH. lia.
Qed.

Lemma getarr_upd_same m d a : d < length (arrs m) -> getarr (upd_arr m d a) d = a.
Proof. intros H. unfold getarr, upd_arr. cbn [arrs]. apply nth_set_nth_same. exact H. Qed.

Lemma getarr_upd_other m d e a : d <> e -> getarr (upd_arr m d a) e = getarr m e.
Proof. intros H. unfold getarr, upd_arr. cbn [arrs]. apply nth_set_nth_other. exact H. Qed.

Lemma getarr_store_data_old m a d : d < length (arrs m) -> getarr (store_data m a) d = getarr m d.
Proof. intros H. unfold getarr, store_data. cbn [arrs]. apply app_nth1. exact H. Qed.

Lemma getarr_store_data_new m a : getarr (store_data m a) (length (arrs m)) = a.
Proof.
  unfold getarr, store_data. cbn [arrs]. rewrite app_nth2 by lia. rewrite Nat.sub_diag. reflexivity.
Qed.

(* ------------------------------------------------------------------ *)
(** * Part 2: the sequential view of a quiescent array                   *)
(* ------------------------------------------------------------------ *)

(* a sequential cell as two words *)
Definition conc (c : cell) : ccell :=
  match c with
  | Empty => cempty
  | Tomb => {| ctag := 1; citem := None |}
  | Live it => {| ctag := ntag it; citem := Some it |}
  end.
Definition cmap (l : list cell) : list ccell := map conc l.

(* two words as a sequential cell: the tag decides *)
Definition abs_cell (c : ccell) : cell :=
  if (ctag c =? 0)%Z then Empty
  else if (ctag c =? 1)%Z then Tomb
  else match citem c with Some it => Live it | None => Tomb end.
Definition absl (a : list ccell) : list cell := map abs_cell a.

Lemma length_cmap l : length (cmap l) = length l.
Proof. apply map_length. Qed.
Lemma length_absl a : length (absl a) = length a.
Proof. apply map_length. Qed.

Lemma getcc_cmap l i : getcc (cmap l) i = conc (getc l i).
Proof. unfold getcc, cmap, getc. change cempty with (conc Empty). apply map_nth. Qed.

Lemma getc_absl a i : getc (absl a) i = abs_cell (getcc a i).
Proof. unfold getcc, absl, getc. change Empty with (abs_cell cempty). apply map_nth. Qed.

Lemma setcc_cmap l : forall i c, setcc (cmap l) i (conc c) = cmap (setc l i c).
Proof.
  induction l as [|x l IH]; intros i c; [reflexivity|].
  destruct i as [|i]; cbn [cmap map setcc setc]; [reflexivity|].
  fold (cmap l). rewrite IH. reflexivity.
Qed.

Lemma absl_setcc a : forall i c, absl (setcc a i c) = setc (absl a) i (abs_cell c).
Proof.
  induction a as [|x a IH]; intros i c; [reflexivity|].
  destruct i as [|i]; cbn [absl map setcc setc]; [reflexivity|].
  fold (absl a). fold (absl (setcc a i c)). rewrite IH. reflexivity.
Qed.

Lemma cmap_repeat n : cmap (repeat Empty n) = repeat cempty n.
Proof. unfold cmap. induction n as [|n IH]; cbn [repeat map]; [reflexivity|]. rewrite IH. reflexivity. Qed.

Lemma norm_ge2 h : (0 <= h -> 2 <= norm h)%Z.
Proof. unfold norm. intros H. destruct (Z.ltb_spec h 2); lia. Qed.

(* hashes are unsigned *)
Definition hash_ok (l : list cell) : Prop := forall p x, getc l p = Live x -> (0 <= ihash x)%Z.

Lemma abs_conc c : (forall x, c = Live x -> (0 <= ihash x)%Z) -> abs_cell (conc c) = c.
Proof.
  intros H. destruct c as [| |x]; try reflexivity.
  unfold abs_cell, conc, ntag. cbn [ctag citem]. pose proof (norm_ge2 _ (H x eq_refl)) as N.
  destruct (Z.eqb_spec (norm (ihash x)) 0); [lia|]. destruct (Z.eqb_spec (norm (ihash x)) 1); [lia|].
  reflexivity.
Qed.

Lemma absl_cmap l : hash_ok l -> absl (cmap l) = l.
Proof.
  intros H. apply nth_ext with (d := Empty) (d' := Empty).
  - rewrite length_absl, length_cmap. reflexivity.
  - intros i _. fold (getc (absl (cmap l)) i). fold (getc l i).
    rewrite getc_absl, getcc_cmap. apply abs_conc. intros x E. apply (H i x E).
Qed.

Lemma hash_ok_setc l p c :
  (forall x, c = Live x -> (0 <= ihash x)%Z) -> hash_ok l -> hash_ok (setc l p c).
Proof.
  intros Hc H q x G. destruct (getc_setc_cases l p q c) as [(_ & _ & E)|E]; rewrite E in G.
  - apply (Hc x G).
  - apply (H q x G).
Qed.

(* --- the writer's private loops agree with HtableModel's on a quiescent array --- *)

Lemma cwalk_cmap l n h k : hash_ok l -> forall fuel i ft,
  cwalk fuel (cmap l) n i ft (norm h) k = walk_for fuel l n i ft h k.
Proof.
  intros H. induction fuel as [|f IH]; intros i ft; [reflexivity|].
  cbn [cwalk walk_for]. rewrite getcc_cmap. destruct (getc l i) as [| |x] eqn:G; cbn [conc ctag citem cempty].
  - reflexivity.
  - cbn. apply IH.
  - pose proof (norm_ge2 _ (H i x G)) as N. unfold ntag.
    destruct (Z.eqb_spec (norm (ihash x)) 0); [lia|]. destruct (Z.eqb_spec (norm (ihash x)) 1); [lia|].
    unfold matches. destruct (norm (ihash x) =? norm h)%Z; cbn [andb].
    + destruct (ikey x =? k)%Z; [reflexivity|apply IH].
    + apply IH.
Qed.

Lemma cfind_exact_cmap l n it : hash_ok l -> forall fuel i,
  cfind_exact fuel (cmap l) n i (ntag it) it = find_exact fuel l n i it.
Proof.
  intros H. induction fuel as [|f IH]; intros i; [reflexivity|].
  cbn [cfind_exact find_exact]. rewrite getcc_cmap. destruct (getc l i) as [| |x] eqn:G; cbn [conc ctag citem cempty].
  - reflexivity.
  - change (1 =? 0)%Z with false. cbv iota. rewrite andb_false_r. apply IH.
  - pose proof (norm_ge2 _ (H i x G)) as N. unfold ntag.
    destruct (Z.eqb_spec (norm (ihash x)) 0); [lia|].
    destruct ((norm (ihash x) =? norm (ihash it))%Z && (iid x =? iid it)%Z)%bool; [reflexivity|apply IH].
Qed.

Lemma cfirst_empty_cmap l n : hash_ok l -> forall fuel i,
  cfirst_empty fuel (cmap l) n i = first_empty fuel l n i.
Proof.
  intros H. induction fuel as [|f IH]; intros i; [reflexivity|].
  cbn [cfirst_empty first_empty]. rewrite getcc_cmap. destruct (getc l i) as [| |x] eqn:G; cbn [conc ctag cempty].
  - reflexivity.
  - cbn. apply IH.
  - pose proof (norm_ge2 _ (H i x G)) as N. unfold ntag.
    destruct (Z.eqb_spec (norm (ihash x)) 0); [lia|]. apply IH.
Qed.

Lemma creinsert_cmap n acc e c :
  hash_ok acc -> (forall x, c = Live x -> (0 <= ihash x)%Z) ->
  creinsert n (cmap acc, e) (conc c) = (cmap (fst (reinsert n (acc, e) c)), snd (reinsert n (acc, e) c)).
Proof.
  intros Ha Hc. unfold creinsert, reinsert. destruct c as [| |x]; cbn [conc ctag citem cempty fst snd].
  - reflexivity.
  - reflexivity.
  - pose proof (norm_ge2 _ (Hc x eq_refl)) as N. unfold ntag at 1.
    destruct (Z.leb_spec (norm (ihash x)) 1); [lia|].
    rewrite cfirst_empty_cmap by exact Ha.
    destruct (first_empty n acc n (home_in n (ihash x))) as [j|]; cbn [fst snd]; [|reflexivity].
    change {| ctag := ntag x; citem := Some x |} with (conc (Live x)). rewrite setcc_cmap. reflexivity.
Qed.

Lemma hash_ok_reinsert n acc e c :
  hash_ok acc -> (forall x, c = Live x -> (0 <= ihash x)%Z) -> hash_ok (fst (reinsert n (acc, e) c)).
Proof.
  intros Ha Hc. unfold reinsert. destruct c as [| |x]; cbn [fst]; try exact Ha.
  destruct (first_empty n acc n (home_in n (ihash x))) as [j|]; cbn [fst]; [|exact Ha].
  apply hash_ok_setc; [|exact Ha]. intros y E. injection E as E. subst y. apply (Hc x eq_refl).
Qed.

Lemma crehash_fold n : forall old acc e,
  hash_ok acc -> (forall x, In (Live x) old -> (0 <= ihash x)%Z) ->
  fold_left (creinsert n) (cmap old) (cmap acc, e) =
  (cmap (fst (fold_left (reinsert n) old (acc, e))), snd (fold_left (reinsert n) old (acc, e))) /\
  hash_ok (fst (fold_left (reinsert n) old (acc, e))).
Proof.
  induction old as [|c old IH]; intros acc e Ha Ho; cbn [cmap map fold_left fst snd].
  - split; [reflexivity|exact Ha].
  - fold (cmap old).
    assert (Hc : forall x, c = Live x -> (0 <= ihash x)%Z) by (intros x E; apply Ho; left; exact E).
    rewrite (creinsert_cmap n acc e c Ha Hc).
    pose proof (hash_ok_reinsert n acc e c Ha Hc) as Ha'.
    destruct (reinsert n (acc, e) c) as [acc' e'] eqn:R. cbn [fst snd] in *.
    apply IH; [exact Ha'|]. intros x I. apply Ho. right. exact I.
Qed.

Lemma hash_ok_repeat n : hash_ok (repeat Empty n).
Proof. intros p x G. rewrite getc_repeat in G. discriminate G. Qed.

Lemma hash_ok_in l x : hash_ok l -> In (Live x) l -> (0 <= ihash x)%Z.
Proof.
  intros H I. destruct (In_nth l (Live x) Empty I) as (p & _ & E). apply (H p x E).
Qed.

Lemma crehash_cmap l newN :
  hash_ok l ->
  crehash (cmap l) newN =
  (cmap (fst (fold_left (reinsert newN) l (repeat Empty newN, false))),
   snd (fold_left (reinsert newN) l (repeat Empty newN, false))) /\
  hash_ok (fst (fold_left (reinsert newN) l (repeat Empty newN, false))).
Proof.
  intros H. unfold crehash. rewrite <- cmap_repeat.
  apply crehash_fold; [apply hash_ok_repeat|]. intros x I. apply (hash_ok_in l x H I).
Qed.

Lemma ccount_live_cmap l : hash_ok l -> ccount_live (cmap l) = count_live l.
Proof.
  intros H. unfold ccount_live, count_live.
  assert (G : forall l, hash_ok l -> forall a,
             fold_left (fun acc c => if (2 <=? ctag c)%Z then (acc + 1)%Z else acc) (cmap l) a =
             fold_left (fun a c => match c with Live _ => (a + 1)%Z | _ => a end) l a).
  { clear. induction l as [|c l IH]; intros H a; [reflexivity|].
    cbn [cmap map fold_left]. fold (cmap l).
    assert (Hl : hash_ok l) by (intros p x G; apply (H (S p) x G)).
    rewrite IH by exact Hl. f_equal. destruct c as [| |x]; cbn [conc ctag cempty]; try reflexivity.
    pose proof (norm_ge2 _ (H 0 x eq_refl)) as N. unfold ntag.
    destruct (Z.leb_spec 2 (norm (ihash x))); [reflexivity|lia]. }
  apply G. exact H.
Qed.

(* ------------------------------------------------------------------ *)
(** * Part 3: the sequential reference and the writer protocol           *)
(* ------------------------------------------------------------------ *)

Local Open Scope Z_scope.

Definition mkc (t : htable) (cur : cursor) (f : option (nat * item)) : cstate :=
  {| ctab := t; ccur := cur; cfnd := f |}.

(* what the VerifHtable wrapper computes under the shard lock, with HtableModel's functions
   (the op's own hash is used: no hash function involved) *)
Definition sstep (c : cstate) (op : wop) : cstate * (Z * Z) :=
  match op with
  | WStore it =>
      let '(t', prev) := store (ctab c) it in
      (mkc t' (ccur c) (cfnd c), match prev with Some p => (1, ival p) | None => (0, 0) end)
  | WRemove k h =>
      match lookup (ctab c) h k with
      | Some it => let '(t', ok) := remove_exact (ctab c) it in (mkc t' (ccur c) (cfnd c), (b2z ok, 0))
      | None => (c, (0, 0))
      end
  | WProbe k h =>
      let '(t', found, cur) := probe (ctab c) h k in
      (mkc t' cur found, match found with Some (_, it) => (1, ival it) | None => (0, 0) end)
  | WPublish it => (mkc (publish (ctab c) it (ccur c)) (ccur c) (cfnd c), (0, 0))
  | WUnpin => (mkc (unpin (ctab c)) (ccur c) (cfnd c), (0, 0))
  | WSwap it =>
      (mkc (swap_at (ctab c) (match cfnd c with Some (s, _) => s | None => O end) it) (ccur c) (cfnd c), (0, 0))
  | WClear => (mkc (clear (ctab c)) (ccur c) (cfnd c), (0, 0))
  end.

Fixpoint srun (c : cstate) (ws : list wop) : list (list Z) :=
  match ws with
  | [] => []
  | op :: r => let '(c', (r1, r2)) := sstep c op in [0; r1; r2] :: srun c' r
  end.

(* observations of completed operations *)
Definition is_completion (o : list Z) : bool := match o with 0 :: _ => true | _ => false end.
Definition completions (os : list (list Z)) : list (list Z) := filter is_completion os.

(* --- sanity by evaluation: the writer alone against HtableModel (all keys collide on slot 5) --- *)
Module AloneExample.
Definition mk (k v id : Z) : item := {| ikey := k; ihash := 5; ival := v; iid := id |}.
Definition ws : list wop :=
  [WStore (mk 1 10 0); WStore (mk 2 20 1); WStore (mk 3 30 2); WStore (mk 4 40 3);
   WRemove 2 5; WProbe 5 5; WRemove 4 5; WRemove 3 5; WPublish (mk 5 50 4);
   WProbe 1 5; WSwap (mk 1 11 5); WRemove 9 5; WProbe 7 5; WClear; WPublish (mk 6 60 6);
   WStore (mk 1 12 7); WStore (mk 6 61 8)].
Example writer_alone_eval :
  completions (snd (lrun (init_state 0 ws []) (repeat O 80))) = srun (cinit 0) ws.
Proof. vm_compute. reflexivity. Qed.

(* growth: 13 distinct keys force two rehashes (yield 251) *)
Definition ws2 : list wop :=
  map (fun k => WStore {| ikey := k; ihash := k * 3; ival := k * 100; iid := k |}) (zseq 1 13).
Example writer_alone_eval_grow :
  completions (snd (lrun (init_state 0 ws2 []) (repeat O 60))) = srun (cinit 0) ws2 /\
  cur_arr (gmem (fst (lrun (init_state 0 ws2 []) (repeat O 60)))) =
  cmap (slots (ctab (fold_left (fun c op => fst (sstep c op)) ws2 (cinit 0)))).
Proof. vm_compute. split; reflexivity. Qed.
End AloneExample.

Section Lts.
Variable hashf : Z -> Z.
Hypothesis hashf_nonneg : forall k, 0 <= hashf k.

(* the writer's script respects the protocol of HtableTrace's abstract machine; every op carries the
   hash of its key *)
Definition wastep (a : astate) (op : wop) : option astate :=
  match op with
  | WStore it => option_map fst (astep hashf a (TStore it))
  | WRemove k h =>
      if h =? hashf k then
        match aget (am a) k with
        | Some it => option_map fst (astep hashf a (TRemove it))
        | None => Some a
        end
      else None
  | WProbe k h => if h =? hashf k then option_map fst (astep hashf a (TProbe k)) else None
  | WPublish it => option_map fst (astep hashf a (TPublish it))
  | WUnpin => option_map fst (astep hashf a TUnpin)
  | WSwap it => option_map fst (astep hashf a (TSwap it))
  | WClear => option_map fst (astep hashf a TClear)
  end.

Fixpoint wproto (a : astate) (ws : list wop) : Prop :=
  match ws with
  | [] => True
  | op :: r => exists a', wastep a op = Some a' /\ wproto a' r
  end.

Lemma option_map_fst_some {A B} (x : option (A * B)) a :
  option_map fst x = Some a -> exists b, x = Some (a, b).
Proof. destruct x as [[a0 b0]|]; cbn; intros H; [|discriminate H]. injection H as H. subst a0. exists b0. reflexivity. Qed.

Lemma sstep_refines c a op a' :
  Rel hashf c a -> wastep a op = Some a' -> Rel hashf (fst (sstep c op)) a'.
Proof.
  intros R S. destruct op as [it|k h|k h|it| |it| ]; cbn [wastep] in S.
  - apply option_map_fst_some in S. destruct S as [o S].
    destruct (step_refines hashf c a _ a' o R S) as [_ R']. cbn [cstep sstep] in *.
    destruct (store (ctab c) it) as [t' prev]. exact R'.
  - destruct (Z.eqb_spec h (hashf k)) as [E|E]; [|discriminate S]. subst h. cbn [sstep].
    rewrite (Rel_lookup hashf c a k R).
    destruct (aget (am a) k) as [it|].
    + apply option_map_fst_some in S. destruct S as [o S].
      destruct (step_refines hashf c a _ a' o R S) as [_ R']. cbn [cstep] in R'.
      destruct (remove_exact (ctab c) it) as [t' ok]. exact R'.
    + injection S as S. subst a'. exact R.
  - destruct (Z.eqb_spec h (hashf k)) as [E|E]; [|discriminate S]. subst h.
    apply option_map_fst_some in S. destruct S as [o S].
    destruct (step_refines hashf c a _ a' o R S) as [_ R']. cbn [cstep sstep] in *.
    destruct (probe (ctab c) (hashf k) k) as [[t' found] cur]. exact R'.
  - apply option_map_fst_some in S. destruct S as [o S].
    destruct (step_refines hashf c a _ a' o R S) as [_ R']. exact R'.
  - apply option_map_fst_some in S. destruct S as [o S].
    destruct (step_refines hashf c a _ a' o R S) as [_ R']. exact R'.
  - apply option_map_fst_some in S. destruct S as [o S].
    destruct (step_refines hashf c a _ a' o R S) as [_ R']. exact R'.
  - apply option_map_fst_some in S. destruct S as [o S].
    destruct (step_refines hashf c a _ a' o R S) as [_ R']. exact R'.
Qed.

(* the phase after an accepted step *)
Definition nonprobe (op : wop) : Prop :=
  match op with WProbe _ _ | WRemove _ _ => False | _ => True end.

Lemma wastep_phase a op a' :
  nonprobe op -> wastep a op = Some a' -> forall k, aph a' <> Found k.
Proof.
  intros NP S. destruct op as [it|k h|k h|it| |it| ]; cbn [wastep] in S; cbn [nonprobe] in NP; try contradiction.
  - unfold astep in S. destruct (aph a); try discriminate S.
    destruct (ins_ok hashf a it); [|discriminate S]. injection S as S. subst a'. intros k. discriminate.
  - unfold astep in S. destruct (aph a); try discriminate S.
    + destruct (astale a && ins_ok hashf a it)%bool; [|discriminate S]. injection S as S. subst a'. intros k. discriminate.
    + destruct (ins_ok hashf a it && (ikey it =? kc))%bool; [|discriminate S]. injection S as S. subst a'. intros k. discriminate.
  - injection S as S. subst a'. intros k. discriminate.
  - unfold astep in S. destruct (aph a); try discriminate S.
    destruct (ins_ok hashf a it && (ikey it =? k))%bool; [|discriminate S]. injection S as S. subst a'. intros k0. discriminate.
  - injection S as S. subst a'. intros k. discriminate.
Qed.

Lemma wastep_remove_phase a k h a' : wastep a (WRemove k h) = Some a' -> aph a' = aph a.
Proof.
  cbn [wastep]. destruct (h =? hashf k); [|discriminate]. destruct (aget (am a) k) as [it|].
  - unfold astep. intros S.
    destruct (aph a) eqn:Ph; try discriminate S;
      (destruct (consb hashf it && ident_ok (aissued a) it)%bool; [|discriminate S]);
      injection S as S; subst a'; cbn [aph]; try rewrite Ph; reflexivity.
  - intros S. injection S as S. subst a'. reflexivity.
Qed.

Lemma LWF_hash_ok l n : LWF hashf l n -> hash_ok l.
Proof. intros W p x G. rewrite (lwf_cons _ _ _ W p x G). apply hashf_nonneg. Qed.

Lemma Rel_parts c a : Rel hashf c a -> WFcore hashf (ctab c) /\ load_ok (ctab c) /\ hash_ok (slots (ctab c)).
Proof.
  intros R. destruct (phase_core hashf c (aph a) (r_phase _ _ _ R)) as [C L].
  split; [exact C|]. split; [exact L|]. apply (LWF_hash_ok _ _ (wc_l _ _ C)).
Qed.

(* ------------------------------------------------------------------ *)
(** * Part 4: the writer/memory invariant                                *)
(* ------------------------------------------------------------------ *)

Definition cur_rel (wc : wcursor) (cc : cursor) : Prop :=
  match wcd wc with Some d => cgen cc = Z.of_nat d | None => cgen cc = -1 end /\
  wcslot wc = cslot cc /\ wctomb wc = ctomb cc.

Record Com (m : mem) (w : wpriv) (c : cstate) (a : astate) : Prop := {
  com_gen : Z.of_nat (data m) = gen (ctab c);
  com_len : length (arrs m) = S (data m);
  com_err : werr w = false;
  com_cur : cur_rel (wcur w) (ccur c);
  com_fnd : forall k s it, aph a = Found k -> cfnd c = Some (s, it) -> wfslot w = Some (data m, s)
}.

Definition Priv (w : wpriv) (t : htable) : Prop :=
  wlive w = live t /\ wtombs w = tombs t /\ wpin w = pinned t.

(* slot p is ahead of the probe position i: the cells from i up to p (exclusive) are non-empty *)
Definition ahead (l : list cell) (n i p : nat) : Prop :=
  exists e, iter_next n e i = p /\ walkne l n i e.
Definition AheadAll (l : list cell) (i : nat) (k : Z) : Prop :=
  forall p x, getc l p = Live x -> ikey x = k -> ahead l (length l) i p.

Definition InsFacts (l : list cell) (dst : nat) (it : item) : Prop :=
  (dst < length l)%nat /\ is_live (getc l dst) = false /\ consistent hashf it /\
  reach_at l (length l) (ihash it) dst /\ (forall x, resident l x -> ikey x <> ikey it) /\
  (exists e, e <> dst /\ (e < length l)%nat /\ getc l e = Empty).

Definition InsMid (w : wpriv) (c : cstate) (op : wop) (dst : nat) (it : item) (tbf : Z) : Prop :=
  let t := ctab c in
  InsFacts (slots t) dst it /\ nonprobe op /\
  tbf = tombs t - (if is_tomb (getc (slots t) dst) then 1 else 0) /\
  wlive w = live t /\
  sstep c op = (mkc (maybe_grow (with_slots t (setc (slots t) dst (Live it)) (live t + 1) tbf (wpin w)))
                    (ccur c) (cfnd c), (0, 0)).

Definition half_ins (l : list cell) (dst : nat) (it : item) : list ccell :=
  setcc (cmap l) dst {| ctag := ctag (conc (getc l dst)); citem := Some it |}.
Definition half_rem (l : list cell) (i : nat) (it : item) : list ccell :=
  setcc (cmap l) i {| ctag := 1; citem := Some it |}.

Definition ReplMid (w : wpriv) (c : cstate) (op : wop) (s : nat) (it : item) (r1 r2 : Z) : Prop :=
  let t := ctab c in
  exists old, getc (slots t) s = Live old /\ ikey it = ikey old /\ consistent hashf it /\ nonprobe op /\
    wlive w = live t /\ wtombs w = tombs t /\
    sstep c op = (mkc (with_slots t (setc (slots t) s (Live it)) (live t) (tombs t) (wpin w))
                      (ccur c) (cfnd c), (r1, r2)).

Definition RemMid (w : wpriv) (c : cstate) (k h : Z) (i : nat) (it0 : item) : Prop :=
  let t := ctab c in
  Priv w t /\ getc (slots t) i = Live it0 /\
  exists l2 tb2,
    reclaim_tombs (setc (slots t) i Tomb) (length (slots t)) i (pinned t) (tombs t + 1) = (l2, tb2) /\
    sstep c (WRemove k h) = (mkc (with_slots t l2 (live t - 1) tb2 (pinned t)) (ccur c) (cfnd c), (1, 0)).

Definition PcInv (m : mem) (w : wpriv) (pc : wpc) (c : cstate) (pend : list wop) : Prop :=
  let t := ctab c in
  let l := slots t in
  let n := length l in
  let cur := cur_arr m in
  match pc with
  | WB => pend = [] /\ cur = cmap l /\ Priv w t
  | W201 k h => pend = [WRemove k h] /\ cur = cmap l /\ Priv w t
  | W202 d i k h | W203 d i k h =>
      pend = [WRemove k h] /\ cur = cmap l /\ Priv w t /\ d = data m /\ (i < n)%nat /\ AheadAll l i k
  | W211 dst it => exists op, pend = [op] /\ cur = cmap l /\ InsMid w c op dst it (wtombs w)
  | W212 dst it => exists op, pend = [op] /\ cur = half_ins l dst it /\ InsMid w c op dst it (wtombs w)
  | W213 s it r1 r2 => exists op, pend = [op] /\ cur = cmap l /\ ReplMid w c op s it r1 r2
  | W214 fa s it =>
      pend = [WSwap it] /\ cur = cmap l /\ fa = data m /\ wpin w = pinned t /\ ReplMid w c (WSwap it) s it 0 0
  | W221 s it wt =>
      exists op, pend = [op] /\ cur = cmap l /\ InsMid w c op s it (if wt then wtombs w - 1 else wtombs w)
  | W222 s it wt =>
      exists op, pend = [op] /\ cur = half_ins l s it /\
                 InsMid w c op s it (if wt then wtombs w - 1 else wtombs w)
  | W231 i => exists k h it0, pend = [WRemove k h] /\ cur = cmap l /\ RemMid w c k h i it0
  | W232 i => exists k h it0, pend = [WRemove k h] /\ cur = half_rem l i it0 /\ RemMid w c k h i it0
  | W233 i =>
      exists k h l' f l2 tb2,
        pend = [WRemove k h] /\ cur = cmap l' /\ LWF hashf l' n /\
        (i < n)%nat /\ getc l' i = Tomb /\ is_pin (pinned t) i = false /\
        getc l' (next_in n i) = Empty /\ is_pin (pinned t) (next_in n i) = false /\
        (ntomb l' <= S f)%nat /\
        reclaim_loop (S f) l' n i (pinned t) (wtombs w) = (l2, tb2) /\
        wlive w = live t - 1 /\ wpin w = pinned t /\
        sstep c (WRemove k h) = (mkc (with_slots t l2 (live t - 1) tb2 (pinned t)) (ccur c) (cfnd c), (1, 0))
  | W241 n0 => pend = [WClear] /\ cur = cmap l /\ n0 = n
  | W251 nd lv =>
      exists op t1 t2,
        pend = [op] /\ nonprobe op /\ cur = cmap (slots t1) /\ LWF hashf (slots t1) (length (slots t1)) /\
        (exists e, (e < length (slots t1))%nat /\ getc (slots t1) e = Empty) /\
        sstep c op = (mkc t2 (ccur c) (cfnd c), (0, 0)) /\
        nd = cmap (slots t2) /\ lv = live t2 /\ tombs t2 = 0 /\ pinned t2 = None /\ gen t2 = gen t + 1
  end.

Definition WInvAt (m : mem) (w : wpriv) (pc : wpc) (ws : list wop)
                  (c : cstate) (a : astate) (pend : list wop) : Prop :=
  Rel hashf c a /\ wproto a (pend ++ ws) /\ Com m w c a /\ PcInv m w pc c pend.

(* --- memory helpers --- *)

Lemma cur_store_item m i x :
  (data m < length (arrs m))%nat -> cur_arr (store_item m (data m) i x) = set_item (cur_arr m) i x.
Proof. intros H. unfold cur_arr, store_item. cbn [upd_arr data]. apply getarr_upd_same. exact H. Qed.

Lemma cur_store_tag m i t :
  (data m < length (arrs m))%nat -> cur_arr (store_tag m (data m) i t) = set_tag (cur_arr m) i t.
Proof. intros H. unfold cur_arr, store_tag. cbn [upd_arr data]. apply getarr_upd_same. exact H. Qed.

Lemma cur_store_data m a : cur_arr (store_data m a) = a.
Proof. unfold cur_arr. cbn [store_data data]. apply getarr_store_data_new. Qed.

Lemma setcc_setcc a : forall i c1 c2, setcc (setcc a i c1) i c2 = setcc a i c2.
Proof.
  induction a as [|x a IH]; intros i c1 c2; [reflexivity|].
  destruct i as [|i]; cbn [setcc]; [reflexivity|]. rewrite IH. reflexivity.
Qed.

Lemma set_item_cmap_half l dst it : set_item (cmap l) dst (Some it) = half_ins l dst it.
Proof. unfold set_item, half_ins. rewrite getcc_cmap. reflexivity. Qed.

Lemma set_tag_half_ins l dst it :
  (dst < length l)%nat -> set_tag (half_ins l dst it) dst (ntag it) = cmap (setc l dst (Live it)).
Proof.
  intros H. unfold set_tag, half_ins. rewrite getcc_setcc_same by (rewrite length_cmap; exact H).
  rewrite setcc_setcc. cbn [citem]. apply (setcc_cmap l dst (Live it)).
Qed.

Lemma set_item_cmap_replace l s old it :
  getc l s = Live old -> ntag old = ntag it ->
  set_item (cmap l) s (Some it) = cmap (setc l s (Live it)).
Proof.
  intros G E. unfold set_item. rewrite getcc_cmap, G. cbn [conc ctag]. rewrite E.
  apply (setcc_cmap l s (Live it)).
Qed.

Lemma set_tag_cmap_rem l i it0 : getc l i = Live it0 -> set_tag (cmap l) i 1 = half_rem l i it0.
Proof. intros G. unfold set_tag, half_rem. rewrite getcc_cmap, G. reflexivity. Qed.

Lemma set_item_half_rem l i it0 :
  (i < length l)%nat -> set_item (half_rem l i it0) i None = cmap (setc l i Tomb).
Proof.
  intros H. unfold set_item, half_rem. rewrite getcc_setcc_same by (rewrite length_cmap; exact H).
  rewrite setcc_setcc. cbn [ctag]. apply (setcc_cmap l i Tomb).
Qed.

Lemma set_tag_cmap_reclaim l i : getc l i = Tomb -> set_tag (cmap l) i 0 = cmap (setc l i Empty).
Proof. intros G. unfold set_tag. rewrite getcc_cmap, G. cbn [conc citem]. apply (setcc_cmap l i Empty). Qed.

Lemma ntag_same_key x y : consistent hashf x -> consistent hashf y -> ikey x = ikey y -> ntag x = ntag y.
Proof. unfold consistent, ntag. intros Cx Cy K. rewrite Cx, Cy, K. reflexivity. Qed.

(* --- finishing an operation --- *)

Lemma finish_op c a op a' m' w' ws' :
  Rel hashf c a -> wastep a op = Some a' -> wproto a' ws' ->
  cur_arr m' = cmap (slots (ctab (fst (sstep c op)))) -> Priv w' (ctab (fst (sstep c op))) ->
  Z.of_nat (data m') = gen (ctab (fst (sstep c op))) -> length (arrs m') = S (data m') ->
  werr w' = false -> cur_rel (wcur w') (ccur (fst (sstep c op))) ->
  (forall k s it, aph a' = Found k -> cfnd (fst (sstep c op)) = Some (s, it) -> wfslot w' = Some (data m', s)) ->
  WInvAt m' w' WB ws' (fst (sstep c op)) a' [].
Proof.
  intros R S P Hc Hp Hg Hl He Hr Hf. split; [apply (sstep_refines c a op a' R S)|].
  split; [exact P|]. split; [constructor; assumption|].
  cbn [PcInv]. split; [reflexivity|]. split; assumption.
Qed.

Definition StepOut (ws : list wop) (c : cstate) (a : astate) (pend : list wop)
                   (res : wres * list wop) : Prop :=
  let '((m', w', pc', o), ws') := res in
  (pc' <> WB /\ exists pend', WInvAt m' w' pc' ws' c a pend' /\ pend' ++ ws' = pend ++ ws) \/
  (pc' = WB /\ exists op a' r1 r2,
     pend ++ ws = op :: ws' /\ wastep a op = Some a' /\ o = [0; r1; r2] /\
     snd (sstep c op) = (r1, r2) /\ WInvAt m' w' WB ws' (fst (sstep c op)) a' []).

Lemma finish_keep m w c a op a' m' w' ws' t' r :
  Rel hashf c a -> Com m w c a -> wastep a op = Some a' -> wproto a' ws' ->
  sstep c op = (mkc t' (ccur c) (cfnd c), r) ->
  (nonprobe op \/ (exists k h, op = WRemove k h) /\ wfslot w' = wfslot w /\ data m' = data m) ->
  cur_arr m' = cmap (slots t') -> Priv w' t' -> Z.of_nat (data m') = gen t' ->
  length (arrs m') = S (data m') -> werr w' = false -> wcur w' = wcur w ->
  WInvAt m' w' WB ws' (fst (sstep c op)) a' [].
Proof.
  intros R Cm S P SS Kind Hc Hp Hg Hl He Hw.
  apply (finish_op c a op a'); try assumption; rewrite SS; cbn [fst mkc ctab ccur cfnd]; try assumption.
  - rewrite Hw. apply (com_cur _ _ _ _ Cm).
  - intros k s it Ph F. destruct Kind as [NP|((k0 & h0 & Eo) & Ef & Ed)].
    + exfalso. apply (wastep_phase a op a' NP S k Ph).
    + subst op. rewrite (wastep_remove_phase a k0 h0 a' S) in Ph. rewrite Ef, Ed.
      apply (com_fnd _ _ _ _ Cm k s it Ph F).
Qed.

Lemma data_lt m w c a : Com m w c a -> (data m < length (arrs m))%nat.
Proof. intros Cm. rewrite (com_len _ _ _ _ Cm). lia. Qed.

Lemma length_arrs_upd m d x : length (arrs (upd_arr m d x)) = length (arrs m).
Proof. unfold upd_arr. cbn [arrs]. apply length_set_nth. Qed.

Lemma step_W213 m w ws c a pend s it r1 r2 :
  WInvAt m w (W213 s it r1 r2) ws c a pend ->
  StepOut ws c a pend (wdone (store_item m (data m) s (Some it)) w r1 r2, ws).
Proof.
  intros (R & P & Cm & op & Ep & Hc & old & G & K & Cit & NP & Lv & Tb & SS). subst pend.
  cbn [app wproto] in P. destruct P as (a' & S & P').
  destruct (Rel_parts c a R) as (C & _ & _).
  unfold StepOut, wdone. right. split; [reflexivity|]. exists op, a', r1, r2.
  split; [reflexivity|]. split; [exact S|]. split; [reflexivity|]. split; [rewrite SS; reflexivity|].
  apply (finish_keep m w c a op a' _ w ws _ _ R Cm S P' SS); try (left; exact NP);
    cbn [with_slots slots live tombs pinned gen]; try reflexivity.
  - rewrite (cur_store_item m s (Some it) (data_lt _ _ _ _ Cm)), Hc.
    apply (set_item_cmap_replace _ _ old); [exact G|].
    apply ntag_same_key; [apply (lwf_cons _ _ _ (wc_l _ _ C) s old G)|exact Cit|symmetry; exact K].
  - repeat split; assumption.
  - apply (com_gen _ _ _ _ Cm).
  - unfold store_item. rewrite length_arrs_upd. apply (com_len _ _ _ _ Cm).
  - apply (com_err _ _ _ _ Cm).
Qed.

Lemma step_W214 m w ws c a pend fa s it :
  WInvAt m w (W214 fa s it) ws c a pend ->
  StepOut ws c a pend (wdone (store_item m fa s (Some it)) (wp_fslot w None) 0 0, ws).
Proof.
  intros (R & P & Cm & Ep & Hc & Efa & Pin & old & G & K & Cit & NP & Lv & Tb & SS). subst pend fa.
  cbn [app wproto] in P. destruct P as (a' & S & P').
  destruct (Rel_parts c a R) as (C & _ & _).
  unfold StepOut, wdone. right. split; [reflexivity|]. exists (WSwap it), a', 0, 0.
  split; [reflexivity|]. split; [exact S|]. split; [reflexivity|]. split; [rewrite SS; reflexivity|].
  apply (finish_keep m w c a (WSwap it) a' _ _ ws _ _ R Cm S P' SS); try (left; exact NP);
    cbn [with_slots slots live tombs pinned gen wp_fslot wlive wtombs wpin wcur werr]; try reflexivity.
  - rewrite (cur_store_item m s (Some it) (data_lt _ _ _ _ Cm)), Hc.
    apply (set_item_cmap_replace _ _ old); [exact G|].
    apply ntag_same_key; [apply (lwf_cons _ _ _ (wc_l _ _ C) s old G)|exact Cit|symmetry; exact K].
  - unfold Priv. cbn [with_slots slots live tombs pinned wp_fslot wlive wtombs wpin]. repeat split; assumption.
  - apply (com_gen _ _ _ _ Cm).
  - unfold store_item. rewrite length_arrs_upd. apply (com_len _ _ _ _ Cm).
  - apply (com_err _ _ _ _ Cm).
Qed.

Lemma step_W241 m w ws c a pend n0 :
  WInvAt m w (W241 n0) ws c a pend ->
  StepOut ws c a pend (wdone (store_data m (repeat cempty n0)) (wp_set w 0 0 None) 0 0, ws).
Proof.
  intros (R & P & Cm & Ep & Hc & En). subst pend n0.
  cbn [app wproto] in P. destruct P as (a' & S & P').
  unfold StepOut, wdone. right. split; [reflexivity|]. exists WClear, a', 0, 0.
  split; [reflexivity|]. split; [exact S|]. split; [reflexivity|]. split; [reflexivity|].
  apply (finish_keep m w c a WClear a' _ _ ws (clear (ctab c)) (0, 0) R Cm S P' eq_refl);
    try (left; exact I); cbn [clear slots live tombs pinned gen wp_set wlive wtombs wpin wcur werr]; try reflexivity.
  - rewrite cur_store_data. unfold nslots. rewrite cmap_repeat. reflexivity.
  - unfold Priv. cbn [clear live tombs pinned wp_set wlive wtombs wpin]. repeat split; reflexivity.
  - cbn [store_data data]. rewrite (com_len _ _ _ _ Cm), <- (com_gen _ _ _ _ Cm). lia.
  - cbn [store_data arrs data]. rewrite app_length. cbn [length]. lia.
  - apply (com_err _ _ _ _ Cm).
Qed.

Lemma step_W251 m w ws c a pend nd lv :
  WInvAt m w (W251 nd lv) ws c a pend ->
  StepOut ws c a pend (wdone (store_data m nd) (wp_set w lv 0 None) 0 0, ws).
Proof.
  intros (R & P & Cm & op & t1 & t2 & Ep & NP & Hc & LW1 & HE1 & SS & End & Elv & Tb2 & Pin2 & G2).
  subst pend nd lv. cbn [app wproto] in P. destruct P as (a' & S & P').
  unfold StepOut, wdone. right. split; [reflexivity|]. exists op, a', 0, 0.
  split; [reflexivity|]. split; [exact S|]. split; [reflexivity|]. split; [rewrite SS; reflexivity|].
  apply (finish_keep m w c a op a' _ _ ws t2 (0, 0) R Cm S P' SS); try (left; exact NP);
    cbn [wp_set wlive wtombs wpin wcur werr]; try reflexivity.
  - apply cur_store_data.
  - unfold Priv. cbn [wp_set wlive wtombs wpin]. rewrite Tb2, Pin2. repeat split; reflexivity.
  - cbn [store_data data]. rewrite (com_len _ _ _ _ Cm), G2, <- (com_gen _ _ _ _ Cm). lia.
  - cbn [store_data arrs data]. rewrite app_length. cbn [length]. lia.
  - apply (com_err _ _ _ _ Cm).
Qed.

Lemma Com_change m w c a m' w' :
  data m' = data m -> length (arrs m') = length (arrs m) ->
  wcur w' = wcur w -> wfslot w' = wfslot w -> werr w' = werr w ->
  Com m w c a -> Com m' w' c a.
Proof.
  intros Ed El Ec Ef Ee [G L E Cu F]. constructor; rewrite ?Ed, ?El, ?Ec, ?Ef, ?Ee; assumption.
Qed.

Lemma Com_store_item m w c a d i x : Com m w c a -> Com (store_item m d i x) w c a.
Proof.
  apply Com_change; try reflexivity. unfold store_item. apply length_arrs_upd.
Qed.
Lemma Com_store_tag m w c a d i x : Com m w c a -> Com (store_tag m d i x) w c a.
Proof.
  apply Com_change; try reflexivity. unfold store_tag. apply length_arrs_upd.
Qed.

Lemma step_W211 m w ws c a pend dst it :
  WInvAt m w (W211 dst it) ws c a pend ->
  StepOut ws c a pend (wpark (store_item m (data m) dst (Some it)) w (W212 dst it) 212, ws).
Proof.
  intros (R & P & Cm & op & Ep & Hc & IM).
  unfold StepOut, wpark. left. split; [discriminate|]. exists pend. split; [|reflexivity].
  split; [exact R|]. split; [exact P|]. split; [apply Com_store_item; exact Cm|].
  cbn [PcInv]. exists op. split; [exact Ep|]. split; [|exact IM].
  rewrite (cur_store_item m dst (Some it) (data_lt _ _ _ _ Cm)), Hc. apply set_item_cmap_half.
Qed.

Lemma step_W221 m w ws c a pend s it wt :
  WInvAt m w (W221 s it wt) ws c a pend ->
  StepOut ws c a pend (wpark (store_item m (data m) s (Some it)) w (W222 s it wt) 222, ws).
Proof.
  intros (R & P & Cm & op & Ep & Hc & IM).
  unfold StepOut, wpark. left. split; [discriminate|]. exists pend. split; [|reflexivity].
  split; [exact R|]. split; [exact P|]. split; [apply Com_store_item; exact Cm|].
  cbn [PcInv]. exists op. split; [exact Ep|]. split; [|exact IM].
  rewrite (cur_store_item m s (Some it) (data_lt _ _ _ _ Cm)), Hc. apply set_item_cmap_half.
Qed.

Lemma step_W231 m w ws c a pend i :
  WInvAt m w (W231 i) ws c a pend ->
  StepOut ws c a pend (wpark (store_tag m (data m) i 1) w (W232 i) 232, ws).
Proof.
  intros (R & P & Cm & k & h & it0 & Ep & Hc & RM).
  unfold StepOut, wpark. left. split; [discriminate|]. exists pend. split; [|reflexivity].
  split; [exact R|]. split; [exact P|]. split; [apply Com_store_tag; exact Cm|].
  cbn [PcInv]. exists k, h, it0. split; [exact Ep|]. split; [|exact RM].
  rewrite (cur_store_tag m i 1 (data_lt _ _ _ _ Cm)), Hc. apply set_tag_cmap_rem.
  destruct RM as (_ & G & _). exact G.
Qed.

(* maybeGrow after an insert: the operation ends, or the rebuilt array waits at yield 251 *)
Lemma grow_out m w ws c a op a' t1 :
  Rel hashf c a -> wastep a op = Some a' -> wproto a' ws -> nonprobe op ->
  Com m w c a -> cur_arr m = cmap (slots t1) -> Priv w t1 -> WFcore hashf t1 -> gen t1 = gen (ctab c) ->
  (exists e, (e < length (slots t1))%nat /\ getc (slots t1) e = Empty) ->
  sstep c op = (mkc (maybe_grow t1) (ccur c) (cfnd c), (0, 0)) ->
  StepOut ws c a [op] (w_maybe_grow m w 0 0, ws).
Proof.
  intros R S P' NP Cm Hc (Plv & Ptb & Ppin) C1 G1 HE SS.
  pose proof (LWF_hash_ok _ _ (wc_l _ _ C1)) as HO1.
  unfold w_maybe_grow. rewrite Hc, length_cmap, Plv, Ptb.
  unfold maybe_grow in SS. fold (nslots t1).
  destruct (Z.ltb_spec ((live t1 + tombs t1) * htLoadDen) (Z.of_nat (nslots t1) * htLoadNum)) as [L|L].
  - unfold StepOut, wdone. right. split; [reflexivity|]. exists op, a', 0, 0.
    split; [reflexivity|]. split; [exact S|]. split; [reflexivity|]. split; [rewrite SS; reflexivity|].
    apply (finish_keep m w c a op a' m w ws t1 (0, 0) R Cm S P' SS); try (left; exact NP); try reflexivity.
    + exact Hc.
    + repeat split; assumption.
    + rewrite G1. apply (com_gen _ _ _ _ Cm).
    + apply (com_len _ _ _ _ Cm).
    + apply (com_err _ _ _ _ Cm).
  - set (newN := if (live t1 * htLoadDen >=? Z.of_nat (nslots t1) * htLoadNum) then (nslots t1 * 2)%nat else nslots t1) in *.
    pose proof (wc_n _ _ C1) as N. pose proof (wc_live _ _ C1) as Lv.
    pose proof (cnt_total (slots t1)) as T. unfold nslots in N, T.
    assert (H8 : (8 <= newN)%nat /\ (live t1 * htLoadDen < Z.of_nat newN * htLoadNum)).
    { subst newN. unfold nslots, htLoadDen, htLoadNum in *. rewrite Z.geb_leb.
      destruct (Z.leb_spec (Z.of_nat (length (slots t1)) * 3) (live t1 * 4)); lia. }
    destruct H8 as [H8 HL].
    destruct (rehash_spec hashf t1 newN C1 H8 HL) as (W2 & _ & G2 & _).
    destruct (crehash_cmap (slots t1) newN HO1) as [CR HO2].
    pose proof (wc_err _ _ (wf_core _ _ W2)) as E2.
    pose proof (wf_pin _ _ W2) as Pin2.
    unfold rehash in SS, E2, Pin2, G2.
    destruct (fold_left (reinsert newN) (slots t1) (repeat Empty newN, false)) as [nl e] eqn:F.
    cbn [fst snd] in CR, HO2. cbn [herr] in E2. rewrite (wc_err _ _ C1) in E2. cbn [orb] in E2. subst e.
    rewrite CR. unfold StepOut, wpark. left. split; [discriminate|]. exists [op]. split; [|reflexivity].
    split; [exact R|]. split; [cbn [app wproto]; exists a'; split; assumption|]. split; [exact Cm|].
    cbn [PcInv]. exists op, t1.
    exists {| slots := nl; live := count_live nl; tombs := 0; pinned := None; gen := gen t1 + 1; herr := herr t1 || false |}.
    split; [reflexivity|]. split; [exact NP|]. split; [exact Hc|]. split; [apply (wc_l _ _ C1)|].
    split; [exact HE|]. split; [exact SS|]. cbn [slots live tombs pinned gen].
    split; [reflexivity|]. split; [apply ccount_live_cmap; exact HO2|]. split; [reflexivity|].
    split; [reflexivity|]. rewrite G1. reflexivity.
Qed.

Lemma ins_tag_store m w ws c a op dst it tbf :
  Rel hashf c a -> wproto a ([op] ++ ws) -> Com m w c a ->
  cur_arr m = half_ins (slots (ctab c)) dst it -> InsMid w c op dst it tbf ->
  StepOut ws c a [op]
    (w_maybe_grow (store_tag m (data m) dst (ntag it)) (wp_set w (wlive w + 1) tbf (wpin w)) 0 0, ws).
Proof.
  intros R P Cm Hc ((Hd & NL & Cit & Rch & Fresh & (e & Ne & He & Ge)) & NP & Etb & Lv & SS).
  cbn [app wproto] in P. destruct P as (a' & S & P').
  destruct (Rel_parts c a R) as (C & _ & _).
  set (t := ctab c) in *. set (l := slots t) in *.
  destruct (insert_core hashf t dst it tbf (wpin w) C Cit Fresh Hd NL Rch Etb) as [C1 _].
  apply (grow_out _ _ ws c a op a' (with_slots t (setc l dst (Live it)) (live t + 1) tbf (wpin w)) R S P' NP).
  - apply (Com_change m w); try reflexivity; [|exact Cm]. unfold store_tag. apply length_arrs_upd.
  - rewrite (cur_store_tag m dst (ntag it) (data_lt _ _ _ _ Cm)), Hc. cbn [with_slots slots].
    apply set_tag_half_ins. exact Hd.
  - unfold Priv. cbn [wp_set wlive wtombs wpin with_slots live tombs pinned]. rewrite Lv. repeat split; reflexivity.
  - exact C1.
  - reflexivity.
  - cbn [with_slots slots]. exists e. rewrite length_setc. split; [exact He|].
    rewrite getc_setc_other; [exact Ge|]. intros Q. apply Ne. symmetry. exact Q.
  - exact SS.
Qed.

Lemma step_W212 m w ws c a pend dst it :
  WInvAt m w (W212 dst it) ws c a pend ->
  StepOut ws c a pend
    (w_maybe_grow (store_tag m (data m) dst (ntag it)) (wp_set w (wlive w + 1) (wtombs w) (wpin w)) 0 0, ws).
Proof.
  intros (R & P & Cm & op & Ep & Hc & IM). subst pend.
  apply (ins_tag_store m w ws c a op dst it (wtombs w) R P Cm Hc IM).
Qed.

Lemma step_W222 m w ws c a pend s it wt :
  WInvAt m w (W222 s it wt) ws c a pend ->
  StepOut ws c a pend
    (w_maybe_grow (store_tag m (data m) s (ntag it))
       (wp_set w (wlive w + 1) (if wt then wtombs w - 1 else wtombs w) (wpin w)) 0 0, ws).
Proof.
  intros (R & P & Cm & op & Ep & Hc & IM). subst pend.
  apply (ins_tag_store m w ws c a op s it _ R P Cm Hc IM).
Qed.

Lemma ctag_conc_is0 c : (forall x, c = Live x -> 0 <= ihash x) -> (ctag (conc c) =? 0) = is_empty c.
Proof.
  intros H. destruct c as [| |x]; try reflexivity. cbn [conc ctag is_empty]. unfold ntag.
  pose proof (norm_ge2 _ (H x eq_refl)). destruct (Z.eqb_spec (norm (ihash x)) 0); [lia|reflexivity].
Qed.
Lemma ctag_conc_is1 c : (forall x, c = Live x -> 0 <= ihash x) -> (ctag (conc c) =? 1) = is_tomb c.
Proof.
  intros H. destruct c as [| |x]; try reflexivity. cbn [conc ctag is_tomb]. unfold ntag.
  pose proof (norm_ge2 _ (H x eq_refl)). destruct (Z.eqb_spec (norm (ihash x)) 1); [lia|reflexivity].
Qed.

Lemma ntomb_le_length l : (ntomb l <= length l)%nat.
Proof. pose proof (cnt_total l). lia. Qed.

(* the loop head of reclaimTombs: one more store (park at 233) or the Remove is over *)
Lemma reclaim_head_out m w ws c a k h a' l' i F l2 tb2 :
  let t := ctab c in let n := length (slots t) in
  Rel hashf c a -> wastep a (WRemove k h) = Some a' -> wproto a' ws -> Com m w c a ->
  cur_arr m = cmap l' -> LWF hashf l' n -> (i < n)%nat ->
  getc l' (next_in n i) = Empty -> is_pin (pinned t) (next_in n i) = false ->
  (ntomb l' <= F)%nat -> reclaim_loop F l' n i (pinned t) (wtombs w) = (l2, tb2) ->
  wlive w = live t - 1 -> wpin w = pinned t ->
  sstep c (WRemove k h) = (mkc (with_slots t l2 (live t - 1) tb2 (pinned t)) (ccur c) (cfnd c), (1, 0)) ->
  StepOut ws c a [WRemove k h] (w_reclaim_head m w i, ws).
Proof.
  intros t n R S P' Cm Hc LW Hi Gnx Pnx NT RL Lv Pin SS.
  pose proof (LWF_hash_ok _ _ LW) as HO.
  unfold w_reclaim_head. rewrite Hc, getcc_cmap, Pin.
  rewrite (ctag_conc_is1 (getc l' i)) by (intros x E; apply (HO i x E)).
  destruct (negb (is_pin (pinned t) i) && is_tomb (getc l' i))%bool eqn:Cond.
  - apply andb_true_iff in Cond. destruct Cond as [Cp Ct]. apply negb_true_iff in Cp.
    assert (G : getc l' i = Tomb) by (destruct (getc l' i); try discriminate Ct; reflexivity).
    assert (TP : (0 < ntomb l')%nat).
    { pose proof (cnt_setc is_tomb l' i Empty ltac:(rewrite (lwf_len _ _ _ LW); exact Hi)) as CT.
      rewrite G in CT. cbn [is_tomb] in CT. unfold ntomb. lia. }
    destruct F as [|f]; [lia|].
    unfold StepOut, wpark. left. split; [discriminate|]. exists [WRemove k h]. split; [|reflexivity].
    split; [exact R|]. split; [cbn [app wproto]; exists a'; split; assumption|]. split; [exact Cm|].
    cbn [PcInv]. exists k, h, l', f, l2, tb2. fold t. fold n.
    split; [reflexivity|]. split; [exact Hc|]. split; [exact LW|]. split; [exact Hi|]. split; [exact G|].
    split; [exact Cp|]. split; [exact Gnx|]. split; [exact Pnx|]. split; [exact NT|]. split; [exact RL|].
    split; [exact Lv|]. split; [exact Pin|exact SS].
  - assert (E : (l2, tb2) = (l', wtombs w)).
    { rewrite <- RL. destruct F as [|f]; [reflexivity|]. cbn [reclaim_loop].
      destruct (is_pin (pinned t) i); [reflexivity|]. cbn [negb andb] in Cond.
      destruct (getc l' i); try reflexivity. discriminate Cond. }
    injection E as E1 E2. subst l2 tb2.
    unfold StepOut, wdone. right. split; [reflexivity|]. exists (WRemove k h), a', 1, 0.
    split; [reflexivity|]. split; [exact S|]. split; [reflexivity|]. split; [rewrite SS; reflexivity|].
    apply (finish_keep m w c a (WRemove k h) a' m w ws _ _ R Cm S P' SS);
      cbn [with_slots slots live tombs pinned gen]; try reflexivity.
    + right. split; [exists k, h; reflexivity|]. split; reflexivity.
    + exact Hc.
    + repeat split; assumption.
    + apply (com_gen _ _ _ _ Cm).
    + apply (com_len _ _ _ _ Cm).
    + apply (com_err _ _ _ _ Cm).
Qed.

Lemma step_W233 m w ws c a pend i :
  WInvAt m w (W233 i) ws c a pend ->
  StepOut ws c a pend
    (w_reclaim_head (store_tag m (data m) i 0) (wp_set w (wlive w) (wtombs w - 1) (wpin w))
       (prev_in (length (cur_arr m)) i), ws).
Proof.
  intros (R & P & Cm & k & h & l' & f & l2 & tb2 & Ep & Hc & LW & Hi & G & Pi & Gnx & Pnx & NT & RL & Lv & Pin & SS).
  subst pend. cbn [app wproto] in P. destruct P as (a' & S & P').
  set (t := ctab c) in *. set (n := length (slots t)) in *.
  pose proof (lwf_len _ _ _ LW) as Len.
  rewrite Hc, length_cmap, Len.
  apply (reclaim_head_out _ _ ws c a k h a' (setc l' i Empty) (prev_in n i) f l2 tb2 R S P').
  - apply (Com_change m w); try reflexivity; [|exact Cm]. unfold store_tag. apply length_arrs_upd.
  - rewrite (cur_store_tag m i 0 (data_lt _ _ _ _ Cm)), Hc. apply set_tag_cmap_reclaim. exact G.
  - apply LWF_set_empty; [exact LW|exact Gnx|rewrite G; reflexivity].
  - apply prev_in_lt. exact Hi.
  - fold t. fold n. rewrite next_prev by exact Hi. apply getc_setc_same. rewrite Len. exact Hi.
  - fold t. fold n. rewrite next_prev by exact Hi. exact Pi.
  - pose proof (cnt_setc is_tomb l' i Empty ltac:(rewrite Len; exact Hi)) as CT.
    rewrite G in CT. cbn [is_tomb] in CT. unfold ntomb in *. lia.
  - cbn [wp_set wtombs]. fold t. fold n. rewrite <- RL. cbn [reclaim_loop]. rewrite Pi, G. reflexivity.
  - cbn [wp_set wlive]. exact Lv.
  - cbn [wp_set wpin]. exact Pin.
  - exact SS.
Qed.

Lemma step_W232 m w ws c a pend i :
  WInvAt m w (W232 i) ws c a pend ->
  let m1 := store_item m (data m) i None in
  let w1 := wp_set w (wlive w - 1) (wtombs w + 1) (wpin w) in
  let nx := next_in (length (cur_arr m)) i in
  StepOut ws c a pend
    (if is_pin (wpin w) nx || negb (ctag (getcc (cur_arr m1) nx) =? 0)
     then wdone m1 w1 1 0 else w_reclaim_head m1 w1 i, ws).
Proof.
  intros (R & P & Cm & k & h & it0 & Ep & Hc & (Plv & Ptb & Ppin) & G & l2 & tb2 & RT & SS) m1 w1 nx.
  subst pend. cbn [app wproto] in P. destruct P as (a' & S & P').
  destruct (Rel_parts c a R) as (C & _ & _).
  set (t := ctab c) in *. set (l := slots t) in *. set (n := length l) in *.
  pose proof (getc_live_lt _ _ _ G) as Hi. fold n in Hi.
  assert (LW1 : LWF hashf (setc l i Tomb) n).
  { apply LWF_set_tomb. pose proof (wc_l _ _ C) as LW. exact LW. }
  pose proof (LWF_hash_ok _ _ LW1) as HO1.
  assert (Hc1 : cur_arr m1 = cmap (setc l i Tomb)).
  { unfold m1. rewrite (cur_store_item m i None (data_lt _ _ _ _ Cm)), Hc. apply set_item_half_rem. exact Hi. }
  assert (Cm1 : Com m1 w1 c a).
  { apply (Com_change m w); try reflexivity; [|exact Cm]. unfold m1, store_item. apply length_arrs_upd. }
  assert (Enx : nx = next_in n i).
  { unfold nx. rewrite Hc. unfold half_rem. rewrite length_setcc, length_cmap. reflexivity. }
  rewrite Hc1, getcc_cmap, Enx, Ppin.
  rewrite (ctag_conc_is0 (getc (setc l i Tomb) (next_in n i))) by (intros x E; apply (HO1 _ x E)).
  unfold reclaim_tombs in RT.
  destruct (is_pin (pinned t) (next_in n i)) eqn:Pnx; cbn [orb].
  - injection RT as E1 E2. subst l2 tb2.
    unfold StepOut, wdone. right. split; [reflexivity|]. exists (WRemove k h), a', 1, 0.
    split; [reflexivity|]. split; [exact S|]. split; [reflexivity|]. split; [rewrite SS; reflexivity|].
    apply (finish_keep m w c a (WRemove k h) a' m1 w1 ws _ _ R Cm S P' SS);
      cbn [with_slots slots live tombs pinned gen]; try reflexivity.
    + right. split; [exists k, h; reflexivity|]. split; reflexivity.
    + exact Hc1.
    + unfold Priv, w1. cbn [wp_set wlive wtombs wpin]. rewrite Plv, Ptb, Ppin. repeat split; reflexivity.
    + apply (com_gen _ _ _ _ Cm1).
    + apply (com_len _ _ _ _ Cm1).
    + apply (com_err _ _ _ _ Cm1).
  - destruct (getc (setc l i Tomb) (next_in n i)) as [| |x] eqn:Gnx; cbn [is_empty negb].
    + apply (reclaim_head_out m1 w1 ws c a k h a' (setc l i Tomb) i n l2 tb2 R S P' Cm1 Hc1 LW1 Hi Gnx Pnx).
      * rewrite <- (lwf_len _ _ _ LW1). apply ntomb_le_length.
      * unfold w1. cbn [wp_set wtombs]. rewrite Ptb. exact RT.
      * unfold w1. cbn [wp_set wlive]. rewrite Plv. reflexivity.
      * exact Ppin.
      * exact SS.
    + injection RT as E1 E2. subst l2 tb2.
      unfold StepOut, wdone. right. split; [reflexivity|]. exists (WRemove k h), a', 1, 0.
      split; [reflexivity|]. split; [exact S|]. split; [reflexivity|]. split; [rewrite SS; reflexivity|].
      apply (finish_keep m w c a (WRemove k h) a' m1 w1 ws _ _ R Cm S P' SS);
        cbn [with_slots slots live tombs pinned gen]; try reflexivity.
      * right. split; [exists k, h; reflexivity|]. split; reflexivity.
      * exact Hc1.
      * unfold Priv, w1. cbn [wp_set wlive wtombs wpin]. rewrite Plv, Ptb, Ppin. repeat split; reflexivity.
      * apply (com_gen _ _ _ _ Cm1).
      * apply (com_len _ _ _ _ Cm1).
      * apply (com_err _ _ _ _ Cm1).
    + injection RT as E1 E2. subst l2 tb2.
      unfold StepOut, wdone. right. split; [reflexivity|]. exists (WRemove k h), a', 1, 0.
      split; [reflexivity|]. split; [exact S|]. split; [reflexivity|]. split; [rewrite SS; reflexivity|].
      apply (finish_keep m w c a (WRemove k h) a' m1 w1 ws _ _ R Cm S P' SS);
        cbn [with_slots slots live tombs pinned gen]; try reflexivity.
      * right. split; [exists k, h; reflexivity|]. split; reflexivity.
      * exact Hc1.
      * unfold Priv, w1. cbn [wp_set wlive wtombs wpin]. rewrite Plv, Ptb, Ppin. repeat split; reflexivity.
      * apply (com_gen _ _ _ _ Cm1).
      * apply (com_len _ _ _ _ Cm1).
      * apply (com_err _ _ _ _ Cm1).
Qed.

(* --- the writer's lookup inside Remove --- *)

Lemma ahead_advance l i k :
  AheadAll l i k -> (forall x, getc l i = Live x -> ikey x <> k) -> AheadAll l (next_in (length l) i) k.
Proof.
  intros A N p x G K. destruct (A p x G K) as (e & E & W). destruct e as [|e].
  - cbn [iter_next] in E. subst p. exfalso. apply (N x G K).
  - cbn [iter_next] in E. cbn [walkne] in W. exists e. split; [exact E|apply W].
Qed.

Lemma ahead_home l n k :
  LWF hashf l n -> AheadAll l (home_in n (hashf k)) k.
Proof.
  intros LW p x G K. destruct (lwf_reach _ _ _ LW p x G) as (d & _ & E & W).
  pose proof (lwf_cons _ _ _ LW p x G) as Cx. unfold consistent in Cx. rewrite Cx, K in E, W.
  rewrite (lwf_len _ _ _ LW). exists d. split; assumption.
Qed.

Lemma ahead_empty_absent l i k :
  AheadAll l i k -> getc l i = Empty -> forall x, resident l x -> ikey x <> k.
Proof.
  intros A GE x [p G] K. destruct (A p x G K) as (e & E & W). destruct e as [|e].
  - cbn [iter_next] in E. subst p. rewrite GE in G. discriminate G.
  - cbn [walkne] in W. apply (proj1 W). exact GE.
Qed.

Lemma cstate_eta c : c = mkc (ctab c) (ccur c) (cfnd c).
Proof. destruct c. reflexivity. Qed.

Lemma remove_entry_out m w ws c a k h it a' :
  Rel hashf c a -> wastep a (WRemove k h) = Some a' -> wproto a' ws -> Com m w c a ->
  cur_arr m = cmap (slots (ctab c)) -> Priv w (ctab c) ->
  resident (slots (ctab c)) it -> ikey it = k ->
  StepOut ws c a [WRemove k h] (w_remove_entry m w it, ws).
Proof.
  intros R S P' Cm Hc Pv Res K.
  destruct (Rel_parts c a R) as (C & L & HO).
  set (t := ctab c) in *. set (l := slots t) in *.
  assert (Eh : h = hashf k).
  { cbn [wastep] in S. destruct (Z.eqb_spec h (hashf k)) as [E|E]; [exact E|discriminate S]. }
  assert (Lk : lookup t h k = Some it).
  { rewrite Eh, (lookup_core hashf t k C L). unfold amap. rewrite <- K.
    apply amapl_present; [apply (lwf_uniq _ _ _ (wc_l _ _ C))|exact Res]. }
  assert (SS0 : sstep c (WRemove k h) =
                let '(t', ok) := remove_exact t it in (mkc t' (ccur c) (cfnd c), (b2z ok, 0))).
  { cbn [sstep]. fold t. rewrite Lk. reflexivity. }
  unfold w_remove_entry. rewrite Hc, length_cmap. fold l.
  rewrite (cfind_exact_cmap l (length l) it HO).
  unfold remove_exact in SS0. fold l in SS0. unfold nslots in SS0. fold l in SS0.
  destruct (find_exact (length l) l (length l) (home_in (length l) (ihash it)) it) as [[i|]|] eqn:F.
  - apply find_exact_hit in F. destruct F as (d & cur & _ & _ & G & _).
    destruct (reclaim_tombs (setc l i Tomb) (length l) i (pinned t) (tombs t + 1)) as [l2 tb2] eqn:RT.
    unfold StepOut, wpark. left. split; [discriminate|]. exists [WRemove k h]. split; [|reflexivity].
    split; [exact R|]. split; [cbn [app wproto]; exists a'; split; assumption|]. split; [exact Cm|].
    cbn [PcInv]. exists k, h, cur. split; [reflexivity|]. split; [exact Hc|].
    split; [exact Pv|]. split; [exact G|]. exists l2, tb2. fold t. fold l. split; [exact RT|exact SS0].
  - rewrite (cstate_eta c) in SS0 at 2. cbn [b2z] in SS0.
    unfold StepOut, wdone. right. split; [reflexivity|]. exists (WRemove k h), a', 0, 0.
    split; [reflexivity|]. split; [exact S|]. split; [reflexivity|]. split; [rewrite SS0; reflexivity|].
    apply (finish_keep m w c a (WRemove k h) a' m w ws _ _ R Cm S P' SS0); try reflexivity.
    + right. split; [exists k, h; reflexivity|]. split; reflexivity.
    + exact Hc.
    + exact Pv.
    + apply (com_gen _ _ _ _ Cm).
    + apply (com_len _ _ _ _ Cm).
    + apply (com_err _ _ _ _ Cm).
  - exfalso. apply find_exact_fuel in F.
    destruct (core_empty_exists hashf t C L) as (e & He & GE).
    pose proof (wc_n _ _ C) as N. unfold nslots in *. fold l in He, GE, N.
    assert (Hn : (0 < length l)%nat) by lia.
    apply (walkne_full_absurd l (length l) _ e (home_in_lt _ (ihash it) Hn) He GE F).
Qed.

Definition lk_ok (m : mem) (l : list cell) (k : Z) (r : lk_res) : Prop :=
  match r with
  | LkPark202 d i | LkPark203 d i => d = data m /\ (i < length l)%nat /\ AheadAll l i k
  | LkMiss => forall x, resident l x -> ikey x <> k
  | LkHit it => resident l it /\ ikey it = k
  end.

Lemma of_lookup_out m w ws c a k h a' r :
  Rel hashf c a -> wastep a (WRemove k h) = Some a' -> wproto a' ws -> Com m w c a ->
  cur_arr m = cmap (slots (ctab c)) -> Priv w (ctab c) -> lk_ok m (slots (ctab c)) k r ->
  StepOut ws c a [WRemove k h] (w_of_lookup m w k h r, ws).
Proof.
  intros R S P' Cm Hc Pv OK.
  assert (PW : wproto a ([WRemove k h] ++ ws)) by (cbn [app wproto]; exists a'; split; assumption).
  destruct r as [d i|d i| |it]; cbn [lk_ok w_of_lookup] in *.
  - destruct OK as (Ed & Hi & A). unfold StepOut, wpark. left. split; [discriminate|].
    exists [WRemove k h]. split; [|reflexivity]. split; [exact R|]. split; [exact PW|]. split; [exact Cm|].
    destruct Pv as (Pv1 & Pv2 & Pv3). cbn [PcInv]. split; [reflexivity|]. split; [exact Hc|]. split; [split; [exact Pv1|split; [exact Pv2|exact Pv3]]|]. split; [exact Ed|]. split; [exact Hi|exact A].
  - destruct OK as (Ed & Hi & A). unfold StepOut, wpark. left. split; [discriminate|].
    exists [WRemove k h]. split; [|reflexivity]. split; [exact R|]. split; [exact PW|]. split; [exact Cm|].
    destruct Pv as (Pv1 & Pv2 & Pv3). cbn [PcInv]. split; [reflexivity|]. split; [exact Hc|]. split; [split; [exact Pv1|split; [exact Pv2|exact Pv3]]|]. split; [exact Ed|]. split; [exact Hi|exact A].
  - destruct (Rel_parts c a R) as (C & L & HO).
    assert (Eh : h = hashf k).
    { cbn [wastep] in S. destruct (Z.eqb_spec h (hashf k)) as [E|E]; [exact E|discriminate S]. }
    assert (SS : sstep c (WRemove k h) = (mkc (ctab c) (ccur c) (cfnd c), (0, 0))).
    { cbn [sstep]. rewrite Eh, (lookup_core hashf (ctab c) k C L). unfold amap.
      rewrite (amapl_absent _ _ OK). rewrite <- cstate_eta. reflexivity. }
    unfold StepOut, wdone. right. split; [reflexivity|]. exists (WRemove k h), a', 0, 0.
    split; [reflexivity|]. split; [exact S|]. split; [reflexivity|]. split; [rewrite SS; reflexivity|].
    apply (finish_keep m w c a (WRemove k h) a' m w ws _ _ R Cm S P' SS); try reflexivity.
    + right. split; [exists k, h; reflexivity|]. split; reflexivity.
    + exact Hc.
    + exact Pv.
    + apply (com_gen _ _ _ _ Cm).
    + apply (com_len _ _ _ _ Cm).
    + apply (com_err _ _ _ _ Cm).
  - destruct OK as [Res K]. apply (remove_entry_out m w ws c a k h it a'); assumption.
Qed.

(* the three lookup segments on a quiescent current array keep the "key is ahead" invariant *)
Lemma lk201_ok m l k n :
  cur_arr m = cmap l -> LWF hashf l n -> (0 < n)%nat -> lk_ok m l k (lk_from201 m (hashf k)).
Proof.
  intros Hc LW Hn. unfold lk_from201, lk_ok. fold (cur_arr m). rewrite Hc, length_cmap.
  pose proof (lwf_len _ _ _ LW) as Len. rewrite Len.
  split; [reflexivity|]. split; [apply home_in_lt; exact Hn|]. apply ahead_home. exact LW.
Qed.

Lemma lk202_ok m l k n i :
  cur_arr m = cmap l -> LWF hashf l n -> (i < n)%nat -> AheadAll l i k ->
  lk_ok m l k (lk_from202 m (data m) i (hashf k)).
Proof.
  intros Hc LW Hi A. pose proof (lwf_len _ _ _ LW) as Len. pose proof (LWF_hash_ok _ _ LW) as HO.
  unfold lk_from202. fold (cur_arr m). rewrite Hc, length_cmap, getcc_cmap.
  rewrite (ctag_conc_is0 (getc l i)) by (intros x E; apply (HO i x E)).
  destruct (getc l i) as [| |x] eqn:G; cbn [is_empty conc ctag].
  - cbn [lk_ok]. apply (ahead_empty_absent l i k A G).
  - change (1 =? norm (hashf k)) with (Z.eqb 1 (norm (hashf k))).
    pose proof (norm_ge2 _ (hashf_nonneg k)). destruct (Z.eqb_spec 1 (norm (hashf k))); [lia|].
    cbn [lk_ok]. split; [reflexivity|]. rewrite Len. split; [apply next_in_lt; exact Hi|].
    rewrite <- Len. apply ahead_advance; [exact A|]. intros y E. rewrite G in E. discriminate E.
  - destruct (Z.eqb_spec (ntag x) (norm (hashf k))) as [E|E]; cbn [lk_ok].
    + split; [reflexivity|]. rewrite Len. split; [exact Hi|exact A].
    + split; [reflexivity|]. rewrite Len. split; [apply next_in_lt; exact Hi|].
      rewrite <- Len. apply ahead_advance; [exact A|]. intros y Ey Ky. rewrite G in Ey. injection Ey as Ey. subst y.
      apply E. unfold ntag. pose proof (lwf_cons _ _ _ LW i x G) as Cx. unfold consistent in Cx.
      rewrite Cx, Ky. reflexivity.
Qed.

Lemma lk203_ok m l k n i :
  cur_arr m = cmap l -> LWF hashf l n -> (i < n)%nat -> AheadAll l i k ->
  lk_ok m l k (lk_from203 m (data m) i k).
Proof.
  intros Hc LW Hi A. pose proof (lwf_len _ _ _ LW) as Len.
  unfold lk_from203. fold (cur_arr m). rewrite Hc, length_cmap, getcc_cmap.
  assert (Adv : (forall x, getc l i = Live x -> ikey x <> k) ->
                lk_ok m l k (LkPark202 (data m) (next_in (length l) i))).
  { intros N. cbn [lk_ok]. split; [reflexivity|]. rewrite Len. split; [apply next_in_lt; exact Hi|].
    rewrite <- Len. apply ahead_advance; assumption. }
  destruct (getc l i) as [| |x] eqn:G; cbn [conc citem cempty].
  - apply Adv. intros y E. discriminate E.
  - apply Adv. intros y E. discriminate E.
  - destruct (Z.eqb_spec (ikey x) k) as [E|E].
    + cbn [lk_ok]. split; [exists i; exact G|exact E].
    + apply Adv. intros y Ey. injection Ey as Ey. subst y. exact E.
Qed.

Lemma wastep_remove_hash a k h a' : wastep a (WRemove k h) = Some a' -> h = hashf k.
Proof. cbn [wastep]. destruct (Z.eqb_spec h (hashf k)) as [E|E]; [intros _; exact E|discriminate]. Qed.

Lemma step_W201 m w ws c a pend k h :
  WInvAt m w (W201 k h) ws c a pend ->
  StepOut ws c a pend (w_of_lookup m w k h (lk_from201 m h), ws).
Proof.
  intros (R & P & Cm & Ep & Hc & Pv). subst pend. cbn [app wproto] in P. destruct P as (a' & S & P').
  destruct (Rel_parts c a R) as (C & _ & _). pose proof (wastep_remove_hash a k h a' S) as Eh. subst h.
  apply (of_lookup_out m w ws c a k (hashf k) a' _ R S P' Cm Hc Pv).
  pose proof (wc_n _ _ C) as N.
  apply (lk201_ok m _ k _ Hc (wc_l _ _ C)). lia.
Qed.

Lemma step_W202 m w ws c a pend d i k h :
  WInvAt m w (W202 d i k h) ws c a pend ->
  StepOut ws c a pend (w_of_lookup m w k h (lk_from202 m d i h), ws).
Proof.
  intros (R & P & Cm & Ep & Hc & Pv & Ed & Hi & A). subst pend d.
  cbn [app wproto] in P. destruct P as (a' & S & P').
  destruct (Rel_parts c a R) as (C & _ & _). pose proof (wastep_remove_hash a k h a' S) as Eh. subst h.
  apply (of_lookup_out m w ws c a k (hashf k) a' _ R S P' Cm Hc Pv).
  apply (lk202_ok m _ k _ i Hc (wc_l _ _ C) Hi A).
Qed.

Lemma step_W203 m w ws c a pend d i k h :
  WInvAt m w (W203 d i k h) ws c a pend ->
  StepOut ws c a pend (w_of_lookup m w k h (lk_from203 m d i k), ws).
Proof.
  intros (R & P & Cm & Ep & Hc & Pv & Ed & Hi & A). subst pend d.
  cbn [app wproto] in P. destruct P as (a' & S & P').
  destruct (Rel_parts c a R) as (C & _ & _).
  apply (of_lookup_out m w ws c a k h a' _ R S P' Cm Hc Pv).
  apply (lk203_ok m _ k _ i Hc (wc_l _ _ C) Hi A).
Qed.

(* --- operation entries (from the boundary to the first yield) --- *)

Lemma other_empty t dst :
  WFcore hashf t -> load_ok t ->
  exists e, e <> dst /\ (e < length (slots t))%nat /\ getc (slots t) e = Empty.
Proof.
  intros C L. destruct C as [N _ _ Lv Tb]. unfold load_ok, nslots, htLoadDen, htLoadNum in *.
  set (l := slots t) in *.
  destruct (le_lt_dec (length l) dst) as [Hd|Hd].
  - destruct (empty_exists l) as (e & He & Ge); [lia|]. exists e. split; [lia|]. split; assumption.
  - pose proof (cnt_setc is_live l dst Tomb Hd) as CL. pose proof (cnt_setc is_tomb l dst Tomb Hd) as CT.
    cbn [is_live is_tomb] in CL, CT.
    destruct (empty_exists (setc l dst Tomb)) as (e & He & Ge).
    { rewrite length_setc. unfold nlive, ntomb in *.
      destruct (is_live (getc l dst)); destruct (is_tomb (getc l dst)); lia. }
    rewrite length_setc in He. exists e.
    assert (Ne : e <> dst).
    { intros Q. subst e. rewrite getc_setc_same in Ge by exact Hd. discriminate Ge. }
    split; [exact Ne|]. split; [exact He|]. rewrite getc_setc_other in Ge; [exact Ge|].
    intros Q. apply Ne. symmetry. exact Q.
Qed.

Lemma cwalk_top_cmap l h k : hash_ok l -> cwalk_top (cmap l) h k = walk_for (length l) l (length l) (home_in (length l) h) None h k.
Proof. intros H. unfold cwalk_top. rewrite length_cmap. apply cwalk_cmap. exact H. Qed.

Lemma store_entry_out m w ws c a op it a' (report : bool) :
  let t := ctab c in
  let t0 := with_slots t (slots t) (live t) (tombs t) (wpin w) in
  Rel hashf c a -> wastep a op = Some a' -> wproto a' ws -> nonprobe op -> Com m w c a ->
  cur_arr m = cmap (slots t) -> wlive w = live t -> wtombs w = tombs t -> consistent hashf it ->
  sstep c op = (mkc (fst (store t0 it)) (ccur c) (cfnd c),
                if report then match snd (store t0 it) with Some p => (1, ival p) | None => (0, 0) end
                else (0, 0)) ->
  StepOut (op :: ws) c a [] (w_store_entry m w it report, ws).
Proof.
  intros t t0 R S P' NP Cm Hc Lv Tb Cit SS.
  destruct (Rel_parts c a R) as (C & L & HO).
  assert (PW : wproto a ([op] ++ ws)) by (cbn [app wproto]; exists a'; split; assumption).
  set (l := slots t) in *.
  unfold w_store_entry. rewrite Hc, (cwalk_top_cmap l _ _ HO).
  unfold store in SS. unfold walk, nslots in SS. unfold t0 in SS. cbn [with_slots slots live tombs pinned] in SS. fold l in SS.
  assert (Ew : walk t (hashf (ikey it)) (ikey it) =
               walk_for (length l) l (length l) (home_in (length l) (ihash it)) None (ihash it) (ikey it)).
  { unfold consistent in Cit. rewrite <- Cit. reflexivity. }
  destruct (walk_for (length l) l (length l) (home_in (length l) (ihash it)) None (ihash it) (ikey it))
    as [dst tomb|s cur|] eqn:W.
  - destruct (walk_empty_facts hashf t (ikey it) dst tomb C Ew) as (Abs & Hd & Rch & Gd).
    unfold nslots in Hd, Rch. fold l in Abs, Hd, Rch, Gd.
    assert (Rch' : reach_at l (length l) (ihash it) dst).
    { unfold consistent in Cit. rewrite Cit. exact Rch. }
    cbn [fst snd] in SS.
    unfold StepOut, wpark. left. split; [discriminate|]. exists [op]. split; [|reflexivity].
    split; [exact R|]. split; [exact PW|].
    split; [apply (Com_change m w); try reflexivity; [destruct tomb; reflexivity..|exact Cm]|].
    cbn [PcInv]. exists op. split; [reflexivity|]. split; [exact Hc|].
    unfold InsMid. fold t. fold l.
    split; [|split; [exact NP|]].
    { split; [exact Hd|]. split; [rewrite Gd; destruct tomb; reflexivity|]. split; [exact Cit|].
      split; [exact Rch'|]. split; [exact Abs|]. apply (other_empty t dst C L). }
    destruct tomb; cbn [wp_set wlive wtombs wpin]; rewrite Gd; cbn [is_tomb].
    + split; [lia|]. split; [exact Lv|]. rewrite Tb. destruct report; exact SS.
    + split; [lia|]. split; [exact Lv|]. rewrite Tb. destruct report; exact SS.
  - destruct (walk_found_facts t (hashf (ikey it)) (ikey it) s cur Ew) as (G & _ & K).
    cbn [fst snd] in SS.
    assert (RM : forall r1 r2, sstep c op = (mkc (with_slots t (setc l s (Live it)) (live t) (tombs t) (wpin w))
                                                 (ccur c) (cfnd c), (r1, r2)) ->
                 WInvAt m w (W213 s it r1 r2) ws c a [op]).
    { intros r1 r2 SS'. split; [exact R|]. split; [exact PW|]. split; [exact Cm|].
      cbn [PcInv]. exists op. split; [reflexivity|]. split; [exact Hc|].
      exists cur. fold t. fold l. split; [exact G|]. split; [symmetry; exact K|]. split; [exact Cit|].
      split; [exact NP|]. split; [exact Lv|]. split; [exact Tb|exact SS']. }
    destruct report; unfold StepOut, wpark; left; (split; [discriminate|]); exists [op];
      (split; [|reflexivity]); apply RM; exact SS.
  - exfalso. apply (walk_fuel_absurd hashf t (hashf (ikey it)) (ikey it) C L Ew).
Qed.

Lemma wastep_store_inv a it a' : wastep a (WStore it) = Some a' -> aph a = Idle /\ consistent hashf it.
Proof.
  cbn [wastep]. unfold astep. destruct (aph a); try discriminate.
  destruct (ins_ok hashf a it) eqn:I; [|discriminate]. intros _. split; [reflexivity|].
  apply (ins_ok_spec hashf a it I).
Qed.

Lemma wastep_publish_inv a it a' :
  wastep a (WPublish it) = Some a' ->
  consistent hashf it /\
  ((aph a = Idle /\ astale a = true) \/ (exists kc, aph a = Pending kc /\ ikey it = kc)).
Proof.
  cbn [wastep]. unfold astep. destruct (aph a) as [|kc|k]; try discriminate.
  - destruct (astale a && ins_ok hashf a it)%bool eqn:H; [|discriminate]. intros _.
    apply andb_true_iff in H. destruct H as [H1 H2].
    split; [apply (ins_ok_spec hashf a it H2)|]. left. split; [reflexivity|exact H1].
  - destruct (ins_ok hashf a it && (ikey it =? kc))%bool eqn:H; [|discriminate]. intros _.
    apply andb_true_iff in H. destruct H as [H1 H2]. apply Z.eqb_eq in H2.
    split; [apply (ins_ok_spec hashf a it H1)|]. right. exists kc. split; [reflexivity|exact H2].
Qed.

Lemma wastep_swap_inv a it a' :
  wastep a (WSwap it) = Some a' -> exists k, aph a = Found k /\ consistent hashf it /\ ikey it = k.
Proof.
  cbn [wastep]. unfold astep. destruct (aph a) as [|kc|k]; try discriminate.
  destruct (ins_ok hashf a it && (ikey it =? k))%bool eqn:H; [|discriminate]. intros _.
  apply andb_true_iff in H. destruct H as [H1 H2]. apply Z.eqb_eq in H2.
  exists k. split; [reflexivity|]. split; [apply (ins_ok_spec hashf a it H1)|exact H2].
Qed.

Lemma wastep_probe_inv a k h a' : wastep a (WProbe k h) = Some a' -> h = hashf k /\ aph a = Idle.
Proof.
  cbn [wastep]. destruct (Z.eqb_spec h (hashf k)) as [E|E]; [|discriminate].
  unfold astep. destruct (aph a); try discriminate. intros _. split; [exact E|reflexivity].
Qed.

Lemma with_slots_id t : with_slots t (slots t) (live t) (tombs t) (pinned t) = t.
Proof. destruct t. reflexivity. Qed.

Lemma entry_store m w ws c a it :
  WInvAt m w WB (WStore it :: ws) c a [] ->
  StepOut (WStore it :: ws) c a [] (w_store_entry m w it true, ws).
Proof.
  intros (R & P & Cm & _ & Hc & (Plv & Ptb & Ppin)). cbn [app wproto] in P. destruct P as (a' & S & P').
  destruct (wastep_store_inv a it a' S) as [_ Cit].
  apply (store_entry_out m w ws c a (WStore it) it a' true R S P' I Cm Hc Plv Ptb Cit).
  rewrite Ppin, with_slots_id. cbn [sstep]. destruct (store (ctab c) it) as [t' prev]. reflexivity.
Qed.

Lemma entry_remove m w ws c a k h :
  WInvAt m w WB (WRemove k h :: ws) c a [] ->
  StepOut (WRemove k h :: ws) c a [] (wpark m w (W201 k h) 201, ws).
Proof.
  intros (R & P & Cm & _ & Hc & Pv).
  unfold StepOut, wpark. left. split; [discriminate|]. exists [WRemove k h]. split; [|reflexivity].
  split; [exact R|]. split; [exact P|]. split; [exact Cm|]. cbn [PcInv]. split; [reflexivity|]. split; assumption.
Qed.

Lemma entry_unpin m w ws c a :
  WInvAt m w WB (WUnpin :: ws) c a [] ->
  StepOut (WUnpin :: ws) c a [] (wdone m (wp_set w (wlive w) (wtombs w) None) 0 0, ws).
Proof.
  intros (R & P & Cm & _ & Hc & (Plv & Ptb & Ppin)). cbn [app wproto] in P. destruct P as (a' & S & P').
  unfold StepOut, wdone. right. split; [reflexivity|]. exists WUnpin, a', 0, 0.
  split; [reflexivity|]. split; [exact S|]. split; [reflexivity|]. split; [reflexivity|].
  apply (finish_keep m w c a WUnpin a' m _ ws (unpin (ctab c)) (0, 0) R Cm S P' eq_refl);
    try (left; exact I); try reflexivity.
  - exact Hc.
  - unfold Priv, unpin. cbn [wp_set wlive wtombs wpin with_slots live tombs pinned]. repeat split; assumption.
  - apply (com_gen _ _ _ _ Cm).
  - apply (com_len _ _ _ _ Cm).
  - apply (com_err _ _ _ _ Cm).
Qed.

Lemma entry_clear m w ws c a :
  WInvAt m w WB (WClear :: ws) c a [] ->
  StepOut (WClear :: ws) c a [] (wpark m w (W241 (length (cur_arr m))) 241, ws).
Proof.
  intros (R & P & Cm & _ & Hc & Pv).
  unfold StepOut, wpark. left. split; [discriminate|]. exists [WClear]. split; [|reflexivity].
  split; [exact R|]. split; [exact P|]. split; [exact Cm|]. cbn [PcInv]. split; [reflexivity|].
  split; [exact Hc|]. rewrite Hc. apply length_cmap.
Qed.

Lemma entry_swap m w ws c a it :
  WInvAt m w WB (WSwap it :: ws) c a [] ->
  StepOut (WSwap it :: ws) c a []
    (match wfslot w with
     | Some (fa, fs) => wpark m w (W214 fa fs it) 214
     | None => wdone m w 0 0
     end, ws).
Proof.
  intros (R & P & Cm & _ & Hc & (Plv & Ptb & Ppin)). pose proof P as P0.
  cbn [app wproto] in P. destruct P as (a' & S & P').
  destruct (wastep_swap_inv a it a' S) as (k & Ph & Cit & K).
  pose proof (r_phase _ _ _ R) as PI. rewrite Ph in PI. cbn [phase_inv] in PI.
  destruct PI as (W & s & old & Ef & G & Ko).
  rewrite (com_fnd _ _ _ _ Cm k s old Ph Ef).
  unfold StepOut, wpark. left. split; [discriminate|]. exists [WSwap it]. split; [|reflexivity].
  split; [exact R|]. split; [exact P0|]. split; [exact Cm|]. cbn [PcInv]. split; [reflexivity|].
  split; [exact Hc|]. split; [reflexivity|]. split; [exact Ppin|].
  exists old. split; [exact G|]. split; [rewrite Ko; exact K|]. split; [exact Cit|]. split; [exact I|].
  split; [exact Plv|]. split; [exact Ptb|]. cbn [sstep]. rewrite Ef, Ppin. reflexivity.
Qed.

Lemma entry_probe m w ws c a k h :
  WInvAt m w WB (WProbe k h :: ws) c a [] ->
  StepOut (WProbe k h :: ws) c a []
    (match cwalk_top (cur_arr m) h k with
     | PEmpty j tomb =>
         wdone m (wp_probe w (Some j) {| wcd := Some (data m); wcslot := j; wctomb := tomb |} None) 0 0
     | PFound s it => wdone m (wp_probe w (wpin w) nocursor (Some (data m, s))) 1 (ival it)
     | PFuel => wdone m (wp_probe (wp_err w) (wpin w) nocursor None) 0 0
     end, ws).
Proof.
  intros (R & P & Cm & _ & Hc & (Plv & Ptb & Ppin)). cbn [app wproto] in P. destruct P as (a' & S & P').
  destruct (wastep_probe_inv a k h a' S) as [Eh Ph].
  destruct (Rel_parts c a R) as (C & L & HO).
  set (t := ctab c) in *. set (l := slots t) in *.
  rewrite Hc, (cwalk_top_cmap l _ _ HO).
  assert (SS : sstep c (WProbe k h) =
               let '(t', found, cur) := probe t h k in
               (mkc t' cur found, match found with Some (_, it) => (1, ival it) | None => (0, 0) end))
    by reflexivity.
  unfold probe, walk, nslots in SS. fold l in SS.
  assert (Ew : walk t h k = walk_for (length l) l (length l) (home_in (length l) h) None h k) by reflexivity.
  destruct (walk_for (length l) l (length l) (home_in (length l) h) None h k) as [j tomb|s x|] eqn:W.
  - unfold StepOut, wdone. right. split; [reflexivity|]. exists (WProbe k h), a', 0, 0.
    split; [reflexivity|]. split; [exact S|]. split; [reflexivity|]. split; [rewrite SS; reflexivity|].
    apply (finish_op c a (WProbe k h) a'); try assumption; rewrite ?SS; cbn [fst mkc ctab ccur cfnd].
    + exact Hc.
    + unfold Priv. cbn [wp_probe wlive wtombs wpin with_slots live tombs pinned]. repeat split; assumption.
    + apply (com_gen _ _ _ _ Cm).
    + apply (com_len _ _ _ _ Cm).
    + apply (com_err _ _ _ _ Cm).
    + unfold cur_rel. cbn [wp_probe wcur wcd wcslot wctomb cgen cslot ctomb].
      split; [symmetry; apply (com_gen _ _ _ _ Cm)|]. split; reflexivity.
    + intros k0 s0 it0 _ F. discriminate F.
  - unfold StepOut, wdone. right. split; [reflexivity|]. exists (WProbe k h), a', 1, (ival x).
    split; [reflexivity|]. split; [exact S|]. split; [reflexivity|]. split; [rewrite SS; reflexivity|].
    apply (finish_op c a (WProbe k h) a'); try assumption; rewrite ?SS; cbn [fst mkc ctab ccur cfnd].
    + exact Hc.
    + unfold Priv. cbn [wp_probe wlive wtombs wpin]. repeat split; assumption.
    + apply (com_gen _ _ _ _ Cm).
    + apply (com_len _ _ _ _ Cm).
    + apply (com_err _ _ _ _ Cm).
    + unfold cur_rel. cbn [wp_probe wcur nocursor wcd wcslot wctomb cgen cslot ctomb]. repeat split; reflexivity.
    + intros k0 s0 it0 _ F. injection F as F1 F2. subst s0. reflexivity.
  - exfalso. apply (walk_fuel_absurd hashf t h k C L Ew).
Qed.

Lemma entry_publish m w ws c a it :
  WInvAt m w WB (WPublish it :: ws) c a [] ->
  let w0 := wp_set w (wlive w) (wtombs w) None in
  StepOut (WPublish it :: ws) c a []
    (match wcd (wcur w) with
     | Some cd =>
         if Nat.eqb cd (data m) then
           let s := wcslot (wcur w) in
           wpark m w0 (W221 s it (wctomb (wcur w) && (ctag (getcc (cur_arr m) s) =? 1))) 221
         else w_store_entry m w0 it false
     | None => w_store_entry m w0 it false
     end, ws).
Proof.
  intros (R & P & Cm & _ & Hc & (Plv & Ptb & Ppin)) w0. pose proof P as P0.
  cbn [app wproto] in P. destruct P as (a' & S & P').
  destruct (wastep_publish_inv a it a' S) as (Cit & Phase).
  destruct (Rel_parts c a R) as (C & L & HO).
  set (t := ctab c) in *. set (l := slots t) in *.
  assert (Cm0 : Com m w0 c a) by (apply (Com_change m w); try reflexivity; exact Cm).
  destruct (com_cur _ _ _ _ Cm) as (Cg & Cs & Ct).
  assert (SS : sstep c (WPublish it) = (mkc (publish t it (ccur c)) (ccur c) (cfnd c), (0, 0))) by reflexivity.
  (* the defensive path *)
  assert (Fallback : cgen (ccur c) <> gen t ->
            StepOut (WPublish it :: ws) c a [] (w_store_entry m w0 it false, ws)).
  { intros NE.
    apply (store_entry_out m w0 ws c a (WPublish it) it a' false R S P' I Cm0 Hc Plv Ptb Cit).
    rewrite SS. unfold publish. fold t. fold l.
    destruct (Z.eqb_spec (cgen (ccur c)) (gen t)) as [E|E]; [contradiction|]. reflexivity. }
  destruct (wcd (wcur w)) as [cd|] eqn:Wcd.
  - destruct (Nat.eqb_spec cd (data m)) as [E|E].
    + subst cd. assert (Eg : cgen (ccur c) = gen t) by (rewrite Cg; apply (com_gen _ _ _ _ Cm)).
      destruct Phase as [[Ph St]|(kc & Ph & K)].
      { exfalso. pose proof (r_stale _ _ _ R St) as Lt. fold t in Lt. lia. }
      pose proof (r_phase _ _ _ R) as PI. rewrite Ph in PI. cbn [phase_inv] in PI. fold t in PI.
      destruct PI as (Wp & _ & Tomb).
      destruct Wp as [_ _ _ Abs Hq Cell Path]. fold l in Abs, Cell, Path, Tomb. unfold nslots in Hq, Path. fold l in Hq, Path.
      cbv zeta. rewrite Hc, getcc_cmap, Cs, Ct.
      rewrite (ctag_conc_is1 (getc l (cslot (ccur c)))) by (intros x Ex; apply (HO _ x Ex)).
      set (s := cslot (ccur c)) in *.
      unfold StepOut, wpark. left. split; [discriminate|]. exists [WPublish it]. split; [|reflexivity].
      split; [exact R|]. split; [exact P0|]. split; [exact Cm0|].
      cbn [PcInv]. exists (WPublish it). split; [reflexivity|]. split; [exact Hc|].
      unfold InsMid. fold t. fold l. split; [|split; [exact I|]].
      { split; [exact Hq|]. split; [exact Cell|]. split; [exact Cit|]. split.
        - unfold consistent in Cit. rewrite Cit, K. exact Path.
        - split; [intros x Rx; rewrite K; apply (Abs x Rx)|apply (other_empty t s C L)]. }
      cbn [w0 wp_set wlive wtombs wpin].
      assert (Ewt : (ctomb (ccur c) && is_tomb (getc l s))%bool = is_tomb (getc l s)).
      { destruct (getc l s) eqn:G; cbn [is_tomb]; try apply andb_false_r.
        rewrite (Tomb eq_refl). reflexivity. }
      split; [rewrite Ewt, Ptb; destruct (is_tomb (getc l s)); lia|]. split; [exact Plv|].
      rewrite SS. unfold publish. fold t. fold l. fold s.
      destruct (Z.eqb_spec (cgen (ccur c)) (gen t)) as [E'|E']; [|contradiction]. cbn [negb].
      rewrite Ptb.
      replace (match getc l s with Tomb => true | _ => false end) with (is_tomb (getc l s)) by reflexivity.
      reflexivity.
    + apply Fallback. pose proof (com_gen _ _ _ _ Cm) as Gg. fold t in Gg. rewrite Cg, <- Gg. intros Q. apply E. apply Nat2Z.inj. exact Q.
  - apply Fallback. rewrite Cg. pose proof (r_gen0 _ _ _ R) as G0. fold t in G0. lia.
Qed.

(* --- every writer segment preserves the invariant --- *)

Theorem wstep_inv m w pc ws c a pend res :
  WInvAt m w pc ws c a pend -> wstep m w pc ws = Some res -> StepOut ws c a pend res.
Proof.
  intros H E. destruct pc; cbn [wstep] in E.
  - destruct ws as [|op ws']; [discriminate E|]. injection E as E. subst res.
    assert (Ep : pend = []) by (destruct H as (_ & _ & _ & Ep & _); exact Ep). subst pend.
    destruct op as [it|k h|k h|it| |it| ].
    + apply entry_store. exact H.
    + apply entry_remove. exact H.
    + apply entry_probe. exact H.
    + apply (entry_publish m w ws' c a it H).
    + apply entry_unpin. exact H.
    + apply entry_swap. exact H.
    + apply entry_clear. exact H.
  - injection E as E. subst res. apply step_W201. exact H.
  - injection E as E. subst res. apply step_W202. exact H.
  - injection E as E. subst res. apply step_W203. exact H.
  - injection E as E. subst res. apply step_W211. exact H.
  - injection E as E. subst res. apply step_W212. exact H.
  - injection E as E. subst res. apply step_W213. exact H.
  - injection E as E. subst res. apply step_W214. exact H.
  - injection E as E. subst res. apply step_W221. exact H.
  - injection E as E. subst res. apply step_W222. exact H.
  - injection E as E. subst res. apply step_W231. exact H.
  - injection E as E. subst res. apply (step_W232 m w ws c a pend i H).
  - injection E as E. subst res. apply step_W233. exact H.
  - injection E as E. subst res. apply step_W241. exact H.
  - injection E as E. subst res. apply step_W251. exact H.
Qed.

(* ------------------------------------------------------------------ *)
(** * Part 5: well-formedness of an array under concurrency              *)
(* ------------------------------------------------------------------ *)

(* a cell caught between the two stores of one writer operation *)
Definition Half (a : list ccell) (p : nat) (it : item) : Prop :=
  ctag (getcc a p) < 2 /\ citem (getcc a p) = Some it.

Record AWF (a : list ccell) : Prop := {
  aw_lwf : LWF hashf (absl a) (length a);
  aw_empty : exists e, (e < length a)%nat /\ ctag (getcc a e) = 0;
  aw_tag : forall p, 2 <= ctag (getcc a p) -> exists it, citem (getcc a p) = Some it /\ ctag (getcc a p) = ntag it;
  aw_tagnn : forall p, 0 <= ctag (getcc a p);
  aw_items : forall p q x y, citem (getcc a p) = Some x -> citem (getcc a q) = Some y -> ikey x = ikey y -> p = q;
  aw_icons : forall p x, citem (getcc a p) = Some x -> consistent hashf x
}.

Definition HE (l : list cell) : Prop := exists e, (e < length l)%nat /\ getc l e = Empty.

Lemma ntag_ge2 x : consistent hashf x -> 2 <= ntag x.
Proof. unfold consistent, ntag. intros C. rewrite C. apply norm_ge2. apply hashf_nonneg. Qed.

Lemma conc_tag_nn c : (forall x, c = Live x -> consistent hashf x) -> 0 <= ctag (conc c).
Proof.
  intros H. destruct c as [| |x]; cbn [conc ctag cempty]; try lia.
  pose proof (ntag_ge2 x (H x eq_refl)). lia.
Qed.

Lemma citem_conc c x : citem (conc c) = Some x -> c = Live x.
Proof. destruct c as [| |y]; cbn [conc citem cempty]; try discriminate. intros E. injection E as E. subst y. reflexivity. Qed.

Lemma AWF_cmap l : LWF hashf l (length l) -> HE l -> AWF (cmap l) /\ (forall p it, ~ Half (cmap l) p it).
Proof.
  intros LW (e & He & Ge). pose proof (LWF_hash_ok _ _ LW) as HO. split.
  - constructor.
    + rewrite (absl_cmap l HO), length_cmap. exact LW.
    + exists e. rewrite length_cmap, getcc_cmap, Ge. split; [exact He|reflexivity].
    + intros p T. rewrite getcc_cmap in *. destruct (getc l p) as [| |x]; cbn [conc ctag citem cempty] in *; try lia.
      exists x. split; reflexivity.
    + intros p. rewrite getcc_cmap. apply conc_tag_nn. intros x E. apply (lwf_cons _ _ _ LW p x E).
    + intros p q x y Hx Hy K. rewrite getcc_cmap in Hx, Hy. apply citem_conc in Hx, Hy.
      apply (lwf_uniq _ _ _ LW p q x y Hx Hy K).
    + intros p x Hx. rewrite getcc_cmap in Hx. apply citem_conc in Hx. apply (lwf_cons _ _ _ LW p x Hx).
  - intros p it [T I]. rewrite getcc_cmap in *. apply citem_conc in I. rewrite I in T. cbn [conc ctag] in T.
    pose proof (ntag_ge2 it (lwf_cons _ _ _ LW p it I)). lia.
Qed.

Lemma setc_getc_id l : forall p, setc l p (getc l p) = l.
Proof.
  unfold getc. induction l as [|x l IH]; intros p; [reflexivity|].
  destruct p as [|p]; cbn [setc nth]; [reflexivity|]. rewrite IH. reflexivity.
Qed.

Lemma getcc_half_ins l dst it p :
  (dst < length l)%nat ->
  getcc (half_ins l dst it) p =
  if Nat.eqb dst p then {| ctag := ctag (conc (getc l dst)); citem := Some it |} else conc (getc l p).
Proof.
  intros H. unfold half_ins. destruct (Nat.eqb_spec dst p) as [E|E].
  - subst p. apply getcc_setcc_same. rewrite length_cmap. exact H.
  - rewrite getcc_setcc_other by exact E. apply getcc_cmap.
Qed.

Lemma AWF_half_ins l dst it :
  LWF hashf l (length l) -> InsFacts l dst it ->
  AWF (half_ins l dst it) /\
  (forall p x, Half (half_ins l dst it) p x -> p = dst /\ x = it) /\
  absl (half_ins l dst it) = l.
Proof.
  intros LW (Hd & NL & Cit & Rch & Fresh & (e & Ne & He & Ge)).
  pose proof (LWF_hash_ok _ _ LW) as HO.
  assert (Tg : ctag (conc (getc l dst)) = 0 \/ ctag (conc (getc l dst)) = 1).
  { destruct (getc l dst); cbn [conc ctag cempty]; try (left; reflexivity); try (right; reflexivity). discriminate NL. }
  assert (Ab : absl (half_ins l dst it) = l).
  { unfold half_ins. rewrite absl_setcc, (absl_cmap l HO).
    replace (abs_cell {| ctag := ctag (conc (getc l dst)); citem := Some it |}) with (getc l dst); [apply setc_getc_id|].
    destruct (getc l dst); try reflexivity. discriminate NL. }
  assert (Len : length (half_ins l dst it) = length l).
  { unfold half_ins. rewrite length_setcc. apply length_cmap. }
  split; [|split; [|exact Ab]].
  - constructor.
    + rewrite Ab, Len. exact LW.
    + exists e. rewrite Len, (getcc_half_ins l dst it e Hd).
      destruct (Nat.eqb_spec dst e) as [E|E]; [exfalso; apply Ne; symmetry; exact E|].
      rewrite Ge. split; [exact He|reflexivity].
    + intros p T. rewrite (getcc_half_ins l dst it p Hd) in *.
      destruct (Nat.eqb_spec dst p) as [E|E]; cbn [ctag citem] in *; [lia|].
      destruct (getc l p) as [| |x]; cbn [conc ctag citem cempty] in *; try lia. exists x. split; reflexivity.
    + intros p. rewrite (getcc_half_ins l dst it p Hd).
      destruct (Nat.eqb_spec dst p) as [E|E]; cbn [ctag]; [lia|].
      apply conc_tag_nn. intros x Ex. apply (lwf_cons _ _ _ LW p x Ex).
    + intros p q x y Hx Hy K. rewrite (getcc_half_ins l dst it p Hd) in Hx. rewrite (getcc_half_ins l dst it q Hd) in Hy.
      destruct (Nat.eqb_spec dst p) as [Ep|Ep]; destruct (Nat.eqb_spec dst q) as [Eq|Eq]; cbn [citem] in *.
      * lia.
      * injection Hx as Hx. subst x. apply citem_conc in Hy. exfalso. apply (Fresh y); [exists q; exact Hy|].
        symmetry. exact K.
      * injection Hy as Hy. subst y. apply citem_conc in Hx. exfalso. apply (Fresh x); [exists p; exact Hx|exact K].
      * apply citem_conc in Hx, Hy. apply (lwf_uniq _ _ _ LW p q x y Hx Hy K).
    + intros p x Hx. rewrite (getcc_half_ins l dst it _ Hd) in Hx.
      destruct (Nat.eqb_spec dst p) as [Ep|Ep]; cbn [citem] in Hx.
      * injection Hx as Hx. subst x. exact Cit.
      * apply citem_conc in Hx. apply (lwf_cons _ _ _ LW p x Hx).
  - intros p x [T I]. rewrite (getcc_half_ins l dst it p Hd) in T, I.
    destruct (Nat.eqb_spec dst p) as [Ep|Ep]; cbn [ctag citem] in *.
    + injection I as I. split; [symmetry; exact Ep|symmetry; exact I].
    + apply citem_conc in I. rewrite I in T. cbn [conc ctag] in T.
      pose proof (ntag_ge2 x (lwf_cons _ _ _ LW p x I)). lia.
Qed.

Lemma getcc_half_rem l i it0 p :
  (i < length l)%nat ->
  getcc (half_rem l i it0) p = if Nat.eqb i p then {| ctag := 1; citem := Some it0 |} else conc (getc l p).
Proof.
  intros H. unfold half_rem. destruct (Nat.eqb_spec i p) as [E|E].
  - subst p. apply getcc_setcc_same. rewrite length_cmap. exact H.
  - rewrite getcc_setcc_other by exact E. apply getcc_cmap.
Qed.

Lemma AWF_half_rem l i it0 :
  LWF hashf l (length l) -> HE l -> getc l i = Live it0 ->
  AWF (half_rem l i it0) /\
  (forall p x, Half (half_rem l i it0) p x -> p = i /\ x = it0) /\
  absl (half_rem l i it0) = setc l i Tomb.
Proof.
  intros LW (e & He & Ge) G. pose proof (LWF_hash_ok _ _ LW) as HO.
  pose proof (getc_live_lt _ _ _ G) as Hi.
  assert (Ab : absl (half_rem l i it0) = setc l i Tomb).
  { unfold half_rem. rewrite absl_setcc, (absl_cmap l HO). reflexivity. }
  assert (Len : length (half_rem l i it0) = length l).
  { unfold half_rem. rewrite length_setcc. apply length_cmap. }
  split; [|split; [|exact Ab]].
  - constructor.
    + rewrite Ab, Len. apply LWF_set_tomb. exact LW.
    + exists e. rewrite Len, (getcc_half_rem l i it0 e Hi).
      destruct (Nat.eqb_spec i e) as [E|E]; [subst e; rewrite G in Ge; discriminate Ge|].
      rewrite Ge. split; [exact He|reflexivity].
    + intros p T. rewrite (getcc_half_rem l i it0 p Hi) in *.
      destruct (Nat.eqb_spec i p) as [E|E]; cbn [ctag citem] in *; [lia|].
      destruct (getc l p) as [| |x]; cbn [conc ctag citem cempty] in *; try lia. exists x. split; reflexivity.
    + intros p. rewrite (getcc_half_rem l i it0 p Hi).
      destruct (Nat.eqb_spec i p) as [E|E]; cbn [ctag]; [lia|].
      apply conc_tag_nn. intros x Ex. apply (lwf_cons _ _ _ LW p x Ex).
    + assert (It : forall p x, citem (getcc (half_rem l i it0) p) = Some x -> getc l p = Live x).
      { intros p x Hx. rewrite (getcc_half_rem l i it0 p Hi) in Hx.
        destruct (Nat.eqb_spec i p) as [E|E]; cbn [citem] in Hx.
        - injection Hx as Hx. subst x p. exact G.
        - apply citem_conc. exact Hx. }
      intros p q x y Hx Hy K. apply (lwf_uniq _ _ _ LW p q x y (It p x Hx) (It q y Hy) K).
    + intros p x Hx. rewrite (getcc_half_rem l i it0 p Hi) in Hx.
      destruct (Nat.eqb_spec i p) as [E|E]; cbn [citem] in Hx.
      * injection Hx as Hx. subst x. apply (lwf_cons _ _ _ LW i it0 G).
      * apply citem_conc in Hx. apply (lwf_cons _ _ _ LW p x Hx).
  - intros p x [T I]. rewrite (getcc_half_rem l i it0 p Hi) in T, I.
    destruct (Nat.eqb_spec i p) as [Ep|Ep]; cbn [ctag citem] in *.
    + injection I as I. split; [symmetry; exact Ep|symmetry; exact I].
    + apply citem_conc in I. rewrite I in T. cbn [conc ctag] in T.
      pose proof (ntag_ge2 x (lwf_cons _ _ _ LW p x I)). lia.
Qed.

(* the writer is between the two stores of an insert (212, 222) or of a removal (232) at slot p *)
Definition half_pc (pc : wpc) (p : nat) (it : item) : Prop :=
  pc = W212 p it \/ (exists wt, pc = W222 p it wt) \/ pc = W232 p.

Lemma Rel_cur_facts c a :
  Rel hashf c a ->
  LWF hashf (slots (ctab c)) (length (slots (ctab c))) /\ HE (slots (ctab c)) /\ (8 <= length (slots (ctab c)))%nat.
Proof.
  intros R. destruct (Rel_parts c a R) as (C & L & _).
  split; [apply (wc_l _ _ C)|]. split; [apply (core_empty_exists hashf _ C L)|apply (wc_n _ _ C)].
Qed.

Lemma cur_awf m w pc ws c a pend :
  WInvAt m w pc ws c a pend ->
  AWF (cur_arr m) /\ (forall p it, Half (cur_arr m) p it -> half_pc pc p it).
Proof.
  intros (R & _ & _ & PI). destruct (Rel_cur_facts c a R) as (LW & He & N8).
  set (l := slots (ctab c)) in *.
  assert (Q : cur_arr m = cmap l ->
              AWF (cur_arr m) /\ (forall p it, Half (cur_arr m) p it -> half_pc pc p it)).
  { intros Hc. rewrite Hc. destruct (AWF_cmap l LW He) as [A NH].
    split; [exact A|]. intros p it Hf; exfalso; apply (NH p it Hf). }
  destruct pc; cbn [PcInv] in PI; fold l in PI.
  - apply Q. apply PI.
  - apply Q. apply PI.
  - apply Q. apply PI.
  - apply Q. apply PI.
  - destruct PI as (op & _ & Hc & _). apply Q. exact Hc.
  - destruct PI as (op & _ & Hc & IF & _). rewrite Hc.
    destruct (AWF_half_ins l dst it LW IF) as (A & Hf & _).
    split; [exact A|].
    intros p x Hx. destruct (Hf p x Hx) as [E1 E2]. subst p x. left. reflexivity.
  - destruct PI as (op & _ & Hc & _). apply Q. exact Hc.
  - apply Q. apply PI.
  - destruct PI as (op & _ & Hc & _). apply Q. exact Hc.
  - destruct PI as (op & _ & Hc & IF & _). rewrite Hc.
    destruct (AWF_half_ins l s it LW IF) as (A & Hf & _).
    split; [exact A|].
    intros p x Hx. destruct (Hf p x Hx) as [E1 E2]. subst p x. right. left. exists wasTomb. reflexivity.
  - destruct PI as (k & h & it0 & _ & Hc & _). apply Q. exact Hc.
  - destruct PI as (k & h & it0 & _ & Hc & _ & G & _). rewrite Hc.
    destruct (AWF_half_rem l i it0 LW He G) as (A & Hf & _).
    split; [exact A|].
    intros p x Hx. destruct (Hf p x Hx) as [E1 E2]. subst p x. right. right. reflexivity.
  - destruct PI as (k & h & l' & f & l2 & tb2 & _ & Hc & LW' & Hi & _ & _ & Gnx & _).
    pose proof (lwf_len _ _ _ LW') as Len. rewrite Hc.
    assert (He' : HE l') by (exists (next_in (length l) i); rewrite Len; split; [apply next_in_lt; exact Hi|exact Gnx]).
    rewrite <- Len in LW'. destruct (AWF_cmap l' LW' He') as [A NH].
    split; [exact A|]. intros p it Hf; exfalso; apply (NH p it Hf).
  - apply Q. apply PI.
  - destruct PI as (op & t1 & t2 & _ & _ & Hc & LW1 & He1 & _). rewrite Hc.
    destruct (AWF_cmap _ LW1 He1) as [A NH].
    split; [exact A|]. intros p it Hf; exfalso; apply (NH p it Hf).
Qed.

(* ------------------------------------------------------------------ *)
(** * Part 6: the global invariant and reachability                      *)
(* ------------------------------------------------------------------ *)

Definition QuietOK (a : list ccell) : Prop := exists l, a = cmap l /\ LWF hashf l (length l) /\ HE l.
Definition OldOK (m : mem) : Prop := forall d, (d < data m)%nat -> QuietOK (getarr m d).

Definition rop_ok (op : rop) : Prop := match op with RLookup k h => h = hashf k end.
Definition ROk (m : mem) (th : rthread) : Prop :=
  Forall rop_ok (rscript th) /\
  match rpcof th with
  | RB => True
  | R201 k h => h = hashf k
  | R202 d i k h | R203 d i k h => h = hashf k /\ (d <= data m)%nat /\ (i < length (getarr m d))%nat
  end.

Record GInv (g : gstate) : Prop := {
  gi_w : exists c a pend, WInvAt (gmem g) (gw g) (gwpc g) (gws g) c a pend;
  gi_old : OldOK (gmem g);
  gi_r : Forall (ROk (gmem g)) (grs g)
}.

(* the single shared write of a writer segment *)
Definition wmem_after (m : mem) (pc : wpc) : mem :=
  match pc with
  | W211 dst it | W221 dst it _ | W213 dst it _ _ => store_item m (data m) dst (Some it)
  | W212 dst it | W222 dst it _ => store_tag m (data m) dst (ntag it)
  | W214 fa s it => store_item m fa s (Some it)
  | W231 i => store_tag m (data m) i 1
  | W232 i => store_item m (data m) i None
  | W233 i => store_tag m (data m) i 0
  | W241 n0 => store_data m (repeat cempty n0)
  | W251 nd _ => store_data m nd
  | _ => m
  end.

Definition res_mem (r : wres) : mem := fst (fst (fst r)).

Lemma res_mem_maybe_grow m w r1 r2 : res_mem (w_maybe_grow m w r1 r2) = m.
Proof.
  unfold w_maybe_grow. destruct (_ <? _); [reflexivity|]. destruct (crehash _ _) as [nd e]. reflexivity.
Qed.
Lemma res_mem_store_entry m w it b : res_mem (w_store_entry m w it b) = m.
Proof.
  unfold w_store_entry. destruct (cwalk_top _ _ _) as [dst tomb|s cur|]; try reflexivity.
  destruct b; reflexivity.
Qed.
Lemma res_mem_reclaim_head m w i : res_mem (w_reclaim_head m w i) = m.
Proof. unfold w_reclaim_head. destruct (_ && _)%bool; reflexivity. Qed.
Lemma res_mem_remove_entry m w it : res_mem (w_remove_entry m w it) = m.
Proof. unfold w_remove_entry. destruct (cfind_exact _ _ _ _ _ _) as [[i|]|]; reflexivity. Qed.
Lemma res_mem_of_lookup m w k h r : res_mem (w_of_lookup m w k h r) = m.
Proof. destruct r; cbn [w_of_lookup]; try reflexivity. apply res_mem_remove_entry. Qed.

Lemma wstep_mem m w pc ws r ws' : wstep m w pc ws = Some (r, ws') -> res_mem r = wmem_after m pc.
Proof.
  intros E. destruct pc; unfold wstep in E; cbv zeta in E; cbn [wmem_after].
  - destruct ws as [|op ws0]; [discriminate E|]. injection E as E _. subst r.
    destruct op as [it|k h|k h|it| |it| ].
    + apply res_mem_store_entry.
    + reflexivity.
    + destruct (cwalk_top _ _ _); reflexivity.
    + destruct (wcd (wcur w)) as [cd|]; [destruct (Nat.eqb cd (data m))|]; try reflexivity; apply res_mem_store_entry.
    + reflexivity.
    + destruct (wfslot w) as [[fa fs]|]; reflexivity.
    + reflexivity.
  - injection E as E _. subst r. first [reflexivity|apply res_mem_of_lookup].
  - injection E as E _. subst r. first [reflexivity|apply res_mem_of_lookup].
  - injection E as E _. subst r. first [reflexivity|apply res_mem_of_lookup].
  - injection E as E _. subst r. reflexivity.
  - injection E as E _. subst r. apply res_mem_maybe_grow.
  - injection E as E _. subst r. reflexivity.
  - injection E as E _. subst r. reflexivity.
  - injection E as E _. subst r. reflexivity.
  - injection E as E _. subst r. apply res_mem_maybe_grow.
  - injection E as E _. subst r. reflexivity.
  - injection E as E _. subst r. destruct (_ || _)%bool; [reflexivity|apply res_mem_reclaim_head].
  - injection E as E _. subst r. apply res_mem_reclaim_head.
  - injection E as E _. subst r. reflexivity.
  - injection E as E _. subst r. reflexivity.
Qed.

Definition same_shape (m m' : mem) : Prop :=
  data m' = data m /\ length (arrs m') = length (arrs m) /\
  (forall d, d <> data m -> getarr m' d = getarr m d) /\
  length (cur_arr m') = length (cur_arr m).

Lemma same_shape_refl m : same_shape m m.
Proof. repeat split; reflexivity. Qed.

Lemma same_shape_store_item m i x :
  (data m < length (arrs m))%nat -> same_shape m (store_item m (data m) i x).
Proof.
  intros H. split; [reflexivity|]. split; [unfold store_item; apply length_arrs_upd|]. split.
  - intros d Hd. unfold store_item. apply getarr_upd_other. intros Q. apply Hd. symmetry. exact Q.
  - rewrite (cur_store_item m i x H). apply length_set_item.
Qed.
Lemma same_shape_store_tag m i x :
  (data m < length (arrs m))%nat -> same_shape m (store_tag m (data m) i x).
Proof.
  intros H. split; [reflexivity|]. split; [unfold store_tag; apply length_arrs_upd|]. split.
  - intros d Hd. unfold store_tag. apply getarr_upd_other. intros Q. apply Hd. symmetry. exact Q.
  - rewrite (cur_store_tag m i x H). apply length_set_tag.
Qed.

Lemma wstep_frame m w pc ws c a pend :
  WInvAt m w pc ws c a pend ->
  same_shape m (wmem_after m pc) \/
  (data (wmem_after m pc) = S (data m) /\ length (arrs (wmem_after m pc)) = S (length (arrs m)) /\
   (forall d, (d <= data m)%nat -> getarr (wmem_after m pc) d = getarr m d) /\ QuietOK (cur_arr m)).
Proof.
  intros H. pose proof H as (R & _ & Cm & PI). pose proof (data_lt _ _ _ _ Cm) as DL.
  destruct pc; cbn [wmem_after]; try (left; apply same_shape_refl);
    try (left; apply same_shape_store_item; exact DL); try (left; apply same_shape_store_tag; exact DL).
  - cbn [PcInv] in PI. destruct PI as (_ & _ & Efa & _). subst a0. left. apply same_shape_store_item. exact DL.
  - right. cbn [PcInv] in PI. destruct PI as (_ & Hc & _).
    cbn [store_data data arrs]. rewrite app_length. cbn [length].
    split; [apply (com_len _ _ _ _ Cm)|]. split; [lia|]. split.
    + intros d Hd. apply getarr_store_data_old. lia.
    + destruct (Rel_cur_facts c a R) as (LW & He & _). exists (slots (ctab c)). split; [exact Hc|]. split; assumption.
  - right. cbn [PcInv] in PI. destruct PI as (op & t1 & t2 & _ & _ & Hc & LW1 & He1 & _).
    cbn [store_data data arrs]. rewrite app_length. cbn [length].
    split; [apply (com_len _ _ _ _ Cm)|]. split; [lia|]. split.
    + intros d Hd. apply getarr_store_data_old. lia.
    + exists (slots t1). split; [exact Hc|]. split; assumption.
Qed.

Lemma Forall_set_nth {A} (P : A -> Prop) (l : list A) : forall i x,
  Forall P l -> P x -> Forall P (set_nth l i x).
Proof.
  induction l as [|y l IH]; intros i x F Px; [constructor|].
  inversion F as [|? ? Py Fl]; subst. destruct i as [|i]; cbn [set_nth]; constructor; try assumption.
  apply IH; assumption.
Qed.

Lemma Forall_nth_error {A} (P : A -> Prop) (l : list A) i x : Forall P l -> nth_error l i = Some x -> P x.
Proof. intros F E. rewrite Forall_forall in F. apply F. apply (nth_error_In l i E). Qed.

Lemma AWF_pos a : AWF a -> (0 < length a)%nat.
Proof. intros A. destruct (aw_empty _ A) as (e & He & _). lia. Qed.

Lemma QuietOK_AWF a : QuietOK a -> AWF a /\ (forall p it, ~ Half a p it).
Proof. intros (l & E & LW & He). subst a. apply AWF_cmap; assumption. Qed.

(* every array ever published is well-formed *)
Lemma all_awf g d : GInv g -> (d <= data (gmem g))%nat -> AWF (getarr (gmem g) d).
Proof.
  intros [(c & a & pend & W) Old _] Hd. destruct (Nat.eq_dec d (data (gmem g))) as [E|E].
  - subst d. apply (cur_awf _ _ _ _ _ _ _ W).
  - apply QuietOK_AWF. apply Old. lia.
Qed.

Lemma ginv_wstep g g' o : GInv g -> lstep g O = Some (g', o) -> GInv g'.
Proof.
  intros [(c & a & pend & W) Old Rs] E. cbn [lstep] in E.
  destruct (wstep (gmem g) (gw g) (gwpc g) (gws g)) as [[[[[m' w'] pc'] o'] ws']|] eqn:St; [|discriminate E].
  injection E as E1 E2. subst g' o'.
  pose proof (wstep_inv _ _ _ _ _ _ _ _ W St) as SO. pose proof (wstep_mem _ _ _ _ _ _ St) as EM.
  cbn [res_mem fst] in EM. subst m'.
  pose proof (wstep_frame _ _ _ _ _ _ _ W) as FR.
  constructor; cbn [gmem gw gwpc gws grs].
  - unfold StepOut in SO. destruct SO as [(_ & pend' & W' & _)|(Epc & op & a' & r1 & r2 & _ & _ & _ & _ & W')].
    + exists c, a, pend'. exact W'.
    + subst pc'. exists (fst (sstep c op)), a', []. exact W'.
  - intros d Hd. destruct FR as [(Ed & _ & Eo & _)|(Ed & _ & Eo & Q)].
    + rewrite Ed in Hd. rewrite Eo by lia. apply Old. exact Hd.
    + rewrite Ed in Hd. rewrite Eo by lia. destruct (Nat.eq_dec d (data (gmem g))) as [E|E].
      * subst d. exact Q.
      * apply Old. lia.
  - apply Forall_forall. intros th I. rewrite Forall_forall in Rs. destruct (Rs th I) as [S1 S2].
    split; [exact S1|].
    assert (K : forall d i, (d <= data (gmem g))%nat -> (i < length (getarr (gmem g) d))%nat ->
                (d <= data (wmem_after (gmem g) (gwpc g)))%nat /\
                (i < length (getarr (wmem_after (gmem g) (gwpc g)) d))%nat).
    { intros d i Hd Hi. destruct FR as [(Ed & _ & Eo & El)|(Ed & _ & Eo & _)].
      - rewrite Ed. split; [exact Hd|]. destruct (Nat.eq_dec d (data (gmem g))) as [E|E].
        + subst d. unfold cur_arr in El. rewrite Ed in El. rewrite El. exact Hi.
        + rewrite Eo by exact E. exact Hi.
      - rewrite Ed. split; [lia|]. rewrite Eo by exact Hd. exact Hi. }
    destruct (rpcof th); try exact S2.
    + destruct S2 as (Eh & Hd & Hi). split; [exact Eh|]. apply K; assumption.
    + destruct S2 as (Eh & Hd & Hi). split; [exact Eh|]. apply K; assumption.
Qed.

Lemma ginv_rstep g r g' o : GInv g -> lstep g (S r) = Some (g', o) -> GInv g'.
Proof.
  intros G E. pose proof G as [Wi Old Rs]. cbn [lstep] in E.
  destruct (nth_error (grs g) r) as [th|] eqn:N; [|discriminate E].
  destruct (rstep (gmem g) th) as [[th' o']|] eqn:St; [|discriminate E].
  injection E as E1 E2. subst g' o'.
  constructor; cbn [gmem gw gwpc gws grs]; try assumption.
  apply Forall_set_nth; [exact Rs|].
  destruct (Forall_nth_error _ _ _ _ Rs N) as [S1 S2].
  unfold rstep in St.
  assert (Res : forall k h res, h = hashf k ->
            match res with
            | LkPark202 d i | LkPark203 d i => (d <= data (gmem g))%nat /\ (i < length (getarr (gmem g) d))%nat
            | _ => True
            end ->
            match res with
            | LkPark202 d i => Some ({| rpcof := R202 d i k h; rscript := rscript th |}, [202; 0; 0])
            | LkPark203 d i => Some ({| rpcof := R203 d i k h; rscript := rscript th |}, [203; 0; 0])
            | LkMiss => Some ({| rpcof := RB; rscript := rscript th |}, [0; 0; 0])
            | LkHit it => Some ({| rpcof := RB; rscript := rscript th |}, [0; 1; ival it])
            end = Some (th', o) -> ROk (gmem g) th').
  { intros k h res Eh B Q. destruct res as [d i|d i| |it]; injection Q as Q _; subst th'; split; cbn [rscript rpcof];
      try exact S1; try exact I; (split; [exact Eh|exact B]). }
  destruct (rpcof th) as [|k h|d i k h|d i k h] eqn:Pc.
  - destruct (rscript th) as [|[k h] rest] eqn:Sc; [discriminate St|]. injection St as St _. subst th'.
    inversion S1 as [|? ? Ok Rest]; subst. split; cbn [rscript rpcof]; [exact Rest|exact Ok].
  - refine (Res k h (lk_from201 (gmem g) h) S2 _ St). unfold lk_from201. split; [lia|].
    apply home_in_lt. apply AWF_pos. apply (all_awf g _ G). lia.
  - destruct S2 as (Eh & Hd & Hi). refine (Res k h (lk_from202 (gmem g) d i h) Eh _ St). unfold lk_from202.
    destruct (_ =? 0); [exact I|]. destruct (_ =? norm h); (split; [exact Hd|]); [exact Hi|apply next_in_lt; exact Hi].
  - destruct S2 as (Eh & Hd & Hi). refine (Res k h (lk_from203 (gmem g) d i k) Eh _ St). unfold lk_from203.
    destruct (citem _) as [it|]; [destruct (ikey it =? k); [exact I|]|]; (split; [exact Hd|apply next_in_lt; exact Hi]).
Qed.

Lemma ginv_step g t g' o : GInv g -> lstep g t = Some (g', o) -> GInv g'.
Proof. destruct t as [|r]; [apply ginv_wstep|apply ginv_rstep]. Qed.

Lemma ginv_lrun : forall sch g, GInv g -> GInv (fst (lrun g sch)).
Proof.
  induction sch as [|t r IH]; intros g G; cbn [lrun fst]; [exact G|].
  destruct (lstep g t) as [[g1 o]|] eqn:E.
  - specialize (IH g1 (ginv_step g t g1 o G E)). destruct (lrun g1 r) as [g2 os]. exact IH.
  - specialize (IH g G). destruct (lrun g r) as [g2 os]. exact IH.
Qed.

Lemma slots_new_table cap : slots (new_table cap) = repeat Empty (init_slots cap).
Proof. unfold init_slots, new_table. cbn [slots]. rewrite repeat_length. reflexivity. Qed.

Lemma ginv_init cap ws rss :
  wproto ainit ws -> Forall (Forall rop_ok) rss -> GInv (init_state cap ws rss).
Proof.
  intros P F. constructor; cbn [init_state gmem gw gwpc gws grs].
  - exists (cinit cap), ainit, []. split; [apply Rel_init|]. split; [exact P|]. split.
    + constructor; cbn [data arrs cinit ctab ccur cfnd ainit aph werr wcur wfslot length]; try reflexivity.
      * unfold cur_rel, nocursor. cbn [wcd wcslot wctomb cgen cslot ctomb]. repeat split; reflexivity.
      * intros k s it Ph. discriminate Ph.
    + cbn [PcInv]. split; [reflexivity|]. split.
      * unfold cur_arr, getarr. cbn [data arrs nth cinit ctab]. rewrite slots_new_table. symmetry. apply cmap_repeat.
      * unfold Priv. cbn [cinit ctab new_table live tombs pinned wlive wtombs wpin]. repeat split; reflexivity.
  - intros d Hd. cbn [data] in Hd. lia.
  - apply Forall_forall. intros th I. apply in_map_iff in I. destruct I as (s & E & Is). subst th.
    split; cbn [rscript rpcof]; [|exact I]. rewrite Forall_forall in F. apply F. exact Is.
Qed.

(* reachable states: any protocol-respecting writer script, any reader scripts, any schedule *)
Definition reachable (g : gstate) : Prop :=
  exists cap ws rss sch,
    wproto ainit ws /\ Forall (Forall rop_ok) rss /\ g = fst (lrun (init_state cap ws rss) sch).

Theorem ginv_reachable g : reachable g -> GInv g.
Proof.
  intros (cap & ws & rss & sch & P & F & E). subst g. apply ginv_lrun. apply ginv_init; assumption.
Qed.

Lemma reachable_step g t g' o : reachable g -> lstep g t = Some (g', o) -> reachable g'.
Proof.
  intros (cap & ws & rss & sch & P & F & E) St. exists cap, ws, rss, (sch ++ [t]).
  split; [exact P|]. split; [exact F|]. subst g.
  assert (A : forall sch g0, fst (lrun g0 (sch ++ [t])) =
              match lstep (fst (lrun g0 sch)) t with Some (g1, _) => g1 | None => fst (lrun g0 sch) end).
  { clear. induction sch as [|x r IH]; intros g0.
    - cbn [app lrun fst]. destruct (lstep g0 t) as [[g1 o1]|]; reflexivity.
    - cbn [app lrun]. destruct (lstep g0 x) as [[g1 o1]|].
      + specialize (IH g1). destruct (lrun g1 (r ++ [t])) as [g2 os]. destruct (lrun g1 r) as [g3 os3].
        cbn [fst] in *. exact IH.
      + specialize (IH g0). destruct (lrun g0 (r ++ [t])) as [g2 os]. destruct (lrun g0 r) as [g3 os3].
        cbn [fst] in *. exact IH. }
  rewrite A, St. reflexivity.
Qed.

(* ------------------------------------------------------------------ *)
(** * Theorem 1: WFc holds in every reachable state                      *)
(* ------------------------------------------------------------------ *)

Definition published (a : list ccell) (p : nat) (it : item) : Prop :=
  2 <= ctag (getcc a p) /\ citem (getcc a p) = Some it.

(* slot p is reachable from the home slot of hash h over non-empty cells *)
Definition creach (a : list ccell) (h : Z) (p : nat) : Prop :=
  exists d, (d < length a)%nat /\ iter_next (length a) d (home_in (length a) h) = p /\
            forall j, (j < d)%nat -> ctag (getcc a (iter_next (length a) j (home_in (length a) h))) <> 0.

Record WFc (g : gstate) : Prop := {
  wfc_arrs : length (arrs (gmem g)) = S (data (gmem g));
  (* in every array an empty cell exists *)
  wfc_empty : forall d, (d <= data (gmem g))%nat ->
     exists e, (e < length (getarr (gmem g) d))%nat /\ ctag (getcc (getarr (gmem g) d) e) = 0;
  (* a published cell carries its item's normalised hash, and items carry the hash of their key *)
  wfc_tag : forall d p it, (d <= data (gmem g))%nat -> published (getarr (gmem g) d) p it ->
     ctag (getcc (getarr (gmem g) d) p) = norm (ihash it) /\ ihash it = hashf (ikey it);
  (* every published key is reachable from its home over non-empty cells *)
  wfc_reach : forall d p it, (d <= data (gmem g))%nat -> published (getarr (gmem g) d) p it ->
     creach (getarr (gmem g) d) (ihash it) p;
  (* no key is published twice in one array; even stronger: no two cells of one array hold items of
     the same key, whatever their tags *)
  wfc_uniq : forall d p q x y, (d <= data (gmem g))%nat ->
     citem (getcc (getarr (gmem g) d) p) = Some x -> citem (getcc (getarr (gmem g) d) q) = Some y ->
     ikey x = ikey y -> p = q;
  (* tag >= 2 implies a non-nil item *)
  wfc_tag_item : forall d p, (d <= data (gmem g))%nat -> 2 <= ctag (getcc (getarr (gmem g) d) p) ->
     exists it, citem (getcc (getarr (gmem g) d) p) = Some it;
  (* a cell with tag < 2 and a non-nil item is an insert or a removal between its two stores *)
  wfc_half : forall p it, Half (cur_arr (gmem g)) p it -> half_pc (gwpc g) p it;
  (* ... there is at most one *)
  wfc_half_one : forall p q x y, Half (cur_arr (gmem g)) p x -> Half (cur_arr (gmem g)) q y -> p = q /\ x = y;
  (* ... and none in a replaced array *)
  wfc_old_quiet : forall d p it, (d < data (gmem g))%nat -> ~ Half (getarr (gmem g) d) p it
}.

Lemma abs_cell_published a p it : published a p it -> getc (absl a) p = Live it.
Proof.
  intros [T I]. rewrite getc_absl. unfold abs_cell. rewrite I.
  destruct (Z.eqb_spec (ctag (getcc a p)) 0); [lia|]. destruct (Z.eqb_spec (ctag (getcc a p)) 1); [lia|]. reflexivity.
Qed.

Lemma abs_cell_nonempty c : abs_cell c <> Empty -> ctag c <> 0.
Proof. unfold abs_cell. intros H E. rewrite E in H. apply H. reflexivity. Qed.

Lemma AWF_creach a p it : AWF a -> published a p it -> creach a (ihash it) p.
Proof.
  intros A Pb. pose proof (abs_cell_published a p it Pb) as G.
  destruct (lwf_reach _ _ _ (aw_lwf _ A) p it G) as (d & Hd & E & W).
  exists d. split; [exact Hd|]. split; [exact E|]. intros j Hj.
  apply abs_cell_nonempty. rewrite <- getc_absl. apply (walkne_nth _ _ _ _ _ W Hj).
Qed.

Theorem GInv_WFc g : GInv g -> WFc g.
Proof.
  intros G. pose proof G as [(c & a & pend & W) Old _].
  destruct (cur_awf _ _ _ _ _ _ _ W) as [_ Hf].
  constructor.
  - destruct W as (_ & _ & Cm & _). apply (com_len _ _ _ _ Cm).
  - intros d Hd. apply (aw_empty _ (all_awf g d G Hd)).
  - intros d p it Hd [T I]. pose proof (all_awf g d G Hd) as A.
    destruct (aw_tag _ A p T) as (x & Ix & Tx). rewrite I in Ix. injection Ix as Ix. subst x.
    split; [exact Tx|]. apply (aw_icons _ A p it I).
  - intros d p it Hd Pb. apply AWF_creach; [apply (all_awf g d G Hd)|exact Pb].
  - intros d p q x y Hd. apply (aw_items _ (all_awf g d G Hd)).
  - intros d p Hd T. destruct (aw_tag _ (all_awf g d G Hd) p T) as (x & Ix & _). exists x. exact Ix.
  - exact Hf.
  - intros p q x y Hp Hq. pose proof (Hf p x Hp) as Fp. pose proof (Hf q y Hq) as Fq.
    unfold half_pc in *.
    destruct Fp as [Fp|[(wp & Fp)|Fp]]; destruct Fq as [Fq|[(wq & Fq)|Fq]]; rewrite Fp in Fq;
      try discriminate Fq; injection Fq as E1; subst; try (split; reflexivity).
    destruct Hp as [_ Ip]. destruct Hq as [_ Iq]. rewrite Ip in Iq. injection Iq as Iq. split; [reflexivity|exact Iq].
  - intros d p it Hd. apply (QuietOK_AWF _ (Old d Hd)).
Qed.

Theorem wfc_invariant g : reachable g -> WFc g.
Proof. intros R. apply GInv_WFc. apply ginv_reachable. exact R. Qed.

(* arrays other than the current one are frozen: no step of any thread changes them, the array list
   only grows, and a replaced array never becomes current again *)
Theorem old_arrays_frozen g t g' o :
  reachable g -> lstep g t = Some (g', o) ->
  (data (gmem g) <= data (gmem g'))%nat /\
  (forall d, (d < data (gmem g))%nat -> getarr (gmem g') d = getarr (gmem g) d) /\
  (data (gmem g) < data (gmem g') -> getarr (gmem g') (data (gmem g)) = getarr (gmem g) (data (gmem g)))%nat.
Proof.
  intros R E. pose proof (ginv_reachable g R) as [(c & a & pend & W) _ _].
  destruct t as [|r]; cbn [lstep] in E.
  - destruct (wstep (gmem g) (gw g) (gwpc g) (gws g)) as [[[[[m' w'] pc'] o'] ws']|] eqn:St; [|discriminate E].
    injection E as E1 E2. subst g' o'. cbn [gmem].
    pose proof (wstep_mem _ _ _ _ _ _ St) as EM. cbn [res_mem fst] in EM. subst m'.
    destruct (wstep_frame _ _ _ _ _ _ _ W) as [(Ed & _ & Eo & _)|(Ed & _ & Eo & _)]; rewrite Ed.
    + split; [lia|]. split; [intros d Hd; apply Eo; lia|lia].
    + split; [lia|]. split; [intros d Hd; apply Eo; lia|intros _; apply Eo; lia].
  - destruct (nth_error (grs g) r) as [th|]; [|discriminate E].
    destruct (rstep (gmem g) th) as [[th' o']|]; [|discriminate E].
    injection E as E1 E2. subst g' o'. cbn [gmem]. split; [lia|]. split; [reflexivity|lia].
Qed.

(* ------------------------------------------------------------------ *)
(** * The writer alone refines the sequential model                      *)
(* ------------------------------------------------------------------ *)

Definition res_ok (r : wres) : Prop :=
  let '(_, _, pc, o) := r in
  (pc = WB /\ exists r1 r2, o = [0; r1; r2]) \/ (pc <> WB /\ is_completion o = false).

Lemma res_ok_done m w r1 r2 : res_ok (wdone m w r1 r2).
Proof. left. split; [reflexivity|]. exists r1, r2. reflexivity. Qed.

Ltac park_ok := right; split; [discriminate|reflexivity].

Lemma res_ok_maybe_grow m w r1 r2 : res_ok (w_maybe_grow m w r1 r2).
Proof.
  unfold w_maybe_grow. destruct (_ <? _); [apply res_ok_done|]. destruct (crehash _ _) as [nd e]. park_ok.
Qed.
Lemma res_ok_store_entry m w it b : res_ok (w_store_entry m w it b).
Proof.
  unfold w_store_entry. destruct (cwalk_top _ _ _) as [dst tomb|s cur|]; [park_ok|destruct b; park_ok|apply res_ok_done].
Qed.
Lemma res_ok_reclaim_head m w i : res_ok (w_reclaim_head m w i).
Proof. unfold w_reclaim_head. destruct (_ && _)%bool; [park_ok|apply res_ok_done]. Qed.
Lemma res_ok_remove_entry m w it : res_ok (w_remove_entry m w it).
Proof. unfold w_remove_entry. destruct (cfind_exact _ _ _ _ _ _) as [[i|]|]; [park_ok|apply res_ok_done..]. Qed.
Lemma res_ok_of_lookup m w k h r : res_ok (w_of_lookup m w k h r).
Proof. destruct r; cbn [w_of_lookup]; [park_ok|park_ok|apply res_ok_done|apply res_ok_remove_entry]. Qed.

Lemma wstep_obs m w pc ws r ws' : wstep m w pc ws = Some (r, ws') -> res_ok r.
Proof.
  intros E. destruct pc; unfold wstep in E; cbv zeta in E.
  - destruct ws as [|op ws0]; [discriminate E|]. injection E as E _. subst r.
    destruct op as [it|k h|k h|it| |it| ].
    + apply res_ok_store_entry.
    + park_ok.
    + destruct (cwalk_top _ _ _); apply res_ok_done.
    + destruct (wcd (wcur w)) as [cd|]; [destruct (Nat.eqb cd (data m))|]; try park_ok; apply res_ok_store_entry.
    + apply res_ok_done.
    + destruct (wfslot w) as [[fa fs]|]; [park_ok|apply res_ok_done].
    + park_ok.
  - injection E as E _. subst r. first [park_ok|apply res_ok_of_lookup].
  - injection E as E _. subst r. first [park_ok|apply res_ok_of_lookup].
  - injection E as E _. subst r. first [park_ok|apply res_ok_of_lookup].
  - injection E as E _. subst r. park_ok.
  - injection E as E _. subst r. apply res_ok_maybe_grow.
  - injection E as E _. subst r. apply res_ok_done.
  - injection E as E _. subst r. apply res_ok_done.
  - injection E as E _. subst r. park_ok.
  - injection E as E _. subst r. apply res_ok_maybe_grow.
  - injection E as E _. subst r. park_ok.
  - injection E as E _. subst r. destruct (_ || _)%bool; [apply res_ok_done|apply res_ok_reclaim_head].
  - injection E as E _. subst r. apply res_ok_reclaim_head.
  - injection E as E _. subst r. apply res_ok_done.
  - injection E as E _. subst r. apply res_ok_done.
Qed.

Lemma srun_cons c op ws :
  srun c (op :: ws) = [0; fst (snd (sstep c op)); snd (snd (sstep c op))] :: srun (fst (sstep c op)) ws.
Proof. cbn [srun]. destruct (sstep c op) as [c' [r1 r2]]. reflexivity. Qed.

(* Safety: whatever the number of steps, the operation results observed so far are exactly the first
   results of the sequential model run on the same script; and once the script is exhausted they are
   all of them. *)
Lemma alone_gen : forall N g c a pend,
  WInvAt (gmem g) (gw g) (gwpc g) (gws g) c a pend ->
  exists j, completions (snd (lrun g (repeat O N))) = firstn j (srun c (pend ++ gws g)) /\
            (gwpc (fst (lrun g (repeat O N))) = WB -> gws (fst (lrun g (repeat O N))) = [] ->
             completions (snd (lrun g (repeat O N))) = srun c (pend ++ gws g)).
Proof.
  induction N as [|N IH]; intros g c a pend W.
  - cbn [repeat lrun snd fst completions filter]. exists O. split; [reflexivity|].
    intros Epc Ews. destruct W as (_ & _ & _ & PI). rewrite Epc in PI. cbn [PcInv] in PI.
    destruct PI as (Ep & _). rewrite Ep, Ews. reflexivity.
  - cbn [repeat lrun]. cbn [lstep].
    destruct (wstep (gmem g) (gw g) (gwpc g) (gws g)) as [[[[[m' w'] pc'] o] ws']|] eqn:St.
    + pose proof (wstep_inv _ _ _ _ _ _ _ _ W St) as SO. pose proof (wstep_obs _ _ _ _ _ _ St) as RO.
      set (g1 := {| gmem := m'; gw := w'; gwpc := pc'; gws := ws'; grs := grs g; gnextid := gnextid g |}).
      unfold StepOut in SO. cbn [res_ok] in RO.
      destruct SO as [(Npc & pend' & W' & Ep)|(Epc & op & a' & r1 & r2 & Ep & _ & Eo & Es & W')].
      * destruct RO as [[Q _]|[_ NC]]; [contradiction|].
        destruct (IH g1 c a pend' W') as (j & Ej & Ef). cbn [g1 gws] in Ej, Ef. rewrite Ep in Ej, Ef.
        destruct (lrun g1 (repeat O N)) as [g2 os]. cbn [snd fst completions filter] in *. rewrite NC.
        exists j. split; [exact Ej|exact Ef].
      * subst pc'. destruct (IH g1 (fst (sstep c op)) a' [] W') as (j & Ej & Ef). cbn [g1 gws app] in Ej, Ef.
        destruct (lrun g1 (repeat O N)) as [g2 os]. cbn [snd fst completions filter] in *.
        subst o. cbn [is_completion]. rewrite Ep, srun_cons, Es. cbn [fst snd].
        exists (S j). cbn [firstn]. split; [rewrite Ej; reflexivity|].
        intros Q1 Q2. rewrite (Ef Q1 Q2). reflexivity.
    + destruct (IH g c a pend W) as (j & Ej & Ef).
      destruct (lrun g (repeat O N)) as [g2 os]. cbn [snd fst completions filter is_completion] in *.
      exists j. split; [exact Ej|exact Ef].
Qed.

Theorem writer_alone_refines_sequential cap ws rss N :
  wproto ainit ws ->
  let run := lrun (init_state cap ws rss) (repeat O N) in
  (exists j, completions (snd run) = firstn j (srun (cinit cap) ws)) /\
  (gwpc (fst run) = WB -> gws (fst run) = [] -> completions (snd run) = srun (cinit cap) ws).
Proof.
  intros P run.
  assert (W : WInvAt (gmem (init_state cap ws rss)) (gw (init_state cap ws rss)) (gwpc (init_state cap ws rss))
                     (gws (init_state cap ws rss)) (cinit cap) ainit []).
  { destruct (ginv_init cap ws [] P (Forall_nil _)) as [(c & a & pend & W) _ _]. clear W.
    split; [apply Rel_init|]. split; [exact P|]. split.
    - constructor; cbn [init_state gmem gw data arrs cinit ctab ccur cfnd ainit aph werr wcur wfslot length]; try reflexivity.
      + unfold cur_rel, nocursor. cbn [wcd wcslot wctomb cgen cslot ctomb]. repeat split; reflexivity.
      + intros k s it Ph. discriminate Ph.
    - cbn [PcInv init_state gmem gw gwpc]. split; [reflexivity|]. split.
      + unfold cur_arr, getarr. cbn [data arrs nth cinit ctab]. rewrite slots_new_table. symmetry. apply cmap_repeat.
      + unfold Priv. cbn [cinit ctab new_table live tombs pinned wlive wtombs wpin]. repeat split; reflexivity. }
  destruct (alone_gen N _ _ _ _ W) as (j & Ej & Ef). cbn [app init_state gws] in Ej, Ef.
  split; [exists j; exact Ej|exact Ef].
Qed.

(* ------------------------------------------------------------------ *)
(** * Part 7: what one writer segment does to the current array          *)
(* ------------------------------------------------------------------ *)

Definition weffect_facts (m : mem) (pc : wpc) : Prop :=
  let A := cur_arr m in
  match pc with
  | W211 s it | W221 s it _ => (s < length A)%nat /\ ctag (getcc A s) < 2 /\ citem (getcc A s) = None
  | W212 s it | W222 s it _ =>
      (s < length A)%nat /\ ctag (getcc A s) < 2 /\ citem (getcc A s) = Some it /\ 2 <= ntag it
  | W213 s it _ _ =>
      exists old, (s < length A)%nat /\ 2 <= ctag (getcc A s) /\ citem (getcc A s) = Some old /\ ikey it = ikey old
  | W214 fa s it =>
      fa = data m /\
      exists old, (s < length A)%nat /\ 2 <= ctag (getcc A s) /\ citem (getcc A s) = Some old /\ ikey it = ikey old
  | W231 i => exists it0, (i < length A)%nat /\ 2 <= ctag (getcc A i) /\ citem (getcc A i) = Some it0
  | W232 i => (i < length A)%nat /\ ctag (getcc A i) = 1
  | W233 i => (i < length A)%nat /\ ctag (getcc A i) = 1 /\ citem (getcc A i) = None /\
              ctag (getcc A (next_in (length A) i)) = 0
  | W241 _ | W251 _ _ => QuietOK A
  | _ => True
  end.

Lemma live_conc_facts l s old :
  LWF hashf l (length l) -> getc l s = Live old ->
  (s < length (cmap l))%nat /\ 2 <= ctag (getcc (cmap l) s) /\ citem (getcc (cmap l) s) = Some old.
Proof.
  intros LW G. rewrite length_cmap, getcc_cmap, G. cbn [conc ctag citem].
  split; [apply (getc_live_lt _ _ _ G)|]. split; [apply ntag_ge2; apply (lwf_cons _ _ _ LW s old G)|reflexivity].
Qed.

Lemma nonlive_conc_facts l s :
  is_live (getc l s) = false -> ctag (conc (getc l s)) < 2 /\ citem (conc (getc l s)) = None.
Proof. destruct (getc l s); cbn [is_live conc ctag citem cempty]; try discriminate; intros _; split; try lia; reflexivity. Qed.

Lemma weffect m w pc ws c a pend : WInvAt m w pc ws c a pend -> weffect_facts m pc.
Proof.
  intros (R & _ & Cm & PI). destruct (Rel_cur_facts c a R) as (LW & He & _).
  set (l := slots (ctab c)) in *.
  destruct pc; cbn [PcInv weffect_facts] in *; fold l in PI; try exact I.
  - destruct PI as (op & _ & Hc & (Hd & NL & _) & _). rewrite Hc, length_cmap, getcc_cmap.
    split; [exact Hd|]. apply nonlive_conc_facts. exact NL.
  - destruct PI as (op & _ & Hc & (Hd & NL & Cit & _) & _). rewrite Hc.
    rewrite (getcc_half_ins l dst it dst Hd), Nat.eqb_refl. cbn [ctag citem].
    unfold half_ins. rewrite length_setcc, length_cmap.
    split; [exact Hd|]. split; [apply (nonlive_conc_facts l dst NL)|]. split; [reflexivity|apply ntag_ge2; exact Cit].
  - destruct PI as (op & _ & Hc & old & G & K & _). rewrite Hc. exists old.
    destruct (live_conc_facts l s old LW G) as (A1 & A2 & A3). repeat split; assumption.
  - destruct PI as (_ & Hc & Efa & _ & old & G & K & _). split; [exact Efa|]. rewrite Hc. exists old.
    destruct (live_conc_facts l s old LW G) as (A1 & A2 & A3). repeat split; assumption.
  - destruct PI as (op & _ & Hc & (Hd & NL & _) & _). rewrite Hc, length_cmap, getcc_cmap.
    split; [exact Hd|]. apply nonlive_conc_facts. exact NL.
  - destruct PI as (op & _ & Hc & (Hd & NL & Cit & _) & _). rewrite Hc.
    rewrite (getcc_half_ins l s it s Hd), Nat.eqb_refl. cbn [ctag citem].
    unfold half_ins. rewrite length_setcc, length_cmap.
    split; [exact Hd|]. split; [apply (nonlive_conc_facts l s NL)|]. split; [reflexivity|apply ntag_ge2; exact Cit].
  - destruct PI as (k & h & it0 & _ & Hc & _ & G & _). rewrite Hc. exists it0. apply (live_conc_facts l i it0 LW G).
  - destruct PI as (k & h & it0 & _ & Hc & _ & G & _). rewrite Hc.
    pose proof (getc_live_lt _ _ _ G) as Hi.
    rewrite (getcc_half_rem l i it0 i Hi), Nat.eqb_refl. cbn [ctag].
    unfold half_rem. rewrite length_setcc, length_cmap. split; [exact Hi|reflexivity].
  - destruct PI as (k & h & l' & f & l2 & tb2 & _ & Hc & LW' & Hi & G & _ & Gnx & _).
    pose proof (lwf_len _ _ _ LW') as Len.
    rewrite Hc, length_cmap, !getcc_cmap, Len, G, Gnx. cbn [conc ctag citem cempty].
    split; [exact Hi|]. repeat split; reflexivity.
  - destruct PI as (_ & Hc & _). exists l. split; [exact Hc|]. split; assumption.
  - destruct PI as (op & t1 & t2 & _ & _ & Hc & LW1 & He1 & _). exists (slots t1). split; [exact Hc|]. split; assumption.
Qed.

(* the global shape of a writer step *)
Lemma lstep_writer g g' o :
  lstep g O = Some (g', o) ->
  gmem g' = wmem_after (gmem g) (gwpc g) /\ grs g' = grs g /\
  (forall s it, gwpc g = W211 s it -> gwpc g' = W212 s it) /\
  (forall s it wt, gwpc g = W221 s it wt -> gwpc g' = W222 s it wt).
Proof.
  intros E. cbn [lstep] in E.
  destruct (wstep (gmem g) (gw g) (gwpc g) (gws g)) as [[[[[m' w'] pc'] o'] ws']|] eqn:St; [|discriminate E].
  injection E as E1 E2. subst g' o'. cbn [gmem grs gwpc].
  pose proof (wstep_mem _ _ _ _ _ _ St) as EM. cbn [res_mem fst] in EM.
  split; [exact EM|]. split; [reflexivity|]. split.
  - intros s it Epc. rewrite Epc in St. unfold wstep in St. cbv zeta in St. injection St as _ _ Q _ _. symmetry. exact Q.
  - intros s it wt Epc. rewrite Epc in St. unfold wstep in St. cbv zeta in St. injection St as _ _ Q _ _. symmetry. exact Q.
Qed.

Lemma lstep_reader g r g' o :
  lstep g (S r) = Some (g', o) ->
  gmem g' = gmem g /\ gwpc g' = gwpc g /\
  exists th th', nth_error (grs g) r = Some th /\ rstep (gmem g) th = Some (th', o) /\
                 grs g' = set_nth (grs g) r th'.
Proof.
  intros E. cbn [lstep] in E. destruct (nth_error (grs g) r) as [th|] eqn:N; [|discriminate E].
  destruct (rstep (gmem g) th) as [[th' o']|] eqn:St; [|discriminate E].
  injection E as E1 E2. subst g' o'. cbn [gmem gwpc grs]. split; [reflexivity|]. split; [reflexivity|].
  exists th, th'. repeat split; assumption.
Qed.

(* the current array after a non-publishing segment *)
Definition arr_after (A : list ccell) (pc : wpc) : list ccell :=
  match pc with
  | W211 s it | W221 s it _ | W213 s it _ _ | W214 _ s it => set_item A s (Some it)
  | W212 s it | W222 s it _ => set_tag A s (ntag it)
  | W231 i => set_tag A i 1
  | W232 i => set_item A i None
  | W233 i => set_tag A i 0
  | _ => A
  end.

Definition data_pc (pc : wpc) : Prop := match pc with W241 _ | W251 _ _ => True | _ => False end.

Lemma cur_after m pc :
  (data m < length (arrs m))%nat -> (forall fa s it, pc = W214 fa s it -> fa = data m) -> ~ data_pc pc ->
  cur_arr (wmem_after m pc) = arr_after (cur_arr m) pc /\ data (wmem_after m pc) = data m.
Proof.
  intros DL F ND. destruct pc; cbn [wmem_after arr_after data_pc] in *; try (split; reflexivity);
    try (split; [apply cur_store_item; exact DL|reflexivity]);
    try (split; [apply cur_store_tag; exact DL|reflexivity]); try contradiction.
  rewrite (F a s it eq_refl). split; [apply cur_store_item; exact DL|reflexivity].
Qed.

Definition item_store_pc (pc : wpc) (q : nat) (it : item) : Prop :=
  pc = W211 q it \/ (exists wt, pc = W221 q it wt) \/ (exists r1 r2, pc = W213 q it r1 r2) \/
  (exists fa, pc = W214 fa q it).

Lemma arr_after_item A pc q it :
  citem (getcc (arr_after A pc) q) = Some it ->
  citem (getcc A q) = Some it \/ (item_store_pc pc q it /\ (q < length A)%nat).
Proof.
  unfold item_store_pc.
  destruct pc; cbn [arr_after]; try (intros H; left; exact H); try (rewrite citem_set_tag; intros H; left; exact H);
    rewrite citem_set_item;
    match goal with |- context [Nat.eqb ?s q] => destruct (Nat.eqb_spec s q) as [E|E]; cbn [andb] end;
    try (intros H; left; exact H);
    match goal with |- context [Nat.ltb ?s (length A)] => destruct (Nat.ltb_spec s (length A)) as [L|L] end;
    try (intros H; left; exact H); intros H; try discriminate H; injection H as H; subst; right; (split; [|exact L]).
  - left. reflexivity.
  - right. right. left. exists r1, r2. reflexivity.
  - right. right. right. exists a. reflexivity.
  - right. left. exists wasTomb. reflexivity.
Qed.

Lemma arr_after_item_keep A pc q :
  (forall it, ~ item_store_pc pc q it) -> pc <> W232 q -> citem (getcc (arr_after A pc) q) = citem (getcc A q).
Proof.
  unfold item_store_pc. intros N N2.
  destruct pc; cbn [arr_after]; try reflexivity; try apply citem_set_tag; rewrite citem_set_item;
    match goal with |- context [Nat.eqb ?s q] => destruct (Nat.eqb_spec s q) as [E|E]; cbn [andb] end;
    try reflexivity; subst; exfalso.
  - apply (N it). left. reflexivity.
  - apply (N it). right. right. left. exists r1, r2. reflexivity.
  - apply (N it). right. right. right. exists a. reflexivity.
  - apply (N it). right. left. exists wasTomb. reflexivity.
  - apply N2. reflexivity.
Qed.

Definition tag_store_pc (pc : wpc) (q : nat) (v : Z) : Prop :=
  (exists it, pc = W212 q it /\ v = ntag it) \/ (exists it wt, pc = W222 q it wt /\ v = ntag it) \/
  (pc = W231 q /\ v = 1) \/ (pc = W233 q /\ v = 0).

Lemma arr_after_tag A pc q :
  ctag (getcc (arr_after A pc) q) = ctag (getcc A q) \/
  ((q < length A)%nat /\ tag_store_pc pc q (ctag (getcc (arr_after A pc) q))).
Proof.
  unfold tag_store_pc.
  destruct pc; cbn [arr_after]; try (left; reflexivity); try (left; apply ctag_set_item);
    rewrite ctag_set_tag;
    match goal with |- context [Nat.eqb ?s q] => destruct (Nat.eqb_spec s q) as [E|E]; cbn [andb] end;
    try (left; reflexivity);
    match goal with |- context [Nat.ltb ?s (length A)] => destruct (Nat.ltb_spec s (length A)) as [L|L] end;
    try (left; reflexivity); subst; right; (split; [exact L|]).
  - left. exists it. split; reflexivity.
  - right. left. exists it, wasTomb. split; reflexivity.
  - right. right. left. split; reflexivity.
  - right. right. right. split; reflexivity.
Qed.

Lemma length_arr_after A pc : length (arr_after A pc) = length A.
Proof. destruct pc; cbn [arr_after]; try reflexivity; try apply length_set_item; apply length_set_tag. Qed.

Lemma wview g g' o :
  GInv g -> lstep g O = Some (g', o) ->
  grs g' = grs g /\ weffect_facts (gmem g) (gwpc g) /\
  ((~ data_pc (gwpc g) /\ data (gmem g') = data (gmem g) /\
    cur_arr (gmem g') = arr_after (cur_arr (gmem g)) (gwpc g) /\
    (forall d, d <> data (gmem g) -> getarr (gmem g') d = getarr (gmem g) d)) \/
   (data_pc (gwpc g) /\ data (gmem g') = S (data (gmem g)) /\
    (forall d, (d <= data (gmem g))%nat -> getarr (gmem g') d = getarr (gmem g) d) /\
    QuietOK (cur_arr (gmem g)))).
Proof.
  intros [(c & a & pend & W) _ _] E. destruct (lstep_writer g g' o E) as (Em & Er & _).
  pose proof (weffect _ _ _ _ _ _ _ W) as WF. split; [exact Er|]. split; [exact WF|]. rewrite Em.
  pose proof W as (_ & _ & Cm & _). pose proof (data_lt _ _ _ _ Cm) as DL.
  assert (F : forall fa s it, gwpc g = W214 fa s it -> fa = data (gmem g)).
  { intros fa s it Epc. rewrite Epc in WF. cbn [weffect_facts] in WF. apply WF. }
  destruct (wstep_frame _ _ _ _ _ _ _ W) as [(Ed & _ & Eo & _)|(Ed & _ & Eo & Q)].
  - left. assert (ND : ~ data_pc (gwpc g)).
    { intros D. destruct (gwpc g); cbn [data_pc] in D; try contradiction; cbn [wmem_after store_data data] in Ed; lia. }
    destruct (cur_after (gmem g) (gwpc g) DL F ND) as [Ec _]. repeat split; assumption.
  - right. split; [|repeat split; assumption].
    destruct (gwpc g); cbn [data_pc]; try exact I; exfalso; cbn [wmem_after] in Ed;
      try (unfold store_item in Ed); try (unfold store_tag in Ed); cbn [upd_arr data] in Ed; lia.
Qed.

(* ------------------------------------------------------------------ *)
(** * Theorem 2 (hits): a returned item was alive during the lookup      *)
(* ------------------------------------------------------------------ *)

Definition rth (g : gstate) (r : nat) : rthread := nth r (grs g) idle_reader.

(* item it is installed in the current array: published, or stored by an insert whose tag store is
   still to come (its lifetime starts at the writer's FIRST store and ends at the tag store of the
   removing op, at the replacing item store, or when clear publishes the fresh array) *)
Definition alive_in (it : item) (g : gstate) : Prop :=
  exists s, citem (getcc (cur_arr (gmem g)) s) = Some it /\
            (2 <= ctag (getcc (cur_arr (gmem g)) s) \/ gwpc g = W212 s it \/ exists wt, gwpc g = W222 s it wt).

Definition seen (H : list gstate) (it : item) : Prop := exists gj, In gj H /\ alive_in it gj.

Lemma seen_cons H g it : seen H it -> seen (g :: H) it.
Proof. intros (gj & I & A). exists gj. split; [right; exact I|exact A]. Qed.

Definition all_seen (H : list gstate) (a : list ccell) : Prop :=
  forall s it, citem (getcc a s) = Some it -> seen H it.

Definition HInv (r : nat) (k : Z) (H : list gstate) (g : gstate) : Prop :=
  match rpcof (rth g r) with
  | RB => True
  | R201 k' _ => k' = k
  | R202 d i k' _ =>
      k' = k /\ (d <= data (gmem g))%nat /\ (d = data (gmem g) \/ all_seen H (getarr (gmem g) d))
  | R203 d i k' _ =>
      k' = k /\ (d <= data (gmem g))%nat /\ (d = data (gmem g) \/ all_seen H (getarr (gmem g) d)) /\
      (forall it, citem (getcc (getarr (gmem g) d) i) = Some it -> seen H it)
  end.

Lemma quiet_alive g s it :
  QuietOK (cur_arr (gmem g)) -> citem (getcc (cur_arr (gmem g)) s) = Some it -> alive_in it g.
Proof.
  intros Q Hi. destruct (QuietOK_AWF _ Q) as [A NH]. exists s. split; [exact Hi|]. left.
  destruct (Z_lt_le_dec (ctag (getcc (cur_arr (gmem g)) s)) 2) as [L|L]; [|exact L].
  exfalso. apply (NH s it). split; assumption.
Qed.

Lemma hinv_wstep r k H g g' o :
  GInv g -> In g H -> HInv r k H g -> lstep g O = Some (g', o) -> HInv r k (g' :: H) g'.
Proof.
  intros G IH HI E. destruct (wview g g' o G E) as (Er & WF & V).
  destruct (lstep_writer g g' o E) as (_ & _ & P212 & P222).
  unfold HInv, rth in *. rewrite Er.
  assert (Frozen : forall d, (d <= data (gmem g))%nat ->
            (d = data (gmem g) \/ all_seen H (getarr (gmem g) d)) ->
            (d <= data (gmem g'))%nat /\ (d = data (gmem g') \/ all_seen (g' :: H) (getarr (gmem g') d))).
  { intros d Hd D. destruct V as [(_ & Ed & _ & Eo)|(_ & Ed & Eo & Q)].
    - rewrite Ed. split; [exact Hd|]. destruct D as [D|D]; [left; exact D|].
      destruct (Nat.eq_dec d (data (gmem g))) as [E0|E0]; [left; exact E0|].
      right. rewrite (Eo d E0). intros s it Hi. apply seen_cons. apply (D s it Hi).
    - rewrite Ed. split; [lia|]. right. rewrite (Eo d Hd). intros s it Hi. apply seen_cons.
      destruct D as [D|D]; [|apply (D s it Hi)].
      subst d. exists g. split; [exact IH|]. apply (quiet_alive g s it Q Hi). }
  destruct (rpcof (nth r (grs g) idle_reader)) as [|k' h|d i k' h|d i k' h]; try exact HI.
  - destruct HI as (Ek & Hd & D). destruct (Frozen d Hd D) as [F1 F2]. split; [exact Ek|]. split; assumption.
  - destruct HI as (Ek & Hd & D & C). destruct (Frozen d Hd D) as [F1 F2].
    split; [exact Ek|]. split; [exact F1|]. split; [exact F2|].
    intros it Hi.
    destruct V as [(ND & Ed & Ec & Eo)|(_ & Ed & Eo & Q)].
    + destruct (Nat.eq_dec d (data (gmem g))) as [E0|E0].
      * subst d. fold (cur_arr (gmem g)) in C. assert (Hi' := Hi). rewrite <- Ed in Hi'. fold (cur_arr (gmem g')) in Hi'.
        rewrite Ec in Hi'. destruct (arr_after_item _ _ _ _ Hi') as [Old|[St Li]].
        -- apply seen_cons. apply (C it Old).
        -- exists g'. split; [left; reflexivity|]. exists i. rewrite Ec. split; [exact Hi'|].
           unfold item_store_pc in St. destruct St as [St|[(wt & St)|[(r1 & r2 & St)|(fa & St)]]].
           ++ right. left. apply (P212 i it St).
           ++ right. right. exists wt. apply (P222 i it wt St).
           ++ left. rewrite St in WF |- *. cbn [weffect_facts arr_after] in *. rewrite ctag_set_item.
              destruct WF as (old & _ & T & _). exact T.
           ++ left. rewrite St in WF |- *. cbn [weffect_facts arr_after] in *. rewrite ctag_set_item.
              destruct WF as (_ & old & _ & T & _). exact T.
      * rewrite (Eo d E0) in Hi. apply seen_cons. apply (C it Hi).
    + rewrite (Eo d Hd) in Hi. apply seen_cons. apply (C it Hi).
Qed.

Lemma rth_nth_error g r th : nth_error (grs g) r = Some th -> rth g r = th.
Proof. intros E. unfold rth. apply nth_error_nth. exact E. Qed.

Lemma rth_set_same g r th th' l' :
  nth_error (grs g) r = Some th -> l' = set_nth (grs g) r th' -> nth r l' idle_reader = th'.
Proof.
  intros E El. subst l'. apply nth_error_nth. apply nth_error_set_nth_same.
  apply nth_error_Some. rewrite E. discriminate.
Qed.

Lemma all_seen_cons H g a : all_seen H a -> all_seen (g :: H) a.
Proof. intros A s it Hi. apply seen_cons. apply (A s it Hi). Qed.

Lemma hinv_rstep r k H g r' g' o :
  GInv g -> In g H -> HInv r k H g -> lstep g (S r') = Some (g', o) ->
  (r' = r -> rpcof (rth g r) <> RB) ->
  HInv r k (g' :: H) g' /\
  (r' = r -> forall v, o = [0; 1; v] -> exists it, ikey it = k /\ ival it = v /\ seen H it).
Proof.
  intros G IH HI E NB. destruct (lstep_reader g r' g' o E) as (Em & _ & th & th' & N & St & Er).
  destruct (Nat.eq_dec r' r) as [Err|Err].
  - subst r'. specialize (NB eq_refl). pose proof (rth_nth_error g r th N) as Eth.
    pose proof (Forall_nth_error _ _ _ _ (gi_r _ G) N) as [_ Rok].
    unfold HInv in *. unfold rth at 1. rewrite (rth_set_same g r th th' _ N Er), Em.
    rewrite Eth in HI, NB. unfold rstep in St.
    destruct (rpcof th) as [|k' h|d i k' h|d i k' h] eqn:Pc; [contradiction| | |].
    + subst k'. unfold lk_from201 in St. injection St as St1 St2. subst th' o. cbn [rpcof].
      split; [|intros _ v Q; discriminate Q]. split; [reflexivity|]. split; [lia|left; reflexivity].
    + destruct HI as (Ek & Hd & D). subst k'. destruct Rok as (Eh & _ & _).
      unfold lk_from202 in St.
      destruct (ctag (getcc (getarr (gmem g) d) i) =? 0) eqn:T0.
      * injection St as St1 St2. subst th' o. cbn [rpcof]. split; [exact I|]. intros _ v Q. discriminate Q.
      * destruct (Z.eqb_spec (ctag (getcc (getarr (gmem g) d) i)) (norm h)) as [T|T];
          injection St as St1 St2; subst th' o; cbn [rpcof]; (split; [|intros _ v Q; discriminate Q]).
        -- split; [reflexivity|]. split; [exact Hd|]. split.
           ++ destruct D as [D|D]; [left; exact D|right; apply all_seen_cons; exact D].
           ++ intros it Hi. apply seen_cons. destruct D as [D|D]; [|apply (D i it Hi)].
              subst d. exists g. split; [exact IH|]. exists i. split; [exact Hi|]. left.
              fold (cur_arr (gmem g)) in T. rewrite T, Eh. apply norm_ge2. apply hashf_nonneg.
        -- split; [reflexivity|]. split; [exact Hd|].
           destruct D as [D|D]; [left; exact D|right; apply all_seen_cons; exact D].
    + destruct HI as (Ek & Hd & D & C). subst k'. unfold lk_from203 in St.
      destruct (citem (getcc (getarr (gmem g) d) i)) as [it|] eqn:Ci.
      * destruct (Z.eqb_spec (ikey it) k) as [K|K]; injection St as St1 St2; subst th' o; cbn [rpcof].
        -- split; [exact I|]. intros _ v Q. injection Q as Q. exists it. split; [exact K|]. split; [exact Q|].
           apply (C it eq_refl).
        -- split; [|intros _ v Q; discriminate Q]. split; [reflexivity|]. split; [exact Hd|].
           destruct D as [D|D]; [left; exact D|right; apply all_seen_cons; exact D].
      * injection St as St1 St2. subst th' o. cbn [rpcof].
        split; [|intros _ v Q; discriminate Q]. split; [reflexivity|]. split; [exact Hd|].
        destruct D as [D|D]; [left; exact D|right; apply all_seen_cons; exact D].
  - split; [|intros Q; exfalso; apply Err; exact Q].
    unfold HInv, rth in *. rewrite Er, Em. rewrite nth_set_nth_other by exact Err.
    destruct (rpcof (nth r (grs g) idle_reader)) as [|k' h|d i k' h|d i k' h]; try exact HI.
    + destruct HI as (Ek & Hd & D). split; [exact Ek|]. split; [exact Hd|].
      destruct D as [D|D]; [left; exact D|right; apply all_seen_cons; exact D].
    + destruct HI as (Ek & Hd & D & C). split; [exact Ek|]. split; [exact Hd|]. split.
      * destruct D as [D|D]; [left; exact D|right; apply all_seen_cons; exact D].
      * intros it Hi. apply seen_cons. apply (C it Hi).
Qed.

(* --- executions as state sequences --- *)

Definition step_or_stay (g : gstate) (t : nat) : gstate :=
  match lstep g t with Some (g1, _) => g1 | None => g end.
Fixpoint ltrace (g : gstate) (sch : list nat) : list gstate :=
  match sch with [] => [g] | t :: r => g :: ltrace (step_or_stay g t) r end.
Definition lfinal (g : gstate) (sch : list nat) : gstate := fold_left step_or_stay sch g.

Lemma lfinal_lrun : forall sch g, lfinal g sch = fst (lrun g sch).
Proof.
  induction sch as [|t r IH]; intros g; [reflexivity|]. cbn [lfinal fold_left lrun]. unfold step_or_stay at 2.
  destruct (lstep g t) as [[g1 o]|].
  - fold (lfinal g1 r). rewrite IH. destruct (lrun g1 r). reflexivity.
  - fold (lfinal g r). rewrite IH. destruct (lrun g r). reflexivity.
Qed.

Lemma ltrace_head g sch : In g (ltrace g sch).
Proof. destruct sch; left; reflexivity. Qed.

Lemma ltrace_final : forall sch g, In (lfinal g sch) (ltrace g sch).
Proof.
  induction sch as [|t r IH]; intros g; [left; reflexivity|]. cbn [lfinal fold_left ltrace]. right. apply IH.
Qed.

Lemma ginv_lfinal g sch : GInv g -> GInv (lfinal g sch).
Proof. intros G. rewrite lfinal_lrun. apply ginv_lrun. exact G. Qed.

Lemma reachable_lfinal : forall sch g, reachable g -> reachable (lfinal g sch).
Proof.
  induction sch as [|t r IH]; intros g R; [exact R|]. cbn [lfinal fold_left]. apply IH.
  unfold step_or_stay. destruct (lstep g t) as [[g1 o]|] eqn:E; [apply (reachable_step g t g1 o R E)|exact R].
Qed.

(* thread r across a step of thread t *)
Lemma rth_step g t g' o r :
  lstep g t = Some (g', o) ->
  (t <> S r /\ rth g' r = rth g r) \/
  (t = S r /\ rstep (gmem g) (rth g r) = Some (rth g' r, o)).
Proof.
  intros E. destruct t as [|r'].
  - left. split; [discriminate|]. destruct (lstep_writer g g' o E) as (_ & Er & _). unfold rth. rewrite Er. reflexivity.
  - destruct (lstep_reader g r' g' o E) as (_ & _ & th & th' & N & St & Er).
    destruct (Nat.eq_dec r' r) as [Q|Q].
    + subst r'. right. split; [reflexivity|]. rewrite (rth_nth_error g r th N). unfold rth.
      rewrite (rth_set_same g r th th' _ N Er). exact St.
    + left. split; [intros Z; apply Q; injection Z as Z; exact Z|]. unfold rth. rewrite Er.
      apply nth_set_nth_other. exact Q.
Qed.

Lemma rstep_script m th th' o :
  rstep m th = Some (th', o) ->
  (rpcof th = RB /\ exists k h, rscript th = RLookup k h :: rscript th' /\ rpcof th' = R201 k h) \/
  (rpcof th <> RB /\ rscript th' = rscript th).
Proof.
  unfold rstep. intros E. destruct (rpcof th) as [|k h|d i k h|d i k h].
  - left. split; [reflexivity|]. destruct (rscript th) as [|[k h] rest]; [discriminate E|].
    injection E as E _. subst th'. exists k, h. split; reflexivity.
  - right. split; [discriminate|]. destruct (lk_from201 m h); injection E as E _; subst th'; reflexivity.
  - right. split; [discriminate|]. destruct (lk_from202 m d i h); injection E as E _; subst th'; reflexivity.
  - right. split; [discriminate|]. destruct (lk_from203 m d i k); injection E as E _; subst th'; reflexivity.
Qed.

Lemma HInv_mono r k H H' g : (forall x, In x H -> In x H') -> HInv r k H g -> HInv r k H' g.
Proof.
  intros Sub. assert (S1 : forall it, seen H it -> seen H' it).
  { intros it (gj & I & A). exists gj. split; [apply Sub; exact I|exact A]. }
  unfold HInv. destruct (rpcof (rth g r)) as [|k' h|d i k' h|d i k' h]; try (intros Q; exact Q).
  - intros (Ek & Hd & D). split; [exact Ek|]. split; [exact Hd|].
    destruct D as [D|D]; [left; exact D|right; intros s it Hi; apply S1; apply (D s it Hi)].
  - intros (Ek & Hd & D & C). split; [exact Ek|]. split; [exact Hd|]. split.
    + destruct D as [D|D]; [left; exact D|right; intros s it Hi; apply S1; apply (D s it Hi)].
    + intros it Hi. apply S1. apply (C it Hi).
Qed.

(* --- a generic "reader r is inside ITS lookup of k" tracker, for any history invariant --- *)
Section Phase.
Variables (r : nat) (k : Z) (Inv : list gstate -> gstate -> Prop).
Hypothesis Inv_start : forall H g h, GInv g -> In g H -> rpcof (rth g r) = R201 k h -> Inv H g.
Hypothesis Inv_step : forall H g t g' o,
  GInv g -> In g H -> Inv H g -> lstep g t = Some (g', o) -> (t = S r -> rpcof (rth g r) <> RB) ->
  Inv (g' :: H) g'.

(* where reader r stands with respect to its lookup "RLookup k h" whose remaining script is rest *)
Definition Ph (h : Z) (rest : list rop) (H : list gstate) (g : gstate) : Prop :=
  (rpcof (rth g r) = RB /\ rscript (rth g r) = RLookup k h :: rest) \/
  (rpcof (rth g r) <> RB /\ rscript (rth g r) = rest /\ Inv H g) \/
  ((length (rscript (rth g r)) < length rest)%nat \/
   (rpcof (rth g r) = RB /\ length (rscript (rth g r)) = length rest)).

Lemma ph_step h rest H g t g' o :
  GInv g -> In g H -> Ph h rest H g -> lstep g t = Some (g', o) -> Ph h rest (g' :: H) g'.
Proof.
  intros G IH P E. destruct (rth_step g t g' o r E) as [[Nt Eth]|[Et St]].
  - destruct P as [[P1 P2]|[(P1 & P2 & P3)|P]].
    + left. rewrite Eth. split; assumption.
    + right. left. rewrite Eth. split; [exact P1|]. split; [exact P2|].
      apply (Inv_step H g t g' o G IH P3 E). intros Q. contradiction.
    + right. right. rewrite Eth. exact P.
  - subst t. destruct (rstep_script _ _ _ _ St) as [(Pc & k0 & h0 & Sc & Pc')|(Pc & Sc)].
    + destruct P as [[P1 P2]|[(P1 & P2 & P3)|P]].
      * right. left. rewrite Sc in P2. injection P2 as Q1 Q2 Q3. subst k0 h0.
        split; [rewrite Pc'; discriminate|]. split; [exact Q3|].
        apply (Inv_start (g' :: H) g' h (ginv_step g (S r) g' o G E) (or_introl eq_refl) Pc').
      * contradiction.
      * right. right. left. rewrite Sc in P. cbn [length] in P. destruct P as [P|[_ P]]; lia.
    + destruct P as [[P1 P2]|[(P1 & P2 & P3)|P]].
      * contradiction.
      * pose proof (Inv_step H g (S r) g' o G IH P3 E (fun _ => P1)) as HI'.
        destruct (rpcof (rth g' r)) eqn:Pc'.
        -- right. right. right. split; [exact Pc'|]. rewrite Sc, P2. reflexivity.
        -- right. left. split; [rewrite Pc'; discriminate|]. split; [rewrite Sc; exact P2|exact HI'].
        -- right. left. split; [rewrite Pc'; discriminate|]. split; [rewrite Sc; exact P2|exact HI'].
        -- right. left. split; [rewrite Pc'; discriminate|]. split; [rewrite Sc; exact P2|exact HI'].
      * right. right. rewrite Sc. destruct P as [P|[P _]]; [left; exact P|contradiction].
Qed.

Lemma ph_run h rest : forall sch g H,
  GInv g -> In g H -> Ph h rest H g ->
  exists H', (forall x, In x H' -> In x H \/ In x (ltrace g sch)) /\ In (lfinal g sch) H' /\
             Ph h rest H' (lfinal g sch).
Proof.
  induction sch as [|t s IH]; intros g H G IH0 P.
  - exists H. split; [intros x I; left; exact I|]. split; [exact IH0|exact P].
  - cbn [lfinal fold_left ltrace]. fold (lfinal (step_or_stay g t) s).
    destruct (lstep g t) as [[g1 o]|] eqn:E.
    + assert (Es : step_or_stay g t = g1) by (unfold step_or_stay; rewrite E; reflexivity). rewrite Es.
      destruct (IH g1 (g1 :: H) (ginv_step g t g1 o G E) (or_introl eq_refl) (ph_step h rest H g t g1 o G IH0 P E))
        as (H' & Sub & Fin & P').
      exists H'. split; [|split; assumption].
      intros x I. destruct (Sub x I) as [[Q|Q]|Q].
      * subst x. right. right. apply ltrace_head.
      * left. exact Q.
      * right. right. exact Q.
    + assert (Es : step_or_stay g t = g) by (unfold step_or_stay; rewrite E; reflexivity). rewrite Es.
      destruct (IH g H G IH0 P) as (H' & Sub & Fin & P').
      exists H'. split; [|split; assumption].
      intros x I. destruct (Sub x I) as [Q|Q]; [left; exact Q|right; right; exact Q].
Qed.

(* the lookup is still in progress at the end of sch: the invariant holds there *)
Lemma ph_inside h rest g0 sch :
  GInv g0 -> rpcof (rth g0 r) = RB -> rscript (rth g0 r) = RLookup k h :: rest ->
  rpcof (rth (lfinal g0 sch) r) <> RB -> rscript (rth (lfinal g0 sch) r) = rest ->
  exists H', (forall x, In x H' -> In x (ltrace g0 sch)) /\ In (lfinal g0 sch) H' /\ Inv H' (lfinal g0 sch).
Proof.
  intros G Pc Sc Pc1 Sc1.
  destruct (ph_run h rest sch g0 [g0] G (or_introl eq_refl) (or_introl (conj Pc Sc))) as (H' & Sub & Fin & P).
  destruct P as [[P _]|[(_ & _ & HI)|P]].
  - contradiction.
  - exists H'. split; [|split; assumption].
    intros x I. destruct (Sub x I) as [[Q|[]]|Q]; [subst x; apply ltrace_head|exact Q].
  - exfalso. rewrite Sc1 in P. destruct P as [P|[P _]]; [lia|contradiction].
Qed.
End Phase.

Lemma HInv_start r k H g h : GInv g -> In g H -> rpcof (rth g r) = R201 k h -> HInv r k H g.
Proof. intros _ _ Pc. unfold HInv. rewrite Pc. reflexivity. Qed.

Lemma HInv_step r k H g t g' o :
  GInv g -> In g H -> HInv r k H g -> lstep g t = Some (g', o) -> (t = S r -> rpcof (rth g r) <> RB) ->
  HInv r k (g' :: H) g'.
Proof.
  intros G IH HI E NB. destruct t as [|r'].
  - apply (hinv_wstep r k H g g' o G IH HI E).
  - apply (hinv_rstep r k H g r' g' o G IH HI E). intros Q. apply NB. rewrite Q. reflexivity.
Qed.

(* Theorem 2, hit clause (with Theorem 3's content: key and value are the two fields of ONE item).
   g0 is any reachable state in which reader r is at an operation boundary with "Lookup k h" next.
   Whatever happens next (any schedule sch, any number of writer operations), if r is still inside
   that lookup at the end of sch and its next step returns a hit with value v, then there is an item
   object `it` with ikey it = k and ival it = v that was installed in the current array (published, or
   its inserting op had done its first store) in at least one of the states visited since g0:
   the lookup overlaps the item's lifetime. *)
Theorem reader_sound_hit g0 r k h rest sch g2 v :
  reachable g0 ->
  rpcof (rth g0 r) = RB -> rscript (rth g0 r) = RLookup k h :: rest ->
  rpcof (rth (lfinal g0 sch) r) <> RB -> rscript (rth (lfinal g0 sch) r) = rest ->
  lstep (lfinal g0 sch) (S r) = Some (g2, [0; 1; v]) ->
  exists it, ikey it = k /\ ival it = v /\ exists gj, In gj (ltrace g0 sch) /\ alive_in it gj.
Proof.
  intros R Pc Sc Pc1 Sc1 E. pose proof (ginv_reachable g0 R) as G.
  destruct (ph_inside r k (HInv r k) (HInv_start r k) (HInv_step r k) h rest g0 sch G Pc Sc Pc1 Sc1)
    as (H' & Sub & Fin & HI).
  destruct (hinv_rstep r k H' _ r g2 _ (ginv_lfinal g0 sch G) Fin HI E (fun _ => Pc1)) as [_ Res].
  destruct (Res eq_refl v eq_refl) as (it & K & V & gj & I & A).
  exists it. split; [exact K|]. split; [exact V|]. exists gj. split; [apply Sub; exact I|exact A].
Qed.

(* ------------------------------------------------------------------ *)
(** * Theorem 2 (misses): a miss saw an instant at which the key was absent *)
(* ------------------------------------------------------------------ *)

Definition absent_cur (k : Z) (g : gstate) : Prop :=
  forall p it, published (cur_arr (gmem g)) p it -> ikey it <> k.
Definition witnessed (H : list gstate) (k : Z) : Prop := exists gj, In gj H /\ absent_cur k gj.

Definition cahead (a : list ccell) (i p : nat) : Prop :=
  exists e, iter_next (length a) e i = p /\
            forall j, (j < e)%nat -> ctag (getcc a (iter_next (length a) j i)) <> 0.
Definition key_ahead (a : list ccell) (i : nat) (k : Z) : Prop :=
  exists p x, published a p x /\ ikey x = k /\ cahead a i p.

Definition MInv (r : nat) (k : Z) (H : list gstate) (g : gstate) : Prop :=
  match rpcof (rth g r) with
  | RB => True
  | R201 k' _ => k' = k
  | R202 d i k' _ | R203 d i k' _ =>
      k' = k /\ (d <= data (gmem g))%nat /\ (witnessed H k \/ key_ahead (getarr (gmem g) d) i k)
  end.

Lemma witnessed_cons H g k : witnessed H k -> witnessed (g :: H) k.
Proof. intros (gj & I & A). exists gj. split; [right; exact I|exact A]. Qed.

Lemma key_dec a k :
  AWF a -> (exists p x, published a p x /\ ikey x = k) \/ (forall p x, published a p x -> ikey x <> k).
Proof.
  intros A. destruct (amapl (absl a) k) as [x|] eqn:E.
  - left. apply amapl_some in E. destruct E as [[p G] K]. exists p, x. split; [|exact K].
    rewrite getc_absl in G. unfold abs_cell in G. pose proof (aw_tagnn _ A p) as NN.
    destruct (Z.eqb_spec (ctag (getcc a p)) 0); [discriminate G|].
    destruct (Z.eqb_spec (ctag (getcc a p)) 1); [discriminate G|].
    destruct (citem (getcc a p)) as [y|] eqn:Ci; [|discriminate G]. injection G as G. subst y.
    split; [lia|exact Ci].
  - right. intros p x Pb. apply (amapl_none _ _ x E). exists p. apply abs_cell_published. exact Pb.
Qed.

Lemma cahead_home a p x k :
  AWF a -> published a p x -> ikey x = k -> cahead a (home_in (length a) (hashf k)) p.
Proof.
  intros A Pb K. destruct (AWF_creach a p x A Pb) as (d & _ & E & W).
  destruct Pb as [_ Ci]. pose proof (aw_icons _ A p x Ci) as Cx. unfold consistent in Cx.
  rewrite Cx, K in E, W. exists d. split; assumption.
Qed.

Lemma cahead_advance a i p : cahead a i p -> p <> i -> cahead a (next_in (length a) i) p.
Proof.
  intros (e & E & W) N. destruct e as [|e]; [cbn [iter_next] in E; congruence|].
  exists e. split; [exact E|]. intros j Hj. apply (W (S j)). lia.
Qed.

Lemma cahead_here a i p : cahead a i p -> ctag (getcc a i) = 0 -> p = i.
Proof.
  intros (e & E & W) T. destruct e as [|e]; [symmetry; exact E|]. exfalso. apply (W O); [lia|exact T].
Qed.

(* a non-publishing writer segment either keeps "k is published ahead of the reader" or makes k absent *)
Lemma key_ahead_after m pc i k :
  AWF (cur_arr m) -> weffect_facts m pc -> ~ data_pc pc -> key_ahead (cur_arr m) i k ->
  key_ahead (arr_after (cur_arr m) pc) i k \/
  (forall q y, published (arr_after (cur_arr m) pc) q y -> ikey y <> k).
Proof.
  intros A WF ND (p & x & [Tp Ip] & K & (e & E & W)). set (a := cur_arr m) in *.
  (* is the segment the tag store of the removal of p ? *)
  destruct (arr_after_tag a pc p) as [Tsame|[Lp TS]].
  - left.
    assert (Ip' : exists x', citem (getcc (arr_after a pc) p) = Some x' /\ ikey x' = k).
    { destruct pc; cbn [arr_after]; try (exists x; split; assumption);
        try (rewrite citem_set_tag; exists x; split; assumption); cbn [weffect_facts] in WF; fold a in WF;
        rewrite citem_set_item;
        match goal with |- context [Nat.eqb ?s p] => destruct (Nat.eqb_spec s p) as [Q|Q]; cbn [andb] end;
        try (exists x; split; assumption); rewrite <- Q in *.
      - destruct WF as (_ & T & _). lia.
      - destruct WF as (old & L & _ & Io & Ko). apply Nat.ltb_lt in L. rewrite L. rewrite Ip in Io. injection Io as Io. subst old.
        exists it. split; [reflexivity|]. rewrite Ko. exact K.
      - destruct WF as (_ & old & L & _ & Io & Ko). apply Nat.ltb_lt in L. rewrite L. rewrite Ip in Io. injection Io as Io. subst old.
        exists it. split; [reflexivity|]. rewrite Ko. exact K.
      - destruct WF as (_ & T & _). lia.
      - destruct WF as (_ & T). lia. }
    destruct Ip' as (x' & Ix' & Kx').
    exists p, x'. split; [split; [rewrite Tsame; exact Tp|exact Ix']|]. split; [exact Kx'|].
    exists e. rewrite length_arr_after. split; [exact E|]. intros j Hj.
    destruct (arr_after_tag a pc (iter_next (length a) j i)) as [Ts|[_ TS]]; [rewrite Ts; apply (W j Hj)|].
    unfold tag_store_pc in TS. destruct TS as [(it & Epc & V)|[(it & wt & Epc & V)|[[Epc V]|[Epc V]]]]; rewrite V.
    + rewrite Epc in WF. cbn [weffect_facts] in WF. destruct WF as (_ & _ & _ & N2). lia.
    + rewrite Epc in WF. cbn [weffect_facts] in WF. destruct WF as (_ & _ & _ & N2). lia.
    + lia.
    + exfalso. rewrite Epc in WF. cbn [weffect_facts] in WF. fold a in WF. destruct WF as (_ & _ & _ & Tn).
      assert (En : next_in (length a) (iter_next (length a) j i) = iter_next (length a) (S j) i)
        by (rewrite iter_next_S; reflexivity).
      rewrite En in Tn. destruct (Nat.eq_dec (S j) e) as [Q|Q].
      * rewrite Q, E in Tn. lia.
      * apply (W (S j)); [lia|exact Tn].
  - unfold tag_store_pc in TS. destruct TS as [(it & Epc & V)|[(it & wt & Epc & V)|[[Epc V]|[Epc V]]]].
    + exfalso. rewrite Epc in WF. cbn [weffect_facts] in WF. fold a in WF. destruct WF as (_ & T & _). lia.
    + exfalso. rewrite Epc in WF. cbn [weffect_facts] in WF. fold a in WF. destruct WF as (_ & T & _). lia.
    + right. rewrite Epc in *. cbn [arr_after] in *. intros q y [Tq Iq] Ky.
      rewrite citem_set_tag in Iq. rewrite ctag_set_tag in Tq.
      destruct (Nat.eqb_spec p q) as [Q|Q]; cbn [andb] in Tq.
      * apply Nat.ltb_lt in Lp. rewrite Lp in Tq. lia.
      * apply Q. apply (aw_items _ A p q x y Ip Iq). rewrite K, Ky. reflexivity.
    + exfalso. rewrite Epc in WF. cbn [weffect_facts] in WF. fold a in WF. destruct WF as (_ & T & _). lia.
Qed.

Lemma minv_wstep r k H g g' o :
  GInv g -> In g H -> MInv r k H g -> lstep g O = Some (g', o) -> MInv r k (g' :: H) g'.
Proof.
  intros G IH MI E. destruct (wview g g' o G E) as (Er & WF & V).
  unfold MInv, rth in *. rewrite Er.
  assert (Core : forall d i, (d <= data (gmem g))%nat ->
            (witnessed H k \/ key_ahead (getarr (gmem g) d) i k) ->
            (d <= data (gmem g'))%nat /\ (witnessed (g' :: H) k \/ key_ahead (getarr (gmem g') d) i k)).
  { intros d i Hd [Wt|KA]; [split; [destruct V as [(_ & Ed & _)|(_ & Ed & _)]; lia|left; apply witnessed_cons; exact Wt]|].
    destruct V as [(ND & Ed & Ec & Eo)|(_ & Ed & Eo & Q)].
    - rewrite Ed. split; [exact Hd|]. destruct (Nat.eq_dec d (data (gmem g))) as [E0|E0].
      + subst d. fold (cur_arr (gmem g)) in KA. rewrite <- Ed. fold (cur_arr (gmem g')). rewrite Ec.
        destruct (key_ahead_after (gmem g) (gwpc g) i k (all_awf g _ G (le_n _)) WF ND KA) as [KA'|Ab].
        * right. exact KA'.
        * left. exists g'. split; [left; reflexivity|]. unfold absent_cur. rewrite Ec. exact Ab.
      + right. rewrite (Eo d E0). exact KA.
    - rewrite Ed. split; [lia|]. right. rewrite (Eo d Hd). exact KA. }
  destruct (rpcof (nth r (grs g) idle_reader)) as [|k' h|d i k' h|d i k' h]; try exact MI.
  - destruct MI as (Ek & Hd & D). destruct (Core d i Hd D) as [C1 C2]. split; [exact Ek|]. split; assumption.
  - destruct MI as (Ek & Hd & D). destruct (Core d i Hd D) as [C1 C2]. split; [exact Ek|]. split; assumption.
Qed.

Lemma minv_rstep r k H g r' g' o :
  GInv g -> In g H -> MInv r k H g -> lstep g (S r') = Some (g', o) ->
  (r' = r -> rpcof (rth g r) <> RB) ->
  MInv r k (g' :: H) g' /\ (r' = r -> o = [0; 0; 0] -> witnessed H k).
Proof.
  intros G IH MI E NB. destruct (lstep_reader g r' g' o E) as (Em & _ & th & th' & N & St & Er).
  destruct (Nat.eq_dec r' r) as [Err|Err].
  - subst r'. specialize (NB eq_refl). pose proof (rth_nth_error g r th N) as Eth.
    pose proof (Forall_nth_error _ _ _ _ (gi_r _ G) N) as [_ Rok].
    unfold MInv in *. unfold rth at 1. rewrite (rth_set_same g r th th' _ N Er), Em.
    rewrite Eth in MI, NB. unfold rstep in St.
    destruct (rpcof th) as [|k' h|d i k' h|d i k' h] eqn:Pc; [contradiction| | |].
    + subst k'. unfold lk_from201 in St. injection St as St1 St2. subst th' o. cbn [rpcof].
      split; [|intros _ Q; discriminate Q]. split; [reflexivity|]. split; [lia|].
      pose proof (all_awf g _ G (le_n _)) as A. fold (cur_arr (gmem g)) in *.
      destruct (key_dec (cur_arr (gmem g)) k A) as [(p & x & Pb & K)|Ab].
      * right. exists p, x. split; [exact Pb|]. split; [exact K|]. rewrite Rok. apply (cahead_home _ p x k A Pb K).
      * left. apply witnessed_cons. exists g. split; [exact IH|exact Ab].
    + destruct MI as (Ek & Hd & D). subst k'. destruct Rok as (Eh & _ & _).
      pose proof (all_awf g d G Hd) as A. set (a := getarr (gmem g) d) in *.
      unfold lk_from202 in St. fold a in St.
      destruct (Z.eqb_spec (ctag (getcc a i)) 0) as [T0|T0].
      * injection St as St1 St2. subst th' o. cbn [rpcof]. split; [exact I|]. intros _ _.
        destruct D as [D|(p & x & [Tp Ip] & K & CA)]; [exact D|]. exfalso.
        rewrite (cahead_here a i p CA T0) in Tp. lia.
      * destruct (Z.eqb_spec (ctag (getcc a i)) (norm h)) as [T|T];
          injection St as St1 St2; subst th' o; cbn [rpcof]; (split; [|intros _ Q; discriminate Q]).
        -- split; [reflexivity|]. split; [exact Hd|].
           destruct D as [D|D]; [left; apply witnessed_cons; exact D|right; exact D].
        -- split; [reflexivity|]. split; [exact Hd|].
           destruct D as [D|(p & x & [Tp Ip] & K & CA)]; [left; apply witnessed_cons; exact D|].
           right. exists p, x. split; [split; assumption|]. split; [exact K|].
           apply cahead_advance; [exact CA|]. intros Q. subst p. apply T.
           destruct (aw_tag _ A i Tp) as (y & Iy & Ty). rewrite Ip in Iy. injection Iy as Iy. subst y.
           rewrite Ty. unfold ntag. pose proof (aw_icons _ A i x Ip) as Cx. unfold consistent in Cx.
           rewrite Cx, K, Eh. reflexivity.
    + destruct MI as (Ek & Hd & D). subst k'.
      set (a := getarr (gmem g) d) in *. unfold lk_from203 in St. fold a in St.
      assert (Adv : (forall x, citem (getcc a i) = Some x -> ikey x <> k) ->
                    witnessed (g' :: H) k \/ key_ahead a (next_in (length a) i) k).
      { intros NK. destruct D as [D|(p & x & [Tp Ip] & K & CA)]; [left; apply witnessed_cons; exact D|].
        right. exists p, x. split; [split; assumption|]. split; [exact K|].
        apply cahead_advance; [exact CA|]. intros Q. subst p. apply (NK x Ip K). }
      destruct (citem (getcc a i)) as [it|] eqn:Ci.
      * destruct (Z.eqb_spec (ikey it) k) as [K|K]; injection St as St1 St2; subst th' o; cbn [rpcof].
        -- split; [exact I|]. intros _ Q. discriminate Q.
        -- split; [|intros _ Q; discriminate Q]. split; [reflexivity|]. split; [exact Hd|].
           apply Adv. intros x Q. injection Q as Q. subst x. exact K.
      * injection St as St1 St2. subst th' o. cbn [rpcof].
        split; [|intros _ Q; discriminate Q]. split; [reflexivity|]. split; [exact Hd|].
        apply Adv. intros x Q. discriminate Q.
  - split; [|intros Q; exfalso; apply Err; exact Q].
    unfold MInv, rth in *. rewrite Er, Em. rewrite nth_set_nth_other by exact Err.
    destruct (rpcof (nth r (grs g) idle_reader)) as [|k' h|d i k' h|d i k' h]; try exact MI.
    + destruct MI as (Ek & Hd & D). split; [exact Ek|]. split; [exact Hd|].
      destruct D as [D|D]; [left; apply witnessed_cons; exact D|right; exact D].
    + destruct MI as (Ek & Hd & D). split; [exact Ek|]. split; [exact Hd|].
      destruct D as [D|D]; [left; apply witnessed_cons; exact D|right; exact D].
Qed.

Lemma MInv_start r k H g h : GInv g -> In g H -> rpcof (rth g r) = R201 k h -> MInv r k H g.
Proof. intros _ _ Pc. unfold MInv. rewrite Pc. reflexivity. Qed.

Lemma MInv_step r k H g t g' o :
  GInv g -> In g H -> MInv r k H g -> lstep g t = Some (g', o) -> (t = S r -> rpcof (rth g r) <> RB) ->
  MInv r k (g' :: H) g'.
Proof.
  intros G IH MI E NB. destruct t as [|r'].
  - apply (minv_wstep r k H g g' o G IH MI E).
  - apply (minv_rstep r k H g r' g' o G IH MI E). intros Q. apply NB. rewrite Q. reflexivity.
Qed.

(* Theorem 2, miss clause: if the lookup returns a miss, then in at least one of the states visited
   between the reader's first step and its return, key k had no published cell in the current array
   (the array the reader was using at that instant, or the array that had replaced it: an array that
   is replaced is frozen, so "k is published ahead of the reader in its snapshot" persists). *)
Theorem reader_sound_miss g0 r k h rest sch g2 :
  reachable g0 ->
  rpcof (rth g0 r) = RB -> rscript (rth g0 r) = RLookup k h :: rest ->
  rpcof (rth (lfinal g0 sch) r) <> RB -> rscript (rth (lfinal g0 sch) r) = rest ->
  lstep (lfinal g0 sch) (S r) = Some (g2, [0; 0; 0]) ->
  exists gj, In gj (ltrace g0 sch) /\ absent_cur k gj.
Proof.
  intros R Pc Sc Pc1 Sc1 E. pose proof (ginv_reachable g0 R) as G.
  destruct (ph_inside r k (MInv r k) (MInv_start r k) (MInv_step r k) h rest g0 sch G Pc Sc Pc1 Sc1)
    as (H' & Sub & Fin & MI).
  destruct (minv_rstep r k H' _ r g2 _ (ginv_lfinal g0 sch G) Fin MI E (fun _ => Pc1)) as [_ Res].
  destruct (Res eq_refl eq_refl) as (gj & I & A). exists gj. split; [apply Sub; exact I|exact A].
Qed.

(* --- corollaries of Theorem 2 --- *)

Lemma ginv_ltrace : forall sch g gj, GInv g -> In gj (ltrace g sch) -> GInv gj.
Proof.
  induction sch as [|t s IH]; intros g gj G I; cbn [ltrace] in I.
  - destruct I as [I|[]]. subst gj. exact G.
  - destruct I as [I|I]; [subst gj; exact G|]. apply (IH (step_or_stay g t) gj); [|exact I].
    unfold step_or_stay. destruct (lstep g t) as [[g1 o]|] eqn:E; [apply (ginv_step g t g1 o G E)|exact G].
Qed.

Lemma rstep_completion m th th' o :
  rstep m th = Some (th', o) -> rpcof th <> RB -> rpcof th' = RB -> o = [0; 0; 0] \/ exists v, o = [0; 1; v].
Proof.
  unfold rstep. intros E NB B. destruct (rpcof th) as [|k h|d i k h|d i k h]; [contradiction| | |].
  - destruct (lk_from201 m h); injection E as E1 E2; subst th' o; cbn [rpcof] in B; try discriminate B;
      [left; reflexivity|right; eexists; reflexivity].
  - destruct (lk_from202 m d i h); injection E as E1 E2; subst th' o; cbn [rpcof] in B; try discriminate B;
      [left; reflexivity|right; eexists; reflexivity].
  - destruct (lk_from203 m d i k); injection E as E1 E2; subst th' o; cbn [rpcof] in B; try discriminate B;
      [left; reflexivity|right; eexists; reflexivity].
Qed.

Lemma lookup_completion g r g2 o :
  lstep g (S r) = Some (g2, o) -> rpcof (rth g r) <> RB -> rpcof (rth g2 r) = RB ->
  o = [0; 0; 0] \/ exists v, o = [0; 1; v].
Proof.
  intros E NB B. destruct (rth_step g (S r) g2 o r E) as [[N _]|[_ St]]; [exfalso; apply N; reflexivity|].
  apply (rstep_completion _ _ _ _ St NB B).
Qed.

(* a key resident with the same item x during the whole lookup is found, with that very item *)
Corollary resident_key_found g0 r k h rest sch g2 o x :
  reachable g0 ->
  rpcof (rth g0 r) = RB -> rscript (rth g0 r) = RLookup k h :: rest ->
  rpcof (rth (lfinal g0 sch) r) <> RB -> rscript (rth (lfinal g0 sch) r) = rest ->
  lstep (lfinal g0 sch) (S r) = Some (g2, o) -> rpcof (rth g2 r) = RB ->
  ikey x = k -> (forall gj, In gj (ltrace g0 sch) -> exists p, published (cur_arr (gmem gj)) p x) ->
  o = [0; 1; ival x].
Proof.
  intros R Pc Sc Pc1 Sc1 E B K Res.
  destruct (lookup_completion _ r g2 o E Pc1 B) as [Eo|[v Eo]]; subst o.
  - exfalso. destruct (reader_sound_miss g0 r k h rest sch g2 R Pc Sc Pc1 Sc1 E) as (gj & I & Ab).
    destruct (Res gj I) as [p Pb]. apply (Ab p x Pb K).
  - destruct (reader_sound_hit g0 r k h rest sch g2 v R Pc Sc Pc1 Sc1 E) as (it & Ki & Vi & gj & I & (s & Ci & _)).
    destruct (Res gj I) as [p [_ Cp]].
    pose proof (all_awf gj _ (ginv_ltrace sch g0 gj (ginv_reachable g0 R) I) (le_n _)) as A.
    fold (cur_arr (gmem gj)) in A.
    assert (Esp : s = p) by (apply (aw_items _ A s p it x Ci Cp); rewrite Ki, K; reflexivity).
    subst s. rewrite Ci in Cp. injection Cp as Cp. subst it. rewrite Vi. reflexivity.
Qed.

(* no resurrection, no phantom: a key with no installed item during the whole lookup is not found *)
Corollary absent_key_not_found g0 r k h rest sch g2 o :
  reachable g0 ->
  rpcof (rth g0 r) = RB -> rscript (rth g0 r) = RLookup k h :: rest ->
  rpcof (rth (lfinal g0 sch) r) <> RB -> rscript (rth (lfinal g0 sch) r) = rest ->
  lstep (lfinal g0 sch) (S r) = Some (g2, o) -> rpcof (rth g2 r) = RB ->
  (forall gj it, In gj (ltrace g0 sch) -> alive_in it gj -> ikey it <> k) ->
  o = [0; 0; 0].
Proof.
  intros R Pc Sc Pc1 Sc1 E B Ab.
  destruct (lookup_completion _ r g2 o E Pc1 B) as [Eo|[v Eo]]; subst o; [reflexivity|].
  exfalso. destruct (reader_sound_hit g0 r k h rest sch g2 v R Pc Sc Pc1 Sc1 E) as (it & Ki & _ & gj & I & Al).
  apply (Ab gj it I Al Ki).
Qed.

(* a lookup never returns an item of another key, even when tags collide: whatever it returns is the
   value field of an item whose key field is the requested key (one object, Theorem 3) *)
Corollary never_wrong_key g0 r k h rest sch g2 v :
  reachable g0 ->
  rpcof (rth g0 r) = RB -> rscript (rth g0 r) = RLookup k h :: rest ->
  rpcof (rth (lfinal g0 sch) r) <> RB -> rscript (rth (lfinal g0 sch) r) = rest ->
  lstep (lfinal g0 sch) (S r) = Some (g2, [0; 1; v]) ->
  exists it, ikey it = k /\ ival it = v.
Proof.
  intros R Pc Sc Pc1 Sc1 E.
  destruct (reader_sound_hit g0 r k h rest sch g2 v R Pc Sc Pc1 Sc1 E) as (it & K & V & _).
  exists it. split; assumption.
Qed.

(* ------------------------------------------------------------------ *)
(** * Theorem 4: a lookup probes at most n * (w + 1) slots               *)
(* ------------------------------------------------------------------ *)

(* e is the distance from slot i to the first empty slot of array a *)
Definition FE (a : list ccell) (n i e : nat) : Prop :=
  ctag (getcc a (iter_next n e i)) = 0 /\ forall j, (j < e)%nat -> ctag (getcc a (iter_next n j i)) <> 0.

Lemma FE_first a n : forall d i, ctag (getcc a (iter_next n d i)) = 0 -> exists e, (e <= d)%nat /\ FE a n i e.
Proof.
  induction d as [|d IH]; intros i T.
  - exists O. split; [lia|]. split; [exact T|]. intros j Hj. lia.
  - destruct (Z.eq_dec (ctag (getcc a i)) 0) as [Z0|Z0].
    + exists O. split; [lia|]. split; [exact Z0|]. intros j Hj. lia.
    + cbn [iter_next] in T. destruct (IH (next_in n i) T) as (e & He & T' & W').
      exists (S e). split; [lia|]. split; [exact T'|]. intros j Hj. destruct j as [|j]; [exact Z0|].
      cbn [iter_next]. apply W'. lia.
Qed.

Lemma FE_exists a i : AWF a -> (i < length a)%nat -> exists e, (e < length a)%nat /\ FE a (length a) i e.
Proof.
  intros A Hi. destruct (aw_empty _ A) as (e0 & He0 & T0).
  destruct (iter_next_covers (length a) i e0 Hi He0) as (d & Hd & Ed).
  rewrite <- Ed in T0. destruct (FE_first a (length a) d i T0) as (e & He & F). exists e. split; [lia|exact F].
Qed.

Lemma FE_advance a n i e :
  FE a n i e -> ctag (getcc a i) <> 0 -> exists e', e = S e' /\ FE a n (next_in n i) e'.
Proof.
  intros [T W] NZ. destruct e as [|e]; [exfalso; apply NZ; exact T|].
  exists e. split; [reflexivity|]. split; [exact T|]. intros j Hj. apply (W (S j)). lia.
Qed.

Definition is_tagload (g : gstate) (r t : nat) : bool :=
  Nat.eqb t (S r) && match rpcof (rth g r) with R202 _ _ _ _ => true | _ => false end.
(* the writer segments that perform a shared store *)
Definition store_pc (pc : wpc) : bool :=
  match pc with WB | W201 _ _ | W202 _ _ _ _ | W203 _ _ _ _ => false | _ => true end.
Definition is_wstore (g : gstate) (t : nat) : bool := Nat.eqb t O && store_pc (gwpc g).

Fixpoint tagloads (r : nat) (g : gstate) (sch : list nat) : nat :=
  match sch with
  | [] => O
  | t :: s => ((if is_tagload g r t then 1 else 0) + tagloads r (step_or_stay g t) s)%nat
  end.
Fixpoint wstores (g : gstate) (sch : list nat) : nat :=
  match sch with
  | [] => O
  | t :: s => ((if is_wstore g t then 1 else 0) + wstores (step_or_stay g t) s)%nat
  end.

Definition TInv (r c w : nat) (g : gstate) : Prop :=
  match rpcof (rth g r) with
  | RB => True
  | R201 _ _ => c = O
  | R202 d i _ _ =>
      let a := getarr (gmem g) d in
      (d <= data (gmem g))%nat /\ (i < length a)%nat /\
      exists e, FE a (length a) i e /\ (c + e + 1 <= length a * (w + 1))%nat
  | R203 d i _ _ =>
      let a := getarr (gmem g) d in
      (d <= data (gmem g))%nat /\ (i < length a)%nat /\
      exists e, FE a (length a) (next_in (length a) i) e /\ (c + e + 1 <= length a * (w + 1))%nat
  end.

Lemma bound_refresh c e n w e' : (c + e + 1 <= n * (w + 1) -> e' < n -> c + e' + 1 <= n * (S w + 1))%nat.
Proof. intros H1 H2. nia. Qed.
Lemma bound_mono c e n w w' : (c + e + 1 <= n * (w + 1) -> w <= w' -> c + e + 1 <= n * (w' + 1))%nat.
Proof. intros H1 H2. nia. Qed.

Lemma arr_after_nostore A pc : store_pc pc = false -> arr_after A pc = A.
Proof. destruct pc; cbn [store_pc arr_after]; try discriminate; reflexivity. Qed.

Lemma tinv_wstep r c w g g' o :
  GInv g -> TInv r c w g -> lstep g O = Some (g', o) ->
  TInv r c (w + (if is_wstore g O then 1 else 0)) g'.
Proof.
  intros G TI E. pose proof (ginv_step g O g' o G E) as G'.
  destruct (wview g g' o G E) as (Er & _ & V).
  unfold TInv, rth in *. rewrite Er. unfold is_wstore. cbn [Nat.eqb andb].
  assert (Core : forall d i,
            (d <= data (gmem g))%nat -> (i < length (getarr (gmem g) d))%nat ->
            (exists e, FE (getarr (gmem g) d) (length (getarr (gmem g) d)) i e /\
                       (c + e + 1 <= length (getarr (gmem g) d) * (w + 1))%nat) ->
            (d <= data (gmem g'))%nat /\ length (getarr (gmem g') d) = length (getarr (gmem g) d) /\
            exists e, FE (getarr (gmem g') d) (length (getarr (gmem g) d)) i e /\
                      (c + e + 1 <= length (getarr (gmem g) d) * (w + (if store_pc (gwpc g) then 1 else 0) + 1))%nat).
  { intros d i Hd Hi (e & F & B).
    assert (Same : getarr (gmem g') d = getarr (gmem g) d -> (d <= data (gmem g'))%nat ->
              (d <= data (gmem g'))%nat /\ length (getarr (gmem g') d) = length (getarr (gmem g) d) /\
              exists e, FE (getarr (gmem g') d) (length (getarr (gmem g) d)) i e /\
                        (c + e + 1 <= length (getarr (gmem g) d) * (w + (if store_pc (gwpc g) then 1 else 0) + 1))%nat).
    { intros Q Hd'. rewrite Q. split; [exact Hd'|]. split; [reflexivity|]. exists e. split; [exact F|].
      apply (bound_mono c e _ w); [exact B|]. destruct (store_pc (gwpc g)); lia. }
    destruct V as [(ND & Ed & Ec & Eo)|(_ & Ed & Eo & _)].
    - destruct (Nat.eq_dec d (data (gmem g))) as [E0|E0].
      + destruct (store_pc (gwpc g)) eqn:SP.
        * subst d. assert (Len : length (getarr (gmem g') (data (gmem g))) = length (getarr (gmem g) (data (gmem g)))).
          { rewrite <- Ed at 1. fold (cur_arr (gmem g')). rewrite Ec. apply length_arr_after. }
          split; [lia|]. split; [exact Len|].
          pose proof (all_awf g' (data (gmem g)) G' ltac:(lia)) as A'.
          destruct (FE_exists _ i A' ltac:(rewrite Len; exact Hi)) as (e' & He' & F').
          rewrite Len in He', F'. exists e'. split; [exact F'|].
          replace (w + 1 + 1)%nat with (S w + 1)%nat by lia. apply (bound_refresh c e _ w e' B He').
        * apply Same; [|lia]. subst d. rewrite <- Ed at 1. fold (cur_arr (gmem g')). rewrite Ec.
          apply arr_after_nostore. exact SP.
      + apply Same; [apply (Eo d E0)|lia].
    - apply Same; [apply (Eo d Hd)|lia]. }
  destruct (rpcof (nth r (grs g) idle_reader)) as [|k h|d i k h|d i k h]; try exact TI.
  - destruct TI as (Hd & Hi & X). destruct (Core d i Hd Hi X) as (C1 & C2 & C3). rewrite C2.
    split; [exact C1|]. split; [exact Hi|exact C3].
  - destruct TI as (Hd & Hi & X).
    destruct (Core d (next_in (length (getarr (gmem g) d)) i) Hd (next_in_lt _ _ Hi) X) as (C1 & C2 & C3).
    rewrite C2. split; [exact C1|]. split; [exact Hi|exact C3].
Qed.

Lemma tinv_rstep r c w g r' g' o :
  GInv g -> TInv r c w g -> lstep g (S r') = Some (g', o) -> rpcof (rth g r) <> RB ->
  TInv r (c + (if is_tagload g r (S r') then 1 else 0)) w g'.
Proof.
  intros G TI E NB. destruct (lstep_reader g r' g' o E) as (Em & _ & th & th' & N & St & Er).
  unfold is_tagload. cbn [Nat.eqb].
  destruct (Nat.eqb_spec r' r) as [Err|Err]; cbn [andb].
  - subst r'. pose proof (rth_nth_error g r th N) as Eth.
    assert (Eg' : rth g' r = th') by (unfold rth; apply (rth_set_same g r th th' _ N Er)).
    unfold TInv in *. rewrite Eg', Em.
    rewrite Eth in TI, NB |- *. unfold rstep in St.
    destruct (rpcof th) as [|k h|d i k h|d i k h] eqn:Pc; [contradiction| | |].
    + subst c. unfold lk_from201 in St. injection St as St1 St2. subst th' o. cbn [rpcof].
      pose proof (all_awf g _ G (le_n _)) as A. set (a := getarr (gmem g) (data (gmem g))) in *.
      assert (Hh : (home_in (length a) h < length a)%nat) by (apply home_in_lt; apply AWF_pos; exact A).
      split; [lia|]. split; [exact Hh|].
      destruct (FE_exists a _ A Hh) as (e & He & F). exists e. split; [exact F|]. nia.
    + destruct TI as (Hd & Hi & e & F & B). set (a := getarr (gmem g) d) in *.
      unfold lk_from202 in St. fold a in St.
      destruct (Z.eqb_spec (ctag (getcc a i)) 0) as [T0|T0].
      * injection St as St1 St2. subst th' o. cbn [rpcof]. exact I.
      * destruct (FE_advance a _ i e F T0) as (e' & Ee & F'). subst e.
        destruct (ctag (getcc a i) =? norm h); injection St as St1 St2; subst th' o; cbn [rpcof]; fold a.
        -- split; [exact Hd|]. split; [exact Hi|]. exists e'. split; [exact F'|]. lia.
        -- split; [exact Hd|]. split; [apply next_in_lt; exact Hi|]. exists e'. split; [exact F'|]. lia.
    + destruct TI as (Hd & Hi & e & F & B). set (a := getarr (gmem g) d) in *.
      unfold lk_from203 in St. fold a in St.
      assert (Adv : TInv r (c + 0) w
                      {| gmem := gmem g; gw := gw g; gwpc := gwpc g; gws := gws g;
                         grs := set_nth (grs g) r {| rpcof := R202 d (next_in (length a) i) k h; rscript := rscript th |};
                         gnextid := gnextid g |}).
      { unfold TInv, rth. cbn [grs gmem]. rewrite (rth_set_same g r th _ _ N eq_refl). cbn [rpcof]. fold a.
        split; [exact Hd|]. split; [apply next_in_lt; exact Hi|]. exists e. split; [exact F|]. lia. }
      unfold TInv, rth in Adv. cbn [grs gmem] in Adv. rewrite (rth_set_same g r th _ _ N eq_refl) in Adv.
      cbn [rpcof] in Adv.
      destruct (citem (getcc a i)) as [it|]; [destruct (ikey it =? k)|];
        injection St as St1 St2; subst th' o; cbn [rpcof]; try exact I; exact Adv.
  - rewrite Nat.add_0_r. unfold TInv, rth in *. rewrite Er, Em. rewrite nth_set_nth_other by exact Err. exact TI.
Qed.

Lemma tagload_steps g r t : is_tagload g r t = true -> lstep g t <> None.
Proof.
  unfold is_tagload. intros H. apply andb_true_iff in H. destruct H as [Et Pc]. apply Nat.eqb_eq in Et. subst t.
  unfold rth in Pc. cbn [lstep]. destruct (nth_error (grs g) r) as [th|] eqn:N.
  - rewrite (nth_error_nth _ _ idle_reader N) in Pc. unfold rstep.
    destruct (rpcof th) as [|k h|d i k h|d i k h]; try discriminate Pc.
    destruct (lk_from202 (gmem g) d i h); discriminate.
  - rewrite (nth_overflow _ idle_reader) in Pc; [discriminate Pc|]. apply nth_error_None. exact N.
Qed.

Lemma wstore_steps g t : is_wstore g t = true -> lstep g t <> None.
Proof.
  unfold is_wstore. intros H. apply andb_true_iff in H. destruct H as [Et Pc]. apply Nat.eqb_eq in Et. subst t.
  cbn [lstep].
  destruct (wstep (gmem g) (gw g) (gwpc g) (gws g)) as [[[[[m' w'] pc'] o'] ws']|] eqn:W; [discriminate|].
  exfalso. unfold wstep in W. destruct (gwpc g); cbn [store_pc] in Pc; try discriminate Pc; discriminate W.
Qed.

Lemma tinv_run r : forall sch g c w,
  GInv g -> TInv r c w g ->
  (forall gj, In gj (ltrace g sch) -> rpcof (rth gj r) <> RB) ->
  TInv r (c + tagloads r g sch) (w + wstores g sch) (lfinal g sch).
Proof.
  induction sch as [|t s IH]; intros g c w G TI In_.
  - cbn [tagloads wstores lfinal fold_left]. rewrite !Nat.add_0_r. exact TI.
  - cbn [tagloads wstores lfinal fold_left]. fold (lfinal (step_or_stay g t) s).
    assert (NB : rpcof (rth g r) <> RB) by (apply In_; apply ltrace_head).
    assert (In' : forall gj, In gj (ltrace (step_or_stay g t) s) -> rpcof (rth gj r) <> RB).
    { intros gj I. apply In_. cbn [ltrace]. right. exact I. }
    destruct (lstep g t) as [[g1 o]|] eqn:E.
    + assert (Es : step_or_stay g t = g1) by (unfold step_or_stay; rewrite E; reflexivity). rewrite Es in *.
      rewrite !Nat.add_assoc. apply (IH g1 _ _ (ginv_step g t g1 o G E)); [|exact In'].
      destruct t as [|r'].
      * assert (Etl : is_tagload g r O = false) by reflexivity. rewrite Etl, Nat.add_0_r.
        apply (tinv_wstep r c w g g1 o G TI E).
      * assert (Ews : is_wstore g (S r') = false) by reflexivity. rewrite Ews, Nat.add_0_r.
        apply (tinv_rstep r c w g r' g1 o G TI E NB).
    + assert (Es : step_or_stay g t = g) by (unfold step_or_stay; rewrite E; reflexivity). rewrite Es in *.
      destruct (is_tagload g r t) eqn:TL; [exfalso; apply (tagload_steps g r t TL E)|].
      destruct (is_wstore g t) eqn:WS; [exfalso; apply (wstore_steps g t WS E)|].
      cbn [Nat.add]. apply (IH g c w G TI In').
Qed.

(* Theorem 4.  g1: reader r has just started a lookup (parked at 201).  As long as it is still inside
   that lookup, the number of tag loads (slots probed) it has done, PLUS ONE for a last one still to
   come, is at most n * (w + 1): n = size of the array it probes, w = number of writer segments that
   performed a shared store meanwhile.  So a lookup probes at most n * (w + 1) slots, and at most n
   when the writer is idle: every array always has an empty cell. *)
Theorem reader_terminates g1 r k h sch d i k' h' :
  reachable g1 -> rpcof (rth g1 r) = R201 k h ->
  (forall gj, In gj (ltrace g1 sch) -> rpcof (rth gj r) <> RB) ->
  (rpcof (rth (lfinal g1 sch) r) = R202 d i k' h' \/ rpcof (rth (lfinal g1 sch) r) = R203 d i k' h') ->
  (tagloads r g1 sch + 1 <= length (getarr (gmem (lfinal g1 sch)) d) * (wstores g1 sch + 1))%nat.
Proof.
  intros R Pc In_ Fin. pose proof (ginv_reachable g1 R) as G.
  assert (TI : TInv r 0 0 g1) by (unfold TInv; rewrite Pc; reflexivity).
  pose proof (tinv_run r sch g1 0 0 G TI In_) as T. cbn [Nat.add] in T. unfold TInv in T.
  destruct Fin as [F|F]; rewrite F in T; cbv zeta in T; destruct T as (_ & _ & e & _ & B); lia.
Qed.

Corollary reader_terminates_idle_writer g1 r k h sch d i k' h' :
  reachable g1 -> rpcof (rth g1 r) = R201 k h ->
  (forall gj, In gj (ltrace g1 sch) -> rpcof (rth gj r) <> RB) ->
  (rpcof (rth (lfinal g1 sch) r) = R202 d i k' h' \/ rpcof (rth (lfinal g1 sch) r) = R203 d i k' h') ->
  wstores g1 sch = O ->
  (tagloads r g1 sch < length (getarr (gmem (lfinal g1 sch)) d))%nat.
Proof.
  intros R Pc In_ Fin W0. pose proof (reader_terminates g1 r k h sch d i k' h' R Pc In_ Fin) as B.
  rewrite W0 in B. lia.
Qed.

(* ------------------------------------------------------------------ *)
(** * Theorem 3: whatever a lookup returns is ONE item object of ONE writer op *)
(* ------------------------------------------------------------------ *)

(* the item objects created by the writer's operations (one per Store / Publish / Swap) *)
Definition op_items (op : wop) : list item :=
  match op with WStore it | WPublish it | WSwap it => [it] | _ => [] end.
Definition script_items (ws : list wop) : list item := flat_map op_items ws.

Definition arr_items_ok (S : item -> Prop) (a : list ccell) : Prop :=
  forall p x, citem (getcc a p) = Some x -> S x.
Definition pc_items_ok (S : item -> Prop) (pc : wpc) : Prop :=
  match pc with
  | W211 _ it | W212 _ it | W213 _ it _ _ | W214 _ _ it | W221 _ it _ | W222 _ it _ => S it
  | W251 nd _ => arr_items_ok S nd
  | _ => True
  end.
(* items are immutable values: the only item objects ever present in shared memory, in the writer's
   locals or in its remaining script are those of S *)
Definition ItemsOK (S : item -> Prop) (g : gstate) : Prop :=
  (forall d, arr_items_ok S (getarr (gmem g) d)) /\ pc_items_ok S (gwpc g) /\
  (forall x, In x (script_items (gws g)) -> S x).

Lemma getcc_nil p : getcc [] p = cempty.
Proof. unfold getcc. destruct p; reflexivity. Qed.

Lemma arr_items_set_item S a i x :
  arr_items_ok S a -> (forall y, x = Some y -> S y) -> arr_items_ok S (set_item a i x).
Proof.
  intros A X p y. rewrite citem_set_item. destruct (Nat.eqb i p && Nat.ltb i (length a))%bool.
  - intros E. apply (X y E).
  - apply A.
Qed.
Lemma arr_items_set_tag S a i t : arr_items_ok S a -> arr_items_ok S (set_tag a i t).
Proof. intros A p y. rewrite citem_set_tag. apply A. Qed.

Lemma getarr_upd_cases m d a e : getarr (upd_arr m d a) e = a \/ getarr (upd_arr m d a) e = getarr m e.
Proof.
  destruct (Nat.eq_dec d e) as [E|E].
  - subst e. destruct (le_lt_dec (length (arrs m)) d) as [L|L].
    + right. unfold getarr, upd_arr. cbn [arrs]. rewrite !nth_overflow; [reflexivity|exact L|rewrite length_set_nth; exact L].
    + left. apply getarr_upd_same. exact L.
  - right. apply getarr_upd_other. exact E.
Qed.

Lemma mem_items_store_item S m d i x :
  (forall e, arr_items_ok S (getarr m e)) -> (forall y, x = Some y -> S y) ->
  forall e, arr_items_ok S (getarr (store_item m d i x) e).
Proof.
  intros A X e. unfold store_item. destruct (getarr_upd_cases m d (set_item (getarr m d) i x) e) as [Q|Q]; rewrite Q.
  - apply arr_items_set_item; [apply A|exact X].
  - apply A.
Qed.
Lemma mem_items_store_tag S m d i t :
  (forall e, arr_items_ok S (getarr m e)) -> forall e, arr_items_ok S (getarr (store_tag m d i t) e).
Proof.
  intros A e. unfold store_tag. destruct (getarr_upd_cases m d (set_tag (getarr m d) i t) e) as [Q|Q]; rewrite Q.
  - apply arr_items_set_tag. apply A.
  - apply A.
Qed.
Lemma mem_items_store_data S m nd :
  (forall e, arr_items_ok S (getarr m e)) -> arr_items_ok S nd ->
  forall e, arr_items_ok S (getarr (store_data m nd) e).
Proof.
  intros A N e. destruct (lt_eq_lt_dec e (length (arrs m))) as [[L|L]|L].
  - rewrite getarr_store_data_old by exact L. apply A.
  - subst e. rewrite getarr_store_data_new. exact N.
  - unfold getarr, store_data. cbn [arrs]. rewrite nth_overflow by (rewrite app_length; cbn [length]; lia).
    intros p x Q. rewrite getcc_nil in Q. discriminate Q.
Qed.

Lemma arr_items_setcc S a j c :
  arr_items_ok S a -> (forall y, citem c = Some y -> S y) -> arr_items_ok S (setcc a j c).
Proof.
  intros A C p y. destruct (Nat.eq_dec j p) as [E|E].
  - subst p. destruct (le_lt_dec (length a) j) as [L|L].
    + rewrite setcc_oob by exact L. apply A.
    + rewrite getcc_setcc_same by exact L. apply C.
  - rewrite getcc_setcc_other by exact E. apply A.
Qed.

Lemma arr_items_repeat S n : arr_items_ok S (repeat cempty n).
Proof.
  intros p x Q. unfold getcc in Q.
  assert (E : nth p (repeat cempty n) cempty = cempty).
  { clear. revert p. induction n as [|n IH]; intros p; destruct p; cbn [repeat nth]; try reflexivity. apply IH. }
  rewrite E in Q. discriminate Q.
Qed.

Lemma crehash_items S n : forall a acc e,
  arr_items_ok S acc -> (forall c x, In c a -> citem c = Some x -> S x) ->
  arr_items_ok S (fst (fold_left (creinsert n) a (acc, e))).
Proof.
  induction a as [|c a IH]; intros acc e A C; cbn [fold_left]; [exact A|].
  assert (A' : arr_items_ok S (fst (creinsert n (acc, e) c))).
  { unfold creinsert. cbn [fst snd]. destruct (ctag c <=? 1); [exact A|].
    destruct (citem c) as [it|] eqn:Ci; [|exact A].
    destruct (cfirst_empty n acc n (home_in n (ihash it))) as [j|]; [|exact A]. cbn [fst].
    apply arr_items_setcc; [exact A|]. cbn [citem]. intros y Q. injection Q as Q. subst y.
    apply (C c it (or_introl eq_refl) Ci). }
  destruct (creinsert n (acc, e) c) as [acc' e']. apply IH; [exact A'|].
  intros c0 x I. apply C. right. exact I.
Qed.

Lemma arr_items_in S a c x : arr_items_ok S a -> In c a -> citem c = Some x -> S x.
Proof.
  intros A I Q. destruct (In_nth a c cempty I) as (p & _ & E). apply (A p x). unfold getcc. rewrite E. exact Q.
Qed.

Definition res_items_ok (S : item -> Prop) (r : wres) : Prop :=
  (forall d, arr_items_ok S (getarr (res_mem r) d)) /\ pc_items_ok S (snd (fst r)).

Lemma items_maybe_grow S m w r1 r2 :
  (forall d, arr_items_ok S (getarr m d)) -> res_items_ok S (w_maybe_grow m w r1 r2).
Proof.
  intros A. unfold w_maybe_grow. destruct (_ <? _); [split; [exact A|exact I]|].
  destruct (crehash (cur_arr m) _) as [nd e] eqn:CR. split; [exact A|]. cbn [fst snd pc_items_ok wpark].
  unfold crehash in CR. match type of CR with fold_left (creinsert ?n) ?a ?z = _ => pose proof (crehash_items S n a (fst z) (snd z)) as K end.
  cbn [fst snd] in K. rewrite CR in K. cbn [fst] in K. apply K; [apply arr_items_repeat|].
  intros c x Ic Q. apply (arr_items_in S (cur_arr m) c x (A _) Ic Q).
Qed.

Lemma items_store_entry S m w it b :
  (forall d, arr_items_ok S (getarr m d)) -> S it -> res_items_ok S (w_store_entry m w it b).
Proof.
  intros A Si. unfold w_store_entry. destruct (cwalk_top _ _ _) as [dst tomb|s cur|].
  - split; [exact A|exact Si].
  - destruct b; (split; [exact A|exact Si]).
  - split; [exact A|exact I].
Qed.

Lemma items_reclaim_head S m w i :
  (forall d, arr_items_ok S (getarr m d)) -> res_items_ok S (w_reclaim_head m w i).
Proof. intros A. unfold w_reclaim_head. destruct (_ && _)%bool; (split; [exact A|exact I]). Qed.

Lemma items_of_lookup S m w k h r :
  (forall d, arr_items_ok S (getarr m d)) -> res_items_ok S (w_of_lookup m w k h r).
Proof.
  intros A. destruct r; cbn [w_of_lookup]; try (split; [exact A|exact I]).
  unfold w_remove_entry. destruct (cfind_exact _ _ _ _ _ _) as [[i|]|]; (split; [exact A|exact I]).
Qed.

Lemma items_wstep S m w pc ws r ws' :
  (forall d, arr_items_ok S (getarr m d)) -> pc_items_ok S pc -> (forall x, In x (script_items ws) -> S x) ->
  wstep m w pc ws = Some (r, ws') ->
  res_items_ok S r /\ (forall x, In x (script_items ws') -> S x).
Proof.
  intros A P Sc E. destruct pc; unfold wstep in E; cbv zeta in E; cbn [pc_items_ok] in P.
  - destruct ws as [|op ws0]; [discriminate E|]. injection E as E1 E2. subst r ws'.
    assert (Sc' : forall x, In x (script_items ws0) -> S x).
    { intros x Ix. apply Sc. unfold script_items. cbn [flat_map]. apply in_or_app. right. exact Ix. }
    assert (So : forall x, In x (op_items op) -> S x).
    { intros x Ix. apply Sc. unfold script_items. cbn [flat_map]. apply in_or_app. left. exact Ix. }
    split; [|exact Sc'].
    destruct op as [it|k h|k h|it| |it| ]; cbn [op_items] in So.
    + apply items_store_entry; [exact A|apply So; left; reflexivity].
    + split; [exact A|exact I].
    + destruct (cwalk_top _ _ _); (split; [exact A|exact I]).
    + destruct (wcd (wcur w)) as [cd|]; [destruct (Nat.eqb cd (data m))|];
        try (apply items_store_entry; [exact A|apply So; left; reflexivity]).
      split; [exact A|]. apply So. left. reflexivity.
    + split; [exact A|exact I].
    + destruct (wfslot w) as [[fa fs]|]; (split; [exact A|]); [apply So; left; reflexivity|exact I].
    + split; [exact A|exact I].
  - injection E as E1 E2. subst r ws'. split; [|exact Sc]. first [split; [exact A|exact I]|apply items_of_lookup; exact A].
  - injection E as E1 E2. subst r ws'. split; [|exact Sc]. first [split; [exact A|exact I]|apply items_of_lookup; exact A].
  - injection E as E1 E2. subst r ws'. split; [|exact Sc]. first [split; [exact A|exact I]|apply items_of_lookup; exact A].
  - injection E as E1 E2. subst r ws'. split; [|exact Sc]. split; [|exact P].
    apply mem_items_store_item; [exact A|]. intros y Q. injection Q as Q. subst y. exact P.
  - injection E as E1 E2. subst r ws'. split; [|exact Sc]. apply items_maybe_grow. apply mem_items_store_tag. exact A.
  - injection E as E1 E2. subst r ws'. split; [|exact Sc]. split; [|exact I].
    apply mem_items_store_item; [exact A|]. intros y Q. injection Q as Q. subst y. exact P.
  - injection E as E1 E2. subst r ws'. split; [|exact Sc]. split; [|exact I].
    apply mem_items_store_item; [exact A|]. intros y Q. injection Q as Q. subst y. exact P.
  - injection E as E1 E2. subst r ws'. split; [|exact Sc]. split; [|exact P].
    apply mem_items_store_item; [exact A|]. intros y Q. injection Q as Q. subst y. exact P.
  - injection E as E1 E2. subst r ws'. split; [|exact Sc]. apply items_maybe_grow. apply mem_items_store_tag. exact A.
  - injection E as E1 E2. subst r ws'. split; [|exact Sc]. split; [|exact I]. apply mem_items_store_tag. exact A.
  - injection E as E1 E2. subst r ws'. split; [|exact Sc].
    assert (A1 : forall d, arr_items_ok S (getarr (store_item m (data m) i None) d)).
    { apply mem_items_store_item; [exact A|]. intros y Q. discriminate Q. }
    destruct (_ || _)%bool; [split; [exact A1|exact I]|apply items_reclaim_head; exact A1].
  - injection E as E1 E2. subst r ws'. split; [|exact Sc]. apply items_reclaim_head. apply mem_items_store_tag. exact A.
  - injection E as E1 E2. subst r ws'. split; [|exact Sc]. split; [|exact I].
    apply mem_items_store_data; [exact A|apply arr_items_repeat].
  - injection E as E1 E2. subst r ws'. split; [|exact Sc]. split; [|exact I].
    apply mem_items_store_data; [exact A|exact P].
Qed.

Lemma itemsok_step S g t g' o : ItemsOK S g -> lstep g t = Some (g', o) -> ItemsOK S g'.
Proof.
  intros (A & P & Sc) E. destruct t as [|r]; cbn [lstep] in E.
  - destruct (wstep (gmem g) (gw g) (gwpc g) (gws g)) as [[[[[m' w'] pc'] o'] ws']|] eqn:St; [|discriminate E].
    injection E as E1 E2. subst g' o'. destruct (items_wstep S _ _ _ _ _ _ A P Sc St) as [[A' P'] Sc'].
    cbn [res_mem fst snd] in A', P'. split; [exact A'|]. split; [exact P'|exact Sc'].
  - destruct (nth_error (grs g) r) as [th|]; [|discriminate E].
    destruct (rstep (gmem g) th) as [[th' o']|]; [|discriminate E].
    injection E as E1 E2. subst g' o'. split; [exact A|]. split; [exact P|exact Sc].
Qed.

Lemma itemsok_ltrace S : forall sch g gj, ItemsOK S g -> In gj (ltrace g sch) -> ItemsOK S gj.
Proof.
  induction sch as [|t s IH]; intros g gj G I; cbn [ltrace] in I.
  - destruct I as [I|[]]. subst gj. exact G.
  - destruct I as [I|I]; [subst gj; exact G|]. apply (IH (step_or_stay g t) gj); [|exact I].
    unfold step_or_stay. destruct (lstep g t) as [[g1 o]|] eqn:E; [apply (itemsok_step S g t g1 o G E)|exact G].
Qed.

Lemma itemsok_init cap ws rss : ItemsOK (fun x => In x (script_items ws)) (init_state cap ws rss).
Proof.
  split; [|split; [exact I|intros x Ix; exact Ix]]. intros d p x Q. exfalso.
  unfold getarr in Q. cbn [init_state gmem arrs] in Q. destruct d as [|d]; cbn [nth] in Q.
  - apply (arr_items_repeat (fun _ => False) _ p x Q).
  - destruct d; cbn [nth] in Q; rewrite getcc_nil in Q; discriminate Q.
Qed.

(* the protocol gives every created item object a fresh identity *)
Lemma wastep_issued a op a' :
  wastep a op = Some a' ->
  aissued a' = op_items op ++ aissued a /\
  (forall it x, In it (op_items op) -> In x (aissued a) -> iid x <> iid it).
Proof.
  intros S. destruct op as [it|k h|k h|it| |it| ]; cbn [wastep op_items app] in *.
  - unfold astep in S. destruct (aph a); try discriminate S. destruct (ins_ok hashf a it) eqn:Io; [|discriminate S].
    injection S as S. subst a'. split; [reflexivity|]. intros y x [E|[]] Ix. subst y.
    apply (proj2 (ins_ok_spec hashf a it Io) x Ix).
  - split; [|intros it x []]. destruct (h =? hashf k); [|discriminate S]. destruct (aget (am a) k) as [it|].
    + unfold astep in S. destruct (aph a); try discriminate S;
        (destruct (consb hashf it && ident_ok (aissued a) it)%bool; [|discriminate S]); injection S as S; subst a'; reflexivity.
    + injection S as S. subst a'. reflexivity.
  - split; [|intros it x []]. destruct (h =? hashf k); [|discriminate S]. unfold astep in S.
    destruct (aph a); try discriminate S. destruct (aget (am a) k); injection S as S; subst a'; reflexivity.
  - unfold astep in S. destruct (aph a); try discriminate S.
    + destruct (astale a && ins_ok hashf a it)%bool eqn:Io; [|discriminate S]. apply andb_true_iff in Io. destruct Io as [_ Io].
      injection S as S. subst a'. split; [reflexivity|]. intros y x [E|[]] Ix. subst y.
      apply (proj2 (ins_ok_spec hashf a it Io) x Ix).
    + destruct (ins_ok hashf a it && (ikey it =? kc))%bool eqn:Io; [|discriminate S]. apply andb_true_iff in Io. destruct Io as [Io _].
      injection S as S. subst a'. split; [reflexivity|]. intros y x [E|[]] Ix. subst y.
      apply (proj2 (ins_ok_spec hashf a it Io) x Ix).
  - injection S as S. subst a'. split; [reflexivity|intros it x []].
  - unfold astep in S. destruct (aph a); try discriminate S.
    destruct (ins_ok hashf a it && (ikey it =? k))%bool eqn:Io; [|discriminate S]. apply andb_true_iff in Io. destruct Io as [Io _].
    injection S as S. subst a'. split; [reflexivity|]. intros y x [E|[]] Ix. subst y.
    apply (proj2 (ins_ok_spec hashf a it Io) x Ix).
  - injection S as S. subst a'. split; [reflexivity|intros it x []].
Qed.

Lemma wproto_fresh : forall ws a,
  wproto a ws ->
  NoDup (map iid (script_items ws)) /\
  (forall it x, In it (script_items ws) -> In x (aissued a) -> iid x <> iid it).
Proof.
  induction ws as [|op ws IH]; intros a P; cbn [wproto] in P.
  - split; [constructor|intros it x []].
  - destruct P as (a' & S & P'). destruct (wastep_issued a op a' S) as [Ei Fr]. destruct (IH a' P') as [ND Fr'].
    unfold script_items. cbn [flat_map]. fold (script_items ws). rewrite Ei in Fr'. split.
    + rewrite map_app. destruct (op_items op) as [|it [|it2 l]] eqn:Oi.
      * exact ND.
      * cbn [map app]. constructor; [|exact ND]. intros I. apply in_map_iff in I. destruct I as (y & Ey & Iy).
        apply (Fr' y it Iy); [apply in_or_app; left; left; reflexivity|]. symmetry. exact Ey.
      * exfalso. destruct op; cbn [op_items] in Oi; discriminate Oi.
    + intros it x Ii Ix. apply in_app_or in Ii. destruct Ii as [Ii|Ii].
      * apply (Fr it x Ii Ix).
      * apply (Fr' it x Ii). apply in_or_app. right. exact Ix.
Qed.

Lemma NoDup_map_eq {A B} (f : A -> B) (l : list A) x y :
  NoDup (map f l) -> In x l -> In y l -> f x = f y -> x = y.
Proof.
  induction l as [|z l IH]; intros ND Ix Iy E; [destruct Ix|].
  cbn [map] in ND. inversion ND as [|? ? NI ND']; subst.
  destruct Ix as [Ix|Ix]; destruct Iy as [Iy|Iy].
  - subst. reflexivity.
  - subst z. exfalso. apply NI. rewrite E. apply in_map. exact Iy.
  - subst z. exfalso. apply NI. rewrite <- E. apply in_map. exact Ix.
  - apply IH; assumption.
Qed.

(* Theorem 3.  In any execution from the initial state with writer script ws: a hit returns the key
   and the value of ONE item object `it`, which is the object created by ONE operation of the script
   (no other operation of the script created an object with that identity).  Item objects are
   immutable values: ItemsOK says no reachable state holds any other item object anywhere. *)
Theorem single_item_snapshot cap ws rss sch0 r k h rest sch g2 v :
  wproto ainit ws -> Forall (Forall rop_ok) rss ->
  let g0 := lfinal (init_state cap ws rss) sch0 in
  rpcof (rth g0 r) = RB -> rscript (rth g0 r) = RLookup k h :: rest ->
  rpcof (rth (lfinal g0 sch) r) <> RB -> rscript (rth (lfinal g0 sch) r) = rest ->
  lstep (lfinal g0 sch) (S r) = Some (g2, [0; 1; v]) ->
  exists it, In it (script_items ws) /\ ikey it = k /\ ival it = v /\
             (forall it', In it' (script_items ws) -> iid it' = iid it -> it' = it).
Proof.
  intros P F g0 Pc Sc Pc1 Sc1 E.
  assert (R : reachable g0).
  { exists cap, ws, rss, sch0. split; [exact P|]. split; [exact F|]. unfold g0. apply lfinal_lrun. }
  destruct (reader_sound_hit g0 r k h rest sch g2 v R Pc Sc Pc1 Sc1 E) as (it & K & V & gj & I & (s & Ci & _)).
  assert (IO : ItemsOK (fun x => In x (script_items ws)) gj).
  { apply (itemsok_ltrace _ sch g0 gj); [|exact I]. unfold g0.
    pose proof (itemsok_ltrace _ sch0 (init_state cap ws rss) (lfinal (init_state cap ws rss) sch0)
                  (itemsok_init cap ws rss) (ltrace_final sch0 _)) as Q. exact Q. }
  destruct IO as (A & _ & _). pose proof (A (data (gmem gj)) s it Ci) as Ii. cbn beta in Ii.
  exists it. split; [exact Ii|]. split; [exact K|]. split; [exact V|].
  intros it' Ii' Eid. destruct (wproto_fresh ws ainit P) as [ND _].
  apply (NoDup_map_eq iid (script_items ws) it' it ND Ii' Ii Eid).
Qed.

(*END-LTS*)
End Lts.

(* ------------------------------------------------------------------ *)
(** * Theorem 5: the present / absent / present flicker exists          *)
(* ------------------------------------------------------------------ *)

Module Flicker.
(* keys 1 and 2 collide on hash 5 (same tag, home slot 5 of 8); fillers 10..14 hash to 8..12 (slots 0..4) *)
Definition hf (k : Z) : Z := if k <? 10 then 5 else k - 2.
Lemma hf_nonneg k : 0 <= hf k.
Proof. unfold hf. destruct (Z.ltb_spec k 10); lia. Qed.
Definition mk (k v id : Z) : item := {| ikey := k; ihash := hf k; ival := v; iid := id |}.

Definition ws : list wop :=
  [WStore (mk 1 10 0); WStore (mk 10 100 1); WStore (mk 11 110 2); WStore (mk 12 120 3); WStore (mk 13 130 4);
   WRemove 1 5; WStore (mk 14 140 5); WProbe 2 5; WPublish (mk 2 50 6)].
Definition rss : list (list rop) := [[RLookup 2 5]; [RLookup 2 5]; [RLookup 2 5]].
Definition g0 := init_state 0 ws rss.

Definition W := O. Definition R1 := 1%nat. Definition R2 := 2%nat. Definition R3 := 3%nat.
Definition sch : list nat :=
  repeat W 15 ++                      (* five inserts: key 1 sits in slot 5 *)
  [R1; R1; R1] ++                     (* reader 1: 201, 202, loads the MATCHING tag of key 1's cell, parks at 203 *)
  repeat W 7 ++                       (* Remove 1: lookup, tag:=1, item:=nil, reclaim tag:=0 *)
  repeat W 3 ++                       (* one more insert (key 14) *)
  [W] ++                              (* Probe 2: absent, cursor on slot 5 *)
  [W; W] ++                           (* Publish (2,50): parks at 221, then ITEM store, parks at 222 *)
  [R1] ++                             (* reader 1 loads the item of slot 5: the re-inserted one -> HIT 50 *)
  [R2; R2; R2] ++                     (* reader 2, started after reader 1 returned: tag of slot 5 is 0 -> MISS *)
  [W] ++                              (* Publish's TAG store; load bound reached: rebuild, parks at 251 *)
  [R3; R3; R3; R3] ++                 (* reader 3: HIT 50 -- Publish has still not completed *)
  [W].                                (* rehash's data store: Publish completes only now *)

Definition obs := snd (lrun g0 sch).

Example ws_protocol : wproto hf ainit ws.
Proof. cbn [ws wproto]. repeat (eexists; split; [vm_compute; reflexivity|]). exact I. Qed.

Example g0_reachable : reachable hf (lfinal g0 sch).
Proof.
  apply reachable_lfinal. exists 0, ws, rss, []. split; [exact ws_protocol|]. split; [|reflexivity].
  repeat constructor.
Qed.

(* the tail of the execution, from Publish's entry on *)
Example flicker_observations :
  skipn 29 (combine sch obs) =
  [(W, [221; 0; 0]); (W, [222; 0; 0]);                              (* item stored, tag still 0 *)
   (R1, [0; 1; 50]);                                                  (* PRESENT (stale tag of key 1 + new item) *)
   (R2, [201; 0; 0]); (R2, [202; 0; 0]); (R2, [0; 0; 0]);             (* ABSENT *)
   (W, [251; 0; 0]);                                                  (* tag stored; Publish still in progress *)
   (R3, [201; 0; 0]); (R3, [202; 0; 0]); (R3, [203; 0; 0]); (R3, [0; 1; 50]);  (* PRESENT *)
   (W, [0; 0; 0])].                                                   (* the ONE write operation completes here *)
Proof. vm_compute. reflexivity. Qed.

(* reader 1 had loaded the matching tag of the PREVIOUS occupant (key 1) of slot 5 *)
Example reader1_parked_on_old_tag :
  let g := lfinal g0 (firstn 18 sch) in
  rpcof (rth g 0) = R203 0 5 2 5 /\
  getcc (cur_arr (gmem g)) 5 = {| ctag := 5; citem := Some (mk 1 10 0) |}.
Proof. vm_compute. split; reflexivity. Qed.

(* when reader 1 returns, slot 5 is half-written: tag 0 (empty!) with the new item *)
Example slot_half_written :
  let g := lfinal g0 (firstn 31 sch) in
  getcc (cur_arr (gmem g)) 5 = {| ctag := 0; citem := Some (mk 2 50 6) |} /\ gwpc g = W222 5 (mk 2 50 6) false.
Proof. vm_compute. split; reflexivity. Qed.

(* Theorem 5: a reachable execution (one writer, three readers) in which the SAME key is observed
   present, then absent, then present, all strictly inside ONE writer operation (the Publish):
   the first reader returns before the second starts, the second before the third starts, and the
   writer completes no operation in between. Lookups are therefore not atomic with respect to
   whole writer operations. *)
Theorem atomic_flicker_refuted :
  exists (ws : list wop) (rss : list (list rop)) (sch1 sch2 sch3 sch4 : list nat) (v : Z),
    wproto hf ainit ws /\
    let g0 := init_state 0 ws rss in
    let g1 := lfinal g0 sch1 in               (* the writer is parked at 222: item stored, tag not yet *)
    let g2 := lfinal g1 sch2 in let g3 := lfinal g2 sch3 in let g4 := lfinal g3 sch4 in
    gwpc g1 = W222 5 (mk 2 v 6) false /\
    (* reader 1 (which loaded a matching tag from the slot's previous occupant) returns the new item *)
    sch2 = [1%nat] /\ snd (lrun g1 sch2) = [[0; 1; v]] /\
    (* reader 2 runs a whole lookup after that, and misses *)
    sch3 = [2; 2; 2]%nat /\ rpcof (rth g2 1) = RB /\ last (snd (lrun g2 sch3)) [] = [0; 0; 0] /\
    (* reader 3 runs a whole lookup after that (the writer did its tag store in between), and hits *)
    sch4 = [0; 3; 3; 3; 3]%nat /\ rpcof (rth g3 2) = RB /\ last (snd (lrun g3 sch4)) [] = [0; 1; v] /\
    (* and the writer's operation is still not complete *)
    gwpc g4 <> WB /\ completions (filter (fun o => true) (snd (lrun g3 [O]))) = [].
Proof.
  exists ws, rss, (firstn 31 sch), [1%nat], [2; 2; 2]%nat, [0; 3; 3; 3; 3]%nat, 50.
  split; [exact ws_protocol|]. vm_compute. repeat split; try reflexivity; discriminate.
Qed.
End Flicker.

(* ------------------------------------------------------------------ *)
(** * Theorem 6: non-vacuity                                            *)
(* ------------------------------------------------------------------ *)

Module NonVacuity.
Definition hf (k : Z) : Z := 5.
Lemma hf_nonneg k : 0 <= hf k.
Proof. unfold hf. lia. Qed.
Definition mk (k v id : Z) : item := {| ikey := k; ihash := 5; ival := v; iid := id |}.

(* colliding keys 1, 2, 3 (slots 5, 6, 7); remove 2 (tombstone in slot 6: slot 7 is occupied);
   re-insert 2 into the tombstone; two readers looking for 3 and 2, interleaved at every yield *)
Definition ws : list wop :=
  [WStore (mk 1 10 0); WStore (mk 2 20 1); WStore (mk 3 30 2); WRemove 2 5; WStore (mk 2 21 3)].
Definition rss : list (list rop) := [[RLookup 3 5; RLookup 2 5]; [RLookup 2 5; RLookup 2 5]].
Definition g0 := init_state 0 ws rss.
Definition sch : list nat := concat (repeat [0; 1; 2]%nat 30).

Example ws_protocol : wproto hf ainit ws.
Proof. cbn [ws wproto]. repeat (eexists; split; [vm_compute; reflexivity|]). exact I. Qed.

Example g0_reachable : reachable hf g0.
Proof. exists 0, ws, rss, []. split; [exact ws_protocol|]. split; [|reflexivity]. repeat constructor. Qed.

(* WFc holds in each of the 91 states of the execution (by the theorem, not by evaluation) *)
Example wfc_every_state : Forall (WFc hf) (ltrace g0 sch).
Proof.
  apply Forall_forall. intros g I. apply GInv_WFc; [exact hf_nonneg|].
  apply (ginv_ltrace hf hf_nonneg sch g0 g); [|exact I]. apply (ginv_reachable hf hf_nonneg). exact g0_reachable.
Qed.

(* what the three threads observed, in completion order (thread, observation) *)
Example observations :
  filter (fun x => is_completion (snd x)) (combine sch (snd (lrun g0 sch))) =
  [(O, [0; 0; 0]);            (* writer: Store 1 *)
   (1%nat, [0; 0; 0]);        (* reader 1: Lookup 3 missed (key 3 not yet stored) *)
   (2%nat, [0; 0; 0]);        (* reader 2: Lookup 2 missed (it overlapped the insert of key 2) *)
   (O, [0; 0; 0]);            (* writer: Store 2 *)
   (O, [0; 0; 0]);            (* writer: Store 3 *)
   (1%nat, [0; 1; 20]);       (* reader 1: Lookup 2 *)
   (2%nat, [0; 1; 20]);       (* reader 2: Lookup 2 *)
   (O, [0; 1; 0]);            (* writer: Remove 2 *)
   (O, [0; 0; 0])].           (* writer: Store 2 again, into the tombstone *)
Proof. vm_compute. reflexivity. Qed.

(* the execution does go through half-written cells: a removal between its two stores ... *)
Example passes_through_half_removal :
  exists g, nth_error (ltrace g0 sch) 46 = Some g /\ gwpc g = W232 6 /\
            getcc (cur_arr (gmem g)) 6 = {| ctag := 1; citem := Some (mk 2 20 1) |}.
Proof. eexists. split; [vm_compute; reflexivity|]. vm_compute. split; reflexivity. Qed.

(* ... and an insert into the tombstone between its two stores *)
Example passes_through_half_insert :
  exists g, nth_error (ltrace g0 sch) 55 = Some g /\ gwpc g = W212 6 (mk 2 21 3) /\
            getcc (cur_arr (gmem g)) 6 = {| ctag := 1; citem := Some (mk 2 21 3) |}.
Proof. eexists. split; [vm_compute; reflexivity|]. vm_compute. split; reflexivity. Qed.
End NonVacuity.

(* the stream interface declares the same script (item ids from the counter, as ht_step does) *)
Example stream_declares_script :
  let decls : list (list Z) :=
    [[1;0;1;1;5;10]; [1;0;1;2;5;20]; [1;0;1;3;5;30]; [1;0;1;4;5;40]; [1;0;2;2;5;0]; [1;0;3;5;5;0];
     [1;0;2;4;5;0]; [1;0;2;3;5;0]; [1;0;4;5;5;50]; [1;0;3;1;5;0]; [1;0;6;1;5;11]; [1;0;2;9;5;0];
     [1;0;3;7;5;0]; [1;0;7;0;0;0]; [1;0;4;6;5;60]; [1;0;1;1;5;12]; [1;0;1;6;5;61];
     [1;2;10;3;5;0]; [1;1;10;2;5;0]] in
  let g := fold_left (fun g o => fst (htl_step g o)) decls (htl_init [0]) in
  gws g = AloneExample.ws /\
  map rscript (grs g) = [[RLookup 2 5]; [RLookup 3 5]] /\
  snd (htl_step g [2; 0]) = [211; 0; 0] /\ snd (htl_step g [2; 2]) = [201; 0; 0] /\ snd (htl_step g [2; 3]) = [-1].
Proof. vm_compute. repeat split; reflexivity. Qed.

Print Assumptions wfc_invariant.
Print Assumptions old_arrays_frozen.
Print Assumptions writer_alone_refines_sequential.
Print Assumptions reader_sound_hit.
Print Assumptions reader_sound_miss.
Print Assumptions resident_key_found.
Print Assumptions absent_key_not_found.
Print Assumptions single_item_snapshot.
Print Assumptions reader_terminates.
Print Assumptions Flicker.atomic_flicker_refuted.
Print Assumptions NonVacuity.wfc_every_state.
