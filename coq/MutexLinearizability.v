(* MutexLinearizability.v — lock-protected operations are linearizable (Herlihy–Wing),
   with the lock acquisition as linearization point.  Built on MutexAtomicity.v; stdlib only.

   1. Instrumentation ([wstate], [wstep], [wreachable]): MutexAtomicity's state is carried
      untouched in [w_st]; a run step IS [MutexAtomicity.step] ([wstep_run_projects],
      [wstep_run_complete], [wreachable_reachable], [reachable_wreachable]).  Ghosts: the
      history [w_hist] of [EInv t c] / [ERes t r] events and the acquisition order [w_lin].
      [LInv t] lets a blocking call be invoked any time before it acquires the lock (a call
      never invoked explicitly is invoked at its acquisition step); [LRes t] lets the response
      be recorded any time after the Unlock step and before the thread's next step
      ([LRun t; LRes t] = recorded at the Unlock step itself, [unlock_then_respond]).
   2. [linearizable_with s h W]: W is (b) a legal sequential execution [legal], equivalent to
      h thread by thread up to pending calls [thread_equiv] (hence (c) program order and the
      results observed: [witness_program_order], [witness_result]), and (a) respects real
      time [rt_respected] (timestamp form: [rt_timestamps]).
   3. [lock_protected_linearizable] (+ [_reachable], [_writes] for write-only scripts where
      the witness is exactly g_acq / seq_rets; [read_linearization_point],
      [write_linearization_point] for the position k of each call).
   4. [LossyRegister]: [register_linearizable] into LinCheck.linearizable, with
      [reg_calls_complete] / [reg_calls_sound], the three consequences [reg_no_stale_read],
      [reg_no_read_after_delete], [reg_monotonic_reads], and the direct event-level forms
      [get_not_stale_direct], [get_not_deleted_direct].
   5. [Example3L] (two writers, one reader, overlapping; witness order <> response order),
      [response_order_differs_refuted] (impossible if responses are recorded AT the Unlock
      step with a single reader), [Example3R] (two readers), [ExampleRegister]. *)
From KV Require Import Base MutexAtomicity.
From KV Require LinCheck.
Close Scope Z_scope.
Open Scope nat_scope.

Set Implicit Arguments.

(* ---------- generic list helpers ---------- *)
Section ListFacts.
  Variable A : Type.

  Lemma filter_filter_imp (f g : A -> bool) l :
    (forall x, f x = true -> g x = true) -> filter f (filter g l) = filter f l.
  Proof.
    intros H. induction l as [|a l IH]; cbn; auto.
    destruct (g a) eqn:G; cbn; destruct (f a) eqn:F; cbn; try rewrite IH; auto.
    rewrite (H a F) in G. discriminate.
  Qed.

  Lemma flen_app (f : A -> bool) a b :
    length (filter f (a ++ b)) = length (filter f a) + length (filter f b).
  Proof. rewrite filter_app, app_length. reflexivity. Qed.

  Lemma nth_error_split_firstn (l : list A) p x :
    nth_error l p = Some x -> exists l2, l = firstn p l ++ x :: l2.
  Proof.
    revert p; induction l as [|a l IH]; intros [|p] H; cbn in *; try discriminate.
    - inversion H; subst. exists l; auto.
    - destruct (IH _ H) as (l2 & E). exists l2. congruence.
  Qed.

  Lemma flen_firstn_lt (f : A -> bool) l p x :
    nth_error l p = Some x -> f x = true ->
    length (filter f (firstn p l)) < length (filter f l).
  Proof.
    intros H Hf. destruct (nth_error_split_firstn _ _ H) as (l2 & E).
    rewrite E at 2. rewrite flen_app. cbn. rewrite Hf. cbn. lia.
  Qed.

  Lemma flen_ex (f : A -> bool) l k :
    k < length (filter f l) ->
    exists i x, nth_error l i = Some x /\ f x = true /\ length (filter f (firstn i l)) = k.
  Proof.
    revert k; induction l as [|a l IH]; intros k H; cbn in *; [lia|].
    destruct (f a) eqn:F.
    - destruct k as [|k].
      + exists 0, a. auto.
      + cbn in H. destruct (IH k ltac:(lia)) as (i & x & H1 & H2 & H3).
        exists (Datatypes.S i), x. cbn. rewrite F. cbn. auto.
    - destruct (IH k H) as (i & x & H1 & H2 & H3).
      exists (Datatypes.S i), x. cbn. rewrite F. auto.
  Qed.

  Lemma nth_error_snoc (l : list A) x p y :
    nth_error (l ++ [x]) p = Some y ->
    (p < length l /\ nth_error l p = Some y) \/ (p = length l /\ y = x).
  Proof.
    intros H. destruct (Nat.lt_ge_cases p (length l)) as [Hlt|Hge].
    - left. rewrite nth_error_app1 in H; auto.
    - right. rewrite nth_error_app2 in H; auto.
      destruct (p - length l) as [|d] eqn:E; cbn in H.
      + inversion H. split; auto. lia.
      + destruct d; discriminate.
  Qed.

  Lemma firstn_snoc_le (l : list A) x p : p <= length l -> firstn p (l ++ [x]) = firstn p l.
  Proof.
    intros H. rewrite firstn_app. replace (p - length l) with 0 by lia.
    cbn. apply app_nil_r.
  Qed.
  Lemma nth_error_firstn_lt (l : list A) n i : i < n -> nth_error (firstn n l) i = nth_error l i.
  Proof.
    revert n i; induction l as [|a l IH]; intros [|n] [|i] H; cbn; auto; try lia.
    apply IH. lia.
  Qed.
  Lemma nth_error_filter (f : A -> bool) l p x :
    nth_error l p = Some x -> f x = true ->
    nth_error (filter f l) (length (filter f (firstn p l))) = Some x.
  Proof.
    intros H Hf. destruct (nth_error_split_firstn _ _ H) as (l2 & E).
    rewrite E at 1. rewrite filter_app. cbn. rewrite Hf.
    rewrite nth_error_app2 by lia. rewrite Nat.sub_diag. reflexivity.
  Qed.

  (* position of the k-th element satisfying f *)
  Fixpoint nth_pos (f : A -> bool) (l : list A) (k : nat) : option nat :=
    match l with
    | [] => None
    | a :: r =>
        if f a then
          match k with
          | O => Some 0
          | Datatypes.S k' => option_map Datatypes.S (nth_pos f r k')
          end
        else option_map Datatypes.S (nth_pos f r k)
    end.

  Lemma nth_pos_sound f l k p :
    nth_pos f l k = Some p ->
    exists x, nth_error l p = Some x /\ f x = true /\ length (filter f (firstn p l)) = k.
  Proof.
    revert k p; induction l as [|a l IH]; intros k p H; cbn in H; [discriminate|].
    destruct (f a) eqn:F.
    - destruct k as [|k].
      + inversion H; subst. exists a; auto.
      + destruct (nth_pos f l k) as [q|] eqn:E; [|discriminate]. inversion H; subst.
        destruct (IH _ _ E) as (x & H1 & H2 & H3). exists x. cbn. rewrite F. cbn. auto.
    - destruct (nth_pos f l k) as [q|] eqn:E; [|discriminate]. inversion H; subst.
      destruct (IH _ _ E) as (x & H1 & H2 & H3). exists x. cbn. rewrite F. auto.
  Qed.

  Lemma nth_pos_complete f l k p x :
    nth_error l p = Some x -> f x = true -> length (filter f (firstn p l)) = k ->
    nth_pos f l k = Some p.
  Proof.
    revert k p; induction l as [|a l IH]; intros k [|p] H Hf Hk; cbn in H; try discriminate.
    - inversion H; subst. cbn. rewrite Hf. reflexivity.
    - cbn [firstn filter] in Hk. cbn [nth_pos]. destruct (f a) eqn:F.
      + cbn [length] in Hk. subst k. rewrite (IH _ _ H Hf eq_refl). reflexivity.
      + rewrite (IH _ _ H Hf Hk). reflexivity.
  Qed.

  Lemma nth_pos_none f l k : nth_pos f l k = None -> length (filter f l) <= k.
  Proof.
    intros H. destruct (Nat.lt_ge_cases k (length (filter f l))) as [Hlt|]; auto.
    destruct (flen_ex _ _ Hlt) as (i & x & H1 & H2 & H3).
    erewrite nth_pos_complete in H; eauto. discriminate.
  Qed.
End ListFacts.

Section Lin.
  Variables S R : Type.

  (* ---------- calls, results, events ---------- *)
  (* a call on the object: a write-locked body, or a read-locked list of pure observations *)
  Inductive lcall :=
  | LW (c : call S R)
  | LR (obs : list (S -> R)).

  Inductive res :=
  | RW (r : R)                (* result of a write-locked body *)
  | RR (rs : list R).         (* the values a read-locked section observed, in order *)

  Inductive event :=
  | EInv (t : nat) (c : lcall)
  | ERes (t : nat) (r : res).

  (* the SEQUENTIAL object: one call applied atomically *)
  Definition apply (c : lcall) (s : S) : S * res :=
    match c with
    | LW c => (fst (body c s), RW (snd (body c s)))
    | LR obs => (s, RR (map (fun f => f s) obs))
    end.

  (* a completed operation of a sequential history: thread, call, result *)
  Definition lop := (nat * lcall * res)%type.
  Definition op_tid (x : lop) : nat := fst (fst x).
  Definition op_call (x : lop) : lcall := snd (fst x).
  Definition op_res (x : lop) : res := snd x.

  Fixpoint spec_run (s : S) (l : list (nat * lcall)) : list lop :=
    match l with
    | [] => []
    | x :: r => (fst x, snd x, snd (apply (snd x) s)) :: spec_run (fst (apply (snd x) s)) r
    end.

  Definition spec_state (s : S) (l : list (nat * lcall)) : S :=
    fold_left (fun s x => fst (apply (snd x) s)) l s.

  (* (b) W is a legal sequential execution of the object from s *)
  Definition legal (s : S) (W : list lop) : Prop := W = spec_run s (map fst W).

  (* the sequential history of W *)
  Definition seqh (W : list lop) : list event :=
    flat_map (fun x => [EInv (op_tid x) (op_call x); ERes (op_tid x) (op_res x)]) W.

  Definition ev_tid (e : event) : nat := match e with EInv t _ => t | ERes t _ => t end.
  Definition proj (t : nat) (h : list event) : list event :=
    filter (fun e => ev_tid e =? t) h.

  (* H|t = S|t up to the (at most one) pending call of t, which is either dropped or completed *)
  Definition thread_equiv (t : nat) (h : list event) (W : list lop) : Prop :=
    proj t h = proj t (seqh W) \/
    (exists c, proj t h = proj t (seqh W) ++ [EInv t c]) \/
    (exists r, proj t h ++ [ERes t r] = proj t (seqh W)).

  Definition is_inv (t : nat) (e : event) : bool :=
    match e with EInv t' _ => t' =? t | _ => false end.
  Definition is_res (t : nat) (e : event) : bool :=
    match e with ERes t' _ => t' =? t | _ => false end.
  Definition icount (t : nat) (h : list event) : nat := length (filter (is_inv t) h).
  Definition rcount (t : nat) (h : list event) : nat := length (filter (is_res t) h).
  Definition cnt (t : nat) (ts : list nat) : nat := length (filter (Nat.eqb t) ts).

  (* position i of the order [ts] (thread ids) holds the k-th operation of thread t *)
  Definition is_op (ts : list nat) (i t k : nat) : Prop :=
    nth_error ts i = Some t /\ cnt t (firstn i ts) = k.

  (* (a) real time: if the response of A (the ka-th response of ta, at position p) precedes the
     invocation of B (the kb-th invocation of tb, at position q) in h, and B is in the order at
     position j, then A is in the order at some position i < j *)
  Definition rt_respected (h : list event) (ts : list nat) : Prop :=
    forall p q ta ra tb cb j,
      nth_error h p = Some (ERes ta ra) -> nth_error h q = Some (EInv tb cb) -> p < q ->
      is_op ts j tb (icount tb (firstn q h)) ->
      exists i, i < j /\ is_op ts i ta (rcount ta (firstn p h)).

  Definition linearizable_with (s : S) (h : list event) (W : list lop) : Prop :=
    legal s W /\ (forall t, thread_equiv t h W) /\ rt_respected h (map op_tid W).

  Definition linearizable (s : S) (h : list event) : Prop :=
    exists W, linearizable_with s h W.

  (* ---------- counting lemmas ---------- *)
  Lemma icount_app t a b : icount t (a ++ b) = icount t a + icount t b.
  Proof. apply flen_app. Qed.
  Lemma rcount_app t a b : rcount t (a ++ b) = rcount t a + rcount t b.
  Proof. apply flen_app. Qed.
  Lemma cnt_app t a b : cnt t (a ++ b) = cnt t a + cnt t b.
  Proof. apply flen_app. Qed.
  Lemma proj_app t a b : proj t (a ++ b) = proj t a ++ proj t b.
  Proof. apply filter_app. Qed.

  Lemma icount_proj t h : icount t (proj t h) = icount t h.
  Proof.
    unfold icount, proj. rewrite filter_filter_imp; auto.
    intros [t' c|t' r]; cbn; auto. discriminate.
  Qed.
  Lemma rcount_proj t h : rcount t (proj t h) = rcount t h.
  Proof.
    unfold rcount, proj. rewrite filter_filter_imp; auto.
    intros [t' c|t' r]; cbn; auto. discriminate.
  Qed.

  Lemma seqh_app a b : seqh (a ++ b) = seqh a ++ seqh b.
  Proof. apply flat_map_app. Qed.

  Lemma icount_seqh t W : icount t (seqh W) = cnt t (map op_tid W).
  Proof.
    induction W as [|x W IH]; auto.
    unfold icount, cnt in *. cbn. rewrite (Nat.eqb_sym t).
    destruct (op_tid x =? t); cbn; auto.
  Qed.
  Lemma rcount_seqh t W : rcount t (seqh W) = cnt t (map op_tid W).
  Proof.
    induction W as [|x W IH]; auto.
    unfold rcount, cnt in *. cbn. rewrite (Nat.eqb_sym t).
    destruct (op_tid x =? t); cbn; auto.
  Qed.

  Lemma cnt_firstn_lt ts i t : nth_error ts i = Some t -> cnt t (firstn i ts) < cnt t ts.
  Proof. intros H. eapply flen_firstn_lt; eauto. apply Nat.eqb_refl. Qed.

  Lemma cnt_ex ts t k : k < cnt t ts -> exists i, is_op ts i t k.
  Proof.
    intros H. destruct (flen_ex _ _ H) as (i & x & H1 & H2 & H3).
    apply Nat.eqb_eq in H2. subst x. exists i. split; auto.
  Qed.

  Lemma is_op_lt ts i t k : is_op ts i t k -> i < length ts.
  Proof. intros [H _]. apply nth_error_Some. congruence. Qed.

  Lemma is_op_snoc ts x i t k : i < length ts -> (is_op (ts ++ [x]) i t k <-> is_op ts i t k).
  Proof.
    intros H. unfold is_op. rewrite nth_error_app1 by auto.
    rewrite firstn_snoc_le by lia. tauto.
  Qed.

  Lemma is_op_unique ts i i' t k : is_op ts i t k -> is_op ts i' t k -> i = i'.
  Proof.
    intros [H1 H2] [H3 H4].
    destruct (Nat.lt_trichotomy i i') as [Hlt|[E|Hlt]]; auto; exfalso.
    - assert (Hn : nth_error (firstn i' ts) i = Some t) by (rewrite nth_error_firstn_lt; auto).
      pose proof (cnt_firstn_lt _ _ Hn) as Hc.
      rewrite firstn_firstn in Hc. replace (Nat.min i i') with i in Hc by lia. lia.
    - assert (Hn : nth_error (firstn i ts) i' = Some t) by (rewrite nth_error_firstn_lt; auto).
      pose proof (cnt_firstn_lt _ _ Hn) as Hc.
      rewrite firstn_firstn in Hc. replace (Nat.min i' i) with i' in Hc by lia. lia.
  Qed.

  (* (c) program order is built into the identification of operations by (thread, index) *)
  Lemma witness_program_order ts i j t k1 k2 :
    is_op ts i t k1 -> is_op ts j t k2 -> k1 < k2 -> i < j.
  Proof.
    intros [H1 H2] [H3 H4] Hk.
    destruct (Nat.lt_ge_cases i j) as [|Hge]; auto. exfalso.
    destruct (Nat.eq_dec i j) as [->|Hne]; [lia|].
    assert (Hn : nth_error (firstn i ts) j = Some t) by (rewrite nth_error_firstn_lt; auto; lia).
    pose proof (cnt_firstn_lt _ _ Hn) as Hc.
    rewrite firstn_firstn in Hc. replace (Nat.min j i) with j in Hc by lia. lia.
  Qed.

  (* ---------- the sequential specification is prefix-stable ---------- *)
  Lemma spec_state_app s a b : spec_state s (a ++ b) = spec_state (spec_state s a) b.
  Proof. unfold spec_state. apply fold_left_app. Qed.

  Lemma spec_run_app s a b :
    spec_run s (a ++ b) = spec_run s a ++ spec_run (spec_state s a) b.
  Proof. revert s; induction a as [|x a IH]; intros s; cbn; auto. rewrite IH. reflexivity. Qed.

  Lemma spec_run_tids s L : map op_tid (spec_run s L) = map fst L.
  Proof. revert s; induction L as [|x L IH]; intros s; cbn; auto. f_equal; auto. Qed.

  Lemma spec_run_calls s L : map fst (spec_run s L) = L.
  Proof.
    revert s; induction L as [|[t c] L IH]; intros s; cbn; auto. f_equal; auto.
  Qed.

  Lemma spec_run_legal s L : legal s (spec_run s L).
  Proof. unfold legal. rewrite spec_run_calls. reflexivity. Qed.

  Lemma spec_run_length s L : length (spec_run s L) = length L.
  Proof. revert s; induction L as [|x L IH]; intros s; cbn; auto. Qed.

  Lemma spec_run_nth s L0 x L2 :
    nth_error (spec_run s (L0 ++ x :: L2)) (length L0) =
    Some (fst x, snd x, snd (apply (snd x) (spec_state s L0))).
  Proof.
    rewrite spec_run_app, nth_error_app2; rewrite spec_run_length; [|lia].
    rewrite Nat.sub_diag. reflexivity.
  Qed.

  (* ---------- real time: the three elementary ghost moves ---------- *)
  Lemma rt_move_inv h ts t c :
    rt_respected h ts -> icount t h = cnt t ts -> rt_respected (h ++ [EInv t c]) ts.
  Proof.
    intros Hrt Hc p q ta ra tb cb j Hp Hq Hpq Hj.
    apply nth_error_snoc in Hq as [[Hql Hq]|[Hql Heq]].
    - rewrite nth_error_app1 in Hp by lia. rewrite firstn_snoc_le in Hj by lia.
      rewrite firstn_snoc_le by lia. eapply Hrt; eauto.
    - exfalso. inversion Heq; subst tb cb q.
      rewrite firstn_app, Nat.sub_diag, firstn_all in Hj. cbn in Hj. rewrite app_nil_r in Hj.
      destruct Hj as [Hj1 Hj2]. pose proof (cnt_firstn_lt _ _ Hj1). lia.
  Qed.

  Lemma rt_move_res h ts t r : rt_respected h ts -> rt_respected (h ++ [ERes t r]) ts.
  Proof.
    intros Hrt p q ta ra tb cb j Hp Hq Hpq Hj.
    apply nth_error_snoc in Hq as [[Hql Hq]|[_ Heq]]; [|discriminate].
    rewrite nth_error_app1 in Hp by lia. rewrite firstn_snoc_le in Hj by lia.
    rewrite firstn_snoc_le by lia. eapply Hrt; eauto.
  Qed.

  Lemma rt_move_lin h ts t :
    rt_respected h ts -> (forall ta, rcount ta h <= cnt ta ts) -> rt_respected h (ts ++ [t]).
  Proof.
    intros Hrt Hc p q ta ra tb cb j Hp Hq Hpq Hj.
    pose proof (is_op_lt Hj) as Hjl. rewrite app_length in Hjl. cbn in Hjl.
    destruct (Nat.eq_dec j (length ts)) as [->|Hne].
    - assert (Hlt : rcount ta (firstn p h) < rcount ta h).
      { eapply flen_firstn_lt; eauto. cbn. apply Nat.eqb_refl. }
      specialize (Hc ta).
      destruct (@cnt_ex ts ta (rcount ta (firstn p h))) as (i & Hi); [lia|].
      pose proof (is_op_lt Hi). exists i. split; auto. apply is_op_snoc; auto.
    - assert (Hjl' : j < length ts) by lia.
      apply is_op_snoc in Hj; auto.
      destruct (Hrt _ _ _ _ _ _ _ Hp Hq Hpq Hj) as (i & Hij & Hi).
      exists i. split; auto. apply is_op_snoc; auto. lia.
  Qed.

  (* ---------- the ghost machine: per-thread phases ---------- *)
  Variable s0 : S.

  Inductive phase :=
  | PIdle                 (* no call in flight *)
  | PInv (c : lcall)      (* invoked c, lock not yet acquired *)
  | PAcq (k : nat).       (* lock acquired: the call is entry k of the linearization order *)

  Definition tph (h : list event) (W : list lop) (ph : phase) (t : nat) : Prop :=
    match ph with
    | PIdle => proj t h = proj t (seqh W)
    | PInv c => proj t h = proj t (seqh W) ++ [EInv t c]
    | PAcq k => exists c r, nth_error W k = Some (t, c, r) /\
                            proj t h ++ [ERes t r] = proj t (seqh W)
    end.

  Lemma tph_equiv h W ph t : tph h W ph t -> thread_equiv t h W.
  Proof.
    destruct ph; cbn; intros H.
    - left; auto.
    - right; left; eauto.
    - right; right. destruct H as (c & r & _ & H); eauto.
  Qed.

  Lemma icount_one_inv t c : icount t [EInv t c] = 1.
  Proof. unfold icount; cbn. rewrite Nat.eqb_refl. reflexivity. Qed.
  Lemma rcount_one_res t r : rcount t [ERes t r] = 1.
  Proof. unfold rcount; cbn. rewrite Nat.eqb_refl. reflexivity. Qed.

  Lemma tph_counts h W ph t : tph h W ph t ->
    match ph with
    | PIdle => icount t h = cnt t (map op_tid W) /\ rcount t h = cnt t (map op_tid W)
    | PInv _ => icount t h = cnt t (map op_tid W) + 1 /\ rcount t h = cnt t (map op_tid W)
    | PAcq _ => icount t h = cnt t (map op_tid W) /\ rcount t h + 1 = cnt t (map op_tid W)
    end.
  Proof.
    destruct ph; cbn; intros H.
    - rewrite <- icount_proj, <- rcount_proj, H, icount_proj, rcount_proj,
        icount_seqh, rcount_seqh. auto.
    - rewrite <- icount_proj, <- rcount_proj, H, icount_app, rcount_app, icount_proj,
        rcount_proj, icount_seqh, rcount_seqh, icount_one_inv. cbn. lia.
    - destruct H as (c & r & _ & H).
      pose proof (f_equal (icount t) H) as Hi. pose proof (f_equal (rcount t) H) as Hr.
      rewrite icount_app, icount_proj, icount_proj, icount_seqh in Hi.
      rewrite rcount_app, rcount_proj, rcount_proj, rcount_seqh, rcount_one_res in Hr.
      cbn in Hi. lia.
  Qed.

  Definition upd_fun (A : Type) (f : nat -> A) (t : nat) (v : A) : nat -> A :=
    fun x => if x =? t then v else f x.

  Lemma upd_fun_eq (A : Type) (f : nat -> A) t v : upd_fun f t v t = v.
  Proof. unfold upd_fun. rewrite Nat.eqb_refl. reflexivity. Qed.
  Lemma upd_fun_ne (A : Type) (f : nat -> A) t v t' : t' <> t -> upd_fun f t v t' = f t'.
  Proof. unfold upd_fun. intros H. apply Nat.eqb_neq in H. rewrite H. reflexivity. Qed.

  Definition Ginv (h : list event) (L : list (nat * lcall)) (ph : nat -> phase) : Prop :=
    (forall t, tph h (spec_run s0 L) (ph t) t) /\ rt_respected h (map fst L).

  Lemma proj_snoc_other t' h e : ev_tid e <> t' -> proj t' (h ++ [e]) = proj t' h.
  Proof.
    intros H. rewrite proj_app. cbn. apply Nat.eqb_neq in H. rewrite H. apply app_nil_r.
  Qed.
  Lemma proj_snoc_same t h e : ev_tid e = t -> proj t (h ++ [e]) = proj t h ++ [e].
  Proof. intros H. rewrite proj_app. cbn. rewrite H, Nat.eqb_refl. reflexivity. Qed.

  Lemma tph_hist_other h W ph t' e : ev_tid e <> t' -> tph h W ph t' -> tph (h ++ [e]) W ph t'.
  Proof. intros H. unfold tph. rewrite proj_snoc_other; auto. Qed.

  Lemma seqh_snoc W x :
    seqh (W ++ [x]) = seqh W ++ [EInv (op_tid x) (op_call x); ERes (op_tid x) (op_res x)].
  Proof. rewrite seqh_app. reflexivity. Qed.

  Lemma tph_lin_other h W ph t' x : op_tid x <> t' -> tph h W ph t' -> tph h (W ++ [x]) ph t'.
  Proof.
    intros H. unfold tph. rewrite seqh_snoc, proj_app. cbn. apply Nat.eqb_neq in H. rewrite H.
    rewrite app_nil_r. destruct ph; auto.
    intros (c & r & Hn & E). exists c, r. split; auto.
    rewrite nth_error_app1; auto. apply nth_error_Some. congruence.
  Qed.

  Lemma Ginv_counts h L ph t : Ginv h L ph ->
    match ph t with
    | PIdle => icount t h = cnt t (map fst L) /\ rcount t h = cnt t (map fst L)
    | PInv _ => icount t h = cnt t (map fst L) + 1 /\ rcount t h = cnt t (map fst L)
    | PAcq _ => icount t h = cnt t (map fst L) /\ rcount t h + 1 = cnt t (map fst L)
    end.
  Proof.
    intros [H _]. specialize (H t). apply tph_counts in H.
    rewrite spec_run_tids in H. exact H.
  Qed.

  Lemma Ginv_init : Ginv [] [] (fun _ => PIdle).
  Proof.
    split; cbn; auto. intros p q ta ra tb cb j Hp. destruct p; discriminate.
  Qed.

  Lemma Ginv_inv h L ph t c :
    Ginv h L ph -> ph t = PIdle -> Ginv (h ++ [EInv t c]) L (upd_fun ph t (PInv c)).
  Proof.
    intros G Hph. pose proof (Ginv_counts t G) as Hc. rewrite Hph in Hc.
    destruct G as [H1 H2]. split.
    - intros t'. destruct (Nat.eq_dec t' t) as [->|Hne].
      + rewrite upd_fun_eq. cbn. rewrite proj_snoc_same by reflexivity.
        specialize (H1 t). rewrite Hph in H1. cbn in H1. rewrite H1. reflexivity.
      + rewrite upd_fun_ne by auto. apply tph_hist_other; auto; cbn; congruence.
    - apply rt_move_inv; auto. tauto.
  Qed.

  Lemma Ginv_lin h L ph t c :
    Ginv h L ph -> ph t = PInv c -> Ginv h (L ++ [(t, c)]) (upd_fun ph t (PAcq (length L))).
  Proof.
    intros G Hph.
    assert (Hle : forall ta, rcount ta h <= cnt ta (map fst L)).
    { intros ta. pose proof (Ginv_counts ta G) as Hc. destruct (ph ta); lia. }
    destruct G as [H1 H2]. split.
    - intros t'. rewrite spec_run_app. cbn [spec_run fst snd].
      destruct (Nat.eq_dec t' t) as [->|Hne].
      + rewrite upd_fun_eq. cbn [tph].
        exists c, (snd (apply c (spec_state s0 L))). split.
        * rewrite nth_error_app2; rewrite spec_run_length; [|lia].
          rewrite Nat.sub_diag. reflexivity.
        * specialize (H1 t). rewrite Hph in H1. cbn in H1. rewrite H1.
          rewrite seqh_snoc, proj_app. cbn. rewrite Nat.eqb_refl.
          rewrite <- app_assoc. reflexivity.
      + rewrite upd_fun_ne by auto. apply tph_lin_other; auto; cbn; congruence.
    - rewrite map_app. cbn. apply rt_move_lin; auto.
  Qed.

  Lemma Ginv_res h L ph t k x :
    Ginv h L ph -> ph t = PAcq k -> nth_error (spec_run s0 L) k = Some x ->
    Ginv (h ++ [ERes t (op_res x)]) L (upd_fun ph t PIdle).
  Proof.
    intros [H1 H2] Hph Hx. split.
    - intros t'. destruct (Nat.eq_dec t' t) as [->|Hne].
      + rewrite upd_fun_eq. cbn. rewrite proj_snoc_same by reflexivity.
        specialize (H1 t). rewrite Hph in H1. cbn in H1.
        destruct H1 as (c & r & Hn & E). rewrite Hx in Hn. inversion Hn; subst x. exact E.
      + rewrite upd_fun_ne by auto. apply tph_hist_other; auto; cbn; congruence.
    - apply rt_move_res; auto.
  Qed.

  Lemma Ginv_linearizable h L ph :
    Ginv h L ph -> linearizable_with s0 h (spec_run s0 L).
  Proof.
    intros [H1 H2]. split; [apply spec_run_legal|]. split.
    - intros t. eapply tph_equiv; eauto.
    - rewrite spec_run_tids. exact H2.
  Qed.

  (* ---------- the instrumented system ---------- *)
  Variable scripts : list (list (op S R)).

  (* the inner-level operation a thread will attempt next (when it is outside any section) *)
  Definition next_iop (th : thread S R) : option (iop S R) :=
    match t_in th with
    | Idle _ _ =>
        match t_outer th with
        | Some (i :: _) => Some i
        | Some [] => None
        | None => match t_prog th with OIn i :: _ => Some i | _ => None end
        end
    | _ => None
    end.

  (* what a scheduler step of thread t does at the level of calls; computed from the PRE-state *)
  Inductive action :=
  | ANone                               (* local step, outer lock, failed TryLock, micro-step *)
  | AAcqW (c : call S R)                (* Lock / TryLock succeeds *)
  | AAcqR (obs : list (S -> R))         (* RLock succeeds *)
  | AUnlock (r : R)                     (* Unlock, returning r *)
  | AObs (v : R)                        (* one observation under the read lock *)
  | ARUnlock.                           (* RUnlock *)

  Definition act (st : state S R) (t : nat) : action :=
    match nth_error (thr st) t with
    | None => ANone
    | Some th =>
      match t_in th with
      | InW _ [] r => AUnlock r
      | InW _ (_ :: _) _ => ANone
      | InR (f :: _) => AObs (f (sh st))
      | InR [] => ARUnlock
      | Idle _ _ =>
          match next_iop th with
          | Some (IWrite _ c) => if wlk st || (0 <? rdc st) then ANone else AAcqW c
          | Some (IRead obs) => if wlk st then ANone else AAcqR obs
          | _ => ANone
          end
      end
    end.

  (* the blocking call thread t is about to make: Lock (not TryLock) or RLock *)
  Definition next_call (st : state S R) (t : nat) : option lcall :=
    match nth_error (thr st) t with
    | None => None
    | Some th =>
      match next_iop th with
      | Some (IWrite false c) => Some (LW c)
      | Some (IRead obs) => Some (LR obs)
      | _ => None
      end
    end.

  Definition status (st : state S R) (t : nat) : istatus S R :=
    match nth_error (thr st) t with Some th => t_in th | None => Idle _ _ end.

  Ltac step_cases H :=
    unfold step in H;
    match type of H with
    | match nth_error ?l ?t with _ => _ end = _ =>
        let th := fresh "th" in let Hth := fresh "Hth" in
        destruct (nth_error l t) as [th|] eqn:Hth; [|discriminate];
        let Hin := fresh "Hin" in
        destruct (t_in th) as [|c [|m rem] r|[|f rem]] eqn:Hin;
        [ let Ho := fresh "Ho" in
          destruct (t_outer th) as [[|i rest]|] eqn:Ho;
          [ | destruct i as [|try c|obs]; unfold do_iop in H
            | let Hp := fresh "Hp" in
              destruct (t_prog th) as [|[i|try b] p] eqn:Hp;
              [ discriminate
              | destruct i as [|try c|obs]; unfold do_iop in H
              | ] ]
        | | | | ]
    end.

  Lemma step_effect st t st' : step st t = Some st' ->
    exists th th', nth_error (thr st) t = Some th /\ thr st' = upd (thr st) t th' /\
      match act st t with
      | AAcqW c =>
          t_in th = Idle _ _ /\ (exists try, next_iop th = Some (IWrite try c)) /\
          t_in th' = InW c (c_steps c) (c_init c) /\
          g_acq st' = g_acq st ++ [(t, c)] /\ wlk st = false /\ rdc st = 0
      | AAcqR obs =>
          t_in th = Idle _ _ /\ next_iop th = Some (IRead obs) /\ t_in th' = InR obs /\
          g_acq st' = g_acq st /\ wlk st = false
      | AUnlock r =>
          (exists c, t_in th = InW c [] r) /\ t_in th' = Idle _ _ /\ g_acq st' = g_acq st
      | AObs v =>
          (exists f rem, t_in th = InR (f :: rem) /\ t_in th' = InR rem /\ v = f (sh st)) /\
          g_acq st' = g_acq st
      | ARUnlock => t_in th = InR [] /\ t_in th' = Idle _ _ /\ g_acq st' = g_acq st
      | ANone =>
          g_acq st' = g_acq st /\
          ((t_in th = Idle _ _ /\ t_in th' = Idle _ _ /\
            (forall c, next_iop th <> Some (IWrite false c)) /\
            (forall obs, next_iop th <> Some (IRead obs))) \/
           (exists c m rem r r', t_in th = InW c (m :: rem) r /\ t_in th' = InW c rem r'))
      end.
  Proof.
    intros H. step_cases H.
    all: repeat match type of H with
         | (if ?b then _ else _) = _ => let E := fresh "E" in destruct b eqn:E
         end; try discriminate.
    all: inversion H; subst; clear H; unfold set_thr; cbn [sh wlk rdc olk thr g_acq g_ret g_obs].
    all: exists th; eexists; split; [reflexivity|]; split; [reflexivity|].
    all: unfold act; rewrite Hth, Hin; unfold next_iop; rewrite ?Hin, ?Ho, ?Hp, ?E; cbn [t_in].
    all: try (apply Bool.orb_false_iff in E as [E1 E2]; apply Nat.ltb_ge in E2).
    all: repeat split; eauto; try lia; try congruence.
    all: try (left; repeat split; auto; congruence).
    all: try (right; repeat eexists; eauto).
  Qed.

  (* The instrumented state: MutexAtomicity's state, untouched, plus ghosts.  The wrapper
     never re-implements [step]: a run step IS [MutexAtomicity.step] on the [w_st] field. *)
  Record wstate := {
    w_st : state S R;
    w_hist : list event;               (* the history of invocations and responses *)
    w_lin : list (nat * lcall);        (* lock acquisitions (write AND read) in order *)
    w_ph : nat -> phase;               (* per-thread phase of the call in flight *)
    w_acc : nat -> list R;             (* values observed so far by a reader *)
    w_ret : nat -> option res          (* unlocked, response not yet delivered to the caller *)
  }.

  Inductive label :=
  | LInv (t : nat)     (* thread t invokes its next blocking call (starts trying to acquire) *)
  | LRun (t : nat)     (* thread t takes one scheduler step of MutexAtomicity *)
  | LRes (t : nat).    (* the call of thread t, already unlocked, returns to its caller *)

  (* deliver the response owed to thread t, if any *)
  Definition flush (w : wstate) (t : nat) : wstate :=
    match w_ret w t with
    | Some r => {| w_st := w_st w; w_hist := w_hist w ++ [ERes t r]; w_lin := w_lin w;
                   w_ph := upd_fun (w_ph w) t PIdle; w_acc := w_acc w;
                   w_ret := upd_fun (w_ret w) t None |}
    | None => w
    end.

  Definition acquire (w : wstate) (st' : state S R) (t : nat) (c : lcall) : wstate :=
    {| w_st := st';
       w_hist := match w_ph w t with
                 | PIdle => w_hist w ++ [EInv t c]     (* invoked and acquired in one step *)
                 | _ => w_hist w
                 end;
       w_lin := w_lin w ++ [(t, c)];
       w_ph := upd_fun (w_ph w) t (PAcq (length (w_lin w)));
       w_acc := upd_fun (w_acc w) t [];
       w_ret := w_ret w |}.

  (* Unlock / RUnlock: the result is fixed; the response event is emitted by a later [LRes t]
     (immediately after, for a history that records the response at the Unlock step), or at
     the latest just before the thread's next scheduler step *)
  Definition owe (w : wstate) (st' : state S R) (t : nat) (r : res) : wstate :=
    {| w_st := st'; w_hist := w_hist w; w_lin := w_lin w; w_ph := w_ph w; w_acc := w_acc w;
       w_ret := upd_fun (w_ret w) t (Some r) |}.

  Definition run1 (w : wstate) (st' : state S R) (t : nat) (a : action) : wstate :=
    match a with
    | ANone => {| w_st := st'; w_hist := w_hist w; w_lin := w_lin w;
                  w_ph := w_ph w; w_acc := w_acc w; w_ret := w_ret w |}
    | AAcqW c => acquire w st' t (LW c)
    | AAcqR obs => acquire w st' t (LR obs)
    | AUnlock r => owe w st' t (RW r)
    | AObs v => {| w_st := st'; w_hist := w_hist w; w_lin := w_lin w; w_ph := w_ph w;
                   w_acc := upd_fun (w_acc w) t (w_acc w t ++ [v]); w_ret := w_ret w |}
    | ARUnlock => owe w st' t (RR (w_acc w t))
    end.

  Definition wstep (w : wstate) (l : label) : option wstate :=
    match l with
    | LInv t =>
        match w_ph w t, next_call (w_st w) t with
        | PIdle, Some c =>
            Some {| w_st := w_st w; w_hist := w_hist w ++ [EInv t c]; w_lin := w_lin w;
                    w_ph := upd_fun (w_ph w) t (PInv c); w_acc := w_acc w;
                    w_ret := w_ret w |}
        | _, _ => None
        end
    | LRes t => match w_ret w t with Some _ => Some (flush w t) | None => None end
    | LRun t =>
        match step (w_st w) t with
        | None => None
        | Some st' => Some (run1 (flush w t) st' t (act (w_st w) t))
        end
    end.

  Definition winit : wstate :=
    {| w_st := init s0 scripts; w_hist := []; w_lin := [];
       w_ph := fun _ => PIdle; w_acc := fun _ => []; w_ret := fun _ => None |}.

  Inductive wreachable : wstate -> Prop :=
  | WR_init : wreachable winit
  | WR_step w l w' : wreachable w -> wstep w l = Some w' -> wreachable w'.

  Fixpoint wexec (ls : list label) (w : wstate) : wstate :=
    match ls with
    | [] => w
    | l :: r => wexec r (match wstep w l with Some w' => w' | None => w end)
    end.

  Lemma wexec_reachable ls w : wreachable w -> wreachable (wexec ls w).
  Proof.
    revert w; induction ls as [|l r IH]; intros w H; cbn; auto.
    apply IH. destruct (wstep w l) eqn:E; auto. eapply WR_step; eauto.
  Qed.

  (* --- the instrumentation neither adds nor removes behaviours of MutexAtomicity --- *)
  Lemma flush_st w t : w_st (flush w t) = w_st w.
  Proof. unfold flush. destruct (w_ret w t); reflexivity. Qed.

  Lemma run1_st w st' t a : w_st (run1 w st' t a) = st'.
  Proof. destruct a; reflexivity. Qed.

  Lemma wstep_run_projects w t w' :
    wstep w (LRun t) = Some w' -> step (w_st w) t = Some (w_st w').
  Proof.
    cbn. destruct (step (w_st w) t) as [st'|]; [|discriminate].
    intros H; inversion H; subst; clear H. rewrite run1_st. reflexivity.
  Qed.

  Lemma wstep_inv_projects w t w' : wstep w (LInv t) = Some w' -> w_st w' = w_st w.
  Proof.
    cbn. destruct (w_ph w t); try discriminate.
    destruct (next_call (w_st w) t); try discriminate.
    intros H; inversion H; reflexivity.
  Qed.

  Lemma wstep_res_projects w t w' : wstep w (LRes t) = Some w' -> w_st w' = w_st w.
  Proof.
    cbn. destruct (w_ret w t) eqn:E; try discriminate.
    intros H; inversion H. apply flush_st.
  Qed.

  Lemma wstep_run_complete w t st' :
    step (w_st w) t = Some st' -> exists w', wstep w (LRun t) = Some w' /\ w_st w' = st'.
  Proof.
    intros H. cbn. rewrite H. eexists; split; [reflexivity|]. apply run1_st.
  Qed.

  Theorem wreachable_reachable w : wreachable w -> reachable s0 scripts (w_st w).
  Proof.
    induction 1 as [|w l w' Hw IH Hs]; [constructor|]. destruct l as [t|t|t].
    - rewrite (wstep_inv_projects _ _ Hs). exact IH.
    - eapply R_step; [exact IH | apply wstep_run_projects; exact Hs].
    - rewrite (wstep_res_projects _ _ Hs). exact IH.
  Qed.

  Theorem reachable_wreachable st :
    reachable s0 scripts st -> exists w, wreachable w /\ w_st w = st.
  Proof.
    induction 1 as [|st t st' Hr (w & Hw & E) Hs].
    - exists winit; split; [constructor | reflexivity].
    - subst st. destruct (wstep_run_complete w _ Hs) as (w' & Hs' & E').
      exists w'; split; auto. eapply WR_step; eauto.
  Qed.

  (* ---------- the invariant tying the ghosts to MutexAtomicity's state ---------- *)
  Definition is_read_entry (x : nat * lcall) : Prop :=
    match snd x with LR _ => True | LW _ => False end.

  (* the write acquisitions among all acquisitions *)
  Definition writes_of (L : list (nat * lcall)) : list (nat * call S R) :=
    flat_map (fun x => match snd x with LW c => [(fst x, c)] | LR _ => [] end) L.

  Lemma writes_of_app a b : writes_of (a ++ b) = writes_of a ++ writes_of b.
  Proof. apply flat_map_app. Qed.

  Lemma spec_state_writes s L : spec_state s L = seq_state s (map snd (writes_of L)).
  Proof.
    revert s; induction L as [|[t [c|obs]] L IH]; intros s; auto.
    - unfold spec_state, seq_state in *. cbn. apply IH.
    - unfold spec_state, seq_state in *. cbn. apply IH.
  Qed.

  Lemma spec_state_reads s L : Forall is_read_entry L -> spec_state s L = s.
  Proof.
    revert s; induction L as [|[t [c|obs]] L IH]; intros s H; auto; inversion H; subst.
    - contradiction.
    - unfold spec_state in *. cbn. apply IH; auto.
  Qed.

  Definition sinv3 (st : state S R) (L : list (nat * lcall)) (ph : nat -> phase)
             (acc : nat -> list R) (ret : nat -> option res) (t : nat) : Prop :=
    match status st t with
    | Idle _ _ =>
        (ph t = PIdle /\ ret t = None) \/
        (exists c, ph t = PInv c /\ next_call st t = Some c /\ ret t = None) \/
        (exists k x, ph t = PAcq k /\ nth_error (spec_run s0 L) k = Some x /\
                     ret t = Some (op_res x))
    | InW c _ _ => exists L0, L = L0 ++ [(t, LW c)] /\ ph t = PAcq (length L0) /\ ret t = None
    | InR rem =>
        exists L1 L2 obs done,
          L = L1 ++ (t, LR obs) :: L2 /\ Forall is_read_entry L2 /\
          ph t = PAcq (length L1) /\ obs = done ++ rem /\
          acc t = map (fun f => f (spec_state s0 L1)) done /\ ret t = None
    end.

  Definition WInv (w : wstate) : Prop :=
    reachable s0 scripts (w_st w) /\
    writes_of (w_lin w) = g_acq (w_st w) /\
    (forall t, sinv3 (w_st w) (w_lin w) (w_ph w) (w_acc w) (w_ret w) t) /\
    Ginv (w_hist w) (w_lin w) (w_ph w).

  Lemma sinv3_other (st st' : state S R) L xs ph ph' acc acc' ret ret' t' :
    nth_error (thr st') t' = nth_error (thr st) t' -> ph' t' = ph t' -> acc' t' = acc t' ->
    ret' t' = ret t' ->
    (forall c rem r, status st t' = InW c rem r -> xs = []) ->
    (forall rem, status st t' = InR rem -> Forall is_read_entry xs) ->
    sinv3 st L ph acc ret t' -> sinv3 st' (L ++ xs) ph' acc' ret' t'.
  Proof.
    intros Hn Hp Ha Hr HW HR H. unfold sinv3, status, next_call in *. rewrite Hn, Hp, Ha, Hr.
    destruct (nth_error (thr st) t') as [th|].
    2:{ destruct H as [H|[H|(k & x & H1 & H2 & H3)]]; auto.
        right; right. exists k, x. repeat split; auto.
        rewrite spec_run_app, nth_error_app1; auto. apply nth_error_Some. congruence. }
    destruct (t_in th) as [|c rem r|rem] eqn:E.
    - destruct H as [H|[H|(k & x & H1 & H2 & H3)]]; auto.
      right; right. exists k, x. repeat split; auto.
      rewrite spec_run_app, nth_error_app1; auto. apply nth_error_Some. congruence.
    - rewrite (HW _ _ _ eq_refl), app_nil_r. exact H.
    - destruct H as (L1 & L2 & obs & done & -> & HF & H1 & H2 & H3 & H4).
      exists L1, (L2 ++ xs), obs, done. rewrite <- app_assoc. cbn. repeat split; auto.
      apply Forall_app; split; auto. eapply HR; reflexivity.
  Qed.

  Lemma sinv3_other_same (st st' : state S R) L ph ph' acc acc' ret ret' t' :
    nth_error (thr st') t' = nth_error (thr st) t' -> ph' t' = ph t' -> acc' t' = acc t' ->
    ret' t' = ret t' ->
    sinv3 st L ph acc ret t' -> sinv3 st' L ph' acc' ret' t'.
  Proof.
    intros Hn Hp Ha Hr H. rewrite <- (app_nil_r L).
    eapply sinv3_other; eauto.
  Qed.

  Lemma status_inw_wlk st t c rem r :
    reachable s0 scripts st -> status st t = InW c rem r -> wlk st = true.
  Proof.
    intros Hr H. apply (in_write_wlk (t:=t) (lock_inv_reachable Hr)).
    unfold status in H. destruct (nth_error (thr st) t) as [th|] eqn:E; [|discriminate].
    exists th; split; auto. unfold isW. rewrite H. reflexivity.
  Qed.

  Lemma status_inr st t rem :
    reachable s0 scripts st -> status st t = InR rem -> wlk st = false /\ 1 <= rdc st.
  Proof.
    intros Hr H. apply (in_read_rdc (t:=t) (lock_inv_reachable Hr)).
    unfold status in H. destruct (nth_error (thr st) t) as [th|] eqn:E; [|discriminate].
    exists th; split; auto. unfold isR. rewrite H. reflexivity.
  Qed.

  Lemma next_call_idle st t c : next_call st t = Some c -> status st t = Idle _ _.
  Proof.
    unfold next_call, status, next_iop. destruct (nth_error (thr st) t) as [th|]; [|discriminate].
    destruct (t_in th); auto; discriminate.
  Qed.

  Lemma Ginv_ext h L ph ph' : (forall t, ph t = ph' t) -> Ginv h L ph -> Ginv h L ph'.
  Proof. intros E [H1 H2]. split; auto. intros t. rewrite <- E. auto. Qed.

  Lemma WInv_init : WInv winit.
  Proof.
    split; [constructor|]. split; [reflexivity|]. split; [|apply Ginv_init].
    intros t. unfold sinv3, status. cbn.
    destruct (nth_error _ t) as [th|] eqn:E; auto.
    apply nth_error_In in E. apply in_map_iff in E. destruct E as (q & <- & _). cbn. auto.
  Qed.

  Lemma WInv_flush w t : WInv w -> WInv (flush w t) /\ w_ret (flush w t) t = None.
  Proof.
    intros (Hr & Hw & H3 & HG). unfold flush. destruct (w_ret w t) as [r|] eqn:Hret.
    2:{ split; [exact (conj Hr (conj Hw (conj H3 HG))) | exact Hret]. }
    cbn [w_ret]. split; [|apply upd_fun_eq].
    unfold WInv; cbn [w_st w_hist w_lin w_ph w_acc w_ret].
    pose proof (H3 t) as H3t. unfold sinv3 in H3t.
    assert (Hidle : status (w_st w) t = Idle _ _ /\
                    exists k x, w_ph w t = PAcq k /\
                      nth_error (spec_run s0 (w_lin w)) k = Some x /\ r = op_res x).
    { destruct (status (w_st w) t) as [|c rem r0|rem].
      - split; auto. destruct H3t as [[_ H]|[(c & _ & _ & H)|(k & x & H1 & H2 & H4)]];
          try congruence. exists k, x. repeat split; auto. congruence.
      - destruct H3t as (L0 & _ & _ & H). congruence.
      - destruct H3t as (L1 & L2 & obs & done & _ & _ & _ & _ & _ & H). congruence. }
    destruct Hidle as (Hidle & k & x & Hp & Hx & ->).
    split; [auto|]. split; [auto|]. split.
    - intros t'. destruct (Nat.eq_dec t' t) as [->|Hne].
      + unfold sinv3. rewrite Hidle. left. rewrite !upd_fun_eq. auto.
      + apply (@sinv3_other_same (w_st w) (w_st w) (w_lin w) (w_ph w) _ (w_acc w) _
                                  (w_ret w) _ t'); auto; rewrite upd_fun_ne; auto.
    - apply (@Ginv_res _ _ _ t _ _ HG Hp Hx).
  Qed.

  Lemma WInv_run1 w t st' :
    WInv w -> w_ret w t = None -> step (w_st w) t = Some st' ->
    WInv (run1 w st' t (act (w_st w) t)).
  Proof.
    intros (Hr & Hw & H3 & HG) Hret Hst.
    destruct (step_effect _ _ Hst) as (th & th' & Hth & Hthr & Heff).
    assert (Hr' : reachable s0 scripts st') by (eapply R_step; eauto).
    assert (Hoth : forall t', t' <> t ->
              nth_error (thr st') t' = nth_error (thr (w_st w)) t').
    { intros t' Hne. rewrite Hthr. apply nth_upd_ne. auto. }
    assert (Hst_t : status st' t = t_in th').
    { unfold status. rewrite Hthr. erewrite nth_upd_eq; eauto. }
    assert (Hst_t0 : status (w_st w) t = t_in th) by (unfold status; rewrite Hth; auto).
    pose proof (H3 t) as H3t. unfold sinv3 in H3t. rewrite Hst_t0 in H3t.
    destruct (act (w_st w) t) as [|c|obs|r|v|] eqn:Hact;
      unfold WInv, run1, acquire, owe; cbn [w_st w_hist w_lin w_ph w_acc w_ret].
    + (* no call-level effect *)
      destruct Heff as [Hg Hcase].
      split; [exact Hr'|]. split; [congruence|]. split; [|exact HG].
      intros t'. destruct (Nat.eq_dec t' t) as [->|Hne].
      * unfold sinv3. rewrite Hst_t.
        destruct Hcase as [(Hi & Hi' & Hnw & Hnr)|(c & m & rem & r & r' & Hi & Hi')].
        -- rewrite Hi'. rewrite Hi in H3t.
           destruct H3t as [Hp|[(c & Hp & Hnc & _)|(k & x & _ & _ & Hx)]];
             [left; auto| |congruence].
           exfalso. unfold next_call in Hnc. rewrite Hth in Hnc.
           destruct (next_iop th) as [[|[|] c'|obs]|] eqn:E; try discriminate.
           ++ eapply Hnw; eauto.
           ++ eapply Hnr; eauto.
        -- rewrite Hi'. rewrite Hi in H3t. exact H3t.
      * apply (@sinv3_other_same (w_st w) st' (w_lin w) (w_ph w) _ (w_acc w) _
                                  (w_ret w) _ t'); auto.
    + (* write-lock acquisition *)
      destruct Heff as (Hi & (try & Hni) & Hi' & Hg & Hwl & Hrd).
      split; [exact Hr'|]. split; [rewrite writes_of_app, Hw, Hg; reflexivity|]. split.
      * intros t'. destruct (Nat.eq_dec t' t) as [->|Hne].
        -- unfold sinv3. rewrite Hst_t, Hi'. exists (w_lin w). rewrite upd_fun_eq. auto.
        -- apply (@sinv3_other (w_st w) st' (w_lin w) _ (w_ph w) _ (w_acc w) _
                                (w_ret w) _ t'); auto; try (rewrite upd_fun_ne; auto).
           ++ intros c' rem r E. pose proof (status_inw_wlk _ Hr E). congruence.
           ++ intros rem E. destruct (status_inr _ Hr E). lia.
      * rewrite Hi in H3t.
        destruct H3t as [[Hp _]|[(c0 & Hp & Hnc & _)|(k & x & _ & _ & Hx)]];
          [| |congruence]; rewrite Hp.
        -- eapply Ginv_ext; [|apply Ginv_lin; [apply Ginv_inv; eauto | apply upd_fun_eq]].
           intros x. unfold upd_fun. destruct (x =? t); auto.
        -- assert (c0 = LW c).
           { unfold next_call in Hnc. rewrite Hth, Hni in Hnc.
             destruct try; inversion Hnc; auto. }
           subst c0. apply Ginv_lin; auto.
    + (* read-lock acquisition *)
      destruct Heff as (Hi & Hni & Hi' & Hg & Hwl).
      split; [exact Hr'|]. split.
      { rewrite writes_of_app, Hw, Hg. cbn. apply app_nil_r. }
      split.
      * intros t'. destruct (Nat.eq_dec t' t) as [->|Hne].
        -- unfold sinv3. rewrite Hst_t, Hi'. exists (w_lin w), [], obs, [].
           rewrite !upd_fun_eq. repeat split; auto.
        -- apply (@sinv3_other (w_st w) st' (w_lin w) _ (w_ph w) _ (w_acc w) _
                                (w_ret w) _ t'); auto; try (rewrite upd_fun_ne; auto).
           ++ intros c' rem r E. pose proof (status_inw_wlk _ Hr E). congruence.
           ++ intros rem E. constructor; cbn; auto.
      * rewrite Hi in H3t.
        destruct H3t as [[Hp _]|[(c0 & Hp & Hnc & _)|(k & x & _ & _ & Hx)]];
          [| |congruence]; rewrite Hp.
        -- eapply Ginv_ext; [|apply Ginv_lin; [apply Ginv_inv; eauto | apply upd_fun_eq]].
           intros x. unfold upd_fun. destruct (x =? t); auto.
        -- assert (c0 = LR obs).
           { unfold next_call in Hnc. rewrite Hth, Hni in Hnc. inversion Hnc; auto. }
           subst c0. apply Ginv_lin; auto.
    + (* Unlock: the response owed carries the sequential result *)
      destruct Heff as ((c & Hi) & Hi' & Hg).
      rewrite Hi in H3t. destruct H3t as (L0 & HL & Hp & _).
      split; [exact Hr'|]. split; [congruence|]. split; [|exact HG].
      intros t'. destruct (Nat.eq_dec t' t) as [->|Hne].
      * assert (Hres : snd (body c (spec_state s0 L0)) = r).
        { destruct (atom_inv_reachable Hr) as [_ A2].
          destruct (A2 t c [] r) as (acq' & done & Ha & Hc & Hrun & Hret').
          { exists th; auto. }
          rewrite app_nil_r in Hc. rewrite <- Hw, HL, writes_of_app in Ha. cbn in Ha.
          apply app_inj_tail in Ha as [Ha _].
          unfold body. rewrite spec_state_writes, Ha, Hc, Hrun. reflexivity. }
        pose proof (spec_run_nth s0 L0 (t, LW c) []) as Hx. rewrite <- HL in Hx.
        unfold sinv3. rewrite Hst_t, Hi'. right; right.
        eexists; eexists. split; [exact Hp|]. split; [exact Hx|].
        rewrite upd_fun_eq. cbn. rewrite Hres. reflexivity.
      * apply (@sinv3_other_same (w_st w) st' (w_lin w) (w_ph w) _ (w_acc w) _
                                  (w_ret w) _ t'); auto. rewrite upd_fun_ne; auto.
    + (* an observation under the read lock *)
      destruct Heff as ((f & rem & Hi & Hi' & Hv) & Hg).
      rewrite Hi in H3t.
      destruct H3t as (L1 & L2 & obs & done & HL & HF & Hp & Hobs & Hacc & Hrt).
      split; [exact Hr'|]. split; [congruence|]. split; [|exact HG].
      intros t'. destruct (Nat.eq_dec t' t) as [->|Hne].
      * unfold sinv3. rewrite Hst_t, Hi'. exists L1, L2, obs, (done ++ [f]).
        rewrite upd_fun_eq. repeat split; auto.
        -- rewrite <- app_assoc. exact Hobs.
        -- rewrite map_app, Hacc. cbn. subst v. do 3 f_equal.
           rewrite <- Hst_t0 in Hi. destruct (status_inr _ Hr Hi) as [Hwl _].
           destruct (atom_inv_reachable Hr) as [A1 _]. destruct (A1 Hwl) as [Hsh _].
           rewrite Hsh, <- Hw, <- spec_state_writes, HL, spec_state_app.
           apply spec_state_reads. constructor; auto. exact I.
      * apply (@sinv3_other_same (w_st w) st' (w_lin w) (w_ph w) _ (w_acc w) _
                                  (w_ret w) _ t'); auto. rewrite upd_fun_ne; auto.
    + (* RUnlock: the response owed carries the observed values *)
      destruct Heff as (Hi & Hi' & Hg).
      rewrite Hi in H3t.
      destruct H3t as (L1 & L2 & obs & done & HL & HF & Hp & Hobs & Hacc & Hrt).
      split; [exact Hr'|]. split; [congruence|]. split; [|exact HG].
      intros t'. destruct (Nat.eq_dec t' t) as [->|Hne].
      * pose proof (spec_run_nth s0 L1 (t, LR obs) L2) as Hx. rewrite <- HL in Hx.
        unfold sinv3. rewrite Hst_t, Hi'. right; right.
        eexists; eexists. split; [exact Hp|]. split; [exact Hx|].
        rewrite upd_fun_eq. cbn. rewrite app_nil_r in Hobs. subst obs.
        rewrite Hacc. reflexivity.
      * apply (@sinv3_other_same (w_st w) st' (w_lin w) (w_ph w) _ (w_acc w) _
                                  (w_ret w) _ t'); auto. rewrite upd_fun_ne; auto.
  Qed.

  Lemma WInv_step w l w' : WInv w -> wstep w l = Some w' -> WInv w'.
  Proof.
    intros HW Hs. destruct l as [t|t|t].
    - (* invocation *)
      destruct HW as (Hr & Hw & H3 & HG).
      cbn in Hs. destruct (w_ph w t) eqn:Hph; try discriminate.
      destruct (next_call (w_st w) t) as [c|] eqn:Hnc; try discriminate.
      inversion Hs; subst w'; clear Hs. unfold WInv; cbn [w_st w_hist w_lin w_ph w_acc w_ret].
      split; [auto|]. split; [auto|]. split.
      + intros t'. destruct (Nat.eq_dec t' t) as [->|Hne].
        * pose proof (H3 t) as H3t. unfold sinv3 in *.
          rewrite (next_call_idle _ _ Hnc) in *. right; left. exists c.
          rewrite upd_fun_eq. repeat split; auto.
          destruct H3t as [[_ H]|[(c' & _ & _ & H)|(k & x & H & _)]]; auto. congruence.
        * specialize (H3 t'). unfold sinv3 in *. rewrite upd_fun_ne by auto. exact H3.
      + apply Ginv_inv; auto.
    - (* a scheduler step of MutexAtomicity, after delivering any response still owed *)
      cbn in Hs. destruct (step (w_st w) t) as [st'|] eqn:Hst; [|discriminate].
      inversion Hs; subst w'; clear Hs.
      destruct (WInv_flush t HW) as [HW1 Hret1].
      rewrite <- (flush_st w t) in Hst |- *. apply WInv_run1; auto.
    - (* the response is delivered *)
      cbn in Hs. destruct (w_ret w t); [|discriminate]. inversion Hs; subst w'.
      apply WInv_flush; auto.
  Qed.

  Lemma WInv_reachable w : wreachable w -> WInv w.
  Proof. induction 1; [apply WInv_init | eapply WInv_step; eauto]. Qed.

  (* ---------- 3. the main theorem ---------- *)
  (* Every history of the instrumented system is linearizable; the witness is the order of
     lock acquisitions [w_lin] (write Lock/TryLock successes and RLock successes), each call
     carrying the result the SEQUENTIAL object gives it; the write acquisitions in it are
     exactly MutexAtomicity's [g_acq]. *)
  Theorem lock_protected_linearizable w : wreachable w ->
    linearizable_with s0 (w_hist w) (spec_run s0 (w_lin w)) /\
    writes_of (w_lin w) = g_acq (w_st w).
  Proof.
    intros H. destruct (WInv_reachable H) as (_ & Hw & _ & HG). split; auto.
    eapply Ginv_linearizable; eauto.
  Qed.

  Corollary lock_protected_history_linearizable w :
    wreachable w -> linearizable s0 (w_hist w).
  Proof. intros H. eexists. apply (lock_protected_linearizable H). Qed.

  (* stated on MutexAtomicity's own reachability: every reachable state is the projection of
     an instrumented run, and every instrumented run over it has a linearizable history *)
  Corollary lock_protected_linearizable_reachable st :
    reachable s0 scripts st ->
    (exists w, wreachable w /\ w_st w = st) /\
    (forall w, wreachable w -> w_st w = st ->
       linearizable_with s0 (w_hist w) (spec_run s0 (w_lin w)) /\
       writes_of (w_lin w) = g_acq st).
  Proof.
    intros H. split; [apply reachable_wreachable; auto|].
    intros w Hw <-. apply lock_protected_linearizable; auto.
  Qed.

  (* a read-locked call is linearized at its RLock acquisition: after exactly the k write
     sections acquired before it — the k of [MutexAtomicity.reader_observations] — and its
     result is the list of its observation functions applied to that sequential state *)
  Theorem read_linearization_point w L1 t obs L2 :
    wreachable w -> w_lin w = L1 ++ (t, LR obs) :: L2 ->
    let k := length (writes_of L1) in
    k <= length (g_acq (w_st w)) /\
    nth_error (spec_run s0 (w_lin w)) (length L1) =
      Some (t, LR obs,
            RR (map (fun f => f (seq_state s0 (map snd (firstn k (g_acq (w_st w)))))) obs)).
  Proof.
    intros H HL k. destruct (WInv_reachable H) as (_ & Hw & _ & _).
    rewrite HL, writes_of_app in Hw. rewrite <- Hw. split.
    - rewrite app_length. lia.
    - rewrite HL, spec_run_nth. cbn [fst snd apply].
      subst k. rewrite firstn_app, Nat.sub_diag, firstn_all. cbn [firstn]. rewrite app_nil_r.
      rewrite <- spec_state_writes. reflexivity.
  Qed.

  (* a write-locked call is linearized at its Lock acquisition, after the write sections
     acquired before it; its result is its body's result on that sequential state *)
  Theorem write_linearization_point w L1 t c L2 :
    wreachable w -> w_lin w = L1 ++ (t, LW c) :: L2 ->
    let k := length (writes_of L1) in
    nth_error (g_acq (w_st w)) k = Some (t, c) /\
    nth_error (spec_run s0 (w_lin w)) (length L1) =
      Some (t, LW c,
            RW (snd (body c (seq_state s0 (map snd (firstn k (g_acq (w_st w)))))))).
  Proof.
    intros H HL k. destruct (WInv_reachable H) as (_ & Hw & _ & _).
    rewrite HL, writes_of_app in Hw. rewrite <- Hw. split.
    - rewrite nth_error_app2 by (subst k; lia). subst k. rewrite Nat.sub_diag. reflexivity.
    - rewrite HL, spec_run_nth. cbn [fst snd apply].
      subst k. rewrite firstn_app, Nat.sub_diag, firstn_all. cbn [firstn]. rewrite app_nil_r.
      rewrite <- spec_state_writes. reflexivity.
  Qed.

  (* the literal instrumentation of the task — the response recorded AT the Unlock step —
     is the schedule [LRun t; LRes t] *)
  Lemma unlock_then_respond w t st' r :
    step (w_st w) t = Some st' -> act (w_st w) t = AUnlock r ->
    exists w1 w2, wstep w (LRun t) = Some w1 /\ wstep w1 (LRes t) = Some w2 /\
                  w_st w2 = st' /\ w_hist w2 = w_hist w1 ++ [ERes t (RW r)].
  Proof.
    intros Hs Ha.
    set (w1 := owe (flush w t) st' t (RW r)).
    assert (H1 : wstep w (LRun t) = Some w1) by (unfold wstep; rewrite Hs, Ha; reflexivity).
    assert (Hr1 : w_ret w1 t = Some (RW r)) by (unfold w1, owe; cbn [w_ret]; apply upd_fun_eq).
    exists w1, (flush w1 t). split; auto. split; [unfold wstep; rewrite Hr1; reflexivity|].
    unfold flush. rewrite Hr1. cbn [w_st w_hist]. split; reflexivity.
  Qed.

  (* ---------- every acquired call comes from the scripts ---------- *)
  Section IopInv.
    Variable P : iop S R -> Prop.
    Definition pi_op (o : op S R) : Prop :=
      match o with OIn i => P i | OOuter _ b => Forall P b end.
    Definition pi_thread (th : thread S R) : Prop :=
      Forall pi_op (t_prog th) /\
      match t_outer th with Some b => Forall P b | None => True end.
    Definition pi_scripts : Prop := Forall (Forall pi_op) scripts.
    Definition pi_state (st : state S R) : Prop :=
      forall t th, nth_error (thr st) t = Some th -> pi_thread th.

    Lemma pi_step st t st' : pi_state st -> step st t = Some st' -> pi_state st'.
    Proof.
      intros HT H. step_cases H.
      all: repeat match type of H with
           | (if ?b then _ else _) = _ => let E := fresh "E" in destruct b eqn:E
           end; try discriminate.
      all: inversion H; subst; clear H; unfold pi_state, set_thr;
           cbn [sh wlk rdc olk thr g_acq g_ret g_obs].
      all: destruct (HT t th Hth) as [Hp1 Ho1].
      all: try rewrite Ho in Ho1; try rewrite Hp in Hp1.
      all: repeat match goal with
           | H : Forall _ (_ :: _) |- _ => inversion H; clear H; subst
           end.
      all: intros t' th' Hn; apply nth_upd_inv in Hn as [[-> ->]|[Hne Hn]];
           [ unfold pi_thread; cbn [t_prog t_outer]; try rewrite Ho; auto
           | eapply HT; eauto ].
    Qed.

    Lemma pi_reachable st : pi_scripts -> reachable s0 scripts st -> pi_state st.
    Proof.
      intros Hs. induction 1.
      - intros t th Hn. cbn in Hn.
        apply nth_error_In in Hn. apply in_map_iff in Hn. destruct Hn as (q & <- & Hq).
        split; cbn; auto. unfold pi_scripts in Hs. rewrite Forall_forall in Hs. auto.
      - eapply pi_step; eauto.
    Qed.

    Lemma pi_next_iop th i : pi_thread th -> next_iop th = Some i -> P i.
    Proof.
      intros [H1 H2]. unfold next_iop. destruct (t_in th); try discriminate.
      destruct (t_outer th) as [[|j b]|].
      - discriminate.
      - intros E; inversion E; subst. inversion H2; auto.
      - destruct (t_prog th) as [|[j|try b] p]; try discriminate.
        intros E; inversion E; subst. inversion H1; auto.
    Qed.

    Definition pi_entry (x : nat * lcall) : Prop :=
      match snd x with
      | LW c => exists try, P (IWrite try c)
      | LR obs => P (IRead obs)
      end.

    Lemma flush_lin w t : w_lin (flush w t) = w_lin w.
    Proof. unfold flush. destruct (w_ret w t); reflexivity. Qed.

    Lemma pi_lin w : pi_scripts -> wreachable w -> Forall pi_entry (w_lin w).
    Proof.
      intros Hs. induction 1 as [|w l w' Hw IH Hst]; [constructor|].
      destruct l as [t|t|t]; cbn in Hst.
      - destruct (w_ph w t); try discriminate.
        destruct (next_call (w_st w) t); try discriminate. inversion Hst; subst; exact IH.
      - destruct (step (w_st w) t) as [st'|] eqn:Hs'; [|discriminate].
        inversion Hst; subst w'; clear Hst.
        destruct (step_effect _ _ Hs') as (th & th' & Hth & _ & Heff).
        pose proof (pi_reachable Hs (wreachable_reachable Hw) _ Hth) as Hpi.
        destruct (act (w_st w) t) as [|c|obs|r|v|]; cbn [run1 acquire owe w_lin];
          rewrite flush_lin; auto.
        + apply Forall_app; split; auto. constructor; auto.
          destruct Heff as (_ & (try & Hni) & _). exists try. exact (pi_next_iop Hpi Hni).
        + apply Forall_app; split; auto. constructor; auto.
          destruct Heff as (_ & Hni & _). exact (pi_next_iop Hpi Hni).
      - destruct (w_ret w t) eqn:E; [|discriminate]. inversion Hst; subst w'.
        rewrite flush_lin. exact IH.
    Qed.
  End IopInv.

  (* ---------- write-locked calls only ---------- *)
  Definition nr_iop (i : iop S R) : Prop := match i with IRead _ => False | _ => True end.
  (* the scripts contain no read-locked section *)
  Definition write_only : Prop := pi_scripts nr_iop.

  Definition lift_w (tc : nat * call S R) : nat * lcall := (fst tc, LW (snd tc)).

  Lemma write_only_lin w :
    write_only -> wreachable w -> w_lin w = map lift_w (writes_of (w_lin w)).
  Proof.
    intros Hs H. pose proof (pi_lin Hs H) as HF.
    induction (w_lin w) as [|[t [c|obs]] L IH]; auto; inversion HF; subst.
    - cbn. f_equal. apply IH; auto.
    - contradiction.
  Qed.

  Lemma spec_run_lift s acq :
    map (fun x => (op_tid x, op_res x)) (spec_run s (map lift_w acq)) =
    map (fun tr => (fst tr, RW (snd tr))) (seq_rets s acq).
  Proof.
    revert s; induction acq as [|[t c] acq IH]; intros s; cbn; auto.
    f_equal. apply IH.
  Qed.

  (* 3 (first form): scripts whose calls are all write-locked.  The witness is precisely
     MutexAtomicity's acquisition order [g_acq], and the results are [seq_rets s0 g_acq],
     the results of the sequential execution of [atomicity]. *)
  Theorem lock_protected_linearizable_writes w :
    write_only -> wreachable w ->
    let W := spec_run s0 (map lift_w (g_acq (w_st w))) in
    linearizable_with s0 (w_hist w) W /\
    map (fun x => (op_tid x, op_res x)) W =
      map (fun tr => (fst tr, RW (snd tr))) (seq_rets s0 (g_acq (w_st w))).
  Proof.
    intros Hs H W. destruct (lock_protected_linearizable H) as [HL Hw].
    subst W. rewrite <- Hw, <- (write_only_lin Hs H). split; auto.
    rewrite (write_only_lin Hs H) at 1. rewrite Hw. apply spec_run_lift.
  Qed.

  (* ---------- from (thread, index) identification to timestamps ---------- *)
  (* the per-thread index of the operation at position i of the order ts *)
  Definition op_index (ts : list nat) (i : nat) : nat := cnt (nth i ts 0) (firstn i ts).
  (* the time (position in h) of its invocation, and of its response; an operation that has
     not responded yet gets the time [length h], after every event of h *)
  Definition inv_pos (h : list event) (ts : list nat) (i : nat) : nat :=
    match nth_pos (is_inv (nth i ts 0)) h (op_index ts i) with Some q => q | None => 0 end.
  Definition ret_pos (h : list event) (ts : list nat) (i : nat) : nat :=
    match nth_pos (is_res (nth i ts 0)) h (op_index ts i) with
    | Some p => p
    | None => length h
    end.

  Lemma is_inv_inv t e : is_inv t e = true -> exists c, e = EInv t c.
  Proof.
    destruct e as [t' c|t' r]; cbn; intros H; [|discriminate].
    apply Nat.eqb_eq in H. subst. eauto.
  Qed.
  Lemma is_res_inv t e : is_res t e = true -> exists r, e = ERes t r.
  Proof.
    destruct e as [t' c|t' r]; cbn; intros H; [discriminate|].
    apply Nat.eqb_eq in H. subst. eauto.
  Qed.

  Lemma is_op_index ts i : i < length ts -> is_op ts i (nth i ts 0) (op_index ts i).
  Proof. intros H. split; auto. apply nth_error_nth'. auto. Qed.

  (* (a) in timestamp form: nobody placed later in the order responded before an earlier
     one was invoked *)
  Theorem rt_timestamps h ts i j :
    rt_respected h ts -> i < j -> j < length ts -> ~ ret_pos h ts j < inv_pos h ts i.
  Proof.
    intros Hrt Hij Hj Hlt. unfold ret_pos, inv_pos in Hlt.
    destruct (nth_pos (is_inv (nth i ts 0)) h (op_index ts i)) as [q|] eqn:Eq; [|lia].
    apply nth_pos_sound in Eq as (x & Hx & Fx & Cx).
    destruct (nth_pos (is_res (nth j ts 0)) h (op_index ts j)) as [p|] eqn:Ep.
    2:{ assert (q < length h) by (apply nth_error_Some; congruence). lia. }
    apply nth_pos_sound in Ep as (y & Hy & Fy & Cy).
    apply is_inv_inv in Fx as (c & ->). apply is_res_inv in Fy as (r & ->).
    destruct (Hrt p q _ r _ c i Hy Hx Hlt) as (i' & Hi' & Hop).
    { split; [apply nth_error_nth'; lia | symmetry; exact Cx]. }
    unfold rcount in Hop. rewrite Cy in Hop.
    pose proof (is_op_unique Hop (is_op_index ts Hj)). lia.
  Qed.

  Lemma res_filter_proj t h : filter (is_res t) (proj t h) = filter (is_res t) h.
  Proof.
    unfold proj. apply filter_filter_imp. intros [t' c|t' r]; cbn; auto. discriminate.
  Qed.

  Lemma res_filter_seqh t W :
    filter (is_res t) (seqh W) =
    map (fun x => ERes t (op_res x)) (filter (fun x => op_tid x =? t) W).
  Proof.
    induction W as [|x W IH]; auto.
    change (seqh (x :: W))
      with ([EInv (op_tid x) (op_call x); ERes (op_tid x) (op_res x)] ++ seqh W).
    rewrite filter_app, IH. cbn [filter is_res].
    destruct (op_tid x =? t) eqn:E; cbn [map app]; auto.
    apply Nat.eqb_eq in E. rewrite E. reflexivity.
  Qed.

  Lemma cnt_map_tid t (l : list lop) :
    cnt t (map op_tid l) = length (filter (fun x => op_tid x =? t) l).
  Proof.
    unfold cnt. induction l as [|x l IH]; auto. cbn. rewrite (Nat.eqb_sym t).
    destruct (op_tid x =? t); cbn; auto.
  Qed.

  (* (b) "exactly the results observed": the response event of the k-th call of thread t
     carries the result of the k-th operation of t in the witness *)
  Lemma witness_result h W t p r i x :
    thread_equiv t h W -> nth_error h p = Some (ERes t r) ->
    is_op (map op_tid W) i t (rcount t (firstn p h)) -> nth_error W i = Some x ->
    op_res x = r.
  Proof.
    intros Heq Hp [Hi Hk] Hx.
    set (k := rcount t (firstn p h)) in *.
    assert (H1 : nth_error (filter (is_res t) h) k = Some (ERes t r)).
    { apply nth_error_filter; auto. cbn. apply Nat.eqb_refl. }
    assert (H2 : nth_error (filter (is_res t) (seqh W)) k = Some (ERes t r)).
    { rewrite <- (res_filter_proj t h) in H1. rewrite <- (res_filter_proj t (seqh W)).
      destruct Heq as [E|[(c & E)|(r' & E)]].
      - rewrite <- E. exact H1.
      - rewrite E, filter_app in H1. cbn in H1. rewrite app_nil_r in H1. exact H1.
      - rewrite <- E, filter_app. rewrite nth_error_app1; [exact H1|].
        apply nth_error_Some. congruence. }
    rewrite res_filter_seqh in H2.
    assert (H3 : nth_error (filter (fun x => op_tid x =? t) W) k = Some x).
    { assert (Ht : op_tid x = t).
      { rewrite (map_nth_error op_tid _ _ Hx) in Hi. congruence. }
      rewrite firstn_map, cnt_map_tid in Hk. rewrite <- Hk.
      apply nth_error_filter; auto. apply Nat.eqb_eq; auto. }
    rewrite (map_nth_error _ _ _ H3) in H2. inversion H2; auto.
  Qed.

  Lemma thread_equiv_counts t h W :
    thread_equiv t h W ->
    rcount t h <= cnt t (map op_tid W) /\ cnt t (map op_tid W) <= icount t h.
  Proof.
    intros [E|[(c & E)|(r & E)]].
    - pose proof (f_equal (icount t) E) as Hi. pose proof (f_equal (rcount t) E) as Hr.
      rewrite !icount_proj, icount_seqh in Hi. rewrite !rcount_proj, rcount_seqh in Hr. lia.
    - pose proof (f_equal (icount t) E) as Hi. pose proof (f_equal (rcount t) E) as Hr.
      rewrite icount_app, !icount_proj, icount_seqh in Hi.
      rewrite rcount_app, !rcount_proj, rcount_seqh in Hr. cbn in Hr. lia.
    - pose proof (f_equal (icount t) E) as Hi. pose proof (f_equal (rcount t) E) as Hr.
      rewrite icount_app, !icount_proj, icount_seqh in Hi.
      rewrite rcount_app, !rcount_proj, rcount_seqh in Hr. cbn in Hi. lia.
  Qed.
End Lin.

Arguments ERes {S R} t r.
Arguments EInv {S R} t c.

(* ---------- 5. non-vacuity: two writers and one reader, pairwise overlapping calls ---------- *)
Module Example3L.
  (* the object: a counter; [add k] adds k in TWO micro-steps and returns the new value *)
  Definition add (k : nat) : call nat nat :=
    {| c_init := 0;
       c_steps := [ (fun s r => (s + k, r)); (fun s r => (s, s)) ] |}.

  Definition scripts : list (list (op nat nat)) :=
    [ (* T0, writer *) [ OIn (IWrite false (add 1)) ];
      (* T1, writer *) [ OIn (IWrite false (add 10)) ];
      (* T2, reader *) [ OIn (IRead [fun s => s]) ] ].

  Definition sched : list label :=
    [ LInv 0; LInv 1; LInv 2;           (* all three calls invoked: pairwise overlapping *)
      LRun 1;                           (* T1 wins the lock *)
      LRun 0; LRun 2;                   (* T0 and T2 blocked *)
      LRun 1; LRun 1; LRun 1;           (* T1: two micro-steps, Unlock (response not delivered) *)
      LRun 2; LRun 2; LRun 2;           (* T2: RLock, observes 10, RUnlock *)
      LRes 2;                           (* the reader's call returns first *)
      LRun 0; LRun 0; LRun 0; LRun 0;   (* T0: Lock, two micro-steps, Unlock *)
      LRes 0;                           (* T0's call returns *)
      LRes 1 ].                         (* T1's call returns last *)

  Definition final := wexec sched (winit 0 scripts).

  (* (thread, 0 = invoke write / 1 = invoke read / 2 = response, returned values) *)
  Definition ev_view (e : event nat nat) : nat * nat * list nat :=
    match e with
    | EInv t (LW _) => (t, 0, [])
    | EInv t (LR _) => (t, 1, [])
    | ERes t (RW r) => (t, 2, [r])
    | ERes t (RR rs) => (t, 2, rs)
    end.
  Definition res_view (r : res nat) : list nat := match r with RW r => [r] | RR rs => rs end.
  Definition resp_order (h : list (event nat nat)) : list nat :=
    flat_map (fun e => match e with ERes t _ => [t] | _ => [] end) h.
  Definition inv_order (h : list (event nat nat)) : list nat :=
    flat_map (fun e => match e with EInv t _ => [t] | _ => [] end) h.

  Example run_history :
    map ev_view (w_hist final) =
    [ (0, 0, []); (1, 0, []); (2, 1, []);          (* three invocations ...            *)
      (2, 2, [10]); (0, 2, [11]); (1, 2, [10]) ].  (* ... before any response: overlap *)
  Proof. vm_compute. reflexivity. Qed.

  (* the witness: acquisition order T1, T2, T0 with the sequential results *)
  Example run_witness :
    map (fun x => (op_tid x, res_view (op_res x))) (spec_run 0 (w_lin final)) =
    [ (1, [10]); (2, [10]); (0, [11]) ]
    /\ sh (w_st final) = 11
    /\ map fst (g_acq (w_st final)) = [1; 0].
  Proof. vm_compute. repeat split; reflexivity. Qed.

  (* the witness order differs from the response order AND from the invocation order *)
  Example run_orders :
    map fst (w_lin final) = [1; 2; 0] /\
    resp_order (w_hist final) = [2; 0; 1] /\
    inv_order (w_hist final) = [0; 1; 2].
  Proof. vm_compute. repeat split; reflexivity. Qed.

  Example run_wreachable : wreachable 0 scripts final.
  Proof. apply wexec_reachable. constructor. Qed.

  (* the general theorem, instantiated *)
  Example run_linearizable :
    linearizable_with 0 (w_hist final) (spec_run 0 (w_lin final)).
  Proof. apply (lock_protected_linearizable run_wreachable). Qed.

  (* --- refutation of item 5 for the LITERAL instrumentation ---
     If the response is recorded AT the Unlock / RUnlock step (every unlocking [LRun t] is
     immediately followed by [LRes t]), then with two writers and ONE reader the sections are
     totally ordered in time, so the response order can never differ from the witness order:
     checked here over ALL schedules of this system.  (It does differ as soon as the response
     is recorded when the call returns to its caller, as in [run_orders] above, or with two
     readers, as in [Example3R] below.) *)
  Definition run_res (w : wstate nat nat) (t : nat) : option (wstate nat nat) :=
    match wstep w (LRun t) with
    | Some w1 => match wstep w1 (LRes t) with Some w2 => Some w2 | None => Some w1 end
    | None => None
    end.
  Definition opt_list (A : Type) (o : option A) : list A :=
    match o with Some x => [x] | None => [] end.
  Definition moves (w : wstate nat nat) : list (wstate nat nat) :=
    flat_map (fun t => opt_list (wstep w (LInv t)) ++ opt_list (run_res w t)) [0; 1; 2].
  Fixpoint prefix_eqb (a b : list nat) : bool :=
    match a, b with
    | [], _ => true
    | x :: a', y :: b' => (x =? y) && prefix_eqb a' b'
    | _ :: _, [] => false
    end.
  Definition resp_follows_witness (w : wstate nat nat) : bool :=
    prefix_eqb (resp_order (w_hist w)) (map fst (w_lin w)).
  Fixpoint explore (fuel : nat) (w : wstate nat nat) : bool :=
    resp_follows_witness w &&
    match fuel with
    | O => match moves w with [] => true | _ => false end    (* fuel must not run out *)
    | Datatypes.S f => forallb (explore f) (moves w)
    end.

  Example response_order_differs_refuted : explore 14 (winit 0 scripts) = true.
  Proof. vm_compute. reflexivity. Qed.
End Example3L.

(* one writer and TWO readers: even with the response recorded at the (R)Unlock step itself the
   witness order (acquisitions) differs from the response order, because read sections overlap *)
Module Example3R.
  Import Example3L.
  Definition scripts : list (list (op nat nat)) :=
    [ (* T0, writer *) [ OIn (IWrite false (add 1)) ];
      (* T1, reader *) [ OIn (IRead [fun s => s]) ];
      (* T2, reader *) [ OIn (IRead [fun s => s; fun s => s + 100]) ] ].

  Definition sched : list label :=
    [ LInv 0;                            (* the writer starts trying to acquire *)
      LRun 1; LRun 2;                    (* both readers RLock (invoked and acquired at once) *)
      LRun 0;                            (* writer blocked *)
      LRun 2; LRun 2; LRun 2; LRes 2;    (* T2 observes twice, RUnlock + response *)
      LRun 1; LRun 1; LRes 1;            (* T1 observes, RUnlock + response *)
      LRun 0; LRun 0; LRun 0; LRun 0; LRes 0 ].

  Definition final := wexec sched (winit 0 scripts).

  Example run_orders :
    map fst (w_lin final) = [1; 2; 0] /\
    resp_order (w_hist final) = [2; 1; 0] /\
    map ev_view (w_hist final) =
      [ (0, 0, []); (1, 1, []); (2, 1, []); (2, 2, [0; 100]); (1, 2, [0]); (0, 2, [1]) ] /\
    map (fun x => (op_tid x, res_view (op_res x))) (spec_run 0 (w_lin final)) =
      [ (1, [0]); (2, [0; 100]); (0, [1]) ].
  Proof. vm_compute. repeat split; reflexivity. Qed.

  Example run_linearizable :
    linearizable_with 0 (w_hist final) (spec_run 0 (w_lin final)).
  Proof.
    apply (@lock_protected_linearizable _ _ 0 scripts). apply wexec_reachable. constructor.
  Qed.
End Example3R.

(* ---------- 4. the lossy register of LinCheck.v ---------- *)
(* One key of the cache as a lock-protected object: S := option Z (the key's value, if
   present), calls Set v / Delete / Get / Exists and the environment call Evict (eviction or
   an admission rejection drops the value).  A call's result is the [LinCheck.kop] the test
   harness would log for it ([None] for Evict, which is not a client call). *)
Module LossyRegister.
  Definition V := option Z.
  Definition Rr := option LinCheck.kop.
  Definition is_some (s : V) : bool := match s with Some _ => true | None => false end.

  Definition set_f (v : Z) (s : V) : V * Rr := (Some v, Some (LinCheck.KSet v false)).
  Definition set_err_f (v : Z) (s : V) : V * Rr := (s, Some (LinCheck.KSet v true)).
  Definition del_f (s : V) : V * Rr := (None, Some (LinCheck.KDelete (is_some s))).
  Definition get_f (s : V) : V * Rr := (s, Some (LinCheck.KGet s)).
  Definition exists_f (s : V) : V * Rr := (s, Some (LinCheck.KExists (is_some s))).
  Definition evict_f (s : V) : V * Rr := (None, None).
  Definition get_obs (s : V) : Rr := Some (LinCheck.KGet s).
  Definition exists_obs (s : V) : Rr := Some (LinCheck.KExists (is_some s)).

  (* ANY write-locked body (any number of micro-steps) that computes one of these functions *)
  Definition reg_body (c : call V Rr) : Prop :=
    (exists v, forall s, body c s = set_f v s) \/
    (exists v, forall s, body c s = set_err_f v s) \/
    (forall s, body c s = del_f s) \/
    (forall s, body c s = get_f s) \/
    (forall s, body c s = exists_f s) \/
    (forall s, body c s = evict_f s).

  (* Get / Exists may also run under the read lock *)
  Definition reg_lcall (cl : lcall V Rr) : Prop :=
    match cl with
    | LW c => reg_body c
    | LR obs => obs = [get_obs] \/ obs = [exists_obs]
    end.

  Definition reg_iop (i : iop V Rr) : Prop :=
    match i with
    | IWrite _ c => reg_body c
    | IRead obs => obs = [get_obs] \/ obs = [exists_obs]
    | _ => True
    end.

  Definition reg_scripts (scripts : list (list (op V Rr))) : Prop := pi_scripts scripts reg_iop.

  (* the logged operation of a response *)
  Definition kop_of (r : res Rr) : option LinCheck.kop :=
    match r with
    | RW o => o
    | RR [o] => o
    | RR _ => None
    end.

  (* one call of the sequential object is one [reg_step], or a silent loss *)
  Lemma reg_apply cl s : reg_lcall cl ->
    match kop_of (snd (apply cl s)) with
    | Some k => LinCheck.reg_step s k (fst (apply cl s))
    | None => LinCheck.le (fst (apply cl s)) s
    end.
  Proof.
    destruct cl as [c|obs]; cbn [reg_lcall apply fst snd kop_of].
    - intros [(v & H)|[(v & H)|[H|[H|[H|H]]]]]; rewrite H; cbn.
      + constructor.
      + constructor.
      + destruct s; constructor.
      + constructor.
      + destruct s; constructor.
      + right; reflexivity.
    - intros [->| ->]; cbn.
      + constructor.
      + destruct s; constructor.
  Qed.

  (* the timestamped calls, in witness order: one [LinCheck.call] per operation of W that
     logs a kop; invocation / response times are positions in the history h *)
  Fixpoint calls_from (h : list (event V Rr)) (ts : list nat) (i : nat) (W : list (lop V Rr))
    : list LinCheck.call :=
    match W with
    | [] => []
    | x :: W' =>
        match kop_of (op_res x) with
        | Some k => [LinCheck.mkCall (Z.of_nat (inv_pos h ts i)) (Z.of_nat (ret_pos h ts i)) k]
        | None => []
        end ++ calls_from h ts (Datatypes.S i) W'
    end.

  Lemma calls_from_in h ts W : forall i d, In d (calls_from h ts i W) ->
    exists b x, i <= b < i + length W /\ nth_error W (b - i) = Some x /\
                kop_of (op_res x) = Some (LinCheck.op d) /\
                LinCheck.inv d = Z.of_nat (inv_pos h ts b) /\
                LinCheck.ret d = Z.of_nat (ret_pos h ts b).
  Proof.
    induction W as [|x W IH]; intros i d H; cbn in H; [contradiction|].
    apply in_app_or in H as [H|H].
    - destruct (kop_of (op_res x)) as [k|] eqn:E; [|contradiction].
      destruct H as [<-|[]]. exists i, x. rewrite Nat.sub_diag. cbn. repeat split; auto; lia.
    - destruct (IH _ _ H) as (b & y & Hb & Hn & H1 & H2 & H3).
      exists b, y. cbn [length]. repeat split; auto; try lia.
      replace (b - i) with (Datatypes.S (b - Datatypes.S i)) by lia. exact Hn.
  Qed.

  Lemma calls_from_nth h ts W : forall i j x k,
    nth_error W j = Some x -> kop_of (op_res x) = Some k ->
    In (LinCheck.mkCall (Z.of_nat (inv_pos h ts (i + j))) (Z.of_nat (ret_pos h ts (i + j))) k)
       (calls_from h ts i W).
  Proof.
    induction W as [|y W IH]; intros i [|j] x k Hn Hk; cbn in Hn; try discriminate.
    - inversion Hn; subst y. cbn. rewrite Hk, Nat.add_0_r. left; reflexivity.
    - cbn [calls_from]. apply in_or_app. right.
      replace (i + Datatypes.S j) with (Datatypes.S i + j) by lia. eapply IH; eauto.
  Qed.

  Lemma calls_from_rt h ts :
    (forall a b, a < b -> b < length ts -> ~ ret_pos h ts b < inv_pos h ts a) ->
    forall W i, i + length W <= length ts -> LinCheck.rt_ok (calls_from h ts i W).
  Proof.
    intros Hrt. induction W as [|x W IH]; intros i Hi; cbn [calls_from]; [constructor|].
    cbn [length] in Hi. specialize (IH (Datatypes.S i) ltac:(lia)).
    destruct (kop_of (op_res x)) as [k|]; cbn [app]; auto.
    constructor; auto. rewrite Forall_forall. intros d Hd.
    destruct (calls_from_in _ _ _ _ _ Hd) as (b & y & Hb & _ & _ & _ & Hret).
    rewrite Hret. cbn [LinCheck.inv]. specialize (Hrt i b ltac:(lia) ltac:(lia)). lia.
  Qed.

  Lemma calls_from_lrun h ts : forall L s i,
    Forall (fun x => reg_lcall (snd x)) L ->
    exists t, LinCheck.lrun s (calls_from h ts i (spec_run s L)) t.
  Proof.
    induction L as [|x L IH]; intros s i HF.
    - exists s. constructor. apply LinCheck.le_refl.
    - inversion HF as [|? ? Hx HF']; subst. cbn [spec_run calls_from op_res snd].
      destruct (IH (fst (apply (snd x) s)) (Datatypes.S i) HF') as (t & Ht).
      exists t. pose proof (@reg_apply (snd x) s Hx) as Hstep.
      match goal with
      | |- context [match ?o with Some _ => _ | None => _ end ++ _] =>
          change (match o with
                  | Some k => LinCheck.reg_step s k (fst (apply (snd x) s))
                  | None => LinCheck.le (fst (apply (snd x) s)) s
                  end) in Hstep;
          destruct o as [k|]
      end; cbn [app].
      + eapply LinCheck.lrun_cons; [apply LinCheck.le_refl | exact Hstep | exact Ht].
      + eapply LinCheck.lrun_weaken_start; eauto.
  Qed.

  Section Reg.
    Variable s0 : V.
    Variable scripts : list (list (op V Rr)).

    (* the per-key history in LinCheck's format: every linearized client call, stamped with the
       positions of its invocation and response events (a call still in flight whose effect
       is already visible is completed with the time [length h]) *)
    Definition reg_calls (w : wstate V Rr) : list LinCheck.call :=
      let W := spec_run s0 (w_lin w) in calls_from (w_hist w) (map (@op_tid V Rr) W) 0 W.

    Lemma reg_lin_calls w :
      reg_scripts scripts -> wreachable s0 scripts w ->
      Forall (fun x => reg_lcall (snd x)) (w_lin w).
    Proof.
      intros Hs H. eapply Forall_impl; [|apply (pi_lin Hs H)].
      intros [t [c|obs]]; unfold pi_entry; cbn; auto. intros [try H']; auto.
    Qed.

    (* 4. the history of one key is linearizable w.r.t. LinCheck's lossy register *)
    Theorem register_linearizable w :
      reg_scripts scripts -> wreachable s0 scripts w ->
      LinCheck.linearizable s0 (reg_calls w).
    Proof.
      intros Hs H. destruct (lock_protected_linearizable H) as [(_ & _ & Hrt) _].
      destruct (calls_from_lrun (w_hist w) (map (@op_tid V Rr) (spec_run s0 (w_lin w))) s0 0
                  (reg_lin_calls Hs H)) as (t & Ht).
      exists t, (reg_calls w). split; [apply Permutation.Permutation_refl|]. split; auto.
      apply calls_from_rt.
      - intros a b Hab Hb. apply rt_timestamps; auto.
      - rewrite map_length. cbn. lia.
    Qed.

    (* every completed client call of the history is in [reg_calls], with its event times *)
    Theorem reg_calls_complete w q p t cl r k :
      wreachable s0 scripts w ->
      nth_error (w_hist w) q = Some (EInv t cl) ->
      nth_error (w_hist w) p = Some (ERes t r) ->
      icount t (firstn q (w_hist w)) = rcount t (firstn p (w_hist w)) ->
      kop_of r = Some k ->
      In (LinCheck.mkCall (Z.of_nat q) (Z.of_nat p) k) (reg_calls w).
    Proof.
      intros H Hq Hp Hidx Hk.
      destruct (lock_protected_linearizable H) as [(_ & Heq & _) _].
      set (h := w_hist w) in *. set (W := spec_run s0 (w_lin w)) in *.
      set (ts := map (@op_tid V Rr) W).
      set (k0 := rcount t (firstn p h)) in *.
      assert (Hlt : k0 < rcount t h).
      { eapply flen_firstn_lt; eauto. cbn. apply Nat.eqb_refl. }
      destruct (thread_equiv_counts (Heq t)) as [Hle _].
      destruct (@cnt_ex ts t k0) as (i & Hop); [fold ts in Hle; lia|].
      pose proof (is_op_lt Hop) as Hil. unfold ts in Hil. rewrite map_length in Hil.
      destruct (nth_error W i) as [x|] eqn:Hx; [|apply nth_error_None in Hx; lia].
      pose proof (@witness_result V Rr h W t p r i x (Heq t) Hp Hop Hx) as Hr.
      destruct Hop as [Hi1 Hi2].
      assert (Hnth : nth i ts 0 = t) by (apply nth_error_nth; auto).
      assert (Hinv : inv_pos h ts i = q).
      { unfold inv_pos, op_index. rewrite Hnth, Hi2.
        erewrite nth_pos_complete; eauto. cbn. apply Nat.eqb_refl. }
      assert (Hret : ret_pos h ts i = p).
      { unfold ret_pos, op_index. rewrite Hnth, Hi2.
        erewrite nth_pos_complete; eauto. cbn. apply Nat.eqb_refl. }
      unfold reg_calls. fold h W ts. rewrite <- Hinv, <- Hret.
      apply (@calls_from_nth h ts W 0 i x k); auto. rewrite Hr. exact Hk.
    Qed.

    (* and nothing else is: every element of [reg_calls] is an operation of the witness *)
    Theorem reg_calls_sound w d :
      In d (reg_calls w) ->
      let W := spec_run s0 (w_lin w) in
      let ts := map (@op_tid V Rr) W in
      exists i x, nth_error W i = Some x /\ kop_of (op_res x) = Some (LinCheck.op d) /\
                  LinCheck.inv d = Z.of_nat (inv_pos (w_hist w) ts i) /\
                  LinCheck.ret d = Z.of_nat (ret_pos (w_hist w) ts i).
    Proof.
      intros H W ts. destruct (calls_from_in _ _ _ _ _ H) as (b & x & _ & Hn & H1 & H2 & H3).
      rewrite Nat.sub_0_r in Hn. exists b, x. auto.
    Qed.

    (* the three consequences, in the form LinCheck states them *)
    Corollary reg_no_stale_read w w1 w2 g v1 v2 :
      reg_scripts scripts -> wreachable s0 scripts w ->
      In w2 (reg_calls w) -> In g (reg_calls w) ->
      LinCheck.op w1 = LinCheck.KSet v1 false -> LinCheck.op w2 = LinCheck.KSet v2 false ->
      v1 <> v2 -> LinCheck.only_writer (reg_calls w) v1 w1 ->
      (LinCheck.ret w1 < LinCheck.inv w2)%Z -> (LinCheck.ret w2 < LinCheck.inv g)%Z ->
      LinCheck.op g <> LinCheck.KGet (Some v1).
    Proof.
      intros Hs H. apply LinCheck.no_stale_read with (init := s0).
      apply register_linearizable; auto.
    Qed.

    Corollary reg_no_read_after_delete w wr d g v ok :
      reg_scripts scripts -> wreachable s0 scripts w ->
      In d (reg_calls w) -> In g (reg_calls w) ->
      LinCheck.op wr = LinCheck.KSet v false -> LinCheck.op d = LinCheck.KDelete ok ->
      LinCheck.only_writer (reg_calls w) v wr ->
      (LinCheck.ret wr < LinCheck.inv d)%Z -> (LinCheck.ret d < LinCheck.inv g)%Z ->
      LinCheck.op g <> LinCheck.KGet (Some v).
    Proof.
      intros Hs H. apply LinCheck.no_read_after_delete with (init := s0).
      apply register_linearizable; auto.
    Qed.

    Corollary reg_monotonic_reads w w1 w2 g1 g2 v1 v2 :
      reg_scripts scripts -> wreachable s0 scripts w ->
      In g1 (reg_calls w) -> In g2 (reg_calls w) ->
      LinCheck.op w1 = LinCheck.KSet v1 false -> LinCheck.op w2 = LinCheck.KSet v2 false ->
      LinCheck.op g1 = LinCheck.KGet (Some v2) ->
      v1 <> v2 -> s0 <> Some v2 ->
      LinCheck.only_writer (reg_calls w) v1 w1 -> LinCheck.only_writer (reg_calls w) v2 w2 ->
      (LinCheck.ret w1 < LinCheck.inv w2)%Z -> (LinCheck.ret g1 < LinCheck.inv g2)%Z ->
      LinCheck.op g2 <> LinCheck.KGet (Some v1).
    Proof.
      intros Hs H. apply LinCheck.monotonic_reads with (init := s0).
      apply register_linearizable; auto.
    Qed.
    (* the same, stated directly on the events of the history.  [completed w t q p cl r]:
       thread t invoked cl at time q and that call returned r at time p *)
    Definition completed (w : wstate V Rr) (t q p : nat) (cl : lcall V Rr) (r : res Rr) : Prop :=
      nth_error (w_hist w) q = Some (EInv t cl) /\
      nth_error (w_hist w) p = Some (ERes t r) /\
      icount t (firstn q (w_hist w)) = rcount t (firstn p (w_hist w)).

    (* a Get never returns a value older than a Set that returned before the Get was invoked:
       Set v1 returned before Set v2 was invoked, Set v2 returned before the Get was invoked,
       and v1 was written only by that Set: the Get does not return v1 *)
    Theorem get_not_stale_direct w t1 q1 p1 c1 r1 t2 q2 p2 c2 r2 tg qg pg cg rg v1 v2 :
      reg_scripts scripts -> wreachable s0 scripts w ->
      completed w t1 q1 p1 c1 r1 -> kop_of r1 = Some (LinCheck.KSet v1 false) ->
      completed w t2 q2 p2 c2 r2 -> kop_of r2 = Some (LinCheck.KSet v2 false) ->
      completed w tg qg pg cg rg ->
      v1 <> v2 ->
      LinCheck.only_writer (reg_calls w) v1
        (LinCheck.mkCall (Z.of_nat q1) (Z.of_nat p1) (LinCheck.KSet v1 false)) ->
      p1 < q2 -> p2 < qg ->
      kop_of rg <> Some (LinCheck.KGet (Some v1)).
    Proof.
      intros Hs H (A1 & A2 & A3) K1 (B1 & B2 & B3) K2 (G1 & G2 & G3) Hne Hu H12 H2g Kg.
      eapply (@reg_no_stale_read w _
                (LinCheck.mkCall (Z.of_nat q2) (Z.of_nat p2) (LinCheck.KSet v2 false))
                (LinCheck.mkCall (Z.of_nat qg) (Z.of_nat pg) (LinCheck.KGet (Some v1)))
                v1 v2 Hs H); eauto; cbn; try lia; try reflexivity.
      - eapply reg_calls_complete; eauto.
      - eapply reg_calls_complete; eauto.
    Qed.

    (* a Get never returns a value whose Delete returned before the Get was invoked *)
    Theorem get_not_deleted_direct w t1 q1 p1 c1 r1 td qd pd cd rd ok tg qg pg cg rg v :
      reg_scripts scripts -> wreachable s0 scripts w ->
      completed w t1 q1 p1 c1 r1 -> kop_of r1 = Some (LinCheck.KSet v false) ->
      completed w td qd pd cd rd -> kop_of rd = Some (LinCheck.KDelete ok) ->
      completed w tg qg pg cg rg ->
      LinCheck.only_writer (reg_calls w) v
        (LinCheck.mkCall (Z.of_nat q1) (Z.of_nat p1) (LinCheck.KSet v false)) ->
      p1 < qd -> pd < qg ->
      kop_of rg <> Some (LinCheck.KGet (Some v)).
    Proof.
      intros Hs H (A1 & A2 & A3) K1 (B1 & B2 & B3) K2 (G1 & G2 & G3) Hu H12 H2g Kg.
      eapply (@reg_no_read_after_delete w _
                (LinCheck.mkCall (Z.of_nat qd) (Z.of_nat pd) (LinCheck.KDelete ok))
                (LinCheck.mkCall (Z.of_nat qg) (Z.of_nat pg) (LinCheck.KGet (Some v)))
                v ok Hs H); eauto; cbn; try lia; try reflexivity.
      - eapply reg_calls_complete; eauto.
      - eapply reg_calls_complete; eauto.
    Qed.
  End Reg.
End LossyRegister.

(* a concrete run of the register: two clients and an evicting environment thread *)
Module ExampleRegister.
  Import LossyRegister.
  Definition set (v : Z) : call V Rr := call_of None (set_f v).
  Definition get : call V Rr := call_of None get_f.
  Definition evict : call V Rr := call_of None evict_f.

  Definition scripts : list (list (op V Rr)) :=
    [ (* T0 *) [ OIn (IWrite false (set 1)); OIn (IWrite false get) ];     (* LRU/LFU: Get writes *)
      (* T1 *) [ OIn (IWrite false (set 2)); OIn (IRead [get_obs]) ];      (* Get under RLock *)
      (* T2 *) [ OIn (IWrite true evict) ] ].                              (* the environment *)

  Lemma scripts_reg : reg_scripts scripts.
  Proof.
    unfold reg_scripts, pi_scripts, scripts.
    repeat (apply Forall_cons || apply Forall_nil); cbn [pi_op reg_iop].
    - left. exists 1%Z. reflexivity.
    - do 3 right. left. reflexivity.
    - left. exists 2%Z. reflexivity.
    - left. reflexivity.
    - do 5 right. reflexivity.
  Qed.

  Definition sched : list label :=
    [ LInv 0; LInv 1;                   (* Set 1 and Set 2 invoked *)
      LRun 1; LRun 1; LRun 1;           (* Set 2 takes effect first *)
      LRun 0; LRes 1;                   (* Set 1 acquires; Set 2 returns *)
      LRun 0; LRun 0; LRes 0;           (* Set 1 takes effect and returns *)
      LInv 0; LInv 1;                   (* both Gets invoked *)
      LRun 0; LRun 0; LRun 0; LRes 0;   (* T0's Get returns Some 1 *)
      LRun 2; LRun 2; LRun 2; LRes 2;   (* eviction *)
      LRun 1; LRun 1; LRun 1; LRes 1 ]. (* T1's Get, concurrent with the eviction: None *)

  Definition final := wexec sched (winit None scripts).

  Example run_calls :
    reg_calls None final =
    [ LinCheck.mkCall 1 2 (LinCheck.KSet 2 false);
      LinCheck.mkCall 0 3 (LinCheck.KSet 1 false);
      LinCheck.mkCall 4 6 (LinCheck.KGet (Some 1%Z));
      LinCheck.mkCall 5 9 (LinCheck.KGet None) ].
  Proof. vm_compute. reflexivity. Qed.

  (* LinCheck's verified checker accepts the history ... *)
  Example run_checked : LinCheck.lin_check None (reg_calls None final) = true.
  Proof. vm_compute. reflexivity. Qed.

  (* ... as the general theorem says it must *)
  Example run_linearizable : LinCheck.linearizable None (reg_calls None final).
  Proof.
    apply register_linearizable with (scripts := scripts); [apply scripts_reg|].
    apply wexec_reachable. constructor.
  Qed.
End ExampleRegister.
