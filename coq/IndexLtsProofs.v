(* IndexLtsProofs.v — theorems about IndexLts.v (index vs cache agreement of the HTTP middleware). *)
From KV Require Import Base IndexLts.

(* ================================================================== *)
(* Part A: association-list maps *)

Lemma get_rem_same k m : get k (rem k m) = None.
Proof.
  unfold rem. induction m as [|[k' v] m IH]; cbn; [reflexivity|].
  destruct (k' =? k) eqn:E; cbn; [exact IH|]. rewrite E. exact IH.
Qed.

Lemma get_rem_other k k' m : k <> k' -> get k (rem k' m) = get k m.
Proof.
  intros Hne. unfold rem. induction m as [|[k2 v] m IH]; cbn; [reflexivity|].
  destruct (k2 =? k') eqn:E; cbn.
  - rewrite IH. destruct (k2 =? k) eqn:E2; [lia|reflexivity].
  - rewrite IH. reflexivity.
Qed.

Lemma get_set_same k v m : get k (set k v m) = Some v.
Proof. unfold set; cbn. rewrite Z.eqb_refl. reflexivity. Qed.

Lemma get_set_other k k' v m : k <> k' -> get k (set k' v m) = get k m.
Proof.
  intros Hne. unfold set; cbn. destruct (k' =? k) eqn:E; [lia|]. apply get_rem_other; exact Hne.
Qed.

Lemma rem_id_hit k id m : get k m = Some id -> rem_id k id m = rem k m.
Proof. intros Hg. unfold rem_id. rewrite Hg, Z.eqb_refl. reflexivity. Qed.

Lemma rem_id_miss k id m : get k m <> Some id -> rem_id k id m = m.
Proof.
  intros Hg. unfold rem_id. destruct (get k m) as [v|] eqn:E; [|reflexivity].
  destruct (v =? id) eqn:E2; [|reflexivity]. exfalso; apply Hg. f_equal; lia.
Qed.

Lemma get_rem_id_other k0 k id m : k0 <> k -> get k0 (rem_id k id m) = get k0 m.
Proof.
  intros Hne. unfold rem_id. destruct (get k m) as [v|]; [|reflexivity].
  destruct (v =? id); [|reflexivity]. apply get_rem_other; exact Hne.
Qed.

Lemma get_rem_id_same_hit k id m : get k m = Some id -> get k (rem_id k id m) = None.
Proof. intros Hg. rewrite rem_id_hit by exact Hg. apply get_rem_same. Qed.

Lemma option_eq_dec_Z (a b : option Z) : {a = b} + {a <> b}.
Proof. decide equality. apply Z.eq_dec. Qed.

(* what survives removeKeyByIdentity *)
Lemma get_rem_id_some k0 id0 k id m :
  get k0 (rem_id k id m) = Some id0 -> get k0 m = Some id0 /\ (k0, id0) <> (k, id).
Proof.
  intros Hg. destruct (Z.eq_dec k0 k) as [->|Hne].
  - destruct (option_eq_dec_Z (get k m) (Some id)) as [He|Hn].
    + rewrite get_rem_id_same_hit in Hg by exact He. discriminate.
    + rewrite rem_id_miss in Hg by exact Hn. split; [exact Hg|].
      intros Heq. inversion Heq; subst. contradiction.
  - rewrite get_rem_id_other in Hg by exact Hne. split; [exact Hg|].
    intros Heq. inversion Heq; subst. contradiction.
Qed.

Lemma get_rem_id_keep k0 id0 k id m :
  (k0, id0) <> (k, id) -> get k0 m = Some id0 -> get k0 (rem_id k id m) = Some id0.
Proof.
  intros Hne Hg. destruct (Z.eq_dec k0 k) as [->|Hk].
  - rewrite rem_id_miss; [exact Hg|]. rewrite Hg. intros Heq. inversion Heq; subst. apply Hne; reflexivity.
  - rewrite get_rem_id_other by exact Hk. exact Hg.
Qed.

(* ================================================================== *)
(* Part B: thread lists *)

Lemma nth_error_upd_same {A} (l : list A) i x t :
  nth_error l i = Some t -> nth_error (upd i x l) i = Some x.
Proof.
  revert i; induction l as [|y l IH]; intros [|i] Hn; cbn in *; try discriminate; [reflexivity|].
  apply IH; exact Hn.
Qed.

Lemma nth_error_upd_other {A} (l : list A) i j x :
  j <> i -> nth_error (upd i x l) j = nth_error l j.
Proof.
  revert i j; induction l as [|y l IH]; intros [|i] [|j] Hne; cbn; try reflexivity; try lia.
  apply IH; lia.
Qed.

Lemma length_upd {A} (l : list A) i x : length (upd i x l) = length l.
Proof. revert i; induction l as [|y l IH]; intros [|i]; cbn; auto. Qed.

Definition anyT (P : pc -> Prop) (ths : list thread) : Prop :=
  exists j tj, nth_error ths j = Some tj /\ P (t_pc tj).
Definition others (P : pc -> Prop) (i : nat) (ths : list thread) : Prop :=
  exists j tj, j <> i /\ nth_error ths j = Some tj /\ P (t_pc tj).

Lemma anyT_split P ths i t :
  nth_error ths i = Some t -> (anyT P ths <-> P (t_pc t) \/ others P i ths).
Proof.
  intros Hn; split.
  - intros (j & tj & Hj & HP). destruct (Nat.eq_dec j i) as [->|Hne].
    + left. rewrite Hn in Hj. inversion Hj; subst. exact HP.
    + right. exists j, tj. auto.
  - intros [HP|(j & tj & _ & Hj & HP)]; [exists i, t|exists j, tj]; auto.
Qed.

Lemma anyT_upd P ths i t t1 :
  nth_error ths i = Some t -> (anyT P (upd i t1 ths) <-> P (t_pc t1) \/ others P i ths).
Proof.
  intros Hn; split.
  - intros (j & tj & Hj & HP). destruct (Nat.eq_dec j i) as [->|Hne].
    + left. rewrite (nth_error_upd_same _ _ _ _ Hn) in Hj. inversion Hj; subst. exact HP.
    + right. rewrite nth_error_upd_other in Hj by exact Hne. exists j, tj. auto.
  - intros [HP|(j & tj & Hne & Hj & HP)].
    + exists i, t1. split; [eapply nth_error_upd_same; exact Hn|exact HP].
    + exists j, tj. rewrite nth_error_upd_other by exact Hne. auto.
Qed.

Definition pendingT (ths : list thread) : list Z := flat_map (fun t => script_ids (t_script t)) ths.

Lemma pending_upd ths i t :
  nth_error ths i = Some t ->
  exists a b, pendingT ths = a ++ script_ids (t_script t) ++ b /\
              forall t1, pendingT (upd i t1 ths) = a ++ script_ids (t_script t1) ++ b.
Proof.
  revert i; induction ths as [|y l IH]; intros [|i] Hn; cbn in *; try discriminate.
  - inversion Hn; subst. exists [], (pendingT l). split; [reflexivity|]. intros t1. reflexivity.
  - destruct (IH _ Hn) as (a & b & E1 & E2).
    exists (script_ids (t_script y) ++ a), b. split.
    + unfold pendingT in *. rewrite E1. rewrite app_assoc. reflexivity.
    + intros t1. unfold pendingT in *. rewrite E2. rewrite app_assoc. reflexivity.
Qed.

(* ================================================================== *)
(* Part C: the inductive invariant *)

Definition inflightT (k id : Z) ths := anyT (fun p => p = PStoreB k id) ths.
Definition inflight_keyT (k : Z) ths := anyT (fun p => exists id, p = PStoreB k id) ths.
Definition clearingT ths := anyT (fun p => p = PClear2) ths.
Definition erringT ths := anyT (fun p => exists k id, p = PStoreB' k id) ths.

Definition inflight k id s := inflightT k id (threads s).
Definition inflight_key k s := inflight_keyT k (threads s).
Definition clearing s := clearingT (threads s).

(* identity id was never put in the cache for k nor announced as removed *)
Definition unusedC (k id : Z) (ca : amap) (no : list (Z * Z)) : Prop :=
  get k ca <> Some id /\ ~ In (k, id) no.

Record InvC (ix ca : amap) (no : list (Z * Z)) (ths : list thread) : Prop := {
  I1 : forall k id, get k ca = Some id -> get k ix = Some id \/ inflight_keyT k ths;
  I2 : forall k id, get k ix = Some id ->
         get k ca = Some id \/ In (k, id) no \/ inflightT k id ths \/ clearingT ths;
  I3 : forall k id, inflightT k id ths -> get k ix = Some id /\ unusedC k id ca no;
  I4 : forall k id, get k ca = Some id -> ~ In (k, id) no;
  I5 : clearingT ths -> ca = [];
  I6 : ~ erringT ths;
  F1 : NoDup (pendingT ths);
  F2 : forall id, In id (pendingT ths) -> forall k, unusedC k id ca no /\ ~ inflightT k id ths
}.

Definition Inv (s : state) : Prop := InvC (idx s) (cache s) (notes s) (threads s).

(* --- unused is stable under removals --- *)
Lemma unused_remove k id ca no v idv :
  get v ca = Some idv -> unusedC k id ca no -> unusedC k id (rem v ca) (no ++ [(v, idv)]).
Proof.
  intros Hv [Hc Hn]. split.
  - destruct (Z.eq_dec k v) as [->|Hne]; [rewrite get_rem_same; discriminate|].
    rewrite get_rem_other by exact Hne. exact Hc.
  - intros Hin. apply in_app_or in Hin. destruct Hin as [Hin|[Heq|[]]]; [contradiction|].
    inversion Heq; subst. contradiction.
Qed.

(* --- a resident entry leaves the cache with a notification (Evict, Delete, displacement) --- *)
Lemma inv_remove ix ca no ths v idv :
  get v ca = Some idv -> InvC ix ca no ths -> InvC ix (rem v ca) (no ++ [(v, idv)]) ths.
Proof.
  intros Hv HI. destruct HI as [J1 J2 J3 J4 J5 J6 G1 G2]. constructor.
  - intros k id Hg. destruct (Z.eq_dec k v) as [->|Hne]; [rewrite get_rem_same in Hg; discriminate|].
    rewrite get_rem_other in Hg by exact Hne. apply J1; exact Hg.
  - intros k id Hg. destruct (J2 _ _ Hg) as [Hc|[Hn|[Hf|Hcl]]].
    + destruct (Z.eq_dec k v) as [->|Hne].
      * right; left. rewrite Hv in Hc. inversion Hc; subst. apply in_or_app; right; left; reflexivity.
      * left. rewrite get_rem_other by exact Hne. exact Hc.
    + right; left. apply in_or_app; left; exact Hn.
    + right; right; left; exact Hf.
    + right; right; right; exact Hcl.
  - intros k id Hf. destruct (J3 _ _ Hf) as [Hi Hu]. split; [exact Hi|].
    apply unused_remove; assumption.
  - intros k id Hg Hin. destruct (Z.eq_dec k v) as [->|Hne]; [rewrite get_rem_same in Hg; discriminate|].
    rewrite get_rem_other in Hg by exact Hne.
    apply in_app_or in Hin. destruct Hin as [Hin|[Heq|[]]].
    + exact (J4 _ _ Hg Hin).
    + inversion Heq; subst. apply Hne; reflexivity.
  - intros Hcl. rewrite (J5 Hcl). reflexivity.
  - exact J6.
  - exact G1.
  - intros id Hin k. destruct (G2 _ Hin k) as [Hu Hnf]. split; [|exact Hnf].
    apply unused_remove; assumption.
Qed.

Lemma inv_do_remove s v : Inv s -> Inv (do_remove v s).
Proof.
  intros HI. unfold do_remove. destruct (get v (cache s)) as [idv|] eqn:E; [|exact HI].
  unfold Inv; cbn. apply inv_remove; assumption.
Qed.

Lemma do_remove_threads s v : threads (do_remove v s) = threads s.
Proof. unfold do_remove. destruct (get v (cache s)); reflexivity. Qed.
Lemma do_remove_closed s v : closed (do_remove v s) = closed s.
Proof. unfold do_remove. destruct (get v (cache s)); reflexivity. Qed.
Lemma do_remove_idx s v : idx (do_remove v s) = idx s.
Proof. unfold do_remove. destruct (get v (cache s)); reflexivity. Qed.

Lemma do_displace_threads k vs s : threads (do_displace k vs s) = threads s.
Proof.
  revert s; induction vs as [|v r IH]; intros s; cbn; [reflexivity|].
  destruct (v =? k); rewrite IH; [reflexivity|apply do_remove_threads].
Qed.
Lemma do_displace_closed k vs s : closed (do_displace k vs s) = closed s.
Proof.
  revert s; induction vs as [|v r IH]; intros s; cbn; [reflexivity|].
  destruct (v =? k); rewrite IH; [reflexivity|apply do_remove_closed].
Qed.
Lemma do_displace_idx k vs s : idx (do_displace k vs s) = idx s.
Proof.
  revert s; induction vs as [|v r IH]; intros s; cbn; [reflexivity|].
  destruct (v =? k); rewrite IH; [reflexivity|apply do_remove_idx].
Qed.
Lemma inv_do_displace k vs s : Inv s -> Inv (do_displace k vs s).
Proof.
  revert s; induction vs as [|v r IH]; intros s HI; cbn; [exact HI|].
  destruct (v =? k); apply IH; [exact HI|apply inv_do_remove; exact HI].
Qed.

(* --- thread-local changes that are invisible to the invariant --- *)
Lemma inv_threads_ext ix ca no ths ths' :
  (forall k id, inflightT k id ths' <-> inflightT k id ths) ->
  (forall k, inflight_keyT k ths' <-> inflight_keyT k ths) ->
  (clearingT ths' <-> clearingT ths) ->
  (erringT ths' <-> erringT ths) ->
  pendingT ths' = pendingT ths ->
  InvC ix ca no ths -> InvC ix ca no ths'.
Proof.
  intros Ef Ek Ec Ee Ep HI. destruct HI as [J1 J2 J3 J4 J5 J6 G1 G2]. constructor.
  - intros k id Hg. destruct (J1 _ _ Hg) as [Hi|Hf]; [left; exact Hi|right; apply Ek; exact Hf].
  - intros k id Hg. destruct (J2 _ _ Hg) as [Hc|[Hn|[Hf|Hcl]]]; auto.
    + right; right; left; apply Ef; exact Hf.
    + right; right; right; apply Ec; exact Hcl.
  - intros k id Hf. apply J3. apply Ef; exact Hf.
  - exact J4.
  - intros Hcl. apply J5. apply Ec; exact Hcl.
  - intros He. apply J6. apply Ee; exact He.
  - rewrite Ep. exact G1.
  - intros id Hin k. rewrite Ep in Hin. destruct (G2 _ Hin k) as [Hu Hnf]. split; [exact Hu|].
    intros Hf. apply Hnf. apply Ef; exact Hf.
Qed.

Definition neutral (p : pc) : Prop := p = PIdle \/ exists l, p = PInv l.

Lemma anyT_upd_neutral (P : pc -> Prop) ths i t t1 :
  nth_error ths i = Some t -> ~ P (t_pc t) -> ~ P (t_pc t1) ->
  (anyT P (upd i t1 ths) <-> anyT P ths).
Proof.
  intros Hn H0 H1. rewrite (anyT_upd P _ _ _ t1 Hn), (anyT_split P _ _ _ Hn). tauto.
Qed.

Lemma inv_threads_neutral ix ca no ths i t t1 :
  nth_error ths i = Some t -> neutral (t_pc t) -> neutral (t_pc t1) ->
  script_ids (t_script t1) = script_ids (t_script t) ->
  InvC ix ca no ths -> InvC ix ca no (upd i t1 ths).
Proof.
  intros Hn N0 N1 Hs HI.
  assert (NP : forall P : pc -> Prop, (forall p, neutral p -> ~ P p) ->
               (anyT P (upd i t1 ths) <-> anyT P ths)).
  { intros P HP. apply (anyT_upd_neutral P _ _ _ _ Hn); apply HP; assumption. }
  apply inv_threads_ext with (ths := ths); auto.
  - intros k id. apply NP. intros p [->|[l ->]]; discriminate.
  - intros k. apply NP. intros p [->|[l ->]] [id Hid]; discriminate.
  - apply NP. intros p [->|[l ->]]; discriminate.
  - apply NP. intros p [->|[l ->]] (k & id & Hid); discriminate.
  - destruct (pending_upd _ _ _ Hn) as (a & b & E1 & E2). rewrite E2, E1, Hs. reflexivity.
Qed.

Definition HT (ths : list thread) : Prop :=
  forall i j ti tj, i <> j -> nth_error ths i = Some ti -> nth_error ths j = Some tj ->
    conflict (t_pc ti) (t_pc tj) = false.

Lemma H_HT s : H s <-> HT (threads s).
Proof. unfold H, HT. tauto. Qed.

Lemma HT_upd_others ths i t t1 :
  HT (upd i t1 ths) -> nth_error ths i = Some t ->
  forall j tj, j <> i -> nth_error ths j = Some tj ->
    conflict (t_pc t1) (t_pc tj) = false /\ conflict (t_pc tj) (t_pc t1) = false.
Proof.
  intros HH Hn j tj Hne Hj.
  assert (Hi' : nth_error (upd i t1 ths) i = Some t1) by (eapply nth_error_upd_same; exact Hn).
  assert (Hj' : nth_error (upd i t1 ths) j = Some tj) by (rewrite nth_error_upd_other by exact Hne; exact Hj).
  split; [apply (HH i j) | apply (HH j i)]; auto.
Qed.

Lemma HT_others ths i t :
  HT ths -> nth_error ths i = Some t ->
  forall j tj, j <> i -> nth_error ths j = Some tj ->
    conflict (t_pc t) (t_pc tj) = false /\ conflict (t_pc tj) (t_pc t) = false.
Proof.
  intros HH Hn j tj Hne Hj. split; [apply (HH i j) | apply (HH j i)]; auto.
Qed.

(* --- store step A --- *)
Lemma inv_storeA ix ca no ths i t k id r :
  nth_error ths i = Some t -> t_pc t = PIdle -> t_script t = OStore k id :: r ->
  HT (upd i (mkT (PStoreB k id) r) ths) ->
  InvC ix ca no ths -> InvC (set k id ix) ca no (upd i (mkT (PStoreB k id) r) ths).
Proof.
  intros Hn Hpc Hsc HH HI. destruct HI as [J1 J2 J3 J4 J5 J6 G1 G2].
  set (t1 := mkT (PStoreB k id) r) in *.
  assert (FA : forall P, anyT P (upd i t1 ths) <-> P (PStoreB k id) \/ others P i ths)
    by (intros P; apply (anyT_upd P _ _ _ t1 Hn)).
  assert (FS : forall P, anyT P ths <-> P PIdle \/ others P i ths)
    by (intros P; rewrite <- Hpc; apply (anyT_split P _ _ _ Hn)).
  assert (Hoth : forall j tj, j <> i -> nth_error ths j = Some tj -> conflict (PStoreB k id) (t_pc tj) = false).
  { intros j tj Hne Hj. apply (HT_upd_others _ _ _ _ HH Hn j tj Hne Hj). }
  destruct (pending_upd _ _ _ Hn) as (a & b & E1 & E2). specialize (E2 t1).
  rewrite Hsc in E1. cbn in E1, E2.
  rewrite E1 in G1. pose proof (NoDup_remove_1 _ _ _ G1) as G1'. pose proof (NoDup_remove_2 _ _ _ G1) as G1''.
  assert (Hsub : forall x, In x (pendingT (upd i t1 ths)) -> In x (pendingT ths)).
  { intros x Hx. rewrite E2 in Hx. rewrite E1. apply in_app_or in Hx. apply in_or_app.
    destruct Hx as [Hx|Hx]; [left; exact Hx|right; right; exact Hx]. }
  assert (Hidp : In id (pendingT ths)) by (rewrite E1; apply in_or_app; right; left; reflexivity).
  constructor.
  - intros k0 id0 Hg. destruct (Z.eq_dec k0 k) as [->|Hne].
    + right. apply FA. left. exists id; reflexivity.
    + rewrite get_set_other by exact Hne. destruct (J1 _ _ Hg) as [Hi|Hf]; [left; exact Hi|].
      right. apply FA. apply FS in Hf. destruct Hf as [[x Hx]|Ho]; [discriminate|right; exact Ho].
  - intros k0 id0 Hg. destruct (Z.eq_dec k0 k) as [->|Hne].
    + rewrite get_set_same in Hg. inversion Hg; subst. right; right; left. apply FA. left; reflexivity.
    + rewrite get_set_other in Hg by exact Hne.
      destruct (J2 _ _ Hg) as [Hc|[Hno|[Hf|Hcl]]]; auto.
      * right; right; left. apply FA. apply FS in Hf. destruct Hf as [Hx|Ho]; [discriminate|right; exact Ho].
      * right; right; right. apply FA. apply FS in Hcl. destruct Hcl as [Hx|Ho]; [discriminate|right; exact Ho].
  - intros k0 id0 Hf. apply FA in Hf. destruct Hf as [Heq|Ho].
    + injection Heq as Hk Hid; subst k0 id0. split; [apply get_set_same|]. apply (G2 _ Hidp k).
    + assert (Hne : k0 <> k).
      { destruct Ho as (j & tj & Hne & Hj & Hp). pose proof (Hoth j tj Hne Hj) as Hc.
        rewrite Hp in Hc. cbn in Hc. lia. }
      rewrite get_set_other by exact Hne. apply J3. apply FS. right; exact Ho.
  - exact J4.
  - intros Hcl. apply J5. apply FS. apply FA in Hcl. destruct Hcl as [Hx|Ho]; [discriminate|right; exact Ho].
  - intros He. apply J6. apply FS. apply FA in He. destruct He as [(x & y & Hx)|Ho]; [discriminate|right; exact Ho].
  - rewrite E2. exact G1'.
  - intros id0 Hin k0. destruct (G2 _ (Hsub _ Hin) k0) as [Hu Hnf]. split; [exact Hu|].
    intros Hf. apply FA in Hf. destruct Hf as [Heq|Ho].
    + injection Heq as Hk Hid; subst k0 id0. apply G1''. rewrite <- E2. exact Hin.
    + apply Hnf. apply FS. right; exact Ho.
Qed.

(* --- store step B, accepted (after displacement): cache[k] := id --- *)
Lemma inv_storeB_set ix ca no ths i t k id :
  nth_error ths i = Some t -> t_pc t = PStoreB k id -> HT ths ->
  InvC ix ca no ths -> InvC ix (set k id ca) no (upd i (mkT PIdle (t_script t)) ths).
Proof.
  intros Hn Hpc HH HI. destruct HI as [J1 J2 J3 J4 J5 J6 G1 G2].
  set (t1 := mkT PIdle (t_script t)) in *.
  assert (FA : forall P, anyT P (upd i t1 ths) <-> P PIdle \/ others P i ths)
    by (intros P; apply (anyT_upd P _ _ _ t1 Hn)).
  assert (FS : forall P, anyT P ths <-> P (PStoreB k id) \/ others P i ths)
    by (intros P; rewrite <- Hpc; apply (anyT_split P _ _ _ Hn)).
  assert (Hoth : forall j tj, j <> i -> nth_error ths j = Some tj -> conflict (PStoreB k id) (t_pc tj) = false).
  { intros j tj Hne Hj. rewrite <- Hpc. apply (HT_others _ _ _ HH Hn j tj Hne Hj). }
  assert (Hme : inflightT k id ths) by (apply FS; left; reflexivity).
  destruct (J3 _ _ Hme) as [Hix [Hcu Hnu]].
  assert (Hokey : forall k0 (P : pc -> Prop), (forall p, P p -> store_key p = Some k0) -> others P i ths -> k0 <> k).
  { intros k0 P HP (j & tj & Hne & Hj & Hp). pose proof (Hoth j tj Hne Hj) as Hc.
    unfold conflict in Hc. cbn in Hc. rewrite (HP _ Hp) in Hc. lia. }
  assert (Hnocl : ~ others (fun p => p = PClear2) i ths).
  { intros (j & tj & Hne & Hj & Hp). pose proof (Hoth j tj Hne Hj) as Hc. rewrite Hp in Hc. discriminate. }
  destruct (pending_upd _ _ _ Hn) as (a & b & E1 & E2). specialize (E2 t1).
  assert (Ep : pendingT (upd i t1 ths) = pendingT ths) by (rewrite E2, E1; reflexivity).
  constructor.
  - intros k0 id0 Hg. destruct (Z.eq_dec k0 k) as [->|Hne].
    + rewrite get_set_same in Hg. inversion Hg; subst. left; exact Hix.
    + rewrite get_set_other in Hg by exact Hne. destruct (J1 _ _ Hg) as [Hi|Hf]; [left; exact Hi|].
      right. apply FA. apply FS in Hf. destruct Hf as [[x Hx]|Ho]; [inversion Hx; subst; contradiction|right; exact Ho].
  - intros k0 id0 Hg. destruct (Z.eq_dec k0 k) as [->|Hne].
    + rewrite Hix in Hg. inversion Hg; subst. left. apply get_set_same.
    + rewrite get_set_other by exact Hne.
      destruct (J2 _ _ Hg) as [Hc|[Hno|[Hf|Hcl]]]; auto.
      * right; right; left. apply FA. apply FS in Hf.
        destruct Hf as [Hx|Ho]; [inversion Hx; subst; contradiction|right; exact Ho].
      * exfalso. apply FS in Hcl. destruct Hcl as [Hx|Ho]; [discriminate|contradiction].
  - intros k0 id0 Hf. apply FA in Hf. destruct Hf as [Hx|Ho]; [discriminate|].
    assert (Hne : k0 <> k) by (apply (Hokey k0 (fun p => p = PStoreB k0 id0)); [intros p Hp; rewrite Hp; reflexivity|exact Ho]).
    destruct (J3 k0 id0 ltac:(apply FS; right; exact Ho)) as [Hi [Hc Hu]].
    split; [exact Hi|]. split; [rewrite get_set_other by exact Hne; exact Hc|exact Hu].
  - intros k0 id0 Hg. destruct (Z.eq_dec k0 k) as [->|Hne].
    + rewrite get_set_same in Hg. inversion Hg; subst. exact Hnu.
    + rewrite get_set_other in Hg by exact Hne. apply J4; exact Hg.
  - intros Hcl. exfalso. apply FA in Hcl. destruct Hcl as [Hx|Ho]; [discriminate|contradiction].
  - intros He. apply J6. apply FS. apply FA in He. destruct He as [(x & y & Hx)|Ho]; [discriminate|right; exact Ho].
  - rewrite Ep. exact G1.
  - intros id0 Hin k0. rewrite Ep in Hin. destruct (G2 _ Hin k0) as [[Hc Hu] Hnf]. split.
    + split; [|exact Hu]. destruct (Z.eq_dec k0 k) as [->|Hne].
      * rewrite get_set_same. intros Heq. inversion Heq; subst. apply Hnf. exact Hme.
      * rewrite get_set_other by exact Hne. exact Hc.
    + intros Hf. apply Hnf. apply FS. apply FA in Hf. destruct Hf as [Hx|Ho]; [discriminate|right; exact Ho].
Qed.

(* --- store step B, rejected by admission --- *)
Lemma inv_storeB_reject ix ca no ths i t k id :
  nth_error ths i = Some t -> t_pc t = PStoreB k id -> HT ths ->
  InvC ix ca no ths -> InvC ix (rem k ca) (no ++ [(k, id)]) (upd i (mkT PIdle (t_script t)) ths).
Proof.
  intros Hn Hpc HH HI. destruct HI as [J1 J2 J3 J4 J5 J6 G1 G2].
  set (t1 := mkT PIdle (t_script t)) in *.
  assert (FA : forall P, anyT P (upd i t1 ths) <-> P PIdle \/ others P i ths)
    by (intros P; apply (anyT_upd P _ _ _ t1 Hn)).
  assert (FS : forall P, anyT P ths <-> P (PStoreB k id) \/ others P i ths)
    by (intros P; rewrite <- Hpc; apply (anyT_split P _ _ _ Hn)).
  assert (Hoth : forall j tj, j <> i -> nth_error ths j = Some tj -> conflict (PStoreB k id) (t_pc tj) = false).
  { intros j tj Hne Hj. rewrite <- Hpc. apply (HT_others _ _ _ HH Hn j tj Hne Hj). }
  assert (Hme : inflightT k id ths) by (apply FS; left; reflexivity).
  destruct (J3 _ _ Hme) as [Hix [Hcu Hnu]].
  assert (Hokey : forall k0 (P : pc -> Prop), (forall p, P p -> store_key p = Some k0) -> others P i ths -> k0 <> k).
  { intros k0 P HP (j & tj & Hne & Hj & Hp). pose proof (Hoth j tj Hne Hj) as Hc.
    unfold conflict in Hc. cbn in Hc. rewrite (HP _ Hp) in Hc. lia. }
  assert (Hnocl : ~ others (fun p => p = PClear2) i ths).
  { intros (j & tj & Hne & Hj & Hp). pose proof (Hoth j tj Hne Hj) as Hc. rewrite Hp in Hc. discriminate. }
  destruct (pending_upd _ _ _ Hn) as (a & b & E1 & E2). specialize (E2 t1).
  assert (Ep : pendingT (upd i t1 ths) = pendingT ths) by (rewrite E2, E1; reflexivity).
  constructor.
  - intros k0 id0 Hg. destruct (Z.eq_dec k0 k) as [->|Hne]; [rewrite get_rem_same in Hg; discriminate|].
    rewrite get_rem_other in Hg by exact Hne. destruct (J1 _ _ Hg) as [Hi|Hf]; [left; exact Hi|].
    right. apply FA. apply FS in Hf. destruct Hf as [[x Hx]|Ho]; [inversion Hx; subst; contradiction|right; exact Ho].
  - intros k0 id0 Hg. destruct (Z.eq_dec k0 k) as [->|Hne].
    + rewrite Hix in Hg. inversion Hg; subst. right; left. apply in_or_app; right; left; reflexivity.
    + rewrite get_rem_other by exact Hne.
      destruct (J2 _ _ Hg) as [Hc|[Hno|[Hf|Hcl]]]; auto.
      * right; left. apply in_or_app; left; exact Hno.
      * right; right; left. apply FA. apply FS in Hf.
        destruct Hf as [Hx|Ho]; [inversion Hx; subst; contradiction|right; exact Ho].
      * exfalso. apply FS in Hcl. destruct Hcl as [Hx|Ho]; [discriminate|contradiction].
  - intros k0 id0 Hf. apply FA in Hf. destruct Hf as [Hx|Ho]; [discriminate|].
    assert (Hne : k0 <> k) by (apply (Hokey k0 (fun p => p = PStoreB k0 id0)); [intros p Hp; rewrite Hp; reflexivity|exact Ho]).
    destruct (J3 k0 id0 ltac:(apply FS; right; exact Ho)) as [Hi [Hc Hu]].
    split; [exact Hi|]. split; [rewrite get_rem_other by exact Hne; exact Hc|].
    intros Hin. apply in_app_or in Hin. destruct Hin as [Hin|[Heq|[]]]; [contradiction|].
    inversion Heq; subst. apply Hne; reflexivity.
  - intros k0 id0 Hg. destruct (Z.eq_dec k0 k) as [->|Hne]; [rewrite get_rem_same in Hg; discriminate|].
    rewrite get_rem_other in Hg by exact Hne. intros Hin.
    apply in_app_or in Hin. destruct Hin as [Hin|[Heq|[]]]; [exact (J4 _ _ Hg Hin)|].
    inversion Heq; subst. apply Hne; reflexivity.
  - intros Hcl. exfalso. apply FA in Hcl. destruct Hcl as [Hx|Ho]; [discriminate|contradiction].
  - intros He. apply J6. apply FS. apply FA in He. destruct He as [(x & y & Hx)|Ho]; [discriminate|right; exact Ho].
  - rewrite Ep. exact G1.
  - intros id0 Hin k0. rewrite Ep in Hin. destruct (G2 _ Hin k0) as [[Hc Hu] Hnf]. split.
    + split.
      * destruct (Z.eq_dec k0 k) as [->|Hne]; [rewrite get_rem_same; discriminate|].
        rewrite get_rem_other by exact Hne. exact Hc.
      * intros Hin2. apply in_app_or in Hin2. destruct Hin2 as [Hin2|[Heq|[]]]; [contradiction|].
        injection Heq as Hk Hid; subst k0 id0. destruct (G2 _ Hin k) as [_ Hnf2]. apply Hnf2; exact Hme.
    + intros Hf. apply Hnf. apply FS. apply FA in Hf. destruct Hf as [Hx|Ho]; [discriminate|right; exact Ho].
Qed.

(* --- Clear step 1: cache cleared silently --- *)
Lemma inv_clear1 ix ca no ths i t r :
  nth_error ths i = Some t -> t_pc t = PIdle -> t_script t = OClear :: r ->
  InvC ix ca no ths -> InvC ix [] no (upd i (mkT PClear2 r) ths).
Proof.
  intros Hn Hpc Hsc HI. destruct HI as [J1 J2 J3 J4 J5 J6 G1 G2].
  set (t1 := mkT PClear2 r) in *.
  assert (FA : forall P, anyT P (upd i t1 ths) <-> P PClear2 \/ others P i ths)
    by (intros P; apply (anyT_upd P _ _ _ t1 Hn)).
  assert (FS : forall P, anyT P ths <-> P PIdle \/ others P i ths)
    by (intros P; rewrite <- Hpc; apply (anyT_split P _ _ _ Hn)).
  destruct (pending_upd _ _ _ Hn) as (a & b & E1 & E2). specialize (E2 t1).
  assert (Ep : pendingT (upd i t1 ths) = pendingT ths) by (rewrite E2, E1, Hsc; reflexivity).
  constructor.
  - intros k id Hg. discriminate.
  - intros k id Hg. right; right; right. apply FA. left; reflexivity.
  - intros k id Hf. apply FA in Hf. destruct Hf as [Hx|Ho]; [discriminate|].
    destruct (J3 k id ltac:(apply FS; right; exact Ho)) as [Hi [Hc Hu]].
    split; [exact Hi|]. split; [discriminate|exact Hu].
  - intros k id Hg. discriminate.
  - reflexivity.
  - intros He. apply J6. apply FS. apply FA in He. destruct He as [(x & y & Hx)|Ho]; [discriminate|right; exact Ho].
  - rewrite Ep. exact G1.
  - intros id Hin k. rewrite Ep in Hin. destruct (G2 _ Hin k) as [[Hc Hu] Hnf]. split.
    + split; [discriminate|exact Hu].
    + intros Hf. apply Hnf. apply FS. apply FA in Hf. destruct Hf as [Hx|Ho]; [discriminate|right; exact Ho].
Qed.

(* --- Clear step 2: index cleared --- *)
Lemma inv_clear2 ix ca no ths i t :
  nth_error ths i = Some t -> t_pc t = PClear2 -> HT ths ->
  InvC ix ca no ths -> InvC [] ca no (upd i (mkT PIdle (t_script t)) ths).
Proof.
  intros Hn Hpc HH HI. destruct HI as [J1 J2 J3 J4 J5 J6 G1 G2].
  set (t1 := mkT PIdle (t_script t)) in *.
  assert (FA : forall P, anyT P (upd i t1 ths) <-> P PIdle \/ others P i ths)
    by (intros P; apply (anyT_upd P _ _ _ t1 Hn)).
  assert (FS : forall P, anyT P ths <-> P PClear2 \/ others P i ths)
    by (intros P; rewrite <- Hpc; apply (anyT_split P _ _ _ Hn)).
  assert (Hca : ca = []) by (apply J5; apply FS; left; reflexivity).
  assert (Hnost : forall k id, ~ others (fun p => p = PStoreB k id) i ths).
  { intros k id (j & tj & Hne & Hj & Hp). pose proof (HT_others _ _ _ HH Hn j tj Hne Hj) as [_ Hc].
    rewrite Hp, Hpc in Hc. discriminate. }
  destruct (pending_upd _ _ _ Hn) as (a & b & E1 & E2). specialize (E2 t1).
  assert (Ep : pendingT (upd i t1 ths) = pendingT ths) by (rewrite E2, E1; reflexivity).
  constructor.
  - intros k id Hg. rewrite Hca in Hg. discriminate.
  - intros k id Hg. discriminate.
  - intros k id Hf. exfalso. apply FA in Hf. destruct Hf as [Hx|Ho]; [discriminate|]. exact (Hnost _ _ Ho).
  - exact J4.
  - intros _. exact Hca.
  - intros He. apply J6. apply FS. apply FA in He. destruct He as [(x & y & Hx)|Ho]; [discriminate|right; exact Ho].
  - rewrite Ep. exact G1.
  - intros id Hin k. rewrite Ep in Hin. destruct (G2 _ Hin k) as [Hu Hnf]. split; [exact Hu|].
    intros Hf. apply Hnf. apply FS. apply FA in Hf. destruct Hf as [Hx|Ho]; [discriminate|right; exact Ho].
Qed.

(* --- the notifier delivers the head of the queue --- *)
Lemma inv_deliver ix ca no ths k id :
  InvC ix ca ((k, id) :: no) ths -> InvC (rem_id k id ix) ca no ths.
Proof.
  intros HI. destruct HI as [J1 J2 J3 J4 J5 J6 G1 G2]. constructor.
  - intros k0 id0 Hg. destruct (J1 _ _ Hg) as [Hi|Hf]; [|right; exact Hf].
    left. apply get_rem_id_keep; [|exact Hi]. intros Heq. injection Heq as Hk Hid; subst k0 id0.
    apply (J4 _ _ Hg). left; reflexivity.
  - intros k0 id0 Hg. apply get_rem_id_some in Hg. destruct Hg as [Hg Hne].
    destruct (J2 _ _ Hg) as [Hc|[Hno|[Hf|Hcl]]]; auto.
    right; left. destruct Hno as [Heq|Hin]; [exfalso; apply Hne; symmetry; exact Heq|exact Hin].
  - intros k0 id0 Hf. destruct (J3 _ _ Hf) as [Hi [Hc Hu]]. split.
    + apply get_rem_id_keep; [|exact Hi]. intros Heq. apply Hu. left. symmetry; exact Heq.
    + split; [exact Hc|]. intros Hin. apply Hu. right; exact Hin.
  - intros k0 id0 Hg Hin. apply (J4 _ _ Hg). right; exact Hin.
  - exact J5.
  - exact J6.
  - exact G1.
  - intros id0 Hin k0. destruct (G2 _ Hin k0) as [[Hc Hu] Hnf]. split; [|exact Hnf].
    split; [exact Hc|]. intros Hin2. apply Hu. right; exact Hin2.
Qed.

(* ================================================================== *)
(* one step preserves the invariant (while the cache is open) *)

Lemma step_closed_mono s l s' : step s l = Some s' -> closed s = true -> closed s' = true.
Proof.
  intros Hs Hc. destruct l as [i o|k|]; cbn in Hs.
  - destruct (nth_error (threads s) i) as [t|]; [|discriminate].
    destruct (tstep s t o) as [[s1 t1]|] eqn:Et; [|discriminate]. inversion Hs; subst; cbn.
    unfold tstep in Et. rewrite Hc in Et.
    destruct (t_pc t) as [| k id | k id | [|k r] | ].
    + destruct (t_script t) as [|[k id|k|ks| |] r]; inversion Et; subst; cbn; auto.
      rewrite do_remove_closed. exact Hc.
    + inversion Et; subst; exact Hc.
    + inversion Et; subst; exact Hc.
    + inversion Et; subst; exact Hc.
    + inversion Et; subst. rewrite do_remove_closed. exact Hc.
    + inversion Et; subst; exact Hc.
  - destruct (resident k s); inversion Hs; subst. rewrite do_remove_closed. exact Hc.
  - unfold do_deliver in Hs. destruct (notes s) as [|[k id] r]; inversion Hs; subst; exact Hc.
Qed.

Lemma inv_step s l s' :
  Inv s -> H s -> H s' -> closed s' = false -> step s l = Some s' -> Inv s'.
Proof.
  intros HI HH HH' Hcl' Hs.
  assert (Hcl : closed s = false).
  { destruct (closed s) eqn:E; [|reflexivity]. rewrite (step_closed_mono _ _ _ Hs E) in Hcl'. discriminate. }
  destruct l as [i o|k|]; cbn in Hs.
  - destruct (nth_error (threads s) i) as [t|] eqn:Hn; [|discriminate].
    destruct (tstep s t o) as [[s1 t1]|] eqn:Et; [|discriminate]. inversion Hs; subst s'; clear Hs.
    unfold tstep in Et. rewrite Hcl in Et.
    destruct (t_pc t) as [| k id | k id | [|k r] | ] eqn:Hpc.
    + destruct (t_script t) as [|[k id|k|ks| |] r] eqn:Hsc; inversion Et; subst s1 t1; clear Et.
      * (* A *) unfold Inv; cbn. apply (inv_storeA _ _ _ _ i t k id r Hn Hpc Hsc); [apply H_HT in HH'; exact HH'|exact HI].
      * (* Delete *) unfold Inv, set_threads; cbn [idx cache notes threads].
        apply inv_threads_neutral with (t := t); auto.
        -- left; exact Hpc.
        -- left; reflexivity.
        -- rewrite Hsc; reflexivity.
        -- rewrite <- (do_remove_threads s k). apply (inv_do_remove s k HI).
      * (* Invalidate step 1 *) unfold Inv; cbn.
        apply inv_threads_neutral with (t := t); auto.
        -- left; exact Hpc.
        -- right; eexists; reflexivity.
        -- rewrite Hsc; reflexivity.
      * (* Clear 1 *) unfold Inv; cbn. apply (inv_clear1 (idx s) (cache s) (notes s) (threads s) i t r Hn Hpc Hsc). exact HI.
      * (* Close *) cbn in Hcl'. discriminate.
    + (* B *) destruct o as [vs|]; inversion Et; subst s1 t1; clear Et.
      * unfold Inv; cbn. rewrite <- (do_displace_threads k vs s).
        apply inv_storeB_set.
        -- rewrite do_displace_threads; exact Hn.
        -- exact Hpc.
        -- rewrite do_displace_threads. apply H_HT; exact HH.
        -- apply (inv_do_displace k vs s HI).
      * unfold Inv; cbn. apply inv_storeB_reject; [exact Hn|exact Hpc|apply H_HT; exact HH|exact HI].
    + (* B' : impossible while open *) exfalso. destruct HI as [_ _ _ _ _ J6 _ _]. apply J6.
      exists i, t. split; [exact Hn|]. rewrite Hpc. eauto.
    + inversion Et; subst s1 t1; clear Et. unfold Inv; cbn.
      apply inv_threads_neutral with (t := t); auto.
      * right; eexists; exact Hpc.
      * left; reflexivity.
    + inversion Et; subst s1 t1; clear Et. unfold Inv, set_threads; cbn [idx cache notes threads].
      apply inv_threads_neutral with (t := t); auto.
      * right; eexists; exact Hpc.
      * right; eexists; reflexivity.
      * rewrite <- (do_remove_threads s k). apply (inv_do_remove s k HI).
    + inversion Et; subst s1 t1; clear Et. unfold Inv; cbn. apply (inv_clear2 (idx s) (cache s) (notes s) (threads s) i t Hn Hpc); [apply H_HT; exact HH|exact HI].
  - destruct (resident k s); inversion Hs; subst. apply inv_do_remove; exact HI.
  - unfold do_deliver in Hs. destruct (notes s) as [|[k id] r] eqn:En; inversion Hs; subst; clear Hs.
    unfold Inv in *; cbn. rewrite En in HI. apply inv_deliver; exact HI.
Qed.

(* ================================================================== *)
(* Part D: reachable states *)

Lemma anyT_init P scripts : anyT P (map (mkT PIdle) scripts) -> P PIdle.
Proof.
  intros (j & tj & Hj & HP). apply nth_error_In in Hj. apply in_map_iff in Hj.
  destruct Hj as (sc & Heq & _). subst tj. exact HP.
Qed.

Lemma pending_init scripts : pendingT (map (mkT PIdle) scripts) = flat_map script_ids scripts.
Proof. induction scripts as [|sc l IH]; cbn; [reflexivity|]. unfold pendingT in IH. rewrite IH. reflexivity. Qed.

Lemma inv_init scripts : wf_scripts scripts -> Inv (init scripts).
Proof.
  intros Hwf. unfold Inv, init; cbn. constructor.
  - intros k id Hg; discriminate.
  - intros k id Hg; discriminate.
  - intros k id Hf. apply anyT_init in Hf. discriminate.
  - intros k id Hg; discriminate.
  - reflexivity.
  - intros He. apply anyT_init in He. destruct He as (k & id & Hx). discriminate.
  - rewrite pending_init. exact Hwf.
  - intros id _ k. split.
    + split; [discriminate|intros []].
    + intros Hf. apply anyT_init in Hf. discriminate.
Qed.

Lemma H_init scripts : H (init scripts).
Proof.
  intros i j ti tj _ Hi _. cbn in Hi. apply nth_error_In in Hi. apply in_map_iff in Hi.
  destruct Hi as (sc & Heq & _). subst ti. reflexivity.
Qed.

Lemma reachableH_H s0 s : H s0 -> reachableH s0 s -> H s.
Proof. intros H0 Hr. destruct Hr; assumption. Qed.

Lemma reachableH_reachable s0 s : reachableH s0 s -> reachable s0 s.
Proof. intros Hr. induction Hr; [constructor|econstructor; eassumption]. Qed.

(* the inductive strengthening: holds in every H-reachable state whose cache is still open *)
Theorem invariant_strong scripts s :
  wf_scripts scripts -> reachableH (init scripts) s -> closed s = false -> Inv s.
Proof.
  intros Hwf Hr. induction Hr as [|s l s' Hr IH Hs HH']; intros Hcl.
  - apply inv_init; exact Hwf.
  - assert (Hcl0 : closed s = false).
    { destruct (closed s) eqn:E; [|reflexivity]. rewrite (step_closed_mono _ _ _ Hs E) in Hcl. discriminate. }
    apply (inv_step s l s' (IH Hcl0)); auto.
    apply (reachableH_H (init scripts)); [apply H_init|exact Hr].
Qed.

(* Theorem 2, in the task's form, with the one extra disjunct that is needed ("a Clear is between its two steps"). *)
Theorem invariant scripts s :
  wf_scripts scripts -> reachableH (init scripts) s -> closed s = false ->
  forall k,
    (forall id, get k (cache s) = Some id -> get k (idx s) = Some id \/ inflight_key k s) /\
    (forall id, get k (idx s) = Some id ->
       get k (cache s) = Some id \/ In (k, id) (notes s) \/ inflight k id s \/ clearing s).
Proof.
  intros Hwf Hr Hcl k. destruct (invariant_strong _ _ Hwf Hr Hcl) as [J1 J2 _ _ _ _ _ _].
  split; intros id Hg; [apply J1|apply J2]; exact Hg.
Qed.

(* further facts carried by the strengthening, stated for the record *)
Theorem invariant_extras scripts s :
  wf_scripts scripts -> reachableH (init scripts) s -> closed s = false ->
  (forall k id, inflight k id s ->
     get k (idx s) = Some id /\ get k (cache s) <> Some id /\ ~ In (k, id) (notes s)) /\
  (forall k id, get k (cache s) = Some id -> ~ In (k, id) (notes s)) /\
  (clearing s -> cache s = []).
Proof.
  intros Hwf Hr Hcl. destruct (invariant_strong _ _ Hwf Hr Hcl) as [_ _ J3 J4 J5 _ _ _].
  split; [|split; assumption]. intros k id Hf. destruct (J3 _ _ Hf) as [Hi [Hc Hu]]. auto.
Qed.

Lemma all_idle_anyT P s : all_idle s = true -> anyT P (threads s) -> P PIdle.
Proof.
  unfold all_idle. intros Ha (j & tj & Hj & HP). apply nth_error_In in Hj.
  rewrite forallb_forall in Ha. specialize (Ha _ Hj).
  destruct (t_pc tj); try discriminate. exact HP.
Qed.

(* Theorem 3 *)
Theorem quiescent_agreement scripts s :
  wf_scripts scripts -> reachableH (init scripts) s -> closed s = false -> quiescent s ->
  forall k, get k (idx s) = get k (cache s).
Proof.
  intros Hwf Hr Hcl [Hidle Hno] k.
  destruct (invariant_strong _ _ Hwf Hr Hcl) as [J1 J2 _ _ _ _ _ _].
  destruct (get k (cache s)) as [idc|] eqn:Ec.
  - destruct (J1 _ _ Ec) as [Hi|Hf]; [exact Hi|].
    apply (all_idle_anyT _ _ Hidle) in Hf. destruct Hf as [x Hx]. discriminate.
  - destruct (get k (idx s)) as [idi|] eqn:Ei; [|reflexivity]. exfalso.
    destruct (J2 _ _ Ei) as [Hc|[Hin|[Hf|Hc2]]].
    + rewrite Ec in Hc. discriminate.
    + rewrite Hno in Hin. exact Hin.
    + apply (all_idle_anyT _ _ Hidle) in Hf. discriminate.
    + apply (all_idle_anyT _ _ Hidle) in Hc2. discriminate.
Qed.

(* same key set *)
Corollary quiescent_same_keys scripts s :
  wf_scripts scripts -> reachableH (init scripts) s -> closed s = false -> quiescent s ->
  forall k, resident k s = match get k (idx s) with Some _ => true | None => false end.
Proof.
  intros Hwf Hr Hcl Hq k. unfold resident. rewrite (quiescent_agreement _ _ Hwf Hr Hcl Hq k). reflexivity.
Qed.

(* ------------------------------------------------------------------ *)
(* executable runs are H-reachable *)

Lemma Hb_sound s : Hb s = true -> H s.
Proof.
  unfold Hb. intros Hb i j ti tj Hne Hi Hj.
  rewrite forallb_forall in Hb.
  assert (Li : In i (seq 0 (length (threads s)))).
  { apply in_seq. split; [lia|]. cbn. apply nth_error_Some. rewrite Hi. discriminate. }
  assert (Lj : In j (seq 0 (length (threads s)))).
  { apply in_seq. split; [lia|]. cbn. apply nth_error_Some. rewrite Hj. discriminate. }
  specialize (Hb _ Li). rewrite forallb_forall in Hb. specialize (Hb _ Lj).
  unfold pc_at in Hb. rewrite Hi, Hj in Hb.
  destruct (Nat.eqb_spec i j) as [He|_]; [contradiction|]. cbn in Hb.
  destruct (conflict (t_pc ti) (t_pc tj)); [discriminate|reflexivity].
Qed.

Lemma execH_reachableH s0 s ls s' :
  reachableH s0 s -> execH s ls = Some s' -> reachableH s0 s'.
Proof.
  revert s; induction ls as [|l r IH]; intros s Hr He; cbn in He.
  - inversion He; subst; exact Hr.
  - destruct (step s l) as [s1|] eqn:Es; [|discriminate].
    destruct (Hb s1) eqn:Eh; [|discriminate].
    apply (IH s1); [|exact He]. eapply RH_step; [exact Hr|exact Es|apply Hb_sound; exact Eh].
Qed.

Lemma exec_reachable s0 s ls s' :
  reachable s0 s -> exec s ls = Some s' -> reachable s0 s'.
Proof.
  revert s; induction ls as [|l r IH]; intros s Hr He; cbn in He.
  - inversion He; subst; exact Hr.
  - destruct (step s l) as [s1|] eqn:Es; [|discriminate].
    apply (IH s1); [|exact He]. eapply R_step; [exact Hr|exact Es].
Qed.

(* ------------------------------------------------------------------ *)
(* Theorem 2 as literally written (without the Clear disjunct) is false: between a Clear's two steps the
   index still holds (k,id) while the cache is empty, nothing is pending and no store is in flight. *)
Definition acc := Accept [].

Example invariant_as_written_refuted :
  execH (init [[OStore 1 10]; [OClear]]) [LT 0%nat acc; LT 0%nat acc; LT 1%nat acc]
  = Some (mkS [(1, 10)] [] [] false [mkT PIdle []; mkT PClear2 []]).
Proof. vm_compute. reflexivity. Qed.

(* closed caches: Close clears the cache silently and nobody clears the index, so agreement needs `closed = false` *)
Example quiescent_agreement_closed_refuted :
  execH (init [[OStore 1 10; OClose]]) [LT 0%nat acc; LT 0%nat acc; LT 0%nat acc]
  = Some (mkS [(1, 10)] [] [] true [mkT PIdle []]).
Proof. vm_compute. reflexivity. Qed.

(* ------------------------------------------------------------------ *)
(* Theorem 5: H is necessary (defect family F5 of the Go code).  `exec` (no H check) reaches quiescent states
   where the cache holds an entry the index does not know: Invalidate cannot find it. *)

(* (a) two overlapping stores of the same key: A(k,r1); A(k,r2); B(k,r2); Evict k; Deliver; B(k,r1) *)
Example overlap_same_key_refuted :
  let s0 := init [[OStore 7 1]; [OStore 7 2]] in
  wf_scripts [[OStore 7 1]; [OStore 7 2]] /\
  exec s0 [LT 0%nat acc; LT 1%nat acc; LT 1%nat acc; LEvict 7; LDeliver; LT 0%nat acc]
  = Some (mkS [] [(7, 1)] [] false [mkT PIdle []; mkT PIdle []]) /\
  execH s0 [LT 0%nat acc; LT 1%nat acc] = None.
Proof.
  cbv zeta. split; [|split; vm_compute; reflexivity].
  unfold wf_scripts; cbn. constructor; [cbn; intros [Hx|[]]; discriminate|]. constructor; [intros []|constructor].
Qed.

(* the resulting state is quiescent, and an Invalidate matching k finds and removes nothing *)
Example overlap_same_key_invalidate_blind :
  let s := mkS [] [(7, 1)] [] false [mkT PIdle [OInvalidate [7]]] in
  exec s [LT 0%nat acc; LT 0%nat acc]
  = Some (mkS [] [(7, 1)] [] false [mkT PIdle []]).
Proof. vm_compute. reflexivity. Qed.

(* (b) a store overlapping a Clear: A(k,r1); Clear step 1; Clear step 2; B(k,r1) *)
Example overlap_clear_refuted :
  let s0 := init [[OStore 7 1]; [OClear]] in
  exec s0 [LT 0%nat acc; LT 1%nat acc; LT 1%nat acc; LT 0%nat acc]
  = Some (mkS [] [(7, 1)] [] false [mkT PIdle []; mkT PIdle []]) /\
  execH s0 [LT 0%nat acc; LT 1%nat acc] = None.
Proof. cbv zeta. split; vm_compute; reflexivity. Qed.

(* (c) variant of (a): the late notification (k,r2) is delivered AFTER B(k,r1); the index entry written by A(k,r2)
   is removed by it and the cache entry (k,r1) stays unindexed *)
Example overlap_same_key_late_note_refuted :
  let s0 := init [[OStore 7 1]; [OStore 7 2]] in
  exec s0 [LT 0%nat acc; LT 1%nat acc; LT 1%nat acc; LEvict 7; LT 0%nat acc; LDeliver]
  = Some (mkS [] [(7, 1)] [] false [mkT PIdle []; mkT PIdle []]).
Proof. vm_compute. reflexivity. Qed.

(* (c') same overlap, the other order of the two A steps: the index keeps the identity r1 whose Set came
   first and was then silently replaced: index and cache disagree on the identity; the notification of the
   replaced... there is none (silent replace), and a later removal of (k,r2) does not clean the index *)
Example overlap_same_key_identity_mismatch :
  let s0 := init [[OStore 7 1]; [OStore 7 2]] in
  exec s0 [LT 1%nat acc; LT 0%nat acc; LT 0%nat acc; LT 1%nat acc]
  = Some (mkS [(7, 1)] [(7, 2)] [] false [mkT PIdle []; mkT PIdle []]) /\
  exec s0 [LT 1%nat acc; LT 0%nat acc; LT 0%nat acc; LT 1%nat acc; LEvict 7; LDeliver]
  = Some (mkS [(7, 1)] [] [] false [mkT PIdle []; mkT PIdle []]).
Proof. cbv zeta. split; vm_compute; reflexivity. Qed.

(* ================================================================== *)
(* Part E: Theorem 1 — delivery of a notification commutes with the other steps *)

Lemma rem_rem_same k m : rem k (rem k m) = rem k m.
Proof.
  unfold rem. induction m as [|[k' v] m IH]; cbn; [reflexivity|].
  destruct (k' =? k) eqn:E; cbn; [exact IH|]. rewrite E; cbn. rewrite IH. reflexivity.
Qed.

Lemma rem_rem_comm k k2 m : rem k (rem k2 m) = rem k2 (rem k m).
Proof.
  unfold rem. induction m as [|[k' v] m IH]; cbn; [reflexivity|].
  destruct (k' =? k2) eqn:E2; destruct (k' =? k) eqn:E; cbn; rewrite ?E, ?E2; cbn; rewrite IH; reflexivity.
Qed.

Lemma rem_cons_other k k2 v m : k2 <> k -> rem k ((k2, v) :: m) = (k2, v) :: rem k m.
Proof. intros Hne. unfold rem; cbn. destruct (k2 =? k) eqn:E; [lia|reflexivity]. Qed.

(* removeKeyByIdentity k id commutes with addKey k2 id2 unless it is the very same (key, identity) *)
Lemma rem_id_set_comm k id k2 id2 m :
  (k, id) <> (k2, id2) -> rem_id k id (set k2 id2 m) = set k2 id2 (rem_id k id m).
Proof.
  intros Hne. destruct (Z.eq_dec k k2) as [Hk|Hk].
  - subst k2. assert (Hid : id2 <> id) by (intros ->; apply Hne; reflexivity).
    rewrite (rem_id_miss k id (set k id2 m)).
    + unfold set. f_equal. unfold rem_id. destruct (get k m) as [v|]; [|reflexivity].
      destruct (v =? id); [|reflexivity]. symmetry; apply rem_rem_same.
    + rewrite get_set_same. intros Heq. injection Heq as Heq. contradiction.
  - unfold rem_id at 1. rewrite get_set_other by exact Hk. unfold rem_id.
    destruct (get k m) as [v|]; [|reflexivity]. destruct (v =? id); [|reflexivity].
    unfold set. rewrite rem_cons_other by (intros ->; apply Hk; reflexivity).
    f_equal. apply rem_rem_comm.
Qed.

Lemma addkey_same_not_commute :
  rem_id 1 5 (set 1 5 []) <> set 1 5 (rem_id 1 5 []).
Proof. vm_compute. discriminate. Qed.

(* two removeKeyByIdentity always commute *)
Lemma rem_id_comm k id k2 id2 m :
  rem_id k id (rem_id k2 id2 m) = rem_id k2 id2 (rem_id k id m).
Proof.
  destruct (Z.eq_dec k k2) as [Hk|Hk].
  - subst k2. destruct (option_eq_dec_Z (get k m) (Some id)) as [H1|H1];
      destruct (option_eq_dec_Z (get k m) (Some id2)) as [H2|H2].
    + rewrite H1 in H2. injection H2 as H2. subst id2. reflexivity.
    + rewrite (rem_id_miss k id2 m H2). rewrite (rem_id_hit k id m H1).
      rewrite rem_id_miss; [reflexivity|]. rewrite get_rem_same. discriminate.
    + rewrite (rem_id_miss k id m H1). rewrite (rem_id_hit k id2 m H2).
      rewrite rem_id_miss; [reflexivity|]. rewrite get_rem_same. discriminate.
    + rewrite (rem_id_miss k id2 m H2), (rem_id_miss k id m H1), (rem_id_miss k id2 m H2). reflexivity.
  - destruct (option_eq_dec_Z (get k m) (Some id)) as [H1|H1];
      destruct (option_eq_dec_Z (get k2 m) (Some id2)) as [H2|H2].
    + rewrite (rem_id_hit k2 id2 m H2), (rem_id_hit k id m H1).
      rewrite rem_id_hit by (rewrite get_rem_other by exact Hk; exact H1).
      rewrite rem_id_hit by (rewrite get_rem_other by (intros Heq; apply Hk; symmetry; exact Heq); exact H2).
      apply rem_rem_comm.
    + rewrite (rem_id_miss k2 id2 m H2), (rem_id_hit k id m H1).
      rewrite rem_id_miss; [reflexivity|].
      rewrite get_rem_other by (intros Heq; apply Hk; symmetry; exact Heq). exact H2.
    + rewrite (rem_id_hit k2 id2 m H2), (rem_id_miss k id m H1).
      rewrite rem_id_miss; [rewrite rem_id_hit by exact H2; reflexivity|].
      rewrite get_rem_other by exact Hk. exact H1.
    + rewrite (rem_id_miss k2 id2 m H2), (rem_id_miss k id m H1), (rem_id_miss k2 id2 m H2). reflexivity.
Qed.

(* --- lifting to states --- *)
Definition dl (k id : Z) (s : state) : state :=
  mkS (rem_id k id (idx s)) (cache s) (tl (notes s)) (closed s) (threads s).
Definition headed (s : state) (k id : Z) : Prop := exists r, notes s = (k, id) :: r.

Lemma do_deliver_dl s k id : headed s k id -> do_deliver s = Some (dl k id s).
Proof. intros [r Hr]. unfold do_deliver, dl. rewrite Hr. reflexivity. Qed.

Lemma tl_app_headed {A} (x : A) r l y : l = x :: r -> tl (l ++ y) = tl l ++ y.
Proof. intros ->. reflexivity. Qed.

Lemma dl_remove k id v s : headed s k id ->
  dl k id (do_remove v s) = do_remove v (dl k id s) /\ headed (do_remove v s) k id.
Proof.
  intros [r Hr]. unfold do_remove, dl; cbn. destruct (get v (cache s)) as [idv|]; cbn.
  - rewrite Hr; cbn. split; [reflexivity|]. eexists; reflexivity.
  - split; [reflexivity|]. exists r; exact Hr.
Qed.

Lemma dl_displace k id k2 vs s : headed s k id ->
  dl k id (do_displace k2 vs s) = do_displace k2 vs (dl k id s) /\ headed (do_displace k2 vs s) k id.
Proof.
  revert s; induction vs as [|v r IH]; intros s Hh; cbn.
  - split; [reflexivity|exact Hh].
  - destruct (v =? k2); [apply IH; exact Hh|].
    destruct (dl_remove k id v s Hh) as [E Hh']. rewrite <- E. apply IH; exact Hh'.
Qed.

Lemma dl_set_accept k id k2 id2 vs s : headed s k id ->
  dl k id (do_set_accept k2 id2 vs s) = do_set_accept k2 id2 vs (dl k id s).
Proof.
  intros Hh. destruct (dl_displace k id k2 vs s Hh) as [E _].
  unfold do_set_accept. rewrite <- E. reflexivity.
Qed.

Lemma dl_set_reject k id k2 id2 s : headed s k id ->
  dl k id (do_set_reject k2 id2 s) = do_set_reject k2 id2 (dl k id s).
Proof. intros [r Hr]. unfold do_set_reject, dl; cbn [idx cache notes closed threads]. rewrite Hr. reflexivity. Qed.

Lemma dl_addkey k id k2 id2 s : (k, id) <> (k2, id2) ->
  dl k id (do_addkey k2 id2 s) = do_addkey k2 id2 (dl k id s).
Proof. intros Hne. unfold do_addkey, dl; cbn. rewrite rem_id_set_comm by exact Hne. reflexivity. Qed.

Lemma dl_remid k id k2 id2 s : dl k id (do_remid k2 id2 s) = do_remid k2 id2 (dl k id s).
Proof. unfold do_remid, dl; cbn. rewrite rem_id_comm. reflexivity. Qed.

(* the steps that do NOT commute with the delivery of (k,id): the index-reading snapshot of an Invalidate, and
   step A of a store of the very same (key, identity) (impossible when identities are fresh, see below) *)
Definition sensitive (t : thread) (k id : Z) : bool :=
  match t_pc t, t_script t with
  | PIdle, OInvalidate _ :: _ => true
  | PIdle, OStore k2 id2 :: _ => (k2 =? k) && (id2 =? id)
  | _, _ => false
  end.

Definition indep (s : state) (l : label) (k id : Z) : bool :=
  match l with
  | LT i _ => match nth_error (threads s) i with Some t => negb (sensitive t k id) | None => true end
  | LEvict _ => true
  | LDeliver => false
  end.

Lemma tstep_dl s t o k id : headed s k id -> sensitive t k id = false ->
  tstep (dl k id s) t o =
  match tstep s t o with Some (s1, t1) => Some (dl k id s1, t1) | None => None end.
Proof.
  intros Hh Hsens. unfold tstep, sensitive in *.
  change (closed (dl k id s)) with (closed s).
  destruct (t_pc t) as [| k2 id2 | k2 id2 | [|v r] | ].
  - destruct (t_script t) as [|[k2 id2|v|ks| |] r]; try reflexivity; try discriminate.
    + rewrite dl_addkey; [reflexivity|]. intros Heq. injection Heq as Hk Hid. subst. rewrite !Z.eqb_refl in Hsens. discriminate.
    + destruct (dl_remove k id v s Hh) as [E _]. rewrite E. reflexivity.
  - destruct (closed s); [reflexivity|]. destruct o as [vs|].
    + rewrite dl_set_accept by exact Hh. reflexivity.
    + rewrite dl_set_reject by exact Hh. reflexivity.
  - rewrite dl_remid. reflexivity.
  - reflexivity.
  - destruct (dl_remove k id v s Hh) as [E _]. rewrite E. reflexivity.
  - reflexivity.
Qed.

(* non-delivering steps keep the head of the queue *)
Lemma step_headed s l s1 k id : l <> LDeliver -> headed s k id -> step s l = Some s1 -> headed s1 k id.
Proof.
  intros Hl Hh Hs. destruct l as [i o|v|]; [| |contradiction]; cbn in Hs.
  - destruct (nth_error (threads s) i) as [t|]; [|discriminate].
    destruct (tstep s t o) as [[s2 t1]|] eqn:Et; [|discriminate]. inversion Hs; subst s1; clear Hs.
    assert (Hh2 : headed s2 k id).
    { unfold tstep in Et. destruct (t_pc t) as [| k2 id2 | k2 id2 | [|v r] | ].
      - destruct (t_script t) as [|[k2 id2|v|ks| |] r]; inversion Et; subst; try exact Hh.
        apply (dl_remove k id v s Hh).
      - destruct (closed s); [inversion Et; subst; exact Hh|]. destruct o as [vs|]; inversion Et; subst.
        + destruct (dl_displace k id k2 vs s Hh) as [_ [r Hr]]. exists r. cbn. exact Hr.
        + destruct Hh as [r Hr]. exists (r ++ [(k2, id2)]). cbn. rewrite Hr. reflexivity.
      - inversion Et; subst; exact Hh.
      - inversion Et; subst; exact Hh.
      - inversion Et; subst. apply (dl_remove k id v s Hh).
      - inversion Et; subst; exact Hh. }
    destruct Hh2 as [r Hr]. exists r. exact Hr.
  - destruct (resident v s); inversion Hs; subst. apply (dl_remove k id v s Hh).
Qed.

(* lockstep: an insensitive step taken from the delivered state is the delivered image of the step *)
Lemma step_dl s l k id :
  headed s k id -> indep s l k id = true ->
  step (dl k id s) l = option_map (dl k id) (step s l).
Proof.
  intros Hh Hi. destruct l as [i o|v|]; [| |discriminate]; cbn [step indep] in *.
  - change (threads (dl k id s)) with (threads s).
    destruct (nth_error (threads s) i) as [t|] eqn:En; [|reflexivity].
    assert (Hsens : sensitive t k id = false) by (destruct (sensitive t k id); [discriminate Hi|reflexivity]).
    rewrite (tstep_dl s t o k id Hh Hsens).
    destruct (tstep s t o) as [[s1 t1]|] eqn:Et; reflexivity.
  - change (resident v (dl k id s)) with (resident v s). destruct (resident v s); [|reflexivity].
    destruct (dl_remove k id v s Hh) as [E _]. cbn. rewrite E. reflexivity.
Qed.

Lemma indep_not_deliver s l k id : indep s l k id = true -> l <> LDeliver.
Proof. intros Hi ->. discriminate. Qed.

(* Theorem 1, single step: when (k,id) is at the head of the queue, delivering it before or after any
   insensitive step l gives the same state (and the same enabledness) *)
Theorem deliver_commutes s l k id :
  headed s k id -> indep s l k id = true ->
  exec s [LDeliver; l] = exec s [l; LDeliver].
Proof.
  intros Hh Hi. cbn [exec]. change (step s LDeliver) with (do_deliver s).
  rewrite (do_deliver_dl s k id Hh). rewrite (step_dl s l k id Hh Hi).
  destruct (step s l) as [s1|] eqn:Es; [|reflexivity]. cbn [option_map].
  pose proof (step_headed s l s1 k id (indep_not_deliver _ _ _ _ Hi) Hh Es) as Hh1.
  change (step s1 LDeliver) with (do_deliver s1). rewrite (do_deliver_dl s1 k id Hh1). reflexivity.
Qed.

(* the snapshot step of an Invalidate reads the index: it does not commute with a delivery *)
Example deliver_snapshot_not_commute :
  let s := mkS [(1, 10)] [] [(1, 10)] false [mkT PIdle [OInvalidate [1]]] in
  exec s [LDeliver; LT 0%nat acc] = Some (mkS [] [] [] false [mkT (PInv []) []]) /\
  exec s [LT 0%nat acc; LDeliver] = Some (mkS [] [] [] false [mkT (PInv [1]) []]).
Proof. cbv zeta. split; vm_compute; reflexivity. Qed.

(* Theorem 1, runs: a delivery-free run all of whose steps are insensitive to (k,id) *)
Fixpoint indep_run (s : state) (ls : list label) (k id : Z) : Prop :=
  match ls with
  | [] => True
  | l :: r => indep s l k id = true /\
              match step s l with Some s1 => indep_run s1 r k id | None => True end
  end.

Lemma exec_dl ls : forall s k id,
  headed s k id -> indep_run s ls k id ->
  exec (dl k id s) ls = option_map (dl k id) (exec s ls) /\
  (forall s1, exec s ls = Some s1 -> headed s1 k id).
Proof.
  induction ls as [|l r IH]; intros s k id Hh Hrun; cbn [exec].
  - split; [reflexivity|]. intros s1 He. inversion He; subst; exact Hh.
  - destruct Hrun as [Hi Hrest]. rewrite (step_dl s l k id Hh Hi).
    destruct (step s l) as [s1|] eqn:Es; cbn [option_map].
    + apply IH; [|exact Hrest].
      apply (step_headed s l s1 k id (indep_not_deliver _ _ _ _ Hi) Hh Es).
    + split; [reflexivity|]. intros s1 He; discriminate.
Qed.

Lemma exec_app a : forall s b,
  exec s (a ++ b) = match exec s a with Some s1 => exec s1 b | None => None end.
Proof.
  induction a as [|l r IH]; intros s b; cbn; [reflexivity|].
  destruct (step s l) as [s1|]; [apply IH|reflexivity].
Qed.

(* delivering the head notification now, or only after the whole run, reaches the same state *)
Theorem deliver_timing_irrelevant ls s k id :
  headed s k id -> indep_run s ls k id ->
  exec s (LDeliver :: ls) = exec s (ls ++ [LDeliver]).
Proof.
  intros Hh Hrun. destruct (exec_dl ls s k id Hh Hrun) as [E Hhd].
  cbn [exec]. change (step s LDeliver) with (do_deliver s). rewrite (do_deliver_dl s k id Hh), E.
  rewrite exec_app. destruct (exec s ls) as [s1|]; [|reflexivity]. cbn.
  rewrite (do_deliver_dl s1 k id (Hhd s1 eq_refl)). reflexivity.
Qed.

(* with fresh identities the store clause of `sensitive` never fires: a store whose (key, identity) is announced
   in the queue cannot still be waiting in a script; so in H-reachable open states the ONLY step that does not
   commute with a delivery is the index-reading snapshot of Invalidate *)
Theorem pending_store_not_notified scripts s i t k id r :
  wf_scripts scripts -> reachableH (init scripts) s -> closed s = false ->
  nth_error (threads s) i = Some t -> t_script t = OStore k id :: r ->
  ~ In (k, id) (notes s).
Proof.
  intros Hwf Hr Hcl Hn Hsc. destruct (invariant_strong _ _ Hwf Hr Hcl) as [_ _ _ _ _ _ _ G2].
  destruct (pending_upd _ _ _ Hn) as (a & b & E1 & _). rewrite Hsc in E1. cbn in E1.
  assert (Hin : In id (pendingT (threads s))) by (rewrite E1; apply in_or_app; right; left; reflexivity).
  destruct (G2 _ Hin k) as [[_ Hu] _]. exact Hu.
Qed.

(* ================================================================== *)
(* Part F: Theorem 4 — an Invalidate running alone (only evictions and deliveries interleave) is complete *)

Lemma H_neutral s :
  (forall j tj, nth_error (threads s) j = Some tj -> store_key (t_pc tj) = None) -> H s.
Proof. intros Hn i j ti tj _ Hi _. unfold conflict. rewrite (Hn i ti Hi). reflexivity. Qed.

Lemma do_remove_cache_get k v s :
  get k (cache (do_remove v s)) = if k =? v then None else get k (cache s).
Proof.
  unfold do_remove. destruct (get v (cache s)) as [idv|] eqn:E; cbn.
  - destruct (Z.eqb_spec k v) as [->|Hne]; [apply get_rem_same|apply get_rem_other; exact Hne].
  - destruct (Z.eqb_spec k v) as [->|Hne]; [exact E|reflexivity].
Qed.

Lemma get_some_dom k v m : get k m = Some v -> In k (dom m).
Proof.
  induction m as [|[k' v'] m IH]; cbn; [discriminate|].
  destruct (Z.eqb_spec k' k) as [->|Hne]; [left; reflexivity|]. intros Hg. right. apply IH; exact Hg.
Qed.

Lemma tstep_shape s t o s1 t1 :
  tstep s t o = Some (s1, t1) ->
  (length (t_script t1) <= length (t_script t))%nat /\ threads s1 = threads s.
Proof.
  unfold tstep. intros Et. destruct (t_pc t) as [| k id | k id | [|v r] | ].
  - destruct (t_script t) as [|[k id|v|ks| |] r]; inversion Et; subst; cbn; split; try lia; try reflexivity.
    apply do_remove_threads.
  - destruct (closed s); [inversion Et; subst; cbn; split; [lia|reflexivity]|].
    destruct o as [vs|]; inversion Et; subst; cbn; split; try lia; try reflexivity.
    apply do_displace_threads.
  - inversion Et; subst; cbn; split; [lia|reflexivity].
  - inversion Et; subst; cbn; split; [lia|reflexivity].
  - inversion Et; subst; cbn; split; [lia|apply do_remove_threads].
  - inversion Et; subst; cbn; split; [lia|reflexivity].
Qed.

Lemma step_script_len s l s' i ti :
  step s l = Some s' -> nth_error (threads s) i = Some ti ->
  exists ti', nth_error (threads s') i = Some ti' /\ (length (t_script ti') <= length (t_script ti))%nat.
Proof.
  intros Hs Hn. destruct l as [j o|v|]; cbn in Hs.
  - destruct (nth_error (threads s) j) as [t|] eqn:Hj; [|discriminate].
    destruct (tstep s t o) as [[s1 t1]|] eqn:Et; [|discriminate]. inversion Hs; subst s'; clear Hs. cbn.
    destruct (tstep_shape _ _ _ _ _ Et) as [Hlen _].
    destruct (Nat.eq_dec i j) as [->|Hne].
    + rewrite Hj in Hn. inversion Hn; subst. exists t1. split; [eapply nth_error_upd_same; exact Hj|exact Hlen].
    + exists ti. rewrite nth_error_upd_other by exact Hne. split; [exact Hn|lia].
  - destruct (resident v s); inversion Hs; subst. rewrite do_remove_threads. exists ti. split; [exact Hn|lia].
  - unfold do_deliver in Hs. destruct (notes s) as [|[k id] r]; inversion Hs; subst; cbn.
    exists ti. split; [exact Hn|lia].
Qed.

Section InvalidateAlone.
  Variable scripts : list (list op).
  Variable i : nat.
  Variable ks : list Z.
  Variable rest : list op.
  Variable c0 : amap.                 (* the cache when the Invalidate starts *)
  Variable E : Z -> Prop.             (* keys that may be evicted during the run *)
  Hypothesis Hwf : wf_scripts scripts.

  Definition allowed (l : label) : Prop :=
    l = LDeliver \/ (exists k, l = LEvict k /\ E k) \/ (exists o, l = LT i o).

  Definition phase (ti : thread) (s : state) : Prop :=
    ti = mkT PIdle (OInvalidate ks :: rest)
    \/ (exists snap, ti = mkT (PInv snap) rest /\
          (forall v, In v snap -> memZ v ks = true) /\
          (forall k, memZ k ks = true -> get k (cache s) <> None -> In k snap))
    \/ (ti = mkT PIdle rest /\ forall k, memZ k ks = true -> get k (cache s) = None).

  Definition beyond (s : state) : Prop :=
    exists ti, nth_error (threads s) i = Some ti /\ (length (t_script ti) < length rest)%nat.

  Definition Jmain (s : state) : Prop :=
    reachableH (init scripts) s /\ closed s = false /\
    (forall j tj, j <> i -> nth_error (threads s) j = Some tj -> t_pc tj = PIdle) /\
    (forall k id, get k (cache s) = Some id -> get k c0 = Some id) /\
    (forall k id, get k c0 = Some id -> get k (cache s) = Some id \/ memZ k ks = true \/ E k) /\
    exists ti, nth_error (threads s) i = Some ti /\ phase ti s.

  Definition J (s : state) : Prop := beyond s \/ Jmain s.

  Lemma phase_neutral ti s : phase ti s -> store_key (t_pc ti) = None.
  Proof. intros [->|[(snap & -> & _)|[-> _]]]; reflexivity. Qed.

  Lemma Jmain_threads_neutral s' ths ti' :
    (forall j tj, j <> i -> nth_error ths j = Some tj -> t_pc tj = PIdle) ->
    nth_error ths i = Some ti' -> store_key (t_pc ti') = None ->
    threads s' = ths -> H s'.
  Proof.
    intros Hoth Hi Hti Hth. apply H_neutral. rewrite Hth. intros j tj Hj.
    destruct (Nat.eq_dec j i) as [->|Hne].
    - rewrite Hi in Hj. inversion Hj; subst. exact Hti.
    - rewrite (Hoth j tj Hne Hj). reflexivity.
  Qed.

  Lemma J_step s l s' : J s -> allowed l -> step s l = Some s' -> J s'.
  Proof.
    intros [Hb|Hm] Hal Hs.
    { left. destruct Hb as (ti & Hn & Hlen). destruct (step_script_len _ _ _ _ _ Hs Hn) as (ti' & Hn' & Hle).
      exists ti'. split; [exact Hn'|lia]. }
    destruct Hm as (Hr & Hcl & Hoth & Hshr & Hkeep & ti & Hn & Hph).
    destruct Hal as [->|[(v & -> & Ev)|(o & ->)]].
    - (* Deliver *) right. cbn in Hs. unfold do_deliver in Hs.
      destruct (notes s) as [|[k id] r] eqn:En; inversion Hs; subst s'; clear Hs.
      assert (HH' : H (mkS (rem_id k id (idx s)) (cache s) r (closed s) (threads s))).
      { apply (Jmain_threads_neutral _ (threads s) ti Hoth Hn (phase_neutral _ _ Hph)). reflexivity. }
      split; [|cbn; repeat split; auto].
      + apply (RH_step _ s LDeliver); [exact Hr| |exact HH']. cbn. unfold do_deliver. rewrite En. reflexivity.
      + exists ti. split; [exact Hn|]. exact Hph.
    - (* Evict *) right. pose proof Hs as Hs0. cbn in Hs. destruct (resident v s); inversion Hs; subst s'; clear Hs.
      assert (HH' : H (do_remove v s)).
      { apply (Jmain_threads_neutral _ (threads s) ti Hoth Hn (phase_neutral _ _ Hph)). apply do_remove_threads. }
      split; [eapply RH_step; [exact Hr|exact Hs0|exact HH']|].
      split; [rewrite do_remove_closed; exact Hcl|].
      split; [rewrite do_remove_threads; exact Hoth|].
      split; [|split].
      + intros k id. rewrite do_remove_cache_get. destruct (k =? v); [discriminate|apply Hshr].
      + intros k id Hg. rewrite do_remove_cache_get. destruct (Z.eqb_spec k v) as [->|Hne].
        * right; right; exact Ev.
        * apply Hkeep; exact Hg.
      + exists ti. rewrite do_remove_threads. split; [exact Hn|].
        destruct Hph as [->|[(snap & -> & Hsn & Hcov)|[-> Hnone]]].
        * left; reflexivity.
        * right; left. exists snap. split; [reflexivity|]. split; [exact Hsn|].
          intros k Hk. rewrite do_remove_cache_get. destruct (k =? v); [intros Hx; contradiction|apply Hcov; exact Hk].
        * right; right. split; [reflexivity|]. intros k Hk. rewrite do_remove_cache_get.
          destruct (k =? v); [reflexivity|apply Hnone; exact Hk].
    - (* the invalidating thread steps *)
      pose proof Hs as Hs0. cbn in Hs. rewrite Hn in Hs.
      destruct (tstep s ti o) as [[s1 t1]|] eqn:Et; [|discriminate]. inversion Hs; subst s'; clear Hs.
      destruct Hph as [->|[(snap & -> & Hsn & Hcov)|[-> Hnone]]].
      + (* snapshot *) right. cbn in Et. inversion Et; subst s1 t1; clear Et.
        set (s' := set_threads s (upd i (mkT (PInv (snapshot ks s)) rest) (threads s))) in *.
        assert (Hn' : nth_error (threads s') i = Some (mkT (PInv (snapshot ks s)) rest))
          by (eapply nth_error_upd_same; exact Hn).
        assert (Hoth' : forall j tj, j <> i -> nth_error (threads s') j = Some tj -> t_pc tj = PIdle).
        { intros j tj Hne Hj. cbn in Hj. rewrite nth_error_upd_other in Hj by exact Hne. apply (Hoth j tj Hne Hj). }
        assert (HH' : H s') by (apply (Jmain_threads_neutral _ (threads s') _ Hoth' Hn'); reflexivity).
        split; [eapply RH_step; [exact Hr|exact Hs0|exact HH']|].
        split; [exact Hcl|]. split; [exact Hoth'|]. split; [exact Hshr|]. split; [exact Hkeep|].
        eexists. split; [exact Hn'|]. right; left. exists (snapshot ks s). split; [reflexivity|].
        split.
        * intros v Hv. unfold snapshot in Hv. apply filter_In in Hv. apply Hv.
        * intros k Hk Hc. destruct (get k (cache s)) as [id|] eqn:Ec; [|contradiction].
          destruct (invariant_strong _ _ Hwf Hr Hcl) as [J1 _ _ _ _ _ _ _].
          destruct (J1 _ _ Ec) as [Hi|Hf].
          -- unfold snapshot. apply filter_In. split; [eapply get_some_dom; exact Hi|exact Hk].
          -- exfalso. destruct Hf as (j & tj & Hj & id' & Hp).
             destruct (Nat.eq_dec j i) as [->|Hne].
             ++ rewrite Hn in Hj. inversion Hj; subst. discriminate.
             ++ rewrite (Hoth j tj Hne Hj) in Hp. discriminate.
      + (* a Delete of the snapshot, or the end of the loop *)
        right. destruct snap as [|v r]; cbn in Et; inversion Et; subst s1 t1; clear Et.
        * set (s' := set_threads s (upd i (mkT PIdle rest) (threads s))) in *.
          assert (Hn' : nth_error (threads s') i = Some (mkT PIdle rest)) by (eapply nth_error_upd_same; exact Hn).
          assert (Hoth' : forall j tj, j <> i -> nth_error (threads s') j = Some tj -> t_pc tj = PIdle).
          { intros j tj Hne Hj. cbn in Hj. rewrite nth_error_upd_other in Hj by exact Hne. apply (Hoth j tj Hne Hj). }
          assert (HH' : H s') by (apply (Jmain_threads_neutral _ (threads s') _ Hoth' Hn'); reflexivity).
          split; [eapply RH_step; [exact Hr|exact Hs0|exact HH']|].
          split; [exact Hcl|]. split; [exact Hoth'|]. split; [exact Hshr|]. split; [exact Hkeep|].
          eexists. split; [exact Hn'|]. right; right. split; [reflexivity|].
          intros k Hk. cbn. destruct (get k (cache s)) as [id|] eqn:Ec; [|reflexivity].
          exfalso. apply (Hcov k Hk). rewrite Ec; discriminate.
        * set (s' := set_threads (do_remove v s) (upd i (mkT (PInv r) rest) (threads s))) in *.
          assert (Hn' : nth_error (threads s') i = Some (mkT (PInv r) rest)) by (eapply nth_error_upd_same; exact Hn).
          assert (Hoth' : forall j tj, j <> i -> nth_error (threads s') j = Some tj -> t_pc tj = PIdle).
          { intros j tj Hne Hj. cbn in Hj. rewrite nth_error_upd_other in Hj by exact Hne. apply (Hoth j tj Hne Hj). }
          assert (HH' : H s') by (apply (Jmain_threads_neutral _ (threads s') _ Hoth' Hn'); reflexivity).
          assert (Hc' : forall k, get k (cache s') = if k =? v then None else get k (cache s))
            by (intros k; apply do_remove_cache_get).
          split; [eapply RH_step; [exact Hr|exact Hs0|exact HH']|].
          split; [cbn; rewrite do_remove_closed; exact Hcl|]. split; [exact Hoth'|].
          split; [|split].
          -- intros k id. rewrite Hc'. destruct (k =? v); [discriminate|apply Hshr].
          -- intros k id Hg. rewrite Hc'. destruct (Z.eqb_spec k v) as [->|Hne].
             ++ right; left. apply Hsn. left; reflexivity.
             ++ apply Hkeep; exact Hg.
          -- eexists. split; [exact Hn'|]. right; left. exists r. split; [reflexivity|]. split.
             ++ intros x Hx. apply Hsn. right; exact Hx.
             ++ intros k Hk. rewrite Hc'. destruct (Z.eqb_spec k v) as [->|Hne]; [intros Hx; contradiction|].
                intros Hc. destruct (Hcov k Hk Hc) as [Heq|Hin]; [exfalso; apply Hne; symmetry; exact Heq|exact Hin].
      + (* finished: the next step of this thread starts another operation *)
        left. destruct (tstep_shape _ _ _ _ _ Et) as [_ Hth].
        exists t1. split; [cbn; eapply nth_error_upd_same; exact Hn|].
        unfold tstep in Et. cbn in Et.
        destruct rest as [|[k id|v|ks'| |] r]; inversion Et; subst; cbn; lia.
  Qed.

  Lemma J_exec ls : forall s s1, J s -> (forall l, In l ls -> allowed l) -> exec s ls = Some s1 -> J s1.
  Proof.
    induction ls as [|l r IH]; intros s s1 HJ Hal He; cbn in He.
    - inversion He; subst; exact HJ.
    - destruct (step s l) as [s'|] eqn:Es; [|discriminate].
      apply (IH s' s1); [|intros l' Hl'; apply Hal; right; exact Hl'|exact He].
      apply (J_step s l s' HJ); [apply Hal; left; reflexivity|exact Es].
  Qed.
End InvalidateAlone.

(* --- draining the queue --- *)
Lemma H_same_threads s s' : threads s' = threads s -> H s -> H s'.
Proof. unfold H. intros ->. tauto. Qed.

Lemma deliver_n_props s0 n : forall s,
  reachableH s0 s -> H s ->
  reachableH s0 (deliver_n n s) /\ cache (deliver_n n s) = cache s /\ threads (deliver_n n s) = threads s /\
  closed (deliver_n n s) = closed s /\ ((length (notes s) <= n)%nat -> notes (deliver_n n s) = []).
Proof.
  induction n as [|n IH]; intros s Hr HH; cbn [deliver_n].
  - repeat split; auto. intros Hl. destruct (notes s); [reflexivity|cbn in Hl; lia].
  - destruct (do_deliver s) as [s'|] eqn:Ed.
    + unfold do_deliver in Ed. destruct (notes s) as [|[k id] r] eqn:En; inversion Ed; subst s'.
      set (s' := mkS (rem_id k id (idx s)) (cache s) r (closed s) (threads s)) in *.
      assert (HH' : H s') by (apply (H_same_threads s); [reflexivity|exact HH]).
      assert (Hr' : reachableH s0 s').
      { apply (RH_step _ s LDeliver); [exact Hr| |exact HH']. cbn. unfold do_deliver. rewrite En. reflexivity. }
      destruct (IH s' Hr' HH') as (A & B & C & D & F). repeat split; auto.
      intros Hl. apply F. cbn in *. lia.
    + repeat split; auto. intros _. unfold do_deliver in Ed. destruct (notes s) as [|[k id] r]; [reflexivity|discriminate].
Qed.

Lemma all_idle_intro s :
  (forall j tj, nth_error (threads s) j = Some tj -> t_pc tj = PIdle) -> all_idle s = true.
Proof.
  intros Hall. unfold all_idle. apply forallb_forall. intros t Hin.
  apply In_nth_error in Hin. destruct Hin as [j Hj]. rewrite (Hall j t Hj). reflexivity.
Qed.

Lemma all_idle_elim s j tj : all_idle s = true -> nth_error (threads s) j = Some tj -> t_pc tj = PIdle.
Proof.
  unfold all_idle. intros Ha Hj. rewrite forallb_forall in Ha. apply nth_error_In in Hj.
  specialize (Ha _ Hj). destruct (t_pc tj); try discriminate. reflexivity.
Qed.

(* Theorem 4 *)
Theorem invalidate_complete scripts s0 i ks rest ls s1 :
  wf_scripts scripts -> reachableH (init scripts) s0 -> closed s0 = false -> quiescent s0 ->
  nth_error (threads s0) i = Some (mkT PIdle (OInvalidate ks :: rest)) ->
  (forall l, In l ls -> l = LDeliver \/ (exists k, l = LEvict k) \/ (exists o, l = LT i o)) ->
  exec s0 ls = Some s1 ->
  nth_error (threads s1) i = Some (mkT PIdle rest) ->
  let sd := deliver_all s1 in
  (forall k, memZ k ks = true -> get k (cache s1) = None) /\
  (forall k id, memZ k ks = false -> get k (cache s0) = Some id -> ~ In (LEvict k) ls -> get k (cache s1) = Some id) /\
  (forall k id, get k (cache s1) = Some id -> get k (cache s0) = Some id) /\
  cache sd = cache s1 /\ quiescent sd /\ reachableH (init scripts) sd /\
  (forall k, get k (idx sd) = get k (cache sd)) /\
  (notes s1 = [] -> forall k, get k (idx s1) = get k (cache s1)).
Proof.
  intros Hwf Hr Hcl [Hidle Hno] Hn Hal He Hfin sd.
  set (E := fun k => In (LEvict k) ls).
  assert (HJ0 : J scripts i ks rest (cache s0) E s0).
  { right. split; [exact Hr|]. split; [exact Hcl|]. split; [|split; [|split]].
    - intros j tj _ Hj. apply (all_idle_elim s0 j tj Hidle Hj).
    - intros k id Hg; exact Hg.
    - intros k id Hg; left; exact Hg.
    - eexists. split; [exact Hn|]. left; reflexivity. }
  assert (Hal' : forall l, In l ls -> allowed i E l).
  { intros l Hl. destruct (Hal l Hl) as [->|[(k & ->)|(o & ->)]].
    - left; reflexivity.
    - right; left. exists k. split; [reflexivity|exact Hl].
    - right; right. exists o; reflexivity. }
  pose proof (J_exec scripts i ks rest (cache s0) E Hwf ls s0 s1 HJ0 Hal' He) as HJ1.
  destruct HJ1 as [(ti & Hti & Hlen)|Hm].
  { exfalso. rewrite Hfin in Hti. inversion Hti; subst ti. cbn in Hlen. lia. }
  destruct Hm as (Hr1 & Hcl1 & Hoth & Hshr & Hkeep & ti & Hti & Hph).
  rewrite Hfin in Hti. inversion Hti; subst ti; clear Hti.
  assert (Hnone : forall k, memZ k ks = true -> get k (cache s1) = None).
  { destruct Hph as [Hx|[(snap & Hx & _)|[_ Hnone]]].
    - exfalso. inversion Hx as [Hx']. apply (f_equal (@length op)) in Hx'. cbn in Hx'. lia.
    - discriminate.
    - exact Hnone. }
  assert (Hidle1 : forall j tj, nth_error (threads s1) j = Some tj -> t_pc tj = PIdle).
  { intros j tj Hj. destruct (Nat.eq_dec j i) as [->|Hne].
    - rewrite Hfin in Hj. inversion Hj; subst; reflexivity.
    - apply (Hoth j tj Hne Hj). }
  assert (HH1 : H s1) by (apply H_neutral; intros j tj Hj; rewrite (Hidle1 j tj Hj); reflexivity).
  destruct (deliver_n_props (init scripts) (length (notes s1)) s1 Hr1 HH1) as (Rd & Cd & Td & Cld & Nd).
  fold (deliver_all s1) in Rd, Cd, Td, Cld, Nd. fold sd in Rd, Cd, Td, Cld, Nd.
  assert (Hqd : quiescent sd).
  { split; [|apply Nd; lia]. apply all_idle_intro. rewrite Td. exact Hidle1. }
  split; [exact Hnone|]. split; [|split; [exact Hshr|]].
  { intros k id Hk Hg Hne. destruct (Hkeep k id Hg) as [Hc|[Hm|He']]; [exact Hc| |contradiction].
    rewrite Hk in Hm; discriminate. }
  split; [exact Cd|]. split; [exact Hqd|]. split; [exact Rd|]. split.
  - apply (quiescent_agreement scripts sd Hwf Rd); [rewrite Cld; exact Hcl1|exact Hqd].
  - intros Hn1. apply (quiescent_agreement scripts s1 Hwf Hr1 Hcl1). split; [apply all_idle_intro; exact Hidle1|exact Hn1].
Qed.

(* ================================================================== *)
(* Part G: draining, rejected stores (Theorem 6), stores on a closed cache (Theorem 7) *)

Lemma get_rem_id_iff k0 v k id m :
  get k0 (rem_id k id m) = Some v <-> get k0 m = Some v /\ (k0, v) <> (k, id).
Proof.
  split; [apply get_rem_id_some|]. intros [Hg Hne]. apply get_rem_id_keep; assumption.
Qed.

Lemma deliver_n_drain n : forall s, length (notes s) = n ->
  notes (deliver_n n s) = [] /\ cache (deliver_n n s) = cache s /\
  closed (deliver_n n s) = closed s /\ threads (deliver_n n s) = threads s /\
  forall k v, get k (idx (deliver_n n s)) = Some v <-> get k (idx s) = Some v /\ ~ In (k, v) (notes s).
Proof.
  induction n as [|n IH]; intros s Hlen; cbn [deliver_n].
  - destruct (notes s) eqn:En; [|discriminate].
    split; [reflexivity|]. split; [reflexivity|]. split; [reflexivity|]. split; [reflexivity|].
    intros k v. split; [intros Hg; split; [exact Hg|intros []]|intros [Hg _]; exact Hg].
  - unfold do_deliver. destruct (notes s) as [|[k0 id0] r] eqn:En; [discriminate|].
    set (s' := mkS (rem_id k0 id0 (idx s)) (cache s) r (closed s) (threads s)).
    destruct (IH s' ltac:(cbn in *; lia)) as (A & B & C & D & F).
    split; [exact A|]. split; [exact B|]. split; [exact C|]. split; [exact D|].
    intros k v. rewrite F. cbn [idx notes s']. rewrite get_rem_id_iff. split.
    + intros [[Hg Hne] Hr]. split; [exact Hg|].
      intros [Heq|Hin]; [apply Hne; symmetry; exact Heq|contradiction].
    + intros [Hg Hni]. split; [split; [exact Hg|]|].
      * intros Heq. apply Hni. left; symmetry; exact Heq.
      * intros Hin. apply Hni. right; exact Hin.
Qed.

(* what draining the queue does: the index loses exactly the announced (key, identity) pairs *)
Theorem deliver_all_spec s :
  notes (deliver_all s) = [] /\ cache (deliver_all s) = cache s /\
  closed (deliver_all s) = closed s /\ threads (deliver_all s) = threads s /\
  forall k v, get k (idx (deliver_all s)) = Some v <-> get k (idx s) = Some v /\ ~ In (k, v) (notes s).
Proof. apply deliver_n_drain. reflexivity. Qed.

(* Theorem 6 (step form): the rejected Set drops whatever the cache held for k and announces (k,id) *)
Theorem rejected_store_step s i t k id :
  nth_error (threads s) i = Some t -> t_pc t = PStoreB k id -> closed s = false ->
  exists s1, step s (LT i Reject) = Some s1 /\
    get k (cache s1) = None /\ notes s1 = notes s ++ [(k, id)] /\ idx s1 = idx s /\
    (forall k', k' <> k -> get k' (cache s1) = get k' (cache s)) /\
    forall v, get k (idx (deliver_all s1)) = Some v -> v <> id.
Proof.
  intros Hn Hpc Hcl. cbn [step]. rewrite Hn. unfold tstep. rewrite Hpc, Hcl.
  eexists. split; [reflexivity|].
  match goal with |- get k (cache ?x) = None /\ _ => set (s1 := x) end.
  assert (Hc : cache s1 = rem k (cache s)) by reflexivity.
  assert (Hnn : notes s1 = notes s ++ [(k, id)]) by reflexivity.
  assert (Hi : idx s1 = idx s) by reflexivity.
  rewrite Hc. split; [apply get_rem_same|]. split; [exact Hnn|]. split; [exact Hi|].
  split; [intros k' Hne; apply get_rem_other; exact Hne|].
  intros v Hg. destruct (deliver_all_spec s1) as (_ & _ & _ & _ & F). apply F in Hg.
  rewrite Hnn in Hg. destruct Hg as [_ Hni].
  intros ->. apply Hni. apply in_or_app; right; left; reflexivity.
Qed.

(* Theorem 6 (whole store, run without interference): after A; B-rejected; drain, the key is in neither the cache
   nor the index — in particular an OLDER identity of k does not survive either (A overwrote the index entry, the
   Set replaced the cache entry before dropping the new one); other keys: cache untouched, index only loses what
   the queue announced *)
Theorem rejected_store_clean s i t k id r o s1 :
  nth_error (threads s) i = Some t -> t_pc t = PIdle -> t_script t = OStore k id :: r -> closed s = false ->
  exec s [LT i o; LT i Reject] = Some s1 ->
  let sd := deliver_all s1 in
  get k (cache sd) = None /\ get k (idx sd) = None /\ notes sd = [] /\
  nth_error (threads sd) i = Some (mkT PIdle r) /\
  (forall k', k' <> k -> get k' (cache sd) = get k' (cache s)) /\
  (forall k' v, k' <> k -> (get k' (idx sd) = Some v <-> get k' (idx s) = Some v /\ ~ In (k', v) (notes s))).
Proof.
  intros Hn Hpc Hsc Hcl He sd. cbn [exec step] in He. rewrite Hn in He. unfold tstep at 1 in He.
  rewrite Hpc, Hsc in He. cbn [set_threads do_addkey threads idx cache notes closed] in He.
  rewrite (nth_error_upd_same _ _ _ _ Hn) in He. unfold tstep in He. cbn in He. rewrite Hcl in He.
  injection He as He.
  assert (Hi1 : idx s1 = set k id (idx s)) by (rewrite <- He; reflexivity).
  assert (Hc1 : cache s1 = rem k (cache s)) by (rewrite <- He; reflexivity).
  assert (Hn1 : notes s1 = notes s ++ [(k, id)]) by (rewrite <- He; reflexivity).
  assert (Ht1 : threads s1 = upd i (mkT PIdle r) (upd i (mkT (PStoreB k id) r) (threads s)))
    by (rewrite <- He; reflexivity).
  destruct (deliver_all_spec s1) as (A & B & C & D & F). fold sd in A, B, C, D, F.
  rewrite B, Hc1. split; [apply get_rem_same|]. split; [|split; [exact A|split; [|split]]].
  - destruct (get k (idx sd)) as [v|] eqn:Eg; [|reflexivity]. exfalso.
    apply F in Eg. destruct Eg as [Hg Hni]. rewrite Hi1, get_set_same in Hg. inversion Hg; subst v.
    apply Hni. rewrite Hn1. apply in_or_app; right; left; reflexivity.
  - rewrite D, Ht1. eapply nth_error_upd_same. eapply nth_error_upd_same. exact Hn.
  - intros k' Hne. apply get_rem_other; exact Hne.
  - intros k' v Hne. rewrite F, Hi1, Hn1. rewrite get_set_other by exact Hne. split; intros [Hg Hni]; (split; [exact Hg|]).
    + intros Hin. apply Hni. apply in_or_app; left; exact Hin.
    + intros Hin. apply in_app_or in Hin. destruct Hin as [Hin|[Heq|[]]]; [contradiction|].
      inversion Heq; subst. apply Hne; reflexivity.
Qed.

Lemma step_storeA s i t k id r o :
  nth_error (threads s) i = Some t -> t_pc t = PIdle -> t_script t = OStore k id :: r ->
  step s (LT i o) = Some (set_threads (do_addkey k id s) (upd i (mkT (PStoreB k id) r) (threads s))).
Proof. intros Hn Hpc Hsc. cbn [step]. rewrite Hn. unfold tstep. rewrite Hpc, Hsc. reflexivity. Qed.

Lemma step_storeB_closed s i t k id o :
  nth_error (threads s) i = Some t -> t_pc t = PStoreB k id -> closed s = true ->
  step s (LT i o) = Some (set_threads s (upd i (mkT (PStoreB' k id) (t_script t)) (threads s))).
Proof. intros Hn Hpc Hcl. cbn [step]. rewrite Hn. unfold tstep. rewrite Hpc, Hcl. reflexivity. Qed.

Lemma step_storeB' s i t k id o :
  nth_error (threads s) i = Some t -> t_pc t = PStoreB' k id ->
  step s (LT i o) = Some (set_threads (do_remid k id s) (upd i (mkT PIdle (t_script t)) (threads s))).
Proof. intros Hn Hpc. cbn [step]. rewrite Hn. unfold tstep. rewrite Hpc. reflexivity. Qed.

(* Theorem 7: a store on a closed cache (A; B fails; B'): the index ends up without any entry for k — its own
   identity is removed, and so is an older identity of k (overwritten by A) —, every other key is untouched,
   cache and queue are untouched *)
Theorem closed_store_clean s i t k id r o1 o2 o3 s3 :
  nth_error (threads s) i = Some t -> t_pc t = PIdle -> t_script t = OStore k id :: r -> closed s = true ->
  exec s [LT i o1; LT i o2; LT i o3] = Some s3 ->
  idx s3 = rem k (idx s) /\ get k (idx s3) = None /\
  (forall k', k' <> k -> get k' (idx s3) = get k' (idx s)) /\
  cache s3 = cache s /\ notes s3 = notes s /\ closed s3 = true /\
  nth_error (threads s3) i = Some (mkT PIdle r).
Proof.
  intros Hn Hpc Hsc Hcl He. cbn [exec] in He.
  rewrite (step_storeA s i t k id r o1 Hn Hpc Hsc) in He.
  set (s1 := set_threads (do_addkey k id s) (upd i (mkT (PStoreB k id) r) (threads s))) in *.
  assert (Hn1 : nth_error (threads s1) i = Some (mkT (PStoreB k id) r)) by (eapply nth_error_upd_same; exact Hn).
  rewrite (step_storeB_closed s1 i _ k id o2 Hn1 eq_refl Hcl) in He.
  set (s2 := set_threads s1 (upd i (mkT (PStoreB' k id) (t_script (mkT (PStoreB k id) r))) (threads s1))) in *.
  assert (Hn2 : nth_error (threads s2) i = Some (mkT (PStoreB' k id) r)) by (eapply nth_error_upd_same; exact Hn1).
  rewrite (step_storeB' s2 i _ k id o3 Hn2 eq_refl) in He.
  injection He as He. subst s3. cbn [set_threads do_remid idx cache notes closed threads s2 s1 do_addkey t_script].
  assert (Eidx : rem_id k id (set k id (idx s)) = rem k (idx s)).
  { rewrite rem_id_hit by apply get_set_same. unfold set, rem at 1. cbn. rewrite Z.eqb_refl. cbn.
    apply rem_rem_same. }
  change (idx s2) with (set k id (idx s)). rewrite Eidx.
  split; [reflexivity|]. split; [apply get_rem_same|].
  split; [intros k' Hne; apply get_rem_other; exact Hne|].
  split; [reflexivity|]. split; [reflexivity|]. split; [exact Hcl|].
  eapply nth_error_upd_same. exact Hn2.
Qed.

(* "unchanged for other identities" holds per key only: an older identity of the SAME key is lost
   (harmless: a closed cache is empty) *)
Example closed_store_drops_older_identity :
  exec (mkS [(1, 9)] [] [] true [mkT PIdle [OStore 1 10]]) [LT 0%nat acc; LT 0%nat acc; LT 0%nat acc]
  = Some (mkS [] [] [] true [mkT PIdle []]).
Proof. vm_compute. reflexivity. Qed.

(* ================================================================== *)
(* Part H: Theorem 8 — non-vacuity, and the stream wrapper *)

(* three threads: two stores on key 1 in sequence (thread 0), stores on keys 2 and 5 (thread 1), an Invalidate whose
   pattern matches keys 1 and 3 (thread 2); a displacement, an eviction, late deliveries; H is checked at every step *)
Definition ex_scripts : list (list op) :=
  [[OStore 1 10; OStore 1 11]; [OStore 2 20; OStore 5 50]; [OInvalidate [1; 3]]].

Definition ex_run : list label :=
  [LT 0%nat acc;            (* A(1,10) *)
   LT 1%nat acc;            (* A(2,20) *)
   LT 0%nat acc;            (* B(1,10) accepted *)
   LT 1%nat (Accept [1]);   (* B(2,20) accepted, displaces key 1: notification (1,10) queued *)
   LT 0%nat acc;            (* A(1,11) while (1,10) is still undelivered *)
   LT 0%nat acc;            (* B(1,11) *)
   LDeliver;                (* late (1,10): identity mismatch, the index keeps (1,11) *)
   LT 2%nat acc;            (* Invalidate: snapshot = [1] *)
   LT 1%nat acc;            (* A(5,50) *)
   LT 2%nat acc;            (* Delete 1: notification (1,11) *)
   LT 1%nat acc;            (* B(5,50) *)
   LT 2%nat acc;            (* Invalidate returns *)
   LEvict 5;                (* expiry of key 5: notification (5,50) *)
   LDeliver; LDeliver].

Lemma ex_wf : wf_scripts ex_scripts.
Proof. unfold wf_scripts, ex_scripts; cbn. repeat constructor; cbn; intuition lia. Qed.

Example nonvacuity_midway :
  execH (init ex_scripts) (firstn 13 ex_run)
  = Some (mkS [(5, 50); (1, 11); (2, 20)] [(2, 20)] [(1, 11); (5, 50)] false
            [mkT PIdle []; mkT PIdle []; mkT PIdle []]).
Proof. vm_compute. reflexivity. Qed.

Example nonvacuity_run :
  execH (init ex_scripts) ex_run
  = Some (mkS [(2, 20)] [(2, 20)] [] false [mkT PIdle []; mkT PIdle []; mkT PIdle []]).
Proof. vm_compute. reflexivity. Qed.

(* the final state satisfies every hypothesis of quiescent_agreement (so the theorem is not vacuous), and the
   midway state every hypothesis of `invariant` *)
Example nonvacuity_hypotheses :
  let s := mkS [(2, 20)] [(2, 20)] [] false [mkT PIdle []; mkT PIdle []; mkT PIdle []] in
  wf_scripts ex_scripts /\ reachableH (init ex_scripts) s /\ closed s = false /\ quiescent s /\
  (forall k, get k (idx s) = get k (cache s)).
Proof.
  cbv zeta.
  assert (Hr : reachableH (init ex_scripts)
                 (mkS [(2, 20)] [(2, 20)] [] false [mkT PIdle []; mkT PIdle []; mkT PIdle []])).
  { apply (execH_reachableH _ (init ex_scripts) ex_run); [constructor|apply nonvacuity_run]. }
  split; [exact ex_wf|]. split; [exact Hr|]. split; [reflexivity|].
  split; [split; reflexivity|].
  apply (quiescent_agreement ex_scripts _ ex_wf Hr); [reflexivity|split; reflexivity].
Qed.

(* the wrapper's whole-Invalidate is the LTS's delete loop *)
Lemma do_remove_set_threads x a ths : do_remove x (set_threads a ths) = set_threads (do_remove x a) ths.
Proof. unfold do_remove, set_threads; cbn. destruct (get x (cache a)); reflexivity. Qed.

Lemma delete_loop_set_threads l : forall a m ths,
  fst (delete_loop l (set_threads a ths) m) = set_threads (fst (delete_loop l a m)) ths.
Proof.
  induction l as [|x l IHl]; intros a m ths; cbn [delete_loop fst]; [reflexivity|].
  rewrite do_remove_set_threads. change (resident x (set_threads a ths)) with (resident x a). apply IHl.
Qed.

Lemma upd_upd {A} (l : list A) i x y : upd i x (upd i y l) = upd i x l.
Proof. revert i; induction l as [|z l IH]; intros [|i]; cbn; try reflexivity. rewrite IH. reflexivity. Qed.

Lemma delete_loop_lts snap : forall s i t n,
  nth_error (threads s) i = Some t -> t_pc t = PInv snap ->
  exec s (repeat (LT i acc) (S (length snap)))
  = Some (set_threads (fst (delete_loop snap s n)) (upd i (mkT PIdle (t_script t)) (threads s))).
Proof.
  induction snap as [|v r IH]; intros s i t n Hn Hpc.
  - cbn [length repeat exec step]. rewrite Hn. unfold tstep. rewrite Hpc. reflexivity.
  - cbn [length repeat exec]. cbn [step]. rewrite Hn. unfold tstep at 1. rewrite Hpc.
    set (s1 := set_threads (do_remove v s) (upd i (mkT (PInv r) (t_script t)) (threads s))).
    assert (Hn1 : nth_error (threads s1) i = Some (mkT (PInv r) (t_script t)))
      by (eapply nth_error_upd_same; exact Hn).
    change (exec s1 (repeat (LT i acc) (S (length r))) =
            Some (set_threads (fst (delete_loop (v :: r) s n)) (upd i (mkT PIdle (t_script t)) (threads s)))).
    rewrite (IH s1 i _ (if resident v s then n + 1 else n) Hn1 eq_refl).
    cbn [delete_loop t_script]. f_equal. unfold s1. rewrite delete_loop_set_threads.
    unfold set_threads; cbn [idx cache notes closed threads]. rewrite upd_upd. reflexivity.
Qed.

(* the stream wrapper on a short op list: store two keys, delete one (index lags until the notifier runs),
   invalidate a pattern matching keys 2, 3, 9, clear *)
Example wrapper_run :
  ix_run [] [[1;1;10]; [1;2;20]; [2;1;10]; [2;2;20]; [7]; [4;1]; [7]; [3]; [7];
             [1;3;30]; [2;3;30]; [5;2;3;9]; [7]; [3]; [7]; [1;4;40]; [2;4;40]; [6]; [7]; [8]]
  = [[]; []; []; []; [1; 2; -1; 1; 2]; [1]; [1; 2; -1; 2]; []; [2; -1; 2];
     []; []; [2]; [2; 3; -1]; []; [-1]; []; []; []; [-1]; [-9]].
Proof. vm_compute. reflexivity. Qed.

(* ================================================================== *)
(* Part I: Theorem 1, general form — the drained state does not depend on WHEN notifications were delivered *)

Definition is_deliver (l : label) : bool := match l with LDeliver => true | _ => false end.
Definition strip (ls : list label) : list label := filter (fun l => negb (is_deliver l)) ls.

Definition noted (k id : Z) (no : list (Z * Z)) : bool :=
  existsb (fun p => (fst p =? k) && (snd p =? id)) no.

Lemma noted_In k id no : In (k, id) no -> noted k id no = true.
Proof.
  intros Hin. unfold noted. apply existsb_exists. exists (k, id). split; [exact Hin|].
  cbn. rewrite !Z.eqb_refl. reflexivity.
Qed.

(* a step that neither reads the index (Invalidate's snapshot) nor re-adds an identity that is announced as removed *)
Definition quiet (s : state) (l : label) : bool :=
  match l with
  | LT i _ =>
      match nth_error (threads s) i with
      | Some t =>
          match t_pc t, t_script t with
          | PIdle, OInvalidate _ :: _ => false
          | PIdle, OStore k id :: _ => negb (noted k id (notes s))
          | _, _ => true
          end
      | None => true
      end
  | LEvict _ => true
  | LDeliver => false
  end.

Fixpoint quiet_run (s : state) (ls : list label) : Prop :=
  match ls with
  | [] => True
  | l :: r => quiet s l = true /\ match step s l with Some s1 => quiet_run s1 r | None => True end
  end.

Lemma quiet_indep s l k id : quiet s l = true -> In (k, id) (notes s) -> indep s l k id = true.
Proof.
  intros Hq Hin. destruct l as [i o|v|]; cbn in *; [|reflexivity|discriminate].
  destruct (nth_error (threads s) i) as [t|]; [|reflexivity]. unfold sensitive.
  destruct (t_pc t); try reflexivity.
  destruct (t_script t) as [|[k2 id2|v|ks'| |] r]; try reflexivity; try discriminate.
  destruct (Z.eqb_spec k2 k) as [->|Hk]; [|reflexivity].
  destruct (Z.eqb_spec id2 id) as [->|Hid]; [|reflexivity].
  rewrite (noted_In _ _ _ Hin) in Hq. discriminate.
Qed.

Lemma headed_In s k id : headed s k id -> In (k, id) (notes s).
Proof. intros [r ->]. left; reflexivity. Qed.

Lemma quiet_run_indep ls : forall s k id, quiet_run s ls -> headed s k id -> indep_run s ls k id.
Proof.
  induction ls as [|l r IH]; intros s k id Hq Hh; cbn in *; [exact I|].
  destruct Hq as [Hq Hrest].
  pose proof (quiet_indep s l k id Hq (headed_In _ _ _ Hh)) as Hi. split; [exact Hi|].
  destruct (step s l) as [s1|] eqn:Es; [|exact I].
  apply IH; [exact Hrest|]. apply (step_headed s l s1 k id (indep_not_deliver _ _ _ _ Hi) Hh Es).
Qed.

Lemma noted_tl k id no : noted k id (tl no) = true -> noted k id no = true.
Proof. destruct no as [|p no]; cbn; [auto|]. intros ->. apply orb_true_r. Qed.

Lemma quiet_dl s l k id : quiet s l = true -> quiet (dl k id s) l = true.
Proof.
  destruct l as [i o|v|]; unfold quiet; auto.
  change (threads (dl k id s)) with (threads s). change (notes (dl k id s)) with (tl (notes s)).
  destruct (nth_error (threads s) i) as [t|]; [|auto].
  destruct (t_pc t); auto. destruct (t_script t) as [|[k2 id2|v|ks'| |] r]; auto.
  intros Hq. destruct (noted k2 id2 (tl (notes s))) eqn:E; [|reflexivity].
  rewrite (noted_tl _ _ _ E) in Hq. discriminate.
Qed.

Lemma quiet_run_dl ls : forall s k id, quiet_run s ls -> headed s k id -> quiet_run (dl k id s) ls.
Proof.
  induction ls as [|l r IH]; intros s k id Hq Hh; cbn in *; [exact I|].
  destruct Hq as [Hq Hrest]. split; [apply quiet_dl; exact Hq|].
  pose proof (quiet_indep s l k id Hq (headed_In _ _ _ Hh)) as Hi.
  rewrite (step_dl s l k id Hh Hi). destruct (step s l) as [s1|] eqn:Es; cbn [option_map]; [|exact I].
  apply IH; [exact Hrest|]. apply (step_headed s l s1 k id (indep_not_deliver _ _ _ _ Hi) Hh Es).
Qed.

Lemma deliver_all_headed s k id : headed s k id -> deliver_all (dl k id s) = deliver_all s.
Proof.
  intros [r Hr]. unfold deliver_all. rewrite Hr. cbn [length deliver_n].
  unfold do_deliver. rewrite Hr. unfold dl. rewrite Hr. reflexivity.
Qed.

(* Take any run ls (deliveries interleaved at arbitrary times).  Remove all deliveries from it (notifications pile
   up in the queue) — provided that delayed run is quiet, it is enabled too, and draining the queue at the end
   reaches exactly the state obtained by draining after the original run. *)
Theorem drained_state_independent_of_delivery_times ls : forall s s1,
  exec s ls = Some s1 -> quiet_run s (strip ls) ->
  exists s2, exec s (strip ls) = Some s2 /\ deliver_all s2 = deliver_all s1.
Proof.
  induction ls as [|l r IH]; intros s s1 He Hq.
  - cbn in *. inversion He; subst. exists s1. split; reflexivity.
  - destruct l as [i o|v|].
    + cbn [strip filter is_deliver negb] in *. fold (strip r) in *. cbn [exec] in He. cbn [quiet_run] in Hq.
      destruct (step s (LT i o)) as [s'|] eqn:Es; [|discriminate]. destruct Hq as [_ Hq].
      destruct (IH s' s1 He Hq) as (s2 & E2 & D2). exists s2. split; [|exact D2].
      cbn [exec]. rewrite Es. exact E2.
    + cbn [strip filter is_deliver negb] in *. fold (strip r) in *. cbn [exec] in He. cbn [quiet_run] in Hq.
      destruct (step s (LEvict v)) as [s'|] eqn:Es; [|discriminate]. destruct Hq as [_ Hq].
      destruct (IH s' s1 He Hq) as (s2 & E2 & D2). exists s2. split; [|exact D2].
      cbn [exec]. rewrite Es. exact E2.
    + cbn [strip filter is_deliver negb] in *. fold (strip r) in *. cbn [exec] in He.
      change (step s LDeliver) with (do_deliver s) in He.
      destruct (notes s) as [|[k id] n'] eqn:En; [unfold do_deliver in He; rewrite En in He; discriminate|].
      assert (Hh : headed s k id) by (exists n'; exact En).
      rewrite (do_deliver_dl s k id Hh) in He.
      destruct (IH (dl k id s) s1 He (quiet_run_dl _ s k id Hq Hh)) as (s2' & E2 & D2).
      destruct (exec_dl (strip r) s k id Hh (quiet_run_indep _ s k id Hq Hh)) as [Edl Hhd].
      rewrite Edl in E2. destruct (exec s (strip r)) as [s2|] eqn:Ex; [|discriminate].
      cbn in E2. inversion E2; subst s2'. exists s2. split; [reflexivity|].
      rewrite <- D2. symmetry. apply deliver_all_headed. apply Hhd. reflexivity.
Qed.
