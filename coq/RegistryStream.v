(* RegistryStream.v — stream wrapper of RegistryLts for the sequential part of the "reg" correspondence stream
   (sid 18): every call is spawned as a new thread of the LTS and run to completion before the next one starts,
   and its result is printed in the encoding of the sequential specification reg_step (KeyHash.v), so that the real
   Manager is compared with BOTH. Model only, no proofs. Instance identities are renumbered in order of first
   appearance (the harness numbers the pointers it has seen the same way). *)
Require Import List ZArith Bool Arith. Import ListNotations.
Require Import KV.RegistryLts.
Local Open Scope nat_scope.

Record rl_state := mkRl { rl_s : state; rl_seen : list iid }.

Definition rl_init (_ : list Z) : rl_state := mkRl init [].

Fixpoint run_thread (fuel : nat) (t : tid) (s : state) : state :=
  match fuel with
  | O => s
  | S f =>
      (* the only internal choice is the order in which sync.Map.Range visits keys: take the first pending one *)
      let ch := match thr s t with CARange (n :: _) _ => S n | _ => 0 end in
      match step s (LStep t ch) with Some s1 => run_thread f t s1 | None => s end
  end.

Fixpoint index_of (x : iid) (l : list iid) (k : nat) : option nat :=
  match l with
  | [] => None
  | y :: r => if Nat.eqb x y then Some k else index_of x r (S k)
  end.

Definition run_call (st : rl_state) (c : call) : rl_state * list Z :=
  let t := nthr (rl_s st) in
  let s1 := run_thread 200 t (spawn (rl_s st) c) in
  match thr s1 t with
  | Done _ x =>
      match x with
      | ROk i =>
          match index_of i (rl_seen st) 1 with
          | Some k => (mkRl s1 (rl_seen st), [0%Z; Z.of_nat k])
          | None => (mkRl s1 (rl_seen st ++ [i]), [0%Z; Z.of_nat (S (length (rl_seen st)))])
          end
      | RNil => (mkRl s1 (rl_seen st), [0%Z; 0%Z])
      | EExists => (mkRl s1 (rl_seen st), [1%Z; 0%Z])
      | ENotReg => (mkRl s1 (rl_seen st), [2%Z; 0%Z])
      | EMismatch => (mkRl s1 (rl_seen st), [3%Z; 0%Z])
      | EInvalid => (mkRl s1 (rl_seen st), [4%Z; 0%Z])
      end
  | _ => (mkRl s1 (rl_seen st), [(-2)%Z])          (* the call did not run to completion: never in a sequential run *)
  end.

Definition zb (z : Z) : bool := negb (Z.eqb z 0).

Definition rl_step (st : rl_state) (o : list Z) : rl_state * list Z :=
  match o with
  | [1%Z; n; t; valid] =>
      if Z.eqb t 0 then run_call st (CReg (Z.to_nat n) (zb valid))
      else run_call st (CRegT (Z.to_nat t) (Z.to_nat n) (zb valid))
  | [2%Z; n; t] => run_call st (CGet (Z.to_nat t) (Z.to_nat n))
  | [3%Z; n; t; valid] => run_call st (CGetCfg (Z.to_nat t) (Z.to_nat n) (zb valid))
  | [4%Z; n] => let '(s1, _) := run_call st (CRemove (Z.to_nat n)) in (s1, [0%Z; 0%Z])
  | [5%Z] => let '(s1, _) := run_call st CCloseAll in (s1, [0%Z; 0%Z])
  | _ => (st, [(-1)%Z])
  end.

(* ------------------------------------------------------------------------------------------------------------
   Lock-step wrapper (stream "rgl", sid 171).  The real Manager runs under the cooperative scheduler with yield
   points placed in manager.go between its shared accesses; after every scheduler step the harness reports the yield
   point the thread parked at (or its result) and the visible registry state, and this wrapper must reach the same
   point and state by stepping the SAME thread of RegistryLts.  pc_point maps a program counter to the yield point
   at which the real thread is parked when the model is at that pc; program counters with no yield point of their
   own (local steps under a lock that is already held, the second half of an instance's Close) map to -1 and are
   run through in the same wrapper step.  sync.Map.Range's visiting order is the real run's: the key the callback
   was entered for is the hint of the step; keys of the Range's ghost todo list that have meanwhile left the map
   are skipped first (the model's skip step), which is the schedule of the LTS that the real Range corresponds to. *)
Record rgl_state := mkRgl { g_s : state; g_seen : list iid }.

Definition rgl_init (_ : list Z) : rgl_state := mkRgl init [].

Definition pc_point (p : pc) : Z :=
  match p with
  | Idle => (-5)
  | GLoad _ _ _ _ => 0 | GRLock _ _ _ _ => 411 | GRead _ _ _ _ => (-1) | GRUnlock _ _ _ _ _ => 413
  | CNew _ _ _ => 414 | CLoS _ _ _ => 415 | CCloseBad _ _ _ => 417 | CCloseBadFin _ _ _ => (-1)
  | CCloseLoser _ _ _ _ => 416 | CCloseLoserFin _ _ _ _ => (-1)
  | RgStart _ _ => 0 | RgLock _ _ => 421 | RgCheck _ _ => 422 | RgWrite _ _ => (-1) | RgUnlock _ _ => 424
  | RmLock _ => 0 | RmDel _ => 431 | RmUnlock _ => (-1) | RmLAD _ => 433 | RmClose _ _ => 434 | RmCloseFin _ _ => (-1)
  | CAStart => 0 | CARange _ _ => (-1) | CAClose _ _ _ _ => 440 | CACloseFin _ _ _ _ => (-1) | CADelete _ _ _ _ => 401
  | Done _ _ => (-2)
  end%Z.

(* skip every todo key that is no longer in the map *)
Fixpoint skip_absent (s : state) (t : tid) (ks : list name) : state :=
  match ks with
  | [] => s
  | n :: r =>
      match lookup n (caches s) with
      | Some _ => skip_absent s t r
      | None => match step s (LStep t (S n)) with Some s1 => skip_absent s1 t r | None => skip_absent s t r end
      end
  end.

(* run thread t through its transient program counters; hint = S key for the Range callback entered, 0 = none.
   err: 0 fine, 7 = the real Range ended although a todo key is (again) in the map and was not visited — allowed by
   sync.Map's contract for a key deleted and re-stored during the Range, not expressible in the LTS *)
Fixpoint run_transient (fuel : nat) (s : state) (t : tid) (hint : nat) : state * Z :=
  match fuel with
  | O => (s, 9%Z)
  | S f =>
      match thr s t with
      | CARange todo _ =>
          let s1 := skip_absent s t todo in
          match step s1 (LStep t hint) with
          | Some s2 => run_transient f s2 t O
          | None => (s1, if Nat.eqb hint 0 then 7%Z else 8%Z)
          end
      | p => if Z.eqb (pc_point p) (-1)
             then match step s (LStep t O) with Some s1 => run_transient f s1 t hint | None => (s, 8%Z) end
             else (s, 0%Z)
      end
  end.

Definition rgl_number (seen : list iid) (i : iid) : list iid * Z :=
  match index_of i seen 1 with
  | Some k => (seen, Z.of_nat k)
  | None => (seen ++ [i], Z.of_nat (S (length seen)))
  end.

Definition res_code (x : res) : Z :=
  match x with ROk _ => 0 | RNil => 0 | EExists => 1 | ENotReg => 2 | EMismatch => 3 | EInvalid => 4 end%Z.

Definition reg_code (r : option reg) : Z :=
  match r with None => 0 | Some rg => match r_ty rg with None => 1 | Some t => Z.of_nat (2 + t) end end%Z.

Definition lock_code (m : rwlock) : Z :=
  match rw_w m with Some _ => 2 | None => match rw_r m with [] => 0 | _ => 1 end end%Z.

Definition rgl_names : list name := [0; 1; 2].

Fixpoint number_caches (s : state) (seen : list iid) (ns : list name) : list iid * list Z :=
  match ns with
  | [] => (seen, [])
  | n :: r =>
      match lookup n (caches s) with
      | None => let '(sn, o) := number_caches s seen r in (sn, 0%Z :: o)
      | Some i => let '(sn1, k) := rgl_number seen i in
                  let '(sn, o) := number_caches s sn1 r in (sn, k :: o)
      end
  end.

Definition rgl_dump (st : rgl_state) (head : list Z) (resi : option iid) : rgl_state * list Z :=
  let s := g_s st in
  let '(seen1, hd) := match resi with
                      | Some i => let '(sn, k) := rgl_number (g_seen st) i in (sn, head ++ [k])
                      | None => (g_seen st, head)
                      end in
  let '(seen2, cs) := number_caches s seen1 rgl_names in
  (mkRgl s seen2,
   hd ++ cs ++ map (fun n => reg_code (regs s n)) rgl_names ++ [lock_code (mu s)]
      ++ map (fun i => match i_st (insts s i) with Closed => 1%Z | _ => 0%Z end) seen2).

Definition rgl_call (o : list Z) : option call :=
  match o with
  | [1%Z; n; t; valid] => Some (if Z.eqb t 0 then CReg (Z.to_nat n) (zb valid) else CRegT (Z.to_nat t) (Z.to_nat n) (zb valid))
  | [2%Z; n; t] => Some (CGet (Z.to_nat t) (Z.to_nat n))
  | [3%Z; n; t; valid] => Some (CGetCfg (Z.to_nat t) (Z.to_nat n) (zb valid))
  | [4%Z; n] => Some (CRemove (Z.to_nat n))
  | [5%Z] => Some CCloseAll
  | _ => None
  end.

Definition rgl_step (st : rgl_state) (o : list Z) : rgl_state * list Z :=
  match o with
  | 10%Z :: c =>                                   (* spawn a caller; it parks before its first shared access *)
      match rgl_call c with
      | Some cl => let s1 := spawn (g_s st) cl in
                   (mkRgl s1 (g_seen st), [Z.of_nat (nthr (g_s st)); pc_point (thr s1 (nthr (g_s st)))])
      | None => (st, [(-9)%Z])
      end
  | [11%Z; t; hint] =>                             (* one scheduler step of thread t *)
      let t := Z.to_nat t in
      let s := g_s st in
      let first :=
        match thr s t with
        | CARange _ _ => Some s
        | _ => step s (LStep t O)
        end in
      match first with
      | None => (st, [(-3)%Z])                     (* the model says this thread is blocked (or finished) *)
      | Some s1 =>
          let '(s2, e) := run_transient 12 s1 t (Z.to_nat hint) in
          if Z.eqb e 0 then
            match thr s2 t with
            | Done _ x =>
                match x with
                | ROk i => rgl_dump (mkRgl s2 (g_seen st)) [(-1)%Z; res_code x] (Some i)
                | _ => rgl_dump (mkRgl s2 (g_seen st)) [(-1)%Z; res_code x; 0%Z] None
                end
            | p => rgl_dump (mkRgl s2 (g_seen st)) [pc_point p] None
            end
          else (mkRgl s2 (g_seen st), [(-4)%Z; e])
      end
  | _ => (st, [(-9)%Z])
  end.
