(* RegistryStream.v — stream wrapper of RegistryLts for the sequential part of the "reg" correspondence stream
   (sid 18): every call is spawned as a new thread of the LTS and run to completion before the next one starts,
   and its result is printed in the encoding of the sequential specification reg_step (KeyHash.v), so that the real
   Manager is compared with BOTH. Model only, no proofs. Instance identities are renumbered in order of first
   appearance (the harness numbers the pointers it has seen the same way). *)
Require Import List ZArith Bool Arith. Import ListNotations.
Require Import KV.RegistryLts.
Local Open Scope nat_scope.

Record rl_state := mkRl { rl_s : state; rl_seen : list iid }.

Definition rl_init (_ : list Z) : rl_state := mkRl init [].

Fixpoint run_thread (fuel : nat) (t : tid) (s : state) : state :=
  match fuel with
  | O => s
  | S f =>
      (* the only internal choice is the order in which sync.Map.Range visits keys: take the first pending one *)
      let ch := match thr s t with CARange (n :: _) _ => S n | _ => 0 end in
      match step s (LStep t ch) with Some s1 => run_thread f t s1 | None => s end
  end.

Fixpoint index_of (x : iid) (l : list iid) (k : nat) : option nat :=
  match l with
  | [] => None
  | y :: r => if Nat.eqb x y then Some k else index_of x r (S k)
  end.

Definition run_call (st : rl_state) (c : call) : rl_state * list Z :=
  let t := nthr (rl_s st) in
  let s1 := run_thread 200 t (spawn (rl_s st) c) in
  match thr s1 t with
  | Done _ x =>
      match x with
      | ROk i =>
          match index_of i (rl_seen st) 1 with
          | Some k => (mkRl s1 (rl_seen st), [0%Z; Z.of_nat k])
          | None => (mkRl s1 (rl_seen st ++ [i]), [0%Z; Z.of_nat (S (length (rl_seen st)))])
          end
      | RNil => (mkRl s1 (rl_seen st), [0%Z; 0%Z])
      | EExists => (mkRl s1 (rl_seen st), [1%Z; 0%Z])
      | ENotReg => (mkRl s1 (rl_seen st), [2%Z; 0%Z])
      | EMismatch => (mkRl s1 (rl_seen st), [3%Z; 0%Z])
      | EInvalid => (mkRl s1 (rl_seen st), [4%Z; 0%Z])
      end
  | _ => (mkRl s1 (rl_seen st), [(-2)%Z])          (* the call did not run to completion: never in a sequential run *)
  end.

Definition zb (z : Z) : bool := negb (Z.eqb z 0).

Definition rl_step (st : rl_state) (o : list Z) : rl_state * list Z :=
  match o with
  | [1%Z; n; t; valid] =>
      if Z.eqb t 0 then run_call st (CReg (Z.to_nat n) (zb valid))
      else run_call st (CRegT (Z.to_nat t) (Z.to_nat n) (zb valid))
  | [2%Z; n; t] => run_call st (CGet (Z.to_nat t) (Z.to_nat n))
  | [3%Z; n; t; valid] => run_call st (CGetCfg (Z.to_nat t) (Z.to_nat n) (zb valid))
  | [4%Z; n] => let '(s1, _) := run_call st (CRemove (Z.to_nat n)) in (s1, [0%Z; 0%Z])
  | [5%Z] => let '(s1, _) := run_call st CCloseAll in (s1, [0%Z; 0%Z])
  | _ => (st, [(-1)%Z])
  end.
