(* ReadBufferStream.v — stream wrapper of ReadBuffer for the correspondence stream "rb" (sid 75): one stripe of the
   real read buffer driven by whole samples and whole drains. Model only, no proofs. A sample pushes its value
   onto producer 0's script and runs that producer's three atomic steps; the state is therefore the one reachable
   from `init [all values sampled so far]` by the same schedule (the theorems of ReadBuffer.v are stated for
   `reachable (init scripts)` with the scripts known in advance). *)
Require Import List ZArith. Import ListNotations.
Require Import KV.ReadBuffer.
Open Scope Z_scope.

Definition rb_state : Type := ReadBuffer.state.

Definition rb_init (_ : list Z) : rb_state := ReadBuffer.init [[]].

Definition rb_push (st : rb_state) (h : Z) : rb_state :=
  {| buf := buf st; tail := tail st; head := head st;
     prods := match prods st with
              | p :: r => {| p_todo := p_todo p ++ [h]; p_pc := p_pc p |} :: r
              | [] => [{| p_todo := [h]; p_pc := PIdle |}]
              end;
     cons := cons st; tick := tick st; stored := stored st; lost := lost st;
     delivered := delivered st; acc := acc st; rets := rets st |}.

Definition rb_do (st : rb_state) (tid : nat) : rb_state :=
  match ReadBuffer.step st tid with Some s => s | None => st end.

Fixpoint rb_drain (fuel : nat) (st : rb_state) : rb_state :=
  match fuel with
  | O => st
  | S f => let s1 := rb_do st 0%nat in
           match cons s1 with CIdle => s1 | _ => rb_drain f s1 end
  end.

Definition b2zr (b : bool) : Z := if b then 1 else 0.

Definition rb_step (st : rb_state) (o : list Z) : rb_state * list Z :=
  match o with
  | [1; h] =>
      let s3 := rb_do (rb_do (rb_do (rb_push st h) 1%nat) 1%nat) 1%nat in
      (s3, [b2zr (snd (last (rets s3) (0%nat, false))); Z.of_nat (tail s3); Z.of_nat (head s3)])
  | [2] =>
      let s1 := rb_drain 80 st in
      (s1, skipn (length (delivered st)) (delivered s1) ++ [-1; Z.of_nat (tail s1); Z.of_nat (head s1)])
  | _ => (st, [-9])
  end.
