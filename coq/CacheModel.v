(* CacheModel.v — the cache as a sequential state machine: shards, the four eviction
   policies (LRU / FIFO / LFU on the shared list, SieveTinyLFU with probation + main queues and
   the SIEVE hand), TTL stamping and expiry, removal-notification staging, Size/Cost/Stats
   counters, Clear, Cleanup, Close, and SetAsync batches closed by Sync.
   Transliterates cache.go, writes.go, shard.go, eviction.go, lfu.go and the write-path part
   of sieve.go.  Heuristic decisions that no property depends on arrive as ORACLE EVENTS
   recorded from the implementation (B1 ghost hit, shouldKeep, shouldAdmit, adaptive
   probation cap, LFU's pick inside the minimum bucket); every theorem quantifies over them.
   The table is the abstract key set [tabk] justified by HtableProofs (C12). *)
Require Import KV.Base KV.Gen.Consts KV.ConfigModel.
Open Scope Z_scope.

(* ------------------------------------------------------------------ items *)
Record item := {
  key : Z; val : Z; exp : Z; cost : Z;         (* exp = 0: never expires *)
  reuse : Z; visited : bool; unpub : bool      (* SieveTinyLFU policy fields *)
}.
Definition set_flags (it : item) (r : Z) (v u : bool) : item :=
  {| key := key it; val := val it; exp := exp it; cost := cost it; reuse := r; visited := v; unpub := u |}.

Record notif := { nkey : Z; nval : Z; nreason : Z }.

(* oracle events: (kind, a) per shard, in program order *)
Definition evGhost := 1. Definition evKeep := 2. Definition evAdmit := 3.
Definition evAdapt := 4. Definition evLfu := 5.

Record shard := {
  cap : Z; costcap : Z;
  tabk : list Z;                  (* table domain: published keys *)
  lst : list item;                (* LRU / FIFO / LFU shared list, head = most recent *)
  lfu : list (Z * list Z);        (* LFU buckets, ascending frequency, each a key set *)
  prob : list item; main : list item;   (* Sieve queues, head = newest *)
  hand : option Z;                (* key of the SIEVE hand in main *)
  pcap : Z; mcap : Z; pmin : Z; pmax : Z;
  size : Z; scost : Z;
  staged : list notif;            (* removal notifications staged by the current operation *)
  evs : list (Z * Z);             (* pending oracle events for this shard *)
  pend : list (list Z);           (* SetAsync commands accepted but not yet applied *)
  admits : Z; rejects : Z; ghosthits : Z; promos : Z; pevicts : Z; mevicts : Z;
  serr : Z;                       (* 0 = fine; otherwise the model refused an oracle event / ran out of fuel *)
  (* ghost history, never read by the model: (tag, key, value) with tag 0 = written, 1 = replaced by a
     later write, 2 = cleared, 10 + reason = dropped for that reason; and every notification ever staged *)
  glog : list (Z * Z * Z);
  nlog : list notif
}.

Record cache := {
  policy : Z; nshards : Z; shards : list shard;
  defttl : Z; statsOn : bool; mask : Z;          (* mask: bit r set = reason r is notified *)
  trackCost : bool;
  now : Z; closed : bool;
  hits : Z; misses : Z; evictions : Z; expirations : Z
}.

(* functional record updates *)
Definition sh_set (s : shard) tabk' lst' lfu' prob' main' hand' size' scost' staged' : shard :=
  {| cap := cap s; costcap := costcap s; tabk := tabk'; lst := lst'; lfu := lfu'; prob := prob'; main := main';
     hand := hand'; pcap := pcap s; mcap := mcap s; pmin := pmin s; pmax := pmax s; size := size'; scost := scost';
     staged := staged'; evs := evs s; pend := pend s; admits := admits s; rejects := rejects s;
     ghosthits := ghosthits s; promos := promos s; pevicts := pevicts s; mevicts := mevicts s; serr := serr s; glog := glog s; nlog := nlog s |}.
Definition sh_lists (s : shard) prob' main' hand' : shard :=
  sh_set s (tabk s) (lst s) (lfu s) prob' main' hand' (size s) (scost s) (staged s).
Definition sh_caps (s : shard) p : shard :=
  {| cap := cap s; costcap := costcap s; tabk := tabk s; lst := lst s; lfu := lfu s; prob := prob s; main := main s;
     hand := hand s; pcap := p; mcap := cap s - p; pmin := pmin s; pmax := pmax s; size := size s; scost := scost s;
     staged := staged s; evs := evs s; pend := pend s; admits := admits s; rejects := rejects s;
     ghosthits := ghosthits s; promos := promos s; pevicts := pevicts s; mevicts := mevicts s; serr := serr s; glog := glog s; nlog := nlog s |}.
Definition sh_evs (s : shard) e pe : shard :=
  {| cap := cap s; costcap := costcap s; tabk := tabk s; lst := lst s; lfu := lfu s; prob := prob s; main := main s;
     hand := hand s; pcap := pcap s; mcap := mcap s; pmin := pmin s; pmax := pmax s; size := size s; scost := scost s;
     staged := staged s; evs := e; pend := pe; admits := admits s; rejects := rejects s;
     ghosthits := ghosthits s; promos := promos s; pevicts := pevicts s; mevicts := mevicts s; serr := serr s; glog := glog s; nlog := nlog s |}.
Definition sh_stats (s : shard) a r g p pe me : shard :=
  {| cap := cap s; costcap := costcap s; tabk := tabk s; lst := lst s; lfu := lfu s; prob := prob s; main := main s;
     hand := hand s; pcap := pcap s; mcap := mcap s; pmin := pmin s; pmax := pmax s; size := size s; scost := scost s;
     staged := staged s; evs := evs s; pend := pend s; admits := a; rejects := r;
     ghosthits := g; promos := p; pevicts := pe; mevicts := me; serr := serr s; glog := glog s; nlog := nlog s |}.
Definition sh_err (s : shard) (e : Z) : shard :=
  {| cap := cap s; costcap := costcap s; tabk := tabk s; lst := lst s; lfu := lfu s; prob := prob s; main := main s;
     hand := hand s; pcap := pcap s; mcap := mcap s; pmin := pmin s; pmax := pmax s; size := size s; scost := scost s;
     staged := staged s; evs := evs s; pend := pend s; admits := admits s; rejects := rejects s;
     ghosthits := ghosthits s; promos := promos s; pevicts := pevicts s; mevicts := mevicts s;
     serr := if serr s =? 0 then e else serr s; glog := glog s; nlog := nlog s |}.

Definition sh_ghost (s : shard) (g : list (Z * Z * Z)) (n : list notif) : shard :=
  {| cap := cap s; costcap := costcap s; tabk := tabk s; lst := lst s; lfu := lfu s; prob := prob s; main := main s;
     hand := hand s; pcap := pcap s; mcap := mcap s; pmin := pmin s; pmax := pmax s; size := size s; scost := scost s;
     staged := staged s; evs := evs s; pend := pend s; admits := admits s; rejects := rejects s;
     ghosthits := ghosthits s; promos := promos s; pevicts := pevicts s; mevicts := mevicts s; serr := serr s;
     glog := glog s ++ g; nlog := nlog s ++ n |}.

Definition is_sieve (s : shard) (pol : Z) : bool := (pol =? policySieve) && (0 <? cap s).

(* ------------------------------------------------------------------ list helpers *)
Fixpoint find_item (l : list item) (k : Z) : option item :=
  match l with [] => None | it :: r => if key it =? k then Some it else find_item r k end.
Fixpoint remove_key (l : list item) (k : Z) : list item :=
  match l with [] => [] | it :: r => if key it =? k then r else it :: remove_key r k end.
Fixpoint replace_item (l : list item) (n : item) : list item :=
  match l with [] => [] | it :: r => if key it =? key n then n :: r else it :: replace_item r n end.
Definition has_key (l : list item) (k : Z) : bool := match find_item l k with Some _ => true | None => false end.
Fixpoint memz (l : list Z) (k : Z) : bool := match l with [] => false | x :: r => (x =? k) || memz r k end.
Fixpoint remz (l : list Z) (k : Z) : list Z := match l with [] => [] | x :: r => if x =? k then r else x :: remz r k end.
Definition last_item (l : list item) : option item := match rev l with [] => None | x :: _ => Some x end.
Definition zlen {A} (l : list A) : Z := Z.of_nat (length l).

(* ------------------------------------------------------------------ LFU buckets (lfu.go) *)
Fixpoint lfu_freq (b : list (Z * list Z)) (k : Z) : Z :=
  match b with [] => 0 | (f, ks) :: r => if memz ks k then f else lfu_freq r k end.
Fixpoint lfu_add_at (b : list (Z * list Z)) (f k : Z) : list (Z * list Z) :=
  match b with
  | [] => [(f, [k])]
  | (g, ks) :: r => if g =? f then (g, k :: ks) :: r
                    else if f <? g then (f, [k]) :: (g, ks) :: r
                    else (g, ks) :: lfu_add_at r f k
  end.
Fixpoint lfu_remove (b : list (Z * list Z)) (k : Z) : list (Z * list Z) :=
  match b with
  | [] => []
  | (g, ks) :: r => if memz ks k
                    then match remz ks k with [] => r | ks' => (g, ks') :: r end
                    else (g, ks) :: lfu_remove r k
  end.
Definition lfu_add (b : list (Z * list Z)) (k : Z) := lfu_add_at b 1 k.
Definition lfu_increment (b : list (Z * list Z)) (k : Z) :=
  let f := lfu_freq b k in if f =? 0 then lfu_add b k else lfu_add_at (lfu_remove b k) (f + 1) k.
Definition lfu_min_bucket (b : list (Z * list Z)) : list Z := match b with [] => [] | (_, ks) :: _ => ks end.

(* ------------------------------------------------------------------ capacity *)
Definition over_capacity (s : shard) : bool :=
  ((0 <? cap s) && (cap s <? size s)) || ((0 <? costcap s) && (costcap s <? scost s)).
Definition would_over (s : shard) (add : Z) : bool :=
  ((0 <? cap s) && (cap s <=? size s)) || ((0 <? costcap s) && (costcap s <? scost s + add)).

(* ------------------------------------------------------------------ dropItem (shard.go) *)
Record env := { e_pol : Z; e_stats : bool; e_mask : Z }.

Definition mask_has (m r : Z) : bool := Z.testbit m r.

(* previousMainItem / hand repair over main as a list, head first *)
Fixpoint index_of (l : list item) (k : Z) (i : nat) : option nat :=
  match l with [] => None | it :: r => if key it =? k then Some i else index_of r k (S i) end.
Definition key_at (l : list item) (i : nat) : option Z :=
  match nth_error l i with Some it => Some (key it) | None => None end.
Definition prev_main (m : list item) (k : Z) : option Z :=
  match index_of m k O with
  | None => None
  | Some i =>
    let p := match i with O => key_at m (Nat.pred (length m)) | S j => key_at m j end in
    match p with Some pk => if pk =? k then None else Some pk | None => None end
  end.

(* sieve.remove: unlink from whichever queue holds it, repairing the hand *)
Definition sieve_unlink (s : shard) (k : Z) : shard :=
  if has_key (main s) k then
    let h := match hand s with Some hk => if hk =? k then prev_main (main s) k else hand s | None => None end in
    sh_lists s (prob s) (remove_key (main s) k) h
  else if has_key (prob s) k then sh_lists s (remove_key (prob s) k) (main s) (hand s)
  else s.

(* returns (shard, dropped?, evictions delta) *)
Definition drop_item (e : env) (s : shard) (it : item) (reason0 : Z) : shard * bool * Z :=
  let reason := if unpub it && (reason0 =? reasonCapacity) then reasonRejected else reason0 in
  if negb (unpub it) && negb (memz (tabk s) (key it)) then (s, false, 0)
  else
    let tk := if unpub it then tabk s else remz (tabk s) (key it) in
    let s1 :=
      if is_sieve s (e_pol e) then sieve_unlink s (key it)
      else sh_set s (tabk s) (remove_key (lst s) (key it))
                  (if e_pol e =? policyLFU then lfu_remove (lfu s) (key it) else lfu s)
                  (prob s) (main s) (hand s) (size s) (scost s) (staged s) in
    let st := if mask_has (e_mask e) reason
              then staged s1 ++ [{| nkey := key it; nval := val it; nreason := reason |}] else staged s1 in
    (sh_ghost (sh_set s1 tk (lst s1) (lfu s1) (prob s1) (main s1) (hand s1) (size s1 - 1) (scost s1 - cost it) st)
              [(10 + reason, key it, val it)]
              (if mask_has (e_mask e) reason then [{| nkey := key it; nval := val it; nreason := reason |}] else []),
     true, if e_stats e && (reason =? reasonCapacity) then 1 else 0).

Definition lookup (s : shard) (pol k : Z) : option item :=
  if negb (memz (tabk s) k) then None
  else if is_sieve s pol then
    match find_item (prob s) k with Some it => Some it | None => find_item (main s) k end
  else find_item (lst s) k.

(* ------------------------------------------------------------------ oracle events *)
Definition pop_ev (s : shard) (kind : Z) : shard * option Z :=
  match evs s with
  | (k, a) :: r => if k =? kind then (sh_evs s r (pend s), Some a) else (sh_err s (100 + kind), None)
  | [] => (sh_err s (200 + kind), None)
  end.

(* apply every leading EvAdapt (setProbationCap); values outside [pmin,pmax] are refused *)
Fixpoint apply_adapts (fuel : nat) (s : shard) : shard :=
  match fuel with
  | O => s
  | S f =>
    match evs s with
    | (k, a) :: r =>
      if k =? evAdapt then
        let s1 := sh_evs s r (pend s) in
        if (pmin s <=? a) && (a <=? pmax s) then apply_adapts f (sh_caps s1 a) else sh_err s1 301
      else s
    | [] => s
    end
  end.
Definition adapts (s : shard) : shard := apply_adapts (length (evs s)) s.

(* ------------------------------------------------------------------ classic eviction *)
Definition evict_one (e : env) (s : shard) : shard * Z :=
  if e_pol e =? policyLFU then
    match lfu s with
    | [] => (s, 0)
    | _ =>
      let '(s1, v) := pop_ev s evLfu in
      match v with
      | None => (s1, 0)
      | Some vk =>
        if negb (memz (lfu_min_bucket (lfu s1)) vk) then (sh_err s1 302, 0)
        else
          let s2 := sh_set s1 (tabk s1) (lst s1) (lfu_remove (lfu s1) vk) (prob s1) (main s1) (hand s1)
                           (size s1) (scost s1) (staged s1) in
          match find_item (lst s2) vk with
          | Some it => let '(s3, _, d) := drop_item {| e_pol := policyLRU; e_stats := e_stats e; e_mask := e_mask e |} s2 it reasonCapacity in (s3, d)
          | None => (sh_err s2 303, 0)
          end
      end
    end
  else
    match last_item (lst s) with
    | None => (s, 0)
    | Some it => let '(s1, _, d) := drop_item {| e_pol := policyLRU; e_stats := e_stats e; e_mask := e_mask e |} s it reasonCapacity in (s1, d)
    end.

Fixpoint evict_while (fuel : nat) (e : env) (s : shard) (pre : bool) (add : Z) (acc : Z) : shard * Z :=
  match fuel with
  | O => (sh_err s 304, acc)
  | S f =>
    if (if pre then would_over s add else over_capacity s) && (0 <? zlen (tabk s))
    then let '(s1, d) := evict_one e s in evict_while f e s1 pre add (acc + d)
    else (s, acc)
  end.

(* ------------------------------------------------------------------ SieveTinyLFU write path *)
Definition owns (s : shard) (k : Z) : bool := has_key (prob s) k || has_key (main s) k.
Definition find_q (s : shard) (k : Z) : option item :=
  match find_item (prob s) k with Some it => Some it | None => find_item (main s) k end.

(* promote: probation -> main head, reuse 1, visited, hand set if none *)
Definition promote (s : shard) (it : item) : shard :=
  if has_key (prob s) (key it) && (0 <? mcap s) then
    let it' := set_flags it 1 true (unpub it) in
    let s1 := sh_lists s (remove_key (prob s) (key it)) (it' :: main s)
                       (match hand s with None => Some (key it) | h => h end) in
    sh_stats s1 (admits s1) (rejects s1) (ghosthits s1) (promos s1 + 1) (pevicts s1) (mevicts s1)
  else s.

(* mainCandidate: cursor or, if it drifted off main, the main tail *)
Definition main_candidate (s : shard) (c : option Z) : option item :=
  match c with
  | Some k => match find_item (main s) k with Some it => Some it | None => last_item (main s) end
  | None => last_item (main s)
  end.

Definition set_hand (s : shard) (h : option Z) : shard := sh_lists s (prob s) (main s) h.

(* findMainVictim: returns victim key *)
Fixpoint find_victim (n : nat) (s : shard) (c : option Z) (force : bool) : shard * option Z :=
  match n with
  | O =>
    if force then
      match main_candidate s c with
      | Some it => (set_hand s (prev_main (main s) (key it)), Some (key it))
      | None => (s, None)
      end
    else (set_hand s c, None)
  | S n' =>
    match main_candidate s c with
    | None => (s, None)
    | Some it =>
      if visited it then
        let it' := set_flags it (if 0 <? reuse it then reuse it - 1 else reuse it) false (unpub it) in
        let s1 := sh_lists s (prob s) (replace_item (main s) it') (hand s) in
        find_victim n' s1 (prev_main (main s1) (key it)) force
      else (set_hand s (prev_main (main s) (key it)), Some (key it))
    end
  end.
Definition find_main_victim (s : shard) (scan : Z) (force : bool) : shard * option Z :=
  match main s with
  | [] => (s, None)
  | _ => find_victim (Z.to_nat (if scan <=? 0 then 1 else scan)) s (hand s) force
  end.

Definition bump (s : shard) (da dr dpe dme : Z) : shard :=
  sh_stats s (admits s + da) (rejects s + dr) (ghosthits s) (promos s) (pevicts s + dpe) (mevicts s + dme).

(* dropProbationVictim *)
Definition drop_prob_victim (e : env) (s : shard) (it : item) : shard * bool * Z :=
  let '(s1, ok, d) := drop_item e s it reasonCapacity in
  if ok then (bump s1 0 0 1 0, true, d) else (s1, false, d).

(* evictProbation: returns promoted item key if the tail was promoted *)
Definition evict_probation (e : env) (s : shard) : shard * option Z * Z :=
  match last_item (prob s) with
  | None => (s, None, 0)
  | Some it =>
    if (probationPromotionReuse <=? reuse it) || visited it
    then (promote s it, Some (key it), 0)
    else let '(s1, _, d) := drop_prob_victim e s it in (s1, None, d)
  end.

(* evictMain: (shard, result, evictions) *)
Definition evict_main (e : env) (s : shard) (inn : option Z) (tie : bool) (scan : Z) (force : bool)
  : shard * bool * Z :=
  let inn := match inn with Some k => if owns s k then Some k else None | None => None end in
  let '(s1, v) := find_main_victim s scan force in
  match v with
  | None =>
    match inn with
    | Some k => if force then
                  match find_q s1 k with
                  | Some it => let '(s2, _, d) := drop_item e s1 it reasonRejected in (s2, true, d)
                  | None => (s1, true, 0)
                  end
                else (s1, false, 0)
    | None => (s1, false, 0)
    end
  | Some vk =>
    let decide :=
      match inn with
      | Some k => if k =? vk then (s1, true) else
                    let '(s2, a) := pop_ev s1 evAdmit in
                    (s2, match a with Some x => negb (x =? 0) | None => true end)
      | None => (s1, true)
      end in
    let '(s2, adm) := decide in
    if negb adm then
      match inn with
      | Some k => match find_q s2 k with
                  | Some it => let '(s3, ok, d) := drop_item e s2 it reasonRejected in (s3, ok, d)
                  | None => (s2, false, 0)
                  end
      | None => (s2, false, 0)
      end
    else
      match find_q s2 vk with
      | Some it => let '(s3, ok, d) := drop_item e s2 it reasonCapacity in
                   if ok then (bump s3 0 0 0 1, true, d) else (s3, false, d)
      | None => (s2, false, 0)
      end
  end.

(* forceEvictSieveItem *)
Definition force_evict (e : env) (s : shard) : shard * bool * Z :=
  match last_item (prob s) with
  | Some it => drop_prob_victim e s it
  | None =>
    match main s with
    | [] => (s, false, 0)
    | _ =>
      let '(s1, v) := find_main_victim s 1 true in
      match v with
      | None => (s1, false, 0)
      | Some vk => match find_q s1 vk with
                   | Some it => let '(s2, ok, d) := drop_item e s1 it reasonCapacity in
                                if ok then (bump s2 0 0 0 1, true, d) else (s2, false, d)
                   | None => (s1, false, 0)
                   end
      end
    end
  end.

Definition in_probation_below_cap (s : shard) (inn : option Z) : bool :=
  match inn with
  | Some k => has_key (prob s) k && (zlen (prob s) <=? pcap s)
  | None => false
  end.

(* the bounded pass of enforceSieveCapacity: state = (shard, in, tie, evictions) *)
Fixpoint enforce_loop (work : nat) (e : env) (s : shard) (inn : option Z) (tie : bool) (acc : Z)
  : shard * option Z * bool * Z :=
  match work with
  | O => (s, inn, tie, acc)
  | S w =>
    if negb (over_capacity s) then (s, inn, tie, acc)
    else if (pcap s <? zlen (prob s)) && negb (zlen (prob s) =? 0) then
      let '(s1, p, d) := evict_probation e s in
      match p with
      | Some k => enforce_loop w e s1 (Some k) true (acc + d)
      | None => enforce_loop w e s1 inn tie (acc + d)
      end
    else if negb (zlen (main s) =? 0) then
      (* (main.size > mainCap || overCapacity) holds: we are over capacity *)
      let '(s0, keep) :=
        if in_probation_below_cap s inn
        then let '(s', a) := pop_ev s evKeep in (s', match a with Some x => negb (x =? 0) | None => false end)
        else let '(s', a) := pop_ev s evKeep in (s', false) in
      let '(s1, ok, d) := evict_main e s0 (if keep then None else inn) (if keep then false else tie)
                                      defaultMainVictimScan false in
      if ok then enforce_loop w e s1 None false (acc + d) else enforce_loop w e s1 inn tie (acc + d)
    else if negb (zlen (prob s) =? 0) then
      let '(s1, p, d) := evict_probation e s in
      match p with
      | Some k => enforce_loop w e s1 (Some k) true (acc + d)
      | None => enforce_loop w e s1 inn tie (acc + d)
      end
    else (s, inn, tie, acc)
  end.

Fixpoint force_loop (fuel : nat) (e : env) (s : shard) (acc : Z) : shard * Z :=
  match fuel with
  | O => (sh_err s 305, acc)
  | S f =>
    if over_capacity s && (0 <? zlen (tabk s)) then
      let '(s1, ok, d) := force_evict e s in
      if ok then force_loop f e s1 (acc + d) else (s1, acc + d)
    else (s, acc)
  end.

Definition enforce (e : env) (s : shard) (inn : option Z) (tie : bool) : shard * Z :=
  let '(s1, inn1, tie1, a1) := enforce_loop (Z.to_nat maxEvictionWork) e s inn tie 0 in
  if negb (over_capacity s1) then (s1, a1)
  else
    let '(s2, inn2, tie2, a2) :=
      if negb (zlen (prob s1) =? 0) then
        let '(s', p, d) := evict_probation e s1 in
        match p with Some k => (s', Some k, true, a1 + d) | None => (s', inn1, tie1, a1 + d) end
      else (s1, inn1, tie1, a1) in
    if negb (over_capacity s2) then (s2, a2)
    else
      let '(s3, a3) :=
        if negb (zlen (main s2) =? 0) then
          let '(s', _, d) := evict_main e s2 inn2 tie2 defaultMainVictimScan true in (s', a2 + d)
        else (s2, a2) in
      force_loop (S (length (tabk s3))) e s3 a3.

Definition warmup (s : shard) : bool := (0 <? cap s) && (size s * 2 <? cap s).

(* recordUpdate *)
Definition record_update (s : shard) (k : Z) : shard :=
  match find_item (main s) k with
  | Some it =>
    let it' := set_flags it (if reuse it <? maxItemReuse then reuse it + 1 else reuse it) true (unpub it) in
    sh_lists s (prob s) (replace_item (main s) it') (hand s)
  | None =>
    match find_item (prob s) k with
    | Some it =>
      let r := if reuse it <? maxItemReuse then reuse it + 1 else reuse it in
      let it' := set_flags it r (visited it) (unpub it) in
      let s1 := sh_lists s (replace_item (prob s) it') (main s) (hand s) in
      if (visited it || (probationPromotionReuse <=? r)) && (0 <? mcap s) then promote s1 it'
      else sh_lists s (replace_item (prob s) (set_flags it' r true (unpub it'))) (main s) (hand s)
    | None => s
    end
  end.

(* applySieve: returns (shard, committed, evictions) *)
Definition apply_sieve (e : env) (s : shard) (k v ex c : Z) : shard * bool * Z :=
  let wu := warmup s in
  match lookup s (e_pol e) k with
  | Some prev =>
    let it := {| key := k; val := v; exp := ex; cost := c; reuse := reuse prev; visited := visited prev; unpub := false |} in
    let s1 := if has_key (prob s) k then sh_lists s (replace_item (prob s) it) (main s) (hand s)
              else sh_lists s (prob s) (replace_item (main s) it) (hand s) in
    let s2 := sh_ghost (sh_set s1 (tabk s1) (lst s1) (lfu s1) (prob s1) (main s1) (hand s1) (size s1)
                     (scost s1 + (c - cost prev)) (staged s1)) [(1, k, val prev); (0, k, v)] [] in
    let s3 := if wu then s2 else record_update s2 k in
    if over_capacity s3 then let '(s4, d) := enforce e s3 None false in (s4, true, d) else (s3, true, 0)
  | None =>
    let '(s0, gh) :=
      let '(s', a) := pop_ev s evGhost in
      (adapts s', negb wu && match a with Some x => negb (x =? 0) | None => false end) in
    let to_main := gh && (0 <? mcap s0) in
    let it := {| key := k; val := v; exp := ex; cost := c; reuse := if to_main then 1 else 0;
                 visited := to_main; unpub := true |} in
    let s1 := sh_set s0 (tabk s0) (lst s0) (lfu s0)
                     (if to_main then prob s0 else it :: prob s0)
                     (if to_main then it :: main s0 else main s0)
                     (if to_main then match hand s0 with None => Some k | h => h end else hand s0)
                     (size s0 + 1) (scost s0 + c) (staged s0) in
    let s1 := sh_ghost s1 [(0, k, v)] [] in
    let s1 := if to_main then sh_stats s1 (admits s1) (rejects s1) (ghosthits s1 + 1) (promos s1) (pevicts s1) (mevicts s1) else s1 in
    let '(s2, d) := if negb wu || over_capacity s1 then enforce e s1 (Some k) gh else (s1, 0) in
    if owns s2 k then
      let pub := fun l => match find_item l k with Some x => replace_item l (set_flags x (reuse x) (visited x) false) | None => l end in
      let s3 := sh_set s2 (k :: tabk s2) (lst s2) (lfu s2) (pub (prob s2)) (pub (main s2)) (hand s2) (size s2) (scost s2) (staged s2) in
      (bump s3 1 0 0 0, true, d)
    else (bump s2 0 1 0 0, false, d)
  end.

(* applySet for LRU / LFU / FIFO *)
Definition apply_classic (e : env) (s : shard) (k v ex c : Z) : shard * bool * Z :=
  match lookup s (e_pol e) k with
  | Some old =>
    let it := {| key := k; val := v; exp := ex; cost := c; reuse := 0; visited := false; unpub := false |} in
    let l1 := if e_pol e =? policyLRU then it :: remove_key (lst s) k else replace_item (lst s) it in
    let f1 := if e_pol e =? policyLFU then lfu_add (lfu_remove (lfu s) k) k else lfu s in
    let s1 := sh_ghost (sh_set s (tabk s) l1 f1 (prob s) (main s) (hand s) (size s) (scost s + (c - cost old)) (staged s))
                       [(1, k, val old); (0, k, v)] [] in
    if over_capacity s1
    then let '(s2, d) := evict_while (S (length (tabk s1))) e s1 false 0 0 in (s2, true, d)
    else (s1, true, 0)
  | None =>
    let '(s1, d) := evict_while (S (length (tabk s))) e s true c 0 in
    let it := {| key := k; val := v; exp := ex; cost := c; reuse := 0; visited := false; unpub := false |} in
    (sh_ghost (sh_set s1 (k :: tabk s1) (it :: lst s1) (if e_pol e =? policyLFU then lfu_add (lfu s1) k else lfu s1)
            (prob s1) (main s1) (hand s1) (size s1 + 1) (scost s1 + c) (staged s1)) [(0, k, v)] [], true, d)
  end.

Definition apply_set (e : env) (s : shard) (k v ex c : Z) : shard * bool * Z :=
  if is_sieve s (e_pol e) then apply_sieve e (adapts s) k v ex c else apply_classic e s k v ex c.

(* ------------------------------------------------------------------ cache-level operations *)
Definition env_of (c : cache) : env := {| e_pol := policy c; e_stats := statsOn c; e_mask := mask c |}.

Definition get_shard (c : cache) (i : Z) : option shard := nth_error (shards c) (Z.to_nat i).
Fixpoint set_nth {A} (l : list A) (i : nat) (x : A) : list A :=
  match l, i with [], _ => [] | _ :: r, O => x :: r | y :: r, S j => y :: set_nth r j x end.
Definition put_shard (c : cache) (i : Z) (s : shard) hits' misses' ev' ex' : cache :=
  {| policy := policy c; nshards := nshards c; shards := set_nth (shards c) (Z.to_nat i) s;
     defttl := defttl c; statsOn := statsOn c; mask := mask c; trackCost := trackCost c;
     now := now c; closed := closed c; hits := hits'; misses := misses'; evictions := ev'; expirations := ex' |}.
Definition with_shards (c : cache) (l : list shard) (cl : bool) (t : Z) : cache :=
  {| policy := policy c; nshards := nshards c; shards := l;
     defttl := defttl c; statsOn := statsOn c; mask := mask c; trackCost := trackCost c;
     now := t; closed := cl; hits := hits c; misses := misses c; evictions := evictions c; expirations := expirations c |}.

(* TTL normalisation (setCommand) and saturating stamp *)
Definition norm_ttl (c : cache) (ttl : Z) : Z :=
  let t := if ttl =? defaultExpiration then defttl c else ttl in if 0 <? t then t else 0.
Definition stamp (ttl nw : Z) : Z :=
  if 0 <? ttl then (if (0 <? nw) && (max_int64 - nw <? ttl) then max_int64 else ttl + nw) else 0.

Definition expired (it : item) (nw : Z) : bool := (0 <? exp it) && (exp it <? nw).

(* one queued or synchronous Set applied to its shard *)
Definition apply_cmd (c : cache) (sh k v ttl cst : Z) : cache :=
  match get_shard c sh with
  | None => c
  | Some s =>
    let '(s1, _, d) := apply_set (env_of c) s k v (stamp ttl (now c)) cst in
    put_shard c sh s1 (hits c) (misses c) (evictions c + d) (expirations c)
  end.

(* drain the pending SetAsync commands of shard sh (FIFO) *)
Fixpoint drain_cmds (c : cache) (sh : Z) (cmds : list (list Z)) : cache :=
  match cmds with
  | [] => c
  | [k; v; ttl; cst] :: r => drain_cmds (apply_cmd c sh k v ttl cst) sh r
  | _ :: r => drain_cmds c sh r
  end.
Definition drain_shard (c : cache) (sh : Z) : cache :=
  match get_shard c sh with
  | None => c
  | Some s =>
    match pend s with
    | [] => c
    | cmds =>
      let c1 := put_shard c sh (sh_evs s (evs s) []) (hits c) (misses c) (evictions c) (expirations c) in
      drain_cmds c1 sh cmds
    end
  end.
Definition drain_all (c : cache) : cache :=
  fold_left drain_shard (zseq 0 (length (shards c))) c.

(* validation shared by Set and SetAsync: 0 ok, 1 invalid cost, 2 too large, 3 closed *)
Definition set_check (c : cache) (sh cst : Z) : Z :=
  if cst <? 0 then 1
  else match get_shard c sh with
       | Some s => if (0 <? costcap s) && (costcap s <? cst) then 2 else if closed c then 3 else 0
       | None => 4
       end.

Definition op_set (c : cache) (k v ttl cst sh : Z) : cache * Z :=
  let r := set_check c sh cst in
  if negb (r =? 0) then (c, r)
  else (apply_cmd (drain_shard c sh) sh k v (norm_ttl c ttl) cst, 0).

Definition op_set_async (c : cache) (k v ttl cst sh : Z) : cache * Z :=
  let r := set_check c sh cst in
  if negb (r =? 0) then (c, r)
  else match get_shard c sh with
       | Some s => (put_shard c sh (sh_evs s (evs s) (pend s ++ [[k; v; norm_ttl c ttl; cst]]))
                              (hits c) (misses c) (evictions c) (expirations c), 0)
       | None => (c, 4)
       end.

(* Get / GetWithTTL : (cache, ok, value, remaining) *)
Definition op_get (c : cache) (k sh : Z) : cache * bool * Z * Z :=
  if closed c then (c, false, 0, 0) else
  match get_shard c sh with
  | None => (c, false, 0, 0)
  | Some s0 =>
    let sieve := is_sieve s0 (policy c) in
    (* a Sieve miss helps drain its shard's queue first; the locked paths do not *)
    let c0 := if sieve && negb (memz (tabk s0) k) then drain_shard c sh else c in
    match get_shard c0 sh with
    | None => (c, false, 0, 0)
    | Some s =>
      let st := statsOn c0 in
      match lookup s (policy c0) k with
      | None => (put_shard c0 sh s (hits c0) (if st then misses c0 + 1 else misses c0) (evictions c0) (expirations c0), false, 0, 0)
      | Some it =>
        if expired it (now c0) then
          let '(s1, _, d) := drop_item (env_of c0) s it reasonExpired in
          (put_shard c0 sh (adapts s1) (hits c0) (if st then misses c0 + 1 else misses c0) (evictions c0 + d)
                     (if st then expirations c0 + 1 else expirations c0), false, 0, 0)
        else
          let s1 :=
            if sieve then
              (if warmup s then s
               else let it' := set_flags it (reuse it) true (unpub it) in
                    if has_key (prob s) k then sh_lists s (replace_item (prob s) it') (main s) (hand s)
                    else sh_lists s (prob s) (replace_item (main s) it') (hand s))
            else if policy c0 =? policyLRU then
              sh_set s (tabk s) (it :: remove_key (lst s) k) (lfu s) (prob s) (main s) (hand s) (size s) (scost s) (staged s)
            else if policy c0 =? policyLFU then
              sh_set s (tabk s) (lst s) (lfu_increment (lfu s) k) (prob s) (main s) (hand s) (size s) (scost s) (staged s)
            else s in
          (put_shard c0 sh (adapts s1) (if st then hits c0 + 1 else hits c0) (misses c0) (evictions c0) (expirations c0),
           true, val it, if exp it =? 0 then -1 else exp it - now c0)
      end
    end
  end.

Definition op_exists (c : cache) (k sh : Z) : cache * bool :=
  if closed c then (c, false) else
  match get_shard c sh with
  | None => (c, false)
  | Some s =>
    match lookup s (policy c) k with
    | None => (c, false)
    | Some it =>
      if expired it (now c) then
        let '(s1, _, d) := drop_item (env_of c) s it reasonExpired in
        (put_shard c sh s1 (hits c) (misses c) (evictions c + d)
                   (if statsOn c then expirations c + 1 else expirations c), false)
      else (c, true)
    end
  end.

Definition op_delete (c : cache) (k sh : Z) : cache * bool :=
  if closed c then (c, false) else
  let c0 := drain_shard c sh in
  match get_shard c0 sh with
  | None => (c0, false)
  | Some s =>
    match lookup s (policy c0) k with
    | None => (c0, false)
    | Some it =>
      let '(s1, ok, d) := drop_item (env_of c0) s it reasonDeleted in
      (put_shard c0 sh s1 (hits c0) (misses c0) (evictions c0 + d) (expirations c0), ok)
    end
  end.

Definition shard_items (s : shard) (pol : Z) : list item :=
  if is_sieve s pol then filter (fun it => negb (unpub it)) (prob s ++ main s) else lst s.

Definition op_keys (c : cache) : list Z :=
  if closed c then [] else
  flat_map (fun s => map key (filter (fun it => memz (tabk s) (key it) && ((exp it =? 0) || (now c <=? exp it)))
                                     (shard_items s (policy c)))) (shards c).

Definition clear_shard (pol : Z) (s : shard) : shard :=
  sh_ghost (sh_stats (sh_set s [] [] [] [] [] None 0 0 (staged s)) 0 0 0 0 0 0)
           (map (fun it => (2, key it, val it)) (filter (fun it => memz (tabk s) (key it)) (shard_items s pol))) [].

Definition op_clear (c : cache) : cache :=
  if closed c then c else
  let c0 := drain_all c in with_shards c0 (map (clear_shard (policy c0)) (shards c0)) (closed c0) (now c0).

Definition op_close (c : cache) : cache :=
  if closed c then c else
  let c0 := drain_all c in with_shards c0 (map (clear_shard (policy c0)) (shards c0)) true (now c0).

Definition cleanup_shard (e : env) (nw : Z) (acc : shard * Z * Z) (k : Z) : shard * Z * Z :=
  let '(s, ev, ex) := acc in
  match lookup s (e_pol e) k with
  | Some it => if expired it nw then
                 let '(s1, ok, d) := drop_item e s it reasonExpired in
                 (s1, ev + d, if ok && e_stats e then ex + 1 else ex)
               else acc
  | None => acc
  end.
Definition op_cleanup (c : cache) : cache :=
  if closed c then c else
  let step := fun (acc : list shard * Z * Z) (s : shard) =>
    let '(l, ev, ex) := acc in
    let '(s1, ev1, ex1) := fold_left (cleanup_shard (env_of c) (now c)) (tabk s) (s, ev, ex) in
    (l ++ [s1], ev1, ex1) in
  let '(l, ev, ex) := fold_left step (shards c) ([], evictions c, expirations c) in
  {| policy := policy c; nshards := nshards c; shards := l; defttl := defttl c; statsOn := statsOn c; mask := mask c;
     trackCost := trackCost c; now := now c; closed := closed c; hits := hits c; misses := misses c;
     evictions := ev; expirations := ex |}.

Definition total_size (c : cache) : Z := sumZ (map size (shards c)).
Definition total_cost (c : cache) : Z := if trackCost c then sumZ (map scost (shards c)) else total_size c.

(* ------------------------------------------------------------------ stream "cache" *)
(* attach recorded oracle events (kind, shard, a)* to the shards' queues *)
Fixpoint attach_events (c : cache) (l : list Z) : cache :=
  match l with
  | kind :: sh :: a :: r =>
    match get_shard c sh with
    | Some s => attach_events (put_shard c sh (sh_evs s (evs s ++ [(kind, a)]) (pend s))
                                         (hits c) (misses c) (evictions c) (expirations c)) r
    | None => attach_events c r
    end
  | _ => c
  end.

(* collect and reset the notifications staged during this operation, sorted by the driver *)
Definition take_staged (c : cache) : cache * list notif :=
  let ns := flat_map staged (shards c) in
  (with_shards c (map (fun s => sh_set s (tabk s) (lst s) (lfu s) (prob s) (main s) (hand s) (size s) (scost s) []) (shards c))
               (closed c) (now c), ns).

Fixpoint insert_notif (n : notif) (l : list notif) : list notif :=
  match l with
  | [] => [n]
  | m :: r =>
    if (nkey n <? nkey m) || ((nkey n =? nkey m) && ((nval n <? nval m) || ((nval n =? nval m) && (nreason n <=? nreason m))))
    then n :: l else m :: insert_notif n r
  end.
Definition sort_notifs (l : list notif) : list notif := fold_right insert_notif [] l.
Fixpoint insert_z (x : Z) (l : list Z) : list Z :=
  match l with [] => [x] | y :: r => if x <=? y then x :: l else y :: insert_z x r end.
Definition sort_z (l : list Z) : list Z := fold_right insert_z [] l.

Definition quiescent (c : cache) : bool :=
  forallb (fun s => match pend s with [] => true | _ => false end) (shards c).
Definition errs (c : cache) : Z := fold_left (fun a s => if a =? 0 then serr s else a) (shards c) 0.
Definition leftover (c : cache) : Z :=
  fold_left (fun a s => match pend s, evs s with [], _ :: _ => a + 1 | _, _ => a end) (shards c) 0.

Definition finish (c : cache) (res : list Z) : cache * list Z :=
  if quiescent c then
    let '(c1, ns) := take_staged (with_shards c (map adapts (shards c)) (closed c) (now c)) in
    (c1, res ++ [-7; errs c1; leftover c1] ++ flat_map (fun n => [nkey n; nval n; nreason n]) (sort_notifs ns))
  else (c, res ++ [-8]).

Definition split_args (n : nat) (l : list Z) : list Z * list Z := (firstn n l, skipn n l).

Definition cache_step (c : cache) (op : list Z) : cache * list Z :=
  match op with
  | 1 :: rest => let '(a, ev) := split_args 5 rest in
      match a with [k; v; ttl; cst; sh] =>
        let '(c1, r) := op_set (attach_events c ev) k v ttl cst sh in finish c1 [r]
      | _ => (c, [-1]) end
  | 2 :: rest => let '(a, ev) := split_args 2 rest in
      match a with [k; sh] =>
        let '(c1, ok, v, _) := op_get (attach_events c ev) k sh in finish c1 [b2z ok; v]
      | _ => (c, [-1]) end
  | 3 :: rest => let '(a, ev) := split_args 2 rest in
      match a with [k; sh] =>
        let '(c1, ok, v, t) := op_get (attach_events c ev) k sh in finish c1 [b2z ok; v; if ok then t else 0]
      | _ => (c, [-1]) end
  | 4 :: rest => let '(a, ev) := split_args 2 rest in
      match a with [k; sh] => let '(c1, b) := op_exists (attach_events c ev) k sh in finish c1 [b2z b]
      | _ => (c, [-1]) end
  | 5 :: rest => let '(a, ev) := split_args 2 rest in
      match a with [k; sh] => let '(c1, b) := op_delete (attach_events c ev) k sh in finish c1 [b2z b]
      | _ => (c, [-1]) end
  | 6 :: ev => let c1 := attach_events c ev in finish c1 (sort_z (op_keys c1))
  | 7 :: ev => finish (op_clear (attach_events c ev)) []
  | 8 :: ev => finish (op_cleanup (attach_events c ev)) []
  | 9 :: d :: ev => let c1 := attach_events c ev in
      let c2 := with_shards c1 (shards c1) (closed c1) (now c1 + d) in finish c2 [now c2]
  | 10 :: ev => let c1 := attach_events c ev in
      finish c1 [total_size c1; total_cost c1; hits c1; misses c1; evictions c1; expirations c1]
  | 11 :: rest => let '(a, ev) := split_args 5 rest in
      match a with [k; v; ttl; cst; sh] =>
        let '(c1, r) := op_set_async (attach_events c ev) k v ttl cst sh in finish c1 [r]
      | _ => (c, [-1]) end
  | 12 :: ev => let c1 := attach_events c ev in
      if closed c1 then finish c1 [3] else finish (drain_all c1) [0]
  | 13 :: ev => finish (op_close (attach_events c ev)) []
  | 15 :: ev => let c1 := attach_events c ev in
      finish c1 [sumZ (map admits (shards c1)); sumZ (map rejects (shards c1)); sumZ (map ghosthits (shards c1));
                 sumZ (map promos (shards c1)); sumZ (map pevicts (shards c1)); sumZ (map mevicts (shards c1))]
  | 16 :: ev => let c1 := attach_events c ev in
      finish c1 (flat_map (fun s => [size s; scost s]) (shards c1))
  | _ => (c, [-1])
  end.

(* configuration: the 12 Config fields + ncpu, then listener mask, weigher?(trackCost override), clock *)
Definition new_shard (cfg : config) (n i : Z) : shard :=
  let cp := shard_cap cfg n i in
  let sg := sieve_segs (Z.max cp 1) (ProbationRatio cfg) (GhostRatio cfg) in
  {| cap := cp; costcap := shard_cost_cap cfg n i; tabk := []; lst := []; lfu := []; prob := []; main := []; hand := None;
     pcap := pc sg; mcap := mc sg; pmin := lo sg; pmax := hi sg; size := 0; scost := 0; staged := []; evs := []; pend := [];
     admits := 0; rejects := 0; ghosthits := 0; promos := 0; pevicts := 0; mevicts := 0; serr := 0; glog := []; nlog := [] |}.

Definition cache_init (l : list Z) : cache :=
  match decode_config (firstn 13 l), skipn 13 l with
  | Some (cfg, ncpu), [msk; weigher; t0] =>
    let n := shard_count cfg ncpu in
    {| policy := effective_policy cfg; nshards := n;
       shards := map (new_shard cfg n) (zseq 0 (Z.to_nat n));
       defttl := DefaultTTL cfg; statsOn := z2b (StatsEnabled cfg); mask := msk;
       trackCost := track_cost cfg || z2b weigher; now := t0; closed := false;
       hits := 0; misses := 0; evictions := 0; expirations := 0 |}
  | _, _ => {| policy := 0; nshards := 0; shards := []; defttl := 0; statsOn := false; mask := 0; trackCost := false;
              now := 0; closed := false; hits := 0; misses := 0; evictions := 0; expirations := 0 |}
  end.
