(* C06 — every entry that leaves is reported exactly once. TtlProofs.v (cache level, ghost log glog / notification log nlog) over the shard-level Ledger/NotifLog invariants. Only `exact` + Print Assumptions. *)
Require Import KV.Base KV.Gen.Consts KV.ConfigModel KV.CacheModel KV.ClassicProofs KV.SieveProofs KV.CacheProofs KV.TtlProofs KV.MutexAtomicity.
Open Scope Z_scope.

(* for every (k,v), after every history: #written = #resident + #replaced + #cleared + #dropped (summed over shards) *)
Theorem c06_conservation_all_histories :
  forall (l : list Z) (cfg : config) (ncpu msk weigher t0 : Z) (ops : list (CA.cop * list Z))
           (k v : Z),
         decode_config (firstn 13 l) = Some (cfg, ncpu) ->
         skipn 13 l = [msk; weigher; t0] ->
         validate cfg = None ->
         1 <= ncpu ->
         ShardCount cfg <= 2 ^ 62 ->
         let c := CA.crun (cache_init l) ops in
         sum_shards (fun s : shard => cnt (is_tag 0 k v) (glog s)) c =
         sum_shards (fun s : shard => cnt (is_kv k v) (all_items s)) c +
         sum_shards (fun s : shard => cnt (is_tag 1 k v) (glog s)) c +
         sum_shards (fun s : shard => cnt (is_tag 2 k v) (glog s)) c +
         sum_shards (fun s : shard => cnt (is_drop k v) (glog s)) c.
Proof. exact TtlProofs.c06_conservation_run. Qed.

(* the same as a state invariant *)
Theorem c06_conservation :
  forall (c : cache) (k v : Z),
         TInv c ->
         sum_shards (fun s : shard => cnt (is_tag 0 k v) (glog s)) c =
         sum_shards (fun s : shard => cnt (is_kv k v) (all_items s)) c +
         sum_shards (fun s : shard => cnt (is_tag 1 k v) (glog s)) c +
         sum_shards (fun s : shard => cnt (is_tag 2 k v) (glog s)) c +
         sum_shards (fun s : shard => cnt (is_drop k v) (glog s)) c.
Proof. exact TtlProofs.c06_conservation. Qed.

(* nlog = the dropped entries whose reason bit is in the listener mask, in order, once each *)
Theorem c06_notifications_are_the_drops :
  forall (c : cache) (sh : Z) (s : shard),
         TInv c ->
         get_shard c sh = Some s ->
         nlog s = notifs_of (mask c) (glog s) /\
         (forall n : notif,
          In n (nlog s) ->
          In (10 + nreason n, nkey n, nval n) (glog s) /\ mask_has (mask c) (nreason n) = true) /\
         Z.of_nat (length (nlog s)) <= cnt is_dropped (glog s).
Proof. exact TtlProofs.c06_notifications. Qed.

(* each operation extends every shard's notification log by exactly the masked image of what it dropped *)
Theorem c06_step_delta :
  forall (c : cache) (op : CA.cop) (ev : list Z) (i : nat) (s : shard),
         TInv c ->
         nth_error (shards c) i = Some s ->
         exists (s' : shard) (delta : list (Z * Z * Z)),
           nth_error (shards (fst (CA.cstep_full c op ev))) i = Some s' /\
           glog s' = glog s ++ delta /\
           nlog s' = nlog s ++ notifs_of (mask c) delta /\
           Forall (entry_just (policy c) (now c) op i) delta.
Proof. exact TtlProofs.c06_full_step_delta. Qed.

(* the clearing step of Clear/Close stages and notifies nothing *)
Theorem c06_clear_stages_nothing :
  forall c : cache,
         closed c = false ->
         shards (op_clear c) = map (clear_shard (policy c)) (shards (drain_all c)) /\
         shards (op_close c) = map (clear_shard (policy c)) (shards (drain_all c)) /\
         (forall s : shard,
          staged (clear_shard (policy c) s) = staged s /\ nlog (clear_shard (policy c) s) = nlog s).
Proof. exact TtlProofs.c06_clear_stages_nothing. Qed.

(* an entry whose last event is a drop or clear is not resident, Exists false, not listed; Get misses when nothing is queued *)
Theorem c06_not_readable :
  forall (c : cache) (sh : Z) (s : shard) (k t v : Z),
         TInv c ->
         get_shard c sh = Some s ->
         lastev (glog s) k = Some (t, v) ->
         t <> 0 ->
         resident c sh k = None /\
         (forall (c' : cache) (b : bool), op_exists c k sh = (c', b) -> b = false) /\
         (pend s = [] ->
          forall (c' : cache) (ok : bool) (v' r : Z), op_get c k sh = (c', ok, v', r) -> ok = false) /\
         ~ In k (shard_keys (policy c) (now c) s).
Proof. exact TtlProofs.c06_not_readable. Qed.

(* a resident entry's last event is its own write: nothing is reported for an entry still readable *)
Theorem c06_resident_last_written :
  forall (c : cache) (sh k : Z) (it : item) (s : shard),
         TInv c ->
         get_shard c sh = Some s -> resident c sh k = Some it -> lastev (glog s) k = Some (0, val it).
Proof. exact TtlProofs.c06_resident_last_written. Qed.

(* reason classification: deleted only from Delete of that key; expired only for 0<deadline<now met by Get/Exists/Cleanup; capacity/rejected only while writes are applied; rejected only under Sieve *)
Theorem c06_reasons :
  forall (pol nw : Z) (op : CA.cop) (i : nat) (x : Z * Z * Z),
         entry_just pol nw op i x ->
         (gtag x = 10 + reasonDeleted ->
          exists sh : Z, op = CA.CDelete (gkey x) sh /\ i = Z.to_nat sh) /\
         (gtag x = 10 + reasonExpired ->
          (exists it : item, key it = gkey x /\ val it = gval x /\ 0 < exp it < nw) /\
          (op = CA.CCleanup \/
           (exists sh : Z,
              i = Z.to_nat sh /\
              (op = CA.CGet (gkey x) sh \/ op = CA.CGetTTL (gkey x) sh \/ op = CA.CExists (gkey x) sh)))) /\
         (gtag x = 10 + reasonCapacity -> applies_writes pol op i) /\
         (gtag x = 10 + reasonRejected -> pol = policySieve /\ applies_writes pol op i) /\
         (gtag x = 0 \/ gtag x = 1 -> applies_writes pol op i) /\
         (gtag x = 2 -> op = CA.CClear \/ op = CA.CClose) /\
         (gtag x = 0 \/
          gtag x = 1 \/
          gtag x = 2 \/
          gtag x = 10 + reasonCapacity \/
          gtag x = 10 + reasonRejected \/ gtag x = 10 + reasonExpired \/ gtag x = 10 + reasonDeleted).
Proof. exact TtlProofs.c06_reasons. Qed.

(* drops of one write: distinct keys, gone afterwards, capacity=>published, unpublished=>the write's own rejected candidate *)
Theorem c06_write_drops :
  forall (pol m : Z) (e : env) (s : shard) (k v ex0 c : Z) (s' : shard) (cm : bool) (d : Z),
         e_pol e = pol ->
         e_mask e = m ->
         ShInv pol m s ->
         0 <= c ->
         apply_set e s k v ex0 c = (s', cm, d) ->
         exists dl : list (item * Z),
           (glog s' = glog s ++ wlog (lookup s pol k) k v ++ map SP.dent dl \/
            glog s' = glog s ++ map SP.dent dl ++ wlog (lookup s pol k) k v /\ ~ In k (map dkey dl)) /\
           nlog s' = nlog s ++ dnotes m dl /\
           staged s' = staged s ++ dnotes m dl /\
           NoDup (map dkey dl) /\
           Forall
             (fun p : item * Z =>
              lookup s' pol (dkey p) = None /\
              (snd p = reasonCapacity /\ unpub (fst p) = false \/
               snd p = reasonRejected /\ is_sieve s pol = true) /\
              (unpub (fst p) = true -> snd p = reasonRejected /\ dkey p = k /\ val (fst p) = v) /\
              (dkey p = k /\ val (fst p) = v \/
               dkey p <> k /\ lke pol s (dkey p) = Some (SP.ess (fst p)))) dl /\
           d =
           (if e_stats e
            then Z.of_nat (length (filter (fun p : item * Z => snd p =? reasonCapacity) dl))
            else 0) /\
           (forall old : item,
            lookup s pol k = Some old ->
            over_capacity s = false -> costcap s <= 0 \/ c <= cost old -> dl = []).
Proof. exact TtlProofs.c06_write_drops. Qed.

(* Sieve shard: exact shape of the ghost/notification logs of one write; eviction counter = number of capacity drops *)
Theorem c06_sieve_reasons :
  forall e : env,
         e_pol e = policySieve ->
         forall (s : shard) (k v ex0 c : Z) (s' : shard) (cm : bool) (d : Z),
         SInv s ->
         Quiet s ->
         0 <= c ->
         apply_sieve e s k v ex0 c = (s', cm, d) ->
         exists dl : list (item * Z),
           glog s' =
           glog s ++
           match lookup s (e_pol e) k with
           | Some prev => [(1, k, val prev); (0, k, v)]
           | None => [(0, k, v)]
           end ++ map dent dl /\
           nlog s' = nlog s ++ dnots e dl /\
           staged s' = staged s ++ dnots e dl /\
           Forall
             (fun p : item * Z =>
              (snd p = reasonCapacity \/ snd p = reasonRejected) /\
              (unpub (fst p) = true -> snd p = reasonRejected) /\
              (snd p = reasonCapacity -> unpub (fst p) = false)) dl /\
           d =
           (if e_stats e
            then Z.of_nat (length (filter (fun p : item * Z => snd p =? reasonCapacity) dl))
            else 0).
Proof. exact SieveProofs.apply_sieve_reasons. Qed.

(* Sieve shard: Ledger preserved by every write *)
Theorem c06_sieve_ledger :
  forall e : env,
         e_pol e = policySieve ->
         forall (s : shard) (k v ex c : Z) (s' : shard) (cm : bool) (d : Z),
         SInv s ->
         Quiet s -> 0 <= c -> Ledger s -> apply_sieve e s k v ex c = (s', cm, d) -> Ledger s'.
Proof. exact SieveProofs.apply_sieve_ledger. Qed.

(* Sieve shard: NotifLog preserved by every write *)
Theorem c06_sieve_notiflog :
  forall e : env,
         e_pol e = policySieve ->
         forall (s : shard) (k v ex c : Z) (s' : shard) (cm : bool) (d : Z),
         SInv s ->
         Quiet s ->
         0 <= c ->
         NotifLog (e_mask e) s -> apply_sieve e s k v ex c = (s', cm, d) -> NotifLog (e_mask e) s'.
Proof. exact SieveProofs.apply_sieve_notiflog. Qed.

(* an update CAN displace another entry (weighted): only the replaced value itself is silent *)
Theorem c06_literal_refuted_update :
  let c1 := fst (op_set ex_weighted_lru 1 10 0 5 0) in
         let c2 := fst (op_set c1 2 20 0 5 0) in
         let c3 := fst (op_set c2 1 11 0 6 0) in
         (map nview (staged (shard0 c2)), map nview (staged (shard0 c3)), 
          glog (shard0 c3), evictions c3,
          map (fun it : item => (key it, val it, cost it)) (lst (shard0 c3))) =
         ([], [(2, 20, 0)], [(0, 1, 10); (0, 2, 20); (1, 1, 10); (0, 1, 11); (10, 2, 20)], 1,
          [(1, 11, 6)]).
Proof. exact TtlProofs.c06_update_stages_nothing_refuted. Qed.

(* Clear drains queued writes first, and that drain can evict (and notify) *)
Theorem c06_literal_refuted_clear :
  let q := fun (c : cache) (k : Z) => fst (op_set_async c k (k * 10) 0 1 0) in
         let c5 := q (q (q (q (q ex_lru 1) 2) 3) 4) 5 in
         let c6 := op_clear c5 in
         (map nview (staged (shard0 c5)), map nview (staged (shard0 c6)), 
          op_keys c6, size (shard0 c6)) = ([], [(1, 10, 0)], [], 0).
Proof. exact TtlProofs.c06_clear_stages_nothing_refuted. Qed.

(* non-vacuity: Sieve shard with notifications *)
Theorem c06_example :
  let c1 := fst (op_set (attach_events ex_sieve [1; 0; 0]) 1 10 5 1 0) in
         let c2 := fst (op_set (attach_events c1 [1; 0; 0]) 2 20 0 1 0) in
         let g1 := op_get (advance c2 5) 1 0 in
         let e2 := op_exists (advance c2 6) 1 0 in
         let c3 := fst e2 in
         (is_sieve (shard0 c2) (policy c2), errs c2,
          map (fun it : item => (key it, val it, exp it)) (prob (shard0 c2) ++ main (shard0 c2)),
          gres g1, snd e2, glog (shard0 c3), map nview (nlog (shard0 c3)), 
          expirations c3, op_keys c3, gres (op_get c3 1 0), lastev (glog (shard0 c3)) 1) =
         (true, 0, [(2, 20, 0); (1, 10, 105)], (true, 10, 0), false,
          [(0, 1, 10); (0, 2, 20); (12, 1, 10)], [(1, 10, 2)], 1, [2], (false, 0, 0), 
          Some (12, 10)).
Proof. exact TtlProofs.ex_ttl_sieve. Qed.

Print Assumptions c06_conservation_all_histories.
Print Assumptions c06_conservation.
Print Assumptions c06_notifications_are_the_drops.
Print Assumptions c06_step_delta.
Print Assumptions c06_clear_stages_nothing.
Print Assumptions c06_not_readable.
Print Assumptions c06_resident_last_written.
Print Assumptions c06_reasons.
Print Assumptions c06_write_drops.
Print Assumptions c06_sieve_reasons.
Print Assumptions c06_sieve_ledger.
Print Assumptions c06_sieve_notiflog.
Print Assumptions c06_literal_refuted_update.
Print Assumptions c06_literal_refuted_clear.
Print Assumptions c06_example.
