(* C06 — every entry that leaves is reported exactly once. TtlProofs.v (cache level, ghost log glog / notification log nlog) over the shard-level Ledger/NotifLog invariants. Only `exact` + Print Assumptions. Delivery (NotifierProofs.v): the staging buffers, the pending flags, the coalescing wake token and the single notifier goroutine as an LTS, for any number of shards and mutators, every schedule and select choice, listeners that re-enter the cache. *)
Require Import KV.Base KV.Gen.Consts KV.ConfigModel KV.CacheModel KV.ClassicProofs KV.SieveProofs KV.CacheProofs KV.TtlProofs KV.MutexAtomicity KV.NotifierLts KV.NotifierProofs.
Open Scope Z_scope.

(* for every (k,v), after every history: #written = #resident + #replaced + #cleared + #dropped (summed over shards) *)
Theorem c06_conservation_all_histories :
  forall (l : list Z) (cfg : config) (ncpu msk weigher t0 : Z) (ops : list (CA.cop * list Z))
           (k v : Z),
         decode_config (firstn 13 l) = Some (cfg, ncpu) ->
         skipn 13 l = [msk; weigher; t0] ->
         validate cfg = None ->
         1 <= ncpu ->
         ShardCount cfg <= 2 ^ 62 ->
         let c := CA.crun (cache_init l) ops in
         sum_shards (fun s : CacheModel.shard => cnt (is_tag 0 k v) (glog s)) c =
         sum_shards (fun s : CacheModel.shard => cnt (is_kv k v) (all_items s)) c +
         sum_shards (fun s : CacheModel.shard => cnt (is_tag 1 k v) (glog s)) c +
         sum_shards (fun s : CacheModel.shard => cnt (is_tag 2 k v) (glog s)) c +
         sum_shards (fun s : CacheModel.shard => cnt (is_drop k v) (glog s)) c.
Proof. exact TtlProofs.c06_conservation_run. Qed.

(* the same as a state invariant *)
Theorem c06_conservation :
  forall (c : cache) (k v : Z),
         TInv c ->
         sum_shards (fun s : CacheModel.shard => cnt (is_tag 0 k v) (glog s)) c =
         sum_shards (fun s : CacheModel.shard => cnt (is_kv k v) (all_items s)) c +
         sum_shards (fun s : CacheModel.shard => cnt (is_tag 1 k v) (glog s)) c +
         sum_shards (fun s : CacheModel.shard => cnt (is_tag 2 k v) (glog s)) c +
         sum_shards (fun s : CacheModel.shard => cnt (is_drop k v) (glog s)) c.
Proof. exact TtlProofs.c06_conservation. Qed.

(* nlog = the dropped entries whose reason bit is in the listener mask, in order, once each *)
Theorem c06_notifications_are_the_drops :
  forall (c : cache) (sh : Z) (s : CacheModel.shard),
         TInv c ->
         get_shard c sh = Some s ->
         nlog s = notifs_of (mask c) (glog s) /\
         (forall n : notif,
          In n (nlog s) ->
          In (10 + nreason n, nkey n, nval n) (glog s) /\ mask_has (mask c) (nreason n) = true) /\
         Z.of_nat (length (nlog s)) <= cnt is_dropped (glog s).
Proof. exact TtlProofs.c06_notifications. Qed.

(* each operation extends every shard's notification log by exactly the masked image of what it dropped *)
Theorem c06_step_delta :
  forall (c : cache) (op : CA.cop) (ev : list Z) (i : nat) (s : CacheModel.shard),
         TInv c ->
         nth_error (CacheModel.shards c) i = Some s ->
         exists (s' : CacheModel.shard) (delta : list (Z * Z * Z)),
           nth_error (CacheModel.shards (fst (CA.cstep_full c op ev))) i = Some s' /\
           glog s' = glog s ++ delta /\
           nlog s' = nlog s ++ notifs_of (mask c) delta /\
           Forall (entry_just (policy c) (now c) op i) delta.
Proof. exact TtlProofs.c06_full_step_delta. Qed.

(* the clearing step of Clear/Close stages and notifies nothing *)
Theorem c06_clear_stages_nothing :
  forall c : cache,
         closed c = false ->
         CacheModel.shards (op_clear c) =
         map (clear_shard (policy c)) (CacheModel.shards (drain_all c)) /\
         CacheModel.shards (op_close c) =
         map (clear_shard (policy c)) (CacheModel.shards (drain_all c)) /\
         (forall s : CacheModel.shard,
          CacheModel.staged (clear_shard (policy c) s) = CacheModel.staged s /\
          nlog (clear_shard (policy c) s) = nlog s).
Proof. exact TtlProofs.c06_clear_stages_nothing. Qed.

(* an entry whose last event is a drop or clear is not resident, Exists false, not listed; Get misses when nothing is queued *)
Theorem c06_not_readable :
  forall (c : cache) (sh : Z) (s : CacheModel.shard) (k t v : Z),
         TInv c ->
         get_shard c sh = Some s ->
         lastev (glog s) k = Some (t, v) ->
         t <> 0 ->
         resident c sh k = None /\
         (forall (c' : cache) (b : bool), op_exists c k sh = (c', b) -> b = false) /\
         (pend s = [] ->
          forall (c' : cache) (ok : bool) (v' r : Z), op_get c k sh = (c', ok, v', r) -> ok = false) /\
         ~ In k (shard_keys (policy c) (now c) s).
Proof. exact TtlProofs.c06_not_readable. Qed.

(* a resident entry's last event is its own write: nothing is reported for an entry still readable *)
Theorem c06_resident_last_written :
  forall (c : cache) (sh k : Z) (it : item) (s : CacheModel.shard),
         TInv c ->
         get_shard c sh = Some s -> resident c sh k = Some it -> lastev (glog s) k = Some (0, val it).
Proof. exact TtlProofs.c06_resident_last_written. Qed.

(* reason classification: deleted only from Delete of that key; expired only for 0<deadline<now met by Get/Exists/Cleanup; capacity/rejected only while writes are applied; rejected only under Sieve *)
Theorem c06_reasons :
  forall (pol nw : Z) (op : CA.cop) (i : nat) (x : Z * Z * Z),
         entry_just pol nw op i x ->
         (gtag x = 10 + reasonDeleted ->
          exists sh : Z, op = CA.CDelete (gkey x) sh /\ i = Z.to_nat sh) /\
         (gtag x = 10 + reasonExpired ->
          (exists it : item, key it = gkey x /\ val it = gval x /\ 0 < exp it < nw) /\
          (op = CA.CCleanup \/
           (exists sh : Z,
              i = Z.to_nat sh /\
              (op = CA.CGet (gkey x) sh \/ op = CA.CGetTTL (gkey x) sh \/ op = CA.CExists (gkey x) sh)))) /\
         (gtag x = 10 + reasonCapacity -> applies_writes pol op i) /\
         (gtag x = 10 + reasonRejected -> pol = policySieve /\ applies_writes pol op i) /\
         (gtag x = 0 \/ gtag x = 1 -> applies_writes pol op i) /\
         (gtag x = 2 -> op = CA.CClear \/ op = CA.CClose) /\
         (gtag x = 0 \/
          gtag x = 1 \/
          gtag x = 2 \/
          gtag x = 10 + reasonCapacity \/
          gtag x = 10 + reasonRejected \/ gtag x = 10 + reasonExpired \/ gtag x = 10 + reasonDeleted).
Proof. exact TtlProofs.c06_reasons. Qed.

(* drops of one write: distinct keys, gone afterwards, capacity=>published, unpublished=>the write's own rejected candidate *)
Theorem c06_write_drops :
  forall (pol m : Z) (e : env) (s : CacheModel.shard) (k v ex0 c : Z) 
           (s' : CacheModel.shard) (cm : bool) (d : Z),
         e_pol e = pol ->
         e_mask e = m ->
         ShInv pol m s ->
         0 <= c ->
         apply_set e s k v ex0 c = (s', cm, d) ->
         exists dl : list (item * Z),
           (glog s' = glog s ++ wlog (lookup s pol k) k v ++ map SP.dent dl \/
            glog s' = glog s ++ map SP.dent dl ++ wlog (lookup s pol k) k v /\ ~ In k (map dkey dl)) /\
           nlog s' = nlog s ++ dnotes m dl /\
           CacheModel.staged s' = CacheModel.staged s ++ dnotes m dl /\
           NoDup (map dkey dl) /\
           Forall
             (fun p : item * Z =>
              lookup s' pol (dkey p) = None /\
              (snd p = reasonCapacity /\ unpub (fst p) = false \/
               snd p = reasonRejected /\ is_sieve s pol = true) /\
              (unpub (fst p) = true -> snd p = reasonRejected /\ dkey p = k /\ val (fst p) = v) /\
              (dkey p = k /\ val (fst p) = v \/
               dkey p <> k /\ lke pol s (dkey p) = Some (SP.ess (fst p)))) dl /\
           d =
           (if e_stats e
            then Z.of_nat (length (filter (fun p : item * Z => snd p =? reasonCapacity) dl))
            else 0) /\
           (forall old : item,
            lookup s pol k = Some old ->
            over_capacity s = false -> costcap s <= 0 \/ c <= cost old -> dl = []).
Proof. exact TtlProofs.c06_write_drops. Qed.

(* Sieve shard: exact shape of the ghost/notification logs of one write; eviction counter = number of capacity drops *)
Theorem c06_sieve_reasons :
  forall e : env,
         e_pol e = policySieve ->
         forall (s : CacheModel.shard) (k v ex0 c : Z) (s' : CacheModel.shard) (cm : bool) (d : Z),
         SInv s ->
         Quiet s ->
         0 <= c ->
         apply_sieve e s k v ex0 c = (s', cm, d) ->
         exists dl : list (item * Z),
           glog s' =
           glog s ++
           match lookup s (e_pol e) k with
           | Some prev => [(1, k, val prev); (0, k, v)]
           | None => [(0, k, v)]
           end ++ map dent dl /\
           nlog s' = nlog s ++ dnots e dl /\
           CacheModel.staged s' = CacheModel.staged s ++ dnots e dl /\
           Forall
             (fun p : item * Z =>
              (snd p = reasonCapacity \/ snd p = reasonRejected) /\
              (unpub (fst p) = true -> snd p = reasonRejected) /\
              (snd p = reasonCapacity -> unpub (fst p) = false)) dl /\
           d =
           (if e_stats e
            then Z.of_nat (length (filter (fun p : item * Z => snd p =? reasonCapacity) dl))
            else 0).
Proof. exact SieveProofs.apply_sieve_reasons. Qed.

(* Sieve shard: Ledger preserved by every write *)
Theorem c06_sieve_ledger :
  forall e : env,
         e_pol e = policySieve ->
         forall (s : CacheModel.shard) (k v ex c : Z) (s' : CacheModel.shard) (cm : bool) (d : Z),
         SInv s ->
         Quiet s -> 0 <= c -> Ledger s -> apply_sieve e s k v ex c = (s', cm, d) -> Ledger s'.
Proof. exact SieveProofs.apply_sieve_ledger. Qed.

(* Sieve shard: NotifLog preserved by every write *)
Theorem c06_sieve_notiflog :
  forall e : env,
         e_pol e = policySieve ->
         forall (s : CacheModel.shard) (k v ex c : Z) (s' : CacheModel.shard) (cm : bool) (d : Z),
         SInv s ->
         Quiet s ->
         0 <= c ->
         NotifLog (e_mask e) s -> apply_sieve e s k v ex c = (s', cm, d) -> NotifLog (e_mask e) s'.
Proof. exact SieveProofs.apply_sieve_notiflog. Qed.

(* an update CAN displace another entry (weighted): only the replaced value itself is silent *)
Theorem c06_literal_refuted_update :
  let c1 := fst (op_set ex_weighted_lru 1 10 0 5 0) in
         let c2 := fst (op_set c1 2 20 0 5 0) in
         let c3 := fst (op_set c2 1 11 0 6 0) in
         (map nview (CacheModel.staged (shard0 c2)), map nview (CacheModel.staged (shard0 c3)),
          glog (shard0 c3), evictions c3,
          map (fun it : item => (key it, val it, cost it)) (lst (shard0 c3))) =
         ([], [(2, 20, 0)], [(0, 1, 10); (0, 2, 20); (1, 1, 10); (0, 1, 11); (10, 2, 20)], 1,
          [(1, 11, 6)]).
Proof. exact TtlProofs.c06_update_stages_nothing_refuted. Qed.

(* Clear drains queued writes first, and that drain can evict (and notify) *)
Theorem c06_literal_refuted_clear :
  let q := fun (c : cache) (k : Z) => fst (op_set_async c k (k * 10) 0 1 0) in
         let c5 := q (q (q (q (q ex_lru 1) 2) 3) 4) 5 in
         let c6 := op_clear c5 in
         (map nview (CacheModel.staged (shard0 c5)), map nview (CacheModel.staged (shard0 c6)),
          op_keys c6, size (shard0 c6)) = ([], [(1, 10, 0)], [], 0).
Proof. exact TtlProofs.c06_clear_stages_nothing_refuted. Qed.

(* non-vacuity: Sieve shard with notifications *)
Theorem c06_example :
  let c1 := fst (op_set (attach_events ex_sieve [1; 0; 0]) 1 10 5 1 0) in
         let c2 := fst (op_set (attach_events c1 [1; 0; 0]) 2 20 0 1 0) in
         let g1 := op_get (advance c2 5) 1 0 in
         let e2 := op_exists (advance c2 6) 1 0 in
         let c3 := fst e2 in
         (is_sieve (shard0 c2) (policy c2), errs c2,
          map (fun it : item => (key it, val it, exp it)) (prob (shard0 c2) ++ main (shard0 c2)),
          gres g1, snd e2, glog (shard0 c3), map nview (nlog (shard0 c3)), 
          expirations c3, op_keys c3, gres (op_get c3 1 0), lastev (glog (shard0 c3)) 1) =
         (true, 0, [(2, 20, 0); (1, 10, 105)], (true, 10, 0), false,
          [(0, 1, 10); (0, 2, 20); (12, 1, 10)], [(1, 10, 2)], 1, [2], (false, 0, 0), 
          Some (12, 10)).
Proof. exact TtlProofs.ex_ttl_sieve. Qed.

(* every delivered notification was staged, none is delivered twice, and per shard the delivery order is the staging order *)
Theorem c06_delivery_at_most_once_fifo :
  forall (re : Z -> option (nat * Z)) (n : nat) (scripts : list (list (nat * Z))) (s : state),
         reachable re n scripts s ->
         (NoDup (map snd (staged s)) -> NoDup (map snd (delivered s))) /\
         (forall p : nat * Z,
          (count_occ pair_dec (delivered s) p <= count_occ pair_dec (staged s) p)%nat) /\
         (forall sh : nat, exists rest : list Z, proj sh (staged s) = proj sh (delivered s) ++ rest).
Proof. exact NotifierProofs.at_most_once_no_fabrication_fifo. Qed.

(* per shard, at every instant: staged = delivered ++ in the notifier's hand ++ still buffered *)
Theorem c06_delivery_conservation :
  forall (re : Z -> option (nat * Z)) (n : nat) (scripts : list (list (nat * Z))) 
           (s : state) (sh : nat),
         reachable re n scripts s ->
         proj sh (staged s) = proj sh (delivered s) ++ inhand s sh ++ buf (shards s sh).
Proof. exact NotifierProofs.conservation. Qed.

(* a pending flag seen while the notifier is parked is always backed by a wake token or by a mutator about to signal (flag is stored BEFORE the signal; the reverse order loses a wake-up: signal_before_flag_loses_wake) *)
Theorem c06_delivery_no_lost_wake :
  forall (re : Z -> option (nat * Z)) (n : nat) (scripts : list (list (nat * Z))) 
           (s : state) (sh : nat),
         reachable re n scripts s ->
         closeCh s = false ->
         pending (shards s sh) = true -> npos s = NSelect -> wakeTok s = true \/ msig s sh.
Proof. exact NotifierProofs.no_lost_wake. Qed.

(* while the cache is open: mutators never block the notifier for good, the notifier is enabled whenever something is buffered, every notifier step decreases a measure, and at rest everything staged has been delivered *)
Theorem c06_delivery_eventual :
  forall (re : Z -> option (nat * Z)) (rank : Z -> nat) (n : nat)
           (scripts : list (list (nat * Z))) (s : state),
         (forall (x : Z) (j : nat) (y : Z), re x = Some (j, y) -> (rank y < rank x)%nat) ->
         reachable re n scripts s ->
         closeCh s = false ->
         (forall t : nat, mpos (muts s t) <> MIdle -> exists s' : state, step re s (LMut t) = Some s') /\
         (forall c : bool,
          step re s (LNot c) = None ->
          npos s = NSelect /\ wakeTok s = false \/
          (exists sh t : nat,
             mu (shards s sh) = Some (OwMut t) /\
             mpos (muts s t) <> MIdle /\ (exists s' : state, step re s (LMut t) = Some s'))) /\
         (quiescent s ->
          forall sh : nat,
          buf (shards s sh) <> [] -> forall c : bool, exists s' : state, step re s (LNot c) = Some s') /\
         (forall (c : bool) (s' : state),
          step re s (LNot c) = Some s' -> (measure rank s' < measure rank s)%nat) /\
         (quiescent s ->
          npos s = NSelect ->
          wakeTok s = false ->
          forall sh : nat, buf (shards s sh) = [] /\ proj sh (staged s) = proj sh (delivered s)).
Proof. exact NotifierProofs.eventual_delivery. Qed.

(* at rest (mutators idle, notifier parked, no token) every buffer is empty and delivered = staged *)
Theorem c06_delivery_quiescent :
  forall (re : Z -> option (nat * Z)) (n : nat) (scripts : list (list (nat * Z))) (s : state),
         reachable re n scripts s ->
         closeCh s = false ->
         quiescent s ->
         npos s = NSelect ->
         wakeTok s = false ->
         forall sh : nat, buf (shards s sh) = [] /\ proj sh (staged s) = proj sh (delivered s).
Proof. exact NotifierProofs.quiescent_all_delivered. Qed.

(* after the notifier exited: staged = delivered ++ late ++ (at most one in-flight append), where late = staged after the final drain visited that shard *)
Theorem c06_close_final_drain :
  forall (re : Z -> option (nat * Z)) (n : nat) (scripts : list (list (nat * Z))) 
           (s : state) (sh : nat),
         reachable re n scripts s ->
         npos s = NExited ->
         proj sh (staged s) = proj sh (delivered s) ++ proj sh (late s) ++ unfl s sh.
Proof. exact NotifierProofs.close_final_drain. Qed.

(* every notification whose flag store preceded the final visit of its shard is delivered exactly once before Close returns *)
Theorem c06_close_exactly_once :
  forall (re : Z -> option (nat * Z)) (n : nat) (scripts : list (list (nat * Z))) 
           (s : state) (sh : nat) (x : Z),
         reachable re n scripts s ->
         npos s = NExited ->
         quiescent s ->
         NoDup (map snd (staged s)) ->
         In (sh, x) (staged s) ->
         ~ In (sh, x) (late s) -> count_occ pair_dec (delivered s) (sh, x) = 1%nat.
Proof. exact NotifierProofs.close_final_drain_exactly_once. Qed.

(* listeners run with no shard lock held by the notifier: re-entrant calls cannot self-deadlock *)
Theorem c06_listener_without_lock :
  forall (re : Z -> option (nat * Z)) (n : nat) (scripts : list (list (nat * Z))) (s : state),
         reachable re n scripts s ->
         match npos s with
         | NDeliver _ | NReent _ MIdle _ _ => forall sh : nat, mu (shards s sh) <> Some OwNot
         | NReent _ MLocked j _ | NReent _ MAppended j _ | NReent _ MFlagged j _ |
           NReent _ MSignalled j _ => forall sh : nat, mu (shards s sh) = Some OwNot -> sh = j
         | _ => True
         end.
Proof. exact NotifierProofs.listener_without_lock. Qed.

(* a removal staged by a listener is delivered in the same pass or is covered by the token it signalled *)
Theorem c06_reentrant_stage_delivered :
  forall (re : Z -> option (nat * Z)) (n : nat) (scripts : list (list (nat * Z))) 
           (s : state) (c : bool) (s' : state) (i j : nat) (y : Z),
         reachable re n scripts s ->
         npos s = NReent i MSignalled j y ->
         step re s (LNot c) = Some s' ->
         npos s' = NDeliver i /\
         (exists pre : list Z, buf (shards s' j) = pre ++ [y]) /\
         pending (shards s' j) = true /\
         wakeTok s' = true /\
         ((i < j)%nat -> covers (npos s') j) /\
         (closeCh s' = false -> npos s' = NDeliver i /\ ((i < j)%nat \/ wakeTok s' = true)).
Proof. exact NotifierProofs.reentrant_stage_delivered. Qed.

(* finding F14 on the model: a removal staged after the notifier's final drain (a write worker's final drain applying a write accepted during shutdown) is never delivered *)
Theorem c06_staged_after_exit_lost :
  exists s : state,
           exec re_none (init 1 [[(0%nat, 10)]; [(0%nat, 30)]])
             (rep 5 (LMut 0) ++ [LClose] ++ rep 9 (LNot true) ++ [LClose] ++ rep 5 (LMut 1)) = 
           Some s /\
           npos s = NExited /\
           cpos s = CDone /\
           In (0%nat, 30) (staged s) /\
           late s = [(0%nat, 30)] /\
           buf (shards s 0) = [30] /\
           pending (shards s 0) = true /\
           wakeTok s = true /\
           (forall (ls : list label) (s' : state),
            exec re_none s ls = Some s' -> delivered s' = [(0%nat, 10)]).
Proof. exact NotifierProofs.staged_after_exit_lost. Qed.

(* the mutator's order (flag, then signal) is necessary *)
Theorem c06_signal_order_matters :
  exists s : state,
           exec_sigfirst re_none (init 1 [[(0%nat, 10)]])
             (rep 3 (LMut 0) ++ rep 3 (LNot false) ++ rep 2 (LMut 0)) = Some s /\
           closeCh s = false /\
           npos s = NSelect /\
           wakeTok s = false /\
           pending (shards s 0) = true /\
           buf (shards s 0) = [10] /\
           delivered s = [] /\
           mpos (muts s 0) = MIdle /\
           script (muts s 0) = [] /\
           step_sigfirst re_none s (LNot false) = None /\
           step_sigfirst re_none s (LNot true) = None /\ step_sigfirst re_none s (LMut 0) = None.
Proof. exact NotifierProofs.signal_before_flag_loses_wake. Qed.

(* non-vacuity: two shards, two mutators, two signals coalesced into one token, both delivered *)
Theorem c06_delivery_example :
  obs
           (exec re_none (init 2 [[(0%nat, 10)]; [(1%nat, 20)]]) (rep 5 (LMut 0) ++ rep 5 (LMut 1))) =
         Some ([[10]; [20]], [true; true], true, NSelect, [], [(0%nat, 10); (1%nat, 20)], []).
Proof. exact NotifierProofs.ex_coalesced_tokens. Qed.

Print Assumptions c06_conservation_all_histories.
Print Assumptions c06_conservation.
Print Assumptions c06_notifications_are_the_drops.
Print Assumptions c06_step_delta.
Print Assumptions c06_clear_stages_nothing.
Print Assumptions c06_not_readable.
Print Assumptions c06_resident_last_written.
Print Assumptions c06_reasons.
Print Assumptions c06_write_drops.
Print Assumptions c06_sieve_reasons.
Print Assumptions c06_sieve_ledger.
Print Assumptions c06_sieve_notiflog.
Print Assumptions c06_literal_refuted_update.
Print Assumptions c06_literal_refuted_clear.
Print Assumptions c06_example.
Print Assumptions c06_delivery_at_most_once_fifo.
Print Assumptions c06_delivery_conservation.
Print Assumptions c06_delivery_no_lost_wake.
Print Assumptions c06_delivery_eventual.
Print Assumptions c06_delivery_quiescent.
Print Assumptions c06_close_final_drain.
Print Assumptions c06_close_exactly_once.
Print Assumptions c06_listener_without_lock.
Print Assumptions c06_reentrant_stage_delivered.
Print Assumptions c06_staged_after_exit_lost.
Print Assumptions c06_signal_order_matters.
Print Assumptions c06_delivery_example.
