(* PtrModel.v: pointer-level model of the intrusive structures behind the eviction
   policies, written statement by statement from shard.go (initLRU, addToLRUHead,
   removeFromLRU, moveToLRUHead), sieve.go (sieveQueue.init/pushFront/remove/holds,
   sieveTinyLFU.insert/insertMain/remove/promote/replaceNode, mainCandidate,
   previousMainItem, findMainVictim, the probation-tail read of evictProbation) and
   lfu.go (the frequency-bucket ring: ensureIndex, removeFreqNode, add, increment,
   remove, removeLFU).

   A heap maps a pointer (Z; 0 is nil, negative numbers are the embedded / allocated
   sentinels, positive numbers are cacheItems named by their key) to the node fields
   the code reads and writes.  Every assignment of the Go code is one heap update, in
   the order the code performs them, so aliasing (e.g. pushFront into an empty queue,
   where head.next is the tail sentinel) is decided by the model, not assumed.
   A dereference of nil sets the error flag (the Go code would panic).

   PtrProofs.v proves that these operations refine the list-level operations the
   cache model (CacheModel.v) uses.  The file is executable: the `pl` stream runs
   the real structures and this model on the same operation sequences and compares
   the complete heap (every prev/next/queue/visited/reuse field of every item and
   sentinel) after every operation. *)
From Coq Require Import List ZArith Bool Lia.
From KV Require Import CacheModel.
Import ListNotations.
Open Scope Z_scope.

(* ------------------------------------------------------------------ item heap *)
Record pnode := { pprev : Z; pnext : Z; pq : Z; pown : Z; pvis : bool; preuse : Z }.
Definition nil_node : pnode :=
  {| pprev := 0; pnext := 0; pq := 0; pown := 0; pvis := false; preuse := 0 |}.
Definition heap := Z -> pnode.
Definition upd (h : heap) (p : Z) (n : pnode) : heap := fun x => if x =? p then n else h x.

Definition w_prev (h : heap) (p v : Z) : heap :=
  upd h p {| pprev := v; pnext := pnext (h p); pq := pq (h p); pown := pown (h p);
             pvis := pvis (h p); preuse := preuse (h p) |}.
Definition w_next (h : heap) (p v : Z) : heap :=
  upd h p {| pprev := pprev (h p); pnext := v; pq := pq (h p); pown := pown (h p);
             pvis := pvis (h p); preuse := preuse (h p) |}.
Definition w_q (h : heap) (p v : Z) : heap :=
  upd h p {| pprev := pprev (h p); pnext := pnext (h p); pq := v; pown := pown (h p);
             pvis := pvis (h p); preuse := preuse (h p) |}.
Definition w_own (h : heap) (p v : Z) : heap :=
  upd h p {| pprev := pprev (h p); pnext := pnext (h p); pq := pq (h p); pown := v;
             pvis := pvis (h p); preuse := preuse (h p) |}.
Definition w_vis (h : heap) (p : Z) (v : bool) : heap :=
  upd h p {| pprev := pprev (h p); pnext := pnext (h p); pq := pq (h p); pown := pown (h p);
             pvis := v; preuse := preuse (h p) |}.
Definition w_reuse (h : heap) (p v : Z) : heap :=
  upd h p {| pprev := pprev (h p); pnext := pnext (h p); pq := pq (h p); pown := pown (h p);
             pvis := pvis (h p); preuse := v |}.

Definition qNone := 0. Definition qProb := 1. Definition qMain := 2.
Definition maxItemReuse := 3.
Definition probationPromotionReuse := 1.

(* sentinel addresses *)
Definition lruHead := -1. Definition lruTail := -2.
Definition probHead := -3. Definition probTail := -4.
Definition mainHead := -5. Definition mainTail := -6.

Record queue := { qhd : Z; qtl : Z; qsize : Z; qid : Z; qowner : Z }.
Definition q_size (q : queue) (n : Z) : queue :=
  {| qhd := qhd q; qtl := qtl q; qsize := n; qid := qid q; qowner := qowner q |}.

Record pstate := {
  hp : heap;
  prob : queue;
  mainq : queue;
  hand : Z;          (* 0 = nil *)
  maincap : Z;
  perr : bool        (* a nil pointer was dereferenced *)
}.
Definition st_heap (s : pstate) (h : heap) : pstate :=
  {| hp := h; prob := prob s; mainq := mainq s; hand := hand s; maincap := maincap s; perr := perr s |}.
Definition st_prob (s : pstate) (q : queue) : pstate :=
  {| hp := hp s; prob := q; mainq := mainq s; hand := hand s; maincap := maincap s; perr := perr s |}.
Definition st_main (s : pstate) (q : queue) : pstate :=
  {| hp := hp s; prob := prob s; mainq := q; hand := hand s; maincap := maincap s; perr := perr s |}.
Definition st_hand (s : pstate) (x : Z) : pstate :=
  {| hp := hp s; prob := prob s; mainq := mainq s; hand := x; maincap := maincap s; perr := perr s |}.
Definition st_err (s : pstate) (b : bool) : pstate :=
  {| hp := hp s; prob := prob s; mainq := mainq s; hand := hand s; maincap := maincap s;
     perr := perr s || b |}.
(* a field access through p: flags nil *)
Definition deref (s : pstate) (p : Z) : pstate := st_err s (p =? 0).

(* ------------------------------------------------------------------ shard LRU list (shard.go) *)
(* initLRU: head.next = tail; tail.prev = head (fresh zeroed sentinels) *)
Definition lru_init (h : heap) : heap :=
  let h1 := upd h lruHead nil_node in
  let h2 := upd h1 lruTail nil_node in
  let h3 := w_next h2 lruHead lruTail in
  w_prev h3 lruTail lruHead.

(* addToLRUHead *)
Definition lru_add (s : pstate) (it : Z) : pstate :=
  let h := hp s in
  let oldNext := pnext (h lruHead) in
  let h1 := w_next h lruHead it in
  let h2 := w_next h1 it oldNext in
  let h3 := w_prev h2 it lruHead in
  let h4 := w_prev h3 oldNext it in
  deref (deref (st_heap s h4) it) oldNext.

(* removeFromLRU *)
Definition lru_remove (s : pstate) (it : Z) : pstate :=
  let s0 := deref s it in
  let h := hp s in
  let h1 := if pprev (h it) =? 0 then h else w_next h (pprev (h it)) (pnext (h it)) in
  let h2 := if pnext (h1 it) =? 0 then h1 else w_prev h1 (pnext (h1 it)) (pprev (h1 it)) in
  let h3 := w_prev h2 it 0 in
  let h4 := w_next h3 it 0 in
  st_heap s0 h4.

(* moveToLRUHead *)
Definition lru_move (s : pstate) (it : Z) : pstate :=
  if pnext (hp s lruHead) =? it then s else lru_add (lru_remove s it) it.

(* the LRU/FIFO evictors' victim: tail.prev unless it is the head sentinel (0 = none) *)
Definition lru_victim (s : pstate) : Z :=
  let v := pprev (hp s lruTail) in if v =? lruHead then 0 else v.

(* ------------------------------------------------------------------ sieveQueue (sieve.go) *)
Definition q_init (h : heap) (q : queue) : heap * queue :=
  let h1 := w_prev h (qhd q) 0 in
  let h2 := w_next h1 (qhd q) (qtl q) in
  let h3 := w_q h2 (qhd q) qNone in
  let h4 := w_prev h3 (qtl q) (qhd q) in
  let h5 := w_next h4 (qtl q) 0 in
  let h6 := w_q h5 (qtl q) qNone in
  (h6, q_size q 0).

(* pushFront; returns heap, queue and whether nil was dereferenced *)
Definition q_push (h : heap) (q : queue) (it : Z) : heap * queue * bool :=
  let n := pnext (h (qhd q)) in
  let h1 := w_next h (qhd q) it in
  let h2 := w_prev h1 it (qhd q) in
  let h3 := w_next h2 it n in
  let h4 := w_q h3 it (qid q) in
  let h5 := w_own h4 it (qowner q) in
  let h6 := w_prev h5 n it in
  (h6, q_size q (qsize q + 1), (it =? 0) || (n =? 0)).

Definition owns_tag (h : heap) (q : queue) (it : Z) : bool :=
  negb (it =? 0) && (pq (h it) =? qid q) && (pown (h it) =? qowner q).
Definition is_sentinel (q : queue) (it : Z) : bool := (it =? qhd q) || (it =? qtl q).
Definition holds (h : heap) (q : queue) (it : Z) : bool := owns_tag h q it && negb (is_sentinel q it).

Definition q_remove (h : heap) (q : queue) (it : Z) : heap * queue * bool :=
  if negb (owns_tag h q it) || (pprev (h it) =? 0) || (pnext (h it) =? 0) then (h, q, false)
  else if negb (pnext (h (pprev (h it))) =? it) || negb (pprev (h (pnext (h it))) =? it) then (h, q, false)
  else
    let h1 := w_next h (pprev (h it)) (pnext (h it)) in
    let h2 := w_prev h1 (pnext (h1 it)) (pprev (h1 it)) in
    let h3 := w_prev h2 it 0 in
    let h4 := w_next h3 it 0 in
    let h5 := w_q h4 it qNone in
    (h5, q_size q (if 0 <? qsize q then qsize q - 1 else qsize q), true).

(* ------------------------------------------------------------------ sieveTinyLFU list surgery *)
Definition sieve_init (s : pstate) : pstate :=
  let '(h1, p1) := q_init (hp s) (prob s) in
  let '(h2, m1) := q_init h1 (mainq s) in
  {| hp := h2; prob := p1; mainq := m1; hand := 0; maincap := maincap s; perr := perr s |}.

(* insert (no ghost hit): probation *)
Definition sieve_insert_prob (s : pstate) (it : Z) : pstate :=
  let h1 := w_q (hp s) it qProb in
  let h2 := w_reuse h1 it 0 in
  let h3 := w_vis h2 it false in
  let '(h4, p1, e) := q_push h3 (prob s) it in
  st_err (st_prob (st_heap s h4) p1) e.

(* insertMain *)
Definition sieve_insert_main (s : pstate) (it : Z) : pstate :=
  let h1 := w_q (hp s) it qMain in
  let h2 := w_reuse h1 it 1 in
  let h3 := w_vis h2 it true in
  let '(h4, m1, e) := q_push h3 (mainq s) it in
  let s1 := st_err (st_main (st_heap s h4) m1) e in
  if hand s1 =? 0 then st_hand s1 it else s1.

(* previousMainItem: 0 = nil *)
Definition prev_main_item (s : pstate) (it : Z) : Z :=
  if it =? 0 then 0 else
  let p0 := pprev (hp s it) in
  let p := if (p0 =? 0) || (p0 =? qhd (mainq s)) then pprev (hp s (qtl (mainq s))) else p0 in
  if (p =? it) || negb (holds (hp s) (mainq s) p) then 0 else p.

(* sieveTinyLFU.remove *)
Definition sieve_remove (s : pstate) (it : Z) : pstate * bool :=
  if it =? 0 then (s, false) else
  let qq := pq (hp s it) in
  if qq =? qMain then
    let s1 := if hand s =? it then st_hand s (prev_main_item s it) else s in
    let '(h1, m1, r) := q_remove (hp s1) (mainq s1) it in
    let s2 := st_main (st_heap s1 h1) m1 in
    if r then (st_heap s2 (w_vis (w_reuse (hp s2) it 0) it false), true) else (s2, false)
  else if qq =? qProb then
    let '(h1, p1, r) := q_remove (hp s) (prob s) it in
    let s2 := st_prob (st_heap s h1) p1 in
    if r then (st_heap s2 (w_vis (w_reuse (hp s2) it 0) it false), true) else (s2, false)
  else
    ((if hand s =? it then st_hand s 0 else s), false).

(* promote *)
Definition sieve_promote (s : pstate) (it : Z) : pstate :=
  if (it =? 0) || negb (pq (hp s it) =? qProb) || (maincap s <=? 0) then s
  else
    let '(h1, p1, _) := q_remove (hp s) (prob s) it in
    sieve_insert_main (st_prob (st_heap s h1) p1) it.

(* replaceNode(old, new) *)
Definition sieve_replace (s : pstate) (old new : Z) : pstate :=
  let h := hp s in
  let h1 := w_q h new (pq (h old)) in
  let h2 := w_own h1 new (pown (h1 old)) in
  let h3 := w_reuse h2 new (preuse (h2 old)) in
  let h4 := w_prev h3 new (pprev (h3 old)) in
  let h5 := w_next h4 new (pnext (h4 old)) in
  let h6 := if pprev (h5 old) =? 0 then h5 else w_next h5 (pprev (h5 old)) new in
  let h7 := if pnext (h6 old) =? 0 then h6 else w_prev h6 (pnext (h6 old)) new in
  let h8 := if pvis (h7 old) then w_vis h7 new true else h7 in
  let s1 := if hand s =? old then st_hand s new else s in
  let h9 := w_prev h8 old 0 in
  let h10 := w_next h9 old 0 in
  let h11 := w_q h10 old qNone in
  deref (deref (st_heap s1 h11) old) new.

(* mainCandidate: None = (nil, false); Some c = (c, true), where c may be nil only in a
   corrupted queue (tail.prev = nil) *)
Definition main_cand (s : pstate) (it : Z) : option Z :=
  let c := if holds (hp s) (mainq s) it then it else pprev (hp s (qtl (mainq s))) in
  if is_sentinel (mainq s) c then None else Some c.

(* findMainVictim(scan, force): n = remaining scan budget, it = cursor *)
Fixpoint find_victim_p (n : nat) (s : pstate) (it : Z) (force : bool) : pstate * Z :=
  match n with
  | O =>
    if force then
      match main_cand s it with
      | None => (s, 0)
      | Some c => (st_hand s (prev_main_item s c), c)
      end
    else (st_hand s it, 0)
  | S n' =>
    match main_cand s it with
    | None => (s, 0)
    | Some c =>
      if negb (c =? 0) && pvis (hp s c) then
        let h1 := w_vis (hp s) c false in
        let h2 := if 0 <? preuse (h1 c) then w_reuse h1 c (preuse (h1 c) - 1) else h1 in
        let s1 := st_heap s h2 in
        find_victim_p n' s1 (prev_main_item s1 c) force
      else (st_hand s (prev_main_item s c), c)
    end
  end.
Definition find_main_victim_p (s : pstate) (scan : Z) (force : bool) : pstate * Z :=
  if qsize (mainq s) =? 0 then (s, 0)
  else find_victim_p (Z.to_nat (if scan <=? 0 then 1 else scan)) s (hand s) force.

(* evictProbation's candidate: probation.tail.prev if the queue holds it *)
Definition prob_tail (s : pstate) : Z :=
  if qsize (prob s) =? 0 then 0
  else let c := pprev (hp s (qtl (prob s))) in if holds (hp s) (prob s) c then c else 0.

Definition mark_visited (s : pstate) (it : Z) : pstate :=
  if it =? 0 then s else st_heap s (w_vis (hp s) it true).

Definition pinit (owner mcap : Z) : pstate :=
  let h0 : heap := fun _ => nil_node in
  let s0 := {| hp := lru_init h0;
               prob := {| qhd := probHead; qtl := probTail; qsize := 0; qid := qProb; qowner := owner |};
               mainq := {| qhd := mainHead; qtl := mainTail; qsize := 0; qid := qMain; qowner := owner |};
               hand := 0; maincap := mcap; perr := false |} in
  sieve_init s0.

(* ------------------------------------------------------------------ LFU frequency ring (lfu.go) *)
Record fnode := { ffreq : Z; fitems : list Z; fprev : Z; fnext : Z }.
Definition fheap := Z -> fnode.
Definition fupd (h : fheap) (p : Z) (n : fnode) : fheap := fun x => if x =? p then n else h x.
Definition f_prev (h : fheap) p v := fupd h p {| ffreq := ffreq (h p); fitems := fitems (h p); fprev := v; fnext := fnext (h p) |}.
Definition f_next (h : fheap) p v := fupd h p {| ffreq := ffreq (h p); fitems := fitems (h p); fprev := fprev (h p); fnext := v |}.
Definition f_items (h : fheap) p v := fupd h p {| ffreq := ffreq (h p); fitems := v; fprev := fprev (h p); fnext := fnext (h p) |}.

Fixpoint assoc (l : list (Z * Z)) (k : Z) : option Z :=
  match l with [] => None | (a, b) :: r => if a =? k then Some b else assoc r k end.
Fixpoint assoc_del (l : list (Z * Z)) (k : Z) : list (Z * Z) :=
  match l with [] => [] | (a, b) :: r => if a =? k then assoc_del r k else (a, b) :: assoc_del r k end.
Definition assoc_set (l : list (Z * Z)) (k v : Z) : list (Z * Z) := (k, v) :: assoc_del l k.

Record lfu := {
  fh : fheap;
  fhead : Z;                 (* the sentinel bucket (freq 0) *)
  fmap : list (Z * Z);       (* freqMap: freq -> bucket *)
  ifreq : list (Z * Z);      (* itemFreq: item -> bucket *)
  falloc : Z;                (* next fresh bucket address *)
  lerr : bool }.
Definition lf_set (l : lfu) h m i a : lfu :=
  {| fh := h; fhead := fhead l; fmap := m; ifreq := i; falloc := a; lerr := lerr l |}.

Definition lfu_init : lfu :=
  {| fh := fupd (fun _ => {| ffreq := 0; fitems := []; fprev := 0; fnext := 0 |}) 1
             {| ffreq := 0; fitems := []; fprev := 1; fnext := 1 |};
     fhead := 1; fmap := []; ifreq := []; falloc := 2; lerr := false |}.

(* ensureIndex(prev, freq) *)
Definition ensure_index (l : lfu) (prev freq : Z) : lfu * Z :=
  match assoc (fmap l) freq with
  | Some n => (l, n)
  | None =>
    let nw := falloc l in
    let h0 := fupd (fh l) nw {| ffreq := freq; fitems := []; fprev := 0; fnext := 0 |} in
    let nxt := fnext (h0 prev) in
    let h1 := f_next h0 prev nw in
    let h2 := f_prev h1 nw prev in
    let h3 := f_next h2 nw nxt in
    let h4 := f_prev h3 nxt nw in
    (lf_set l h4 (assoc_set (fmap l) freq nw) (ifreq l) (nw + 1), nw)
  end.

(* removeFreqNode *)
Definition remove_freq_node (l : lfu) (n : Z) : lfu :=
  let h := fh l in
  let h1 := f_next h (fprev (h n)) (fnext (h n)) in
  let h2 := f_prev h1 (fnext (h1 n)) (fprev (h1 n)) in
  lf_set l h2 (assoc_del (fmap l) (ffreq (h n))) (ifreq l) (falloc l).

Definition lfu_add_p (l : lfu) (it : Z) : lfu :=
  let '(l1, n) := ensure_index l (fhead l) 1 in
  lf_set l1 (f_items (fh l1) n (it :: remz (fitems (fh l1 n)) it)) (fmap l1) (assoc_set (ifreq l1) it n) (falloc l1).

Definition lfu_increment_p (l : lfu) (it : Z) : lfu :=
  match assoc (ifreq l) it with
  | None => lfu_add_p l it
  | Some cur =>
    let newFreq := ffreq (fh l cur) + 1 in
    let l0 := lf_set l (f_items (fh l) cur (remz (fitems (fh l cur)) it)) (fmap l) (ifreq l) (falloc l) in
    let t0 := fnext (fh l0 cur) in
    let '(l1, target) :=
      if (t0 =? fhead l0) || negb (ffreq (fh l0 t0) =? newFreq) then ensure_index l0 cur newFreq else (l0, t0) in
    let l2 := lf_set l1 (f_items (fh l1) target (it :: remz (fitems (fh l1 target)) it)) (fmap l1)
                     (assoc_set (ifreq l1) it target) (falloc l1) in
    match fitems (fh l2 cur) with
    | [] => if ffreq (fh l2 cur) =? 0 then l2 else remove_freq_node l2 cur
    | _ => l2
    end
  end.

Definition lfu_remove_p (l : lfu) (it : Z) : lfu :=
  match assoc (ifreq l) it with
  | None => l
  | Some n =>
    let l1 := lf_set l (f_items (fh l) n (remz (fitems (fh l n)) it)) (fmap l) (assoc_del (ifreq l) it) (falloc l) in
    match fitems (fh l1 n) with
    | [] => if ffreq (fh l1 n) =? 0 then l1 else remove_freq_node l1 n
    | _ => l1
    end
  end.

(* removeLFU: Go's map iteration picks the victim; `pick` is that choice (an oracle
   input).  The model refuses (error flag) a pick that is not in head.next's bucket. *)
Definition lfu_remove_lfu_p (l : lfu) (pick : Z) : lfu * Z :=
  let n := fnext (fh l (fhead l)) in
  if n =? fhead l then (l, 0)
  else
    match fitems (fh l n) with
    | [] => (remove_freq_node l n, 0)
    | _ =>
      if memz (fitems (fh l n)) pick then
        let l1 := lf_set l (f_items (fh l) n (remz (fitems (fh l n)) pick)) (fmap l) (assoc_del (ifreq l) pick) (falloc l) in
        match fitems (fh l1 n) with
        | [] => (remove_freq_node l1 n, pick)
        | _ => (l1, pick)
        end
      else ({| fh := fh l; fhead := fhead l; fmap := fmap l; ifreq := ifreq l; falloc := falloc l; lerr := true |}, 0)
    end.

(* ------------------------------------------------------------------ observation (the complete heap) *)
Definition node_dump (h : heap) (p : Z) : list Z :=
  [pprev (h p); pnext (h p); pq (h p); (if pvis (h p) then 1 else 0); preuse (h p)].
Definition items_upto (n : Z) : list Z := map Z.of_nat (seq 1 (Z.to_nat n)).
Definition pdump (s : pstate) (n : Z) : list Z :=
  flat_map (node_dump (hp s)) ([lruHead; lruTail; probHead; probTail; mainHead; mainTail] ++ items_upto n)
  ++ [qsize (prob s); qsize (mainq s); hand s; (if perr s then 1 else 0)].

(* walk the ring from head.next, bounded *)
Fixpoint fwalk (fuel : nat) (l : lfu) (p : Z) (fwd : bool) : list Z :=
  match fuel with
  | O => [-1]
  | S f => if p =? fhead l then []
           else (ffreq (fh l p) :: zlen (fitems (fh l p)) :: sort_z (fitems (fh l p)))
                ++ fwalk f l (if fwd then fnext (fh l p) else fprev (fh l p)) fwd
  end.
Fixpoint bfreqs (fuel : nat) (l : lfu) (p : Z) : list Z :=
  match fuel with
  | O => [-1]
  | S f => if p =? fhead l then [] else ffreq (fh l p) :: bfreqs f l (fprev (fh l p))
  end.
Definition ldump (l : lfu) (n : Z) : list Z :=
  let fuel := S (S (Z.to_nat n)) in
  fwalk fuel l (fnext (fh l (fhead l))) true
  ++ [-2] ++ bfreqs fuel l (fprev (fh l (fhead l)))
  ++ [-3] ++ sort_z (map fst (fmap l))
  ++ [-4] ++ flat_map (fun it => match assoc (ifreq l) it with
                                 | Some b => [it; ffreq (fh l b)] | None => [] end) (items_upto n)
  ++ [(if lerr l then 1 else 0)].

(* ------------------------------------------------------------------ the stream machine *)
Record pl_state := { ps : pstate; pf : lfu; pn : Z }.

Definition b2z (b : bool) : Z := if b then 1 else 0.

(* op = code :: args; the output is result :: dump of the structure the op touched *)
Definition pl_step (st : pl_state) (op : list Z) : pl_state * list Z :=
  let s := ps st in let l := pf st in let n := pn st in
  let outS (s' : pstate) (r : Z) := ({| ps := s'; pf := l; pn := n |}, r :: pdump s' n) in
  let outL (l' : lfu) (r : Z) := ({| ps := s; pf := l'; pn := n |}, r :: ldump l' n) in
  match op with
  | [1; it] => outS (lru_add s it) 0
  | [2; it] => outS (lru_remove s it) 0
  | [3; it] => outS (lru_move s it) 0
  | [4] => outS s (lru_victim s)
  | [10; it] => outS (sieve_insert_prob s it) 0
  | [11; it] => outS (sieve_insert_main s it) 0
  | [12; it] => let '(s', r) := sieve_remove s it in outS s' (b2z r)
  | [13; it] => outS (sieve_promote s it) 0
  | [14; old; new] => outS (sieve_replace s old new) 0
  | [15; scan; force] => let '(s', v) := find_main_victim_p s scan (force =? 1) in outS s' v
  | [16; it] => outS (mark_visited s it) 0
  | [17] => outS (sieve_init s) 0
  | [18] => outS s (prob_tail s)
  | [19; it] => outS s (prev_main_item s it)
  | [20; it] => outL (lfu_add_p l it) 0
  | [21; it] => outL (lfu_increment_p l it) 0
  | [22; it] => outL (lfu_remove_p l it) 0
  | [23; pick] => let '(l', v) := lfu_remove_lfu_p l pick in outL l' v
  | _ => (st, [-9])
  end.

Definition pl_init (owner mcap n : Z) : pl_state := {| ps := pinit owner mcap; pf := lfu_init; pn := n |}.
Definition pl_of_cfg (cfg : list Z) : pl_state :=
  match cfg with
  | [owner; mcap; n] => pl_init owner mcap n
  | _ => pl_init 0 1 8
  end.
