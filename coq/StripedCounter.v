(* StripedCounter.v — kioshun stats.go: striped atomic statistics counters.

     type statStripe struct{ hits atomic.Int64; ... }      // n stripes
     func (s *stats) recordHit(id uint64) { s.stripes[id&s.mask].hits.Add(1) }
     func (s *stats) aggregate() (hits int64) {
       for i := range s.stripes { hits += s.stripes[i].hits.Load() }; return }

   Model first (state, threads, step, step_ls, exec), proofs after. *)
From KV Require Import Base.
Open Scope Z_scope.

(* ================================================================== *)
(* MODEL                                                              *)
(* ================================================================== *)

(* pointwise update of a function on nat *)
Definition upd {A : Type} (f : nat -> A) (j : nat) (x : A) : nat -> A :=
  fun i => if Nat.eqb i j then x else f i.

(* replace the t-th element of a list (no-op when t is out of range) *)
Fixpoint set_nth {A : Type} (l : list A) (t : nat) (x : A) : list A :=
  match l, t with
  | [], _ => []
  | _ :: r, O => x :: r
  | y :: r, S t' => y :: set_nth r t' x
  end.

(* sum_{i<k} f i *)
Fixpoint sumf (f : nat -> Z) (k : nat) : Z :=
  match k with O => 0 | S k' => sumf f k' + f k' end.

(* A thread.
   Inc sc          : incrementer; sc = stripe ids (already reduced: < n) of
                     the recordHit calls it still has to perform.
   IncLoaded v i r : ONLY used by the wrong variant step_ls: the thread is in
                     the middle of recordHit on stripe i, it has loaded v and
                     will store v+1; r = the calls remaining after this one.
   AggNew          : an aggregate() call that has not started yet.
   Agg c0 pos acc  : a running aggregate(): next Load is stripe pos, running
                     sum acc; it has returned acc when pos = n.
                     c0 is GHOST: the value of [done] when it started. *)
Inductive thread : Type :=
| Inc (script : list nat)
| IncLoaded (v : Z) (i : nat) (rest : list nat)
| AggNew
| Agg (c0 : Z) (pos : nat) (acc : Z).

(* stripes: the n atomic counters (only indices < n are used);
   done   : GHOST, number of increment operations executed so far. *)
Record state : Type := mkState {
  stripes : nat -> Z;
  done    : Z;
  threads : list thread
}.

Definition init (ths : list thread) : state := mkState (fun _ => 0) 0 ths.

(* initial thread pools: incrementers with in-range scripts, fresh aggregators *)
Definition thread_init_ok (n : nat) (th : thread) : Prop :=
  match th with
  | Inc sc => Forall (fun i => (i < n)%nat) sc
  | AggNew => True
  | _ => False
  end.
Definition wf_threads (n : nat) (ths : list thread) : Prop :=
  Forall (thread_init_ok n) ths.

(* ---- the real code: recordHit = ONE atomic fetch-add ---- *)
Inductive step (n : nat) : state -> state -> Prop :=
| step_add : forall s t i r,
    nth_error (threads s) t = Some (Inc (i :: r)) ->
    step n s (mkState (upd (stripes s) i (stripes s i + 1)) (done s + 1)
                      (set_nth (threads s) t (Inc r)))
| step_start : forall s t,
    nth_error (threads s) t = Some AggNew ->
    step n s (mkState (stripes s) (done s)
                      (set_nth (threads s) t (Agg (done s) 0 0)))
| step_load : forall s t c0 pos acc,
    nth_error (threads s) t = Some (Agg c0 pos acc) -> (pos < n)%nat ->
    step n s (mkState (stripes s) (done s)
                      (set_nth (threads s) t (Agg c0 (S pos) (acc + stripes s pos)))).

(* ---- deliberately wrong: recordHit = h.Store(h.Load()+1), TWO atomic steps.
   The ghost [done] is bumped when the operation completes (at the store). ---- *)
Inductive step_ls (n : nat) : state -> state -> Prop :=
| ls_load : forall s t i r,
    nth_error (threads s) t = Some (Inc (i :: r)) ->
    step_ls n s (mkState (stripes s) (done s)
                         (set_nth (threads s) t (IncLoaded (stripes s i) i r)))
| ls_store : forall s t v i r,
    nth_error (threads s) t = Some (IncLoaded v i r) ->
    step_ls n s (mkState (upd (stripes s) i (v + 1)) (done s + 1)
                         (set_nth (threads s) t (Inc r)))
| ls_start : forall s t,
    nth_error (threads s) t = Some AggNew ->
    step_ls n s (mkState (stripes s) (done s)
                         (set_nth (threads s) t (Agg (done s) 0 0)))
| ls_aggload : forall s t c0 pos acc,
    nth_error (threads s) t = Some (Agg c0 pos acc) -> (pos < n)%nat ->
    step_ls n s (mkState (stripes s) (done s)
                         (set_nth (threads s) t (Agg c0 (S pos) (acc + stripes s pos)))).

(* reflexive-transitive closure, snoc style *)
Inductive star {A : Type} (R : A -> A -> Prop) : A -> A -> Prop :=
| star_refl : forall s, star R s s
| star_snoc : forall s s' s'', star R s s' -> R s' s'' -> star R s s''.

Definition reachable_from (n : nat) (ths : list thread) (s : state) : Prop :=
  star (step n) (init ths) s.
Definition reachable (n : nat) (s : state) : Prop :=
  exists ths, wf_threads n ths /\ reachable_from n ths s.

Definition reachable_ls_from (n : nat) (ths : list thread) (s : state) : Prop :=
  star (step_ls n) (init ths) s.
Definition reachable_ls (n : nat) (s : state) : Prop :=
  exists ths, wf_threads n ths /\ reachable_ls_from n ths s.

(* ---- executable versions: a schedule is a list of thread indices ---- *)
Definition step_thread (n : nat) (s : state) (t : nat) : option state :=
  match nth_error (threads s) t with
  | Some (Inc (i :: r)) =>
      Some (mkState (upd (stripes s) i (stripes s i + 1)) (done s + 1)
                    (set_nth (threads s) t (Inc r)))
  | Some AggNew =>
      Some (mkState (stripes s) (done s) (set_nth (threads s) t (Agg (done s) 0 0)))
  | Some (Agg c0 pos acc) =>
      if (pos <? n)%nat
      then Some (mkState (stripes s) (done s)
                         (set_nth (threads s) t (Agg c0 (S pos) (acc + stripes s pos))))
      else None
  | _ => None
  end.

Definition step_thread_ls (n : nat) (s : state) (t : nat) : option state :=
  match nth_error (threads s) t with
  | Some (Inc (i :: r)) =>
      Some (mkState (stripes s) (done s)
                    (set_nth (threads s) t (IncLoaded (stripes s i) i r)))
  | Some (IncLoaded v i r) =>
      Some (mkState (upd (stripes s) i (v + 1)) (done s + 1)
                    (set_nth (threads s) t (Inc r)))
  | Some AggNew =>
      Some (mkState (stripes s) (done s) (set_nth (threads s) t (Agg (done s) 0 0)))
  | Some (Agg c0 pos acc) =>
      if (pos <? n)%nat
      then Some (mkState (stripes s) (done s)
                         (set_nth (threads s) t (Agg c0 (S pos) (acc + stripes s pos))))
      else None
  | _ => None
  end.

Fixpoint exec_with (f : state -> nat -> option state) (s : state) (sched : list nat)
  : option state :=
  match sched with
  | [] => Some s
  | t :: r => match f s t with Some s' => exec_with f s' r | None => None end
  end.

Definition exec (n : nat) := exec_with (step_thread n).
Definition exec_ls (n : nat) := exec_with (step_thread_ls n).

(* what an observer can see of a state with n stripes *)
Definition observe (n : nat) (s : state) : list Z * Z * list thread :=
  (map (stripes s) (seq 0 n), done s, threads s).

(* scripts still to run, for the sharing condition *)
Definition script (th : thread) : list nat :=
  match th with
  | Inc sc => sc
  | IncLoaded _ i r => i :: r
  | _ => []
  end.

(* no stripe id occurs in the scripts of two different threads *)
Definition no_sharing (ths : list thread) : Prop :=
  forall a b tha thb i, a <> b ->
    nth_error ths a = Some tha -> nth_error ths b = Some thb ->
    In i (script tha) -> In i (script thb) -> False.

(* a step that performs no increment *)
Definition quiet_step (n : nat) (s s' : state) : Prop :=
  step n s s' /\ done s' = done s.

(* ================================================================== *)
(* PROOFS                                                             *)
(* ================================================================== *)

(* ---- upd / set_nth / sumf / star helpers ---- *)

Lemma upd_same {A : Type} (f : nat -> A) j x : upd f j x j = x.
Proof. unfold upd. rewrite Nat.eqb_refl. reflexivity. Qed.

Lemma upd_other {A : Type} (f : nat -> A) j x i : i <> j -> upd f j x i = f i.
Proof. unfold upd. intros H. destruct (Nat.eqb_spec i j) as [E|E]; [contradiction|reflexivity]. Qed.

Lemma nth_error_set_nth_inv {A : Type} (l : list A) t x a y :
  nth_error (set_nth l t x) a = Some y ->
  (a = t /\ y = x) \/ (a <> t /\ nth_error l a = Some y).
Proof.
  revert t a. induction l as [|z l IH]; intros t a H.
  - cbn [set_nth] in H. destruct a; cbn [nth_error] in H; discriminate H.
  - destruct t as [|t]; cbn [set_nth] in H.
    + destruct a as [|a]; cbn [nth_error] in H |- *.
      * left. split; [reflexivity|]. injection H as H. symmetry. exact H.
      * right. split; [discriminate|exact H].
    + destruct a as [|a]; cbn [nth_error] in H |- *.
      * right. split; [discriminate|exact H].
      * destruct (IH t a H) as [[E1 E2]|[E1 E2]].
        -- left. split; [congruence|exact E2].
        -- right. split; [congruence|exact E2].
Qed.

Lemma nth_error_set_nth_eq {A : Type} (l : list A) t x y :
  nth_error l t = Some y -> nth_error (set_nth l t x) t = Some x.
Proof.
  revert t. induction l as [|z l IH]; intros t H.
  - destruct t; cbn [nth_error] in H; discriminate H.
  - destruct t as [|t]; cbn [set_nth nth_error] in *; [reflexivity|]. apply IH. exact H.
Qed.

Lemma nth_error_set_nth_neq {A : Type} (l : list A) t x a :
  a <> t -> nth_error (set_nth l t x) a = nth_error l a.
Proof.
  revert t a. induction l as [|z l IH]; intros t a H.
  - reflexivity.
  - destruct t as [|t]; destruct a as [|a]; cbn [set_nth nth_error]; try reflexivity.
    + contradiction.
    + apply IH. congruence.
Qed.

Lemma sumf_zero k : sumf (fun _ => 0) k = 0.
Proof. induction k as [|k IH]; cbn [sumf]; lia. Qed.

Lemma sumf_le f g k :
  (forall i, (i < k)%nat -> f i <= g i) -> sumf f k <= sumf g k.
Proof.
  induction k as [|k IH]; intros H; cbn [sumf]; [lia|].
  assert (sumf f k <= sumf g k) by (apply IH; intros i Hi; apply H; lia).
  assert (f k <= g k) by (apply H; lia). lia.
Qed.

Lemma sumf_upd_ge f j x k : (k <= j)%nat -> sumf (upd f j x) k = sumf f k.
Proof.
  induction k as [|k IH]; intros H; cbn [sumf]; [reflexivity|].
  rewrite IH by lia. rewrite upd_other by lia. reflexivity.
Qed.

Lemma sumf_upd_lt f j x k : (j < k)%nat -> sumf (upd f j x) k = sumf f k - f j + x.
Proof.
  induction k as [|k IH]; intros H; [lia|]. cbn [sumf].
  destruct (Nat.eq_dec j k) as [E|E].
  - subst j. rewrite sumf_upd_ge by lia. rewrite upd_same. lia.
  - rewrite IH by lia. rewrite upd_other by lia. lia.
Qed.

(* an atomic +1 on stripe j adds 1 to every prefix sum that covers j *)
Lemma sumf_incr f j k :
  sumf (upd f j (f j + 1)) k = sumf f k + (if (j <? k)%nat then 1 else 0).
Proof.
  destruct (Nat.ltb_spec j k) as [H|H].
  - rewrite sumf_upd_lt by exact H. lia.
  - rewrite sumf_upd_ge by exact H. lia.
Qed.

Lemma star_left {A : Type} (R : A -> A -> Prop) s s' s'' :
  R s s' -> star R s' s'' -> star R s s''.
Proof.
  intros H1 H2. induction H2 as [s'|s' s2 s3 _ IH H3].
  - eapply star_snoc; [apply star_refl|exact H1].
  - eapply star_snoc; [apply IH; exact H1|exact H3].
Qed.

Lemma star_trans {A : Type} (R : A -> A -> Prop) s s' s'' :
  star R s s' -> star R s' s'' -> star R s s''.
Proof.
  intros H1 H2. induction H2 as [s'|s' s2 s3 _ IH H3].
  - exact H1.
  - eapply star_snoc; [apply IH; exact H1|exact H3].
Qed.

(* ---- exec is exactly the step relation ---- *)

Lemma step_thread_sound n s t s' : step_thread n s t = Some s' -> step n s s'.
Proof.
  unfold step_thread. intros H.
  destruct (nth_error (threads s) t) as [th|] eqn:E; [|discriminate H].
  destruct th as [sc|v i r| |c0 pos acc].
  - destruct sc as [|i r]; [discriminate H|]. injection H as H. subst s'.
    apply step_add. exact E.
  - discriminate H.
  - injection H as H. subst s'. apply step_start. exact E.
  - destruct (Nat.ltb_spec pos n) as [L|L]; [|discriminate H].
    injection H as H. subst s'. apply step_load; assumption.
Qed.

Lemma step_thread_complete n s s' : step n s s' -> exists t, step_thread n s t = Some s'.
Proof.
  intros H. destruct H as [s t i r E|s t E|s t c0 pos acc E L]; exists t; unfold step_thread; rewrite E.
  - reflexivity.
  - reflexivity.
  - destruct (Nat.ltb_spec pos n) as [L'|L']; [reflexivity|lia].
Qed.

Lemma step_thread_ls_sound n s t s' : step_thread_ls n s t = Some s' -> step_ls n s s'.
Proof.
  unfold step_thread_ls. intros H.
  destruct (nth_error (threads s) t) as [th|] eqn:E; [|discriminate H].
  destruct th as [sc|v i r| |c0 pos acc].
  - destruct sc as [|i r]; [discriminate H|]. injection H as H. subst s'.
    apply ls_load. exact E.
  - injection H as H. subst s'. apply ls_store. exact E.
  - injection H as H. subst s'. apply ls_start. exact E.
  - destruct (Nat.ltb_spec pos n) as [L|L]; [|discriminate H].
    injection H as H. subst s'. apply ls_aggload; assumption.
Qed.

Lemma step_thread_ls_complete n s s' :
  step_ls n s s' -> exists t, step_thread_ls n s t = Some s'.
Proof.
  intros H. destruct H as [s t i r E|s t v i r E|s t E|s t c0 pos acc E L];
    exists t; unfold step_thread_ls; rewrite E.
  - reflexivity.
  - reflexivity.
  - reflexivity.
  - destruct (Nat.ltb_spec pos n) as [L'|L']; [reflexivity|lia].
Qed.

Lemma exec_with_sound (f : state -> nat -> option state) (R : state -> state -> Prop) :
  (forall s t s', f s t = Some s' -> R s s') ->
  forall sched s s', exec_with f s sched = Some s' -> star R s s'.
Proof.
  intros Hf sched. induction sched as [|t r IH]; intros s s' H; cbn [exec_with] in H.
  - injection H as H. subst s'. apply star_refl.
  - destruct (f s t) as [s1|] eqn:E; [|discriminate H].
    eapply star_left; [eapply Hf; exact E|apply IH; exact H].
Qed.

Lemma exec_with_app f s l1 l2 s1 :
  exec_with f s l1 = Some s1 -> exec_with f s (l1 ++ l2) = exec_with f s1 l2.
Proof.
  revert s. induction l1 as [|t r IH]; intros s H; cbn [exec_with app] in *.
  - injection H as H. subst s1. reflexivity.
  - destruct (f s t) as [s2|]; [|discriminate H]. apply IH. exact H.
Qed.

Lemma exec_with_complete (f : state -> nat -> option state) (R : state -> state -> Prop) :
  (forall s s', R s s' -> exists t, f s t = Some s') ->
  forall s s', star R s s' -> exists sched, exec_with f s sched = Some s'.
Proof.
  intros Hf s s' H. induction H as [s|s s1 s2 _ [sched IH] H2].
  - exists []. reflexivity.
  - destruct (Hf _ _ H2) as [t Ht]. exists (sched ++ [t]).
    rewrite (exec_with_app _ _ _ _ _ IH). cbn [exec_with]. rewrite Ht. reflexivity.
Qed.

Theorem exec_sound n s sched s' : exec n s sched = Some s' -> star (step n) s s'.
Proof. apply exec_with_sound. apply step_thread_sound. Qed.

Theorem exec_complete n s s' : star (step n) s s' -> exists sched, exec n s sched = Some s'.
Proof. apply exec_with_complete. apply step_thread_complete. Qed.

Theorem exec_ls_sound n s sched s' : exec_ls n s sched = Some s' -> star (step_ls n) s s'.
Proof. apply exec_with_sound. apply step_thread_ls_sound. Qed.

Theorem exec_ls_complete n s s' :
  star (step_ls n) s s' -> exists sched, exec_ls n s sched = Some s'.
Proof. apply exec_with_complete. apply step_thread_ls_complete. Qed.

(* ================================================================== *)
(* 1-3: the atomic-Add version                                        *)
(* ================================================================== *)

(* per-thread invariant, relative to the current stripes *)
Definition thread_ok (n : nat) (st : nat -> Z) (th : thread) : Prop :=
  match th with
  | Inc sc => Forall (fun i => (i < n)%nat) sc
  | IncLoaded _ _ _ => False
  | AggNew => True
  | Agg c0 pos acc =>
      (pos <= n)%nat /\
      c0 <= acc + (sumf st n - sumf st pos) /\   (* nothing counted at start is lost *)
      acc <= sumf st pos                          (* nothing is counted twice / invented *)
  end.

Definition Inv (n : nat) (s : state) : Prop :=
  sumf (stripes s) n = done s /\
  forall a th, nth_error (threads s) a = Some th -> thread_ok n (stripes s) th.

Lemma thread_ok_add n st th i :
  thread_ok n st th -> (i < n)%nat -> thread_ok n (upd st i (st i + 1)) th.
Proof.
  destruct th as [sc|v j r| |c0 pos acc]; cbn [thread_ok]; intros H Hi; try exact H.
  destruct H as (Hp & Hlo & Hhi).
  rewrite !sumf_incr.
  destruct (Nat.ltb_spec i n) as [_|C]; [|lia].
  destruct (Nat.ltb_spec i pos); repeat split; lia.
Qed.

Lemma Inv_init n ths : wf_threads n ths -> Inv n (init ths).
Proof.
  intros W. split.
  - cbn [init stripes done]. apply sumf_zero.
  - cbn [init stripes threads]. intros a th H.
    unfold wf_threads in W. rewrite Forall_forall in W.
    specialize (W th (nth_error_In _ _ H)).
    destruct th as [sc|v i r| |c0 pos acc]; cbn [thread_init_ok thread_ok] in *;
      try exact W; try contradiction.
Qed.

Lemma Inv_step n s s' : Inv n s -> step n s s' -> Inv n s'.
Proof.
  intros [Hsum Hth] H.
  destruct H as [s t i r E|s t E|s t c0 pos acc E L]; unfold Inv; cbn [stripes done threads].
  - pose proof (Hth _ _ E) as Hsc. cbn [thread_ok] in Hsc.
    assert (Hi : (i < n)%nat) by (inversion Hsc; assumption).
    assert (Hr : Forall (fun i => (i < n)%nat) r) by (inversion Hsc; assumption).
    split.
    + rewrite sumf_incr. destruct (Nat.ltb_spec i n); lia.
    + intros a th Ha. apply nth_error_set_nth_inv in Ha.
      destruct Ha as [[_ ->]|[_ Ha]].
      * cbn [thread_ok]. exact Hr.
      * apply thread_ok_add; [apply (Hth _ _ Ha)|exact Hi].
  - split; [exact Hsum|].
    intros a th Ha. apply nth_error_set_nth_inv in Ha.
    destruct Ha as [[_ ->]|[_ Ha]].
    + cbn [thread_ok sumf]. repeat split; lia.
    + apply (Hth _ _ Ha).
  - split; [exact Hsum|].
    intros a th Ha. apply nth_error_set_nth_inv in Ha.
    destruct Ha as [[_ ->]|[_ Ha]].
    + pose proof (Hth _ _ E) as Hag. cbn [thread_ok] in Hag. destruct Hag as (Hp & Hlo & Hhi).
      cbn [thread_ok sumf]. repeat split; lia.
    + apply (Hth _ _ Ha).
Qed.

Lemma Inv_reachable n s : reachable n s -> Inv n s.
Proof.
  intros (ths & W & R). unfold reachable_from in R.
  remember (init ths) as s0 eqn:E0.
  induction R as [s|s s1 s2 _ IH H2].
  - subst s. apply Inv_init. exact W.
  - eapply Inv_step; [apply IH; exact E0|exact H2].
Qed.

Lemma reachable_step n s s' : reachable n s -> step n s s' -> reachable n s'.
Proof.
  intros (ths & W & R) H. exists ths. split; [exact W|].
  unfold reachable_from in *. eapply star_snoc; eassumption.
Qed.

(* 1. The stripes always add up to the number of increments performed. *)
Theorem sum_is_count n s : reachable n s -> sumf (stripes s) n = done s.
Proof. intros R. apply (Inv_reachable n s R). Qed.

(* 2. Every step leaves each stripe unchanged or incremented by one. *)
Theorem stripes_monotone n s s' i :
  step n s s' -> stripes s' i = stripes s i \/ stripes s' i = stripes s i + 1.
Proof.
  intros H. destruct H as [s t j r E|s t E|s t c0 pos acc E L]; cbn [stripes].
  - destruct (Nat.eq_dec i j) as [->|N].
    + right. apply upd_same.
    + left. apply upd_other. exact N.
  - left. reflexivity.
  - left. reflexivity.
Qed.

(* the ghost count: an Add bumps one stripe and done together; every other
   step changes neither *)
Lemma step_done_cases n s s' :
  step n s s' ->
  (exists i, stripes s' = upd (stripes s) i (stripes s i + 1) /\ done s' = done s + 1) \/
  (stripes s' = stripes s /\ done s' = done s).
Proof.
  intros H. destruct H as [s t j r E|s t E|s t c0 pos acc E L]; cbn [stripes done].
  - left. exists j. split; reflexivity.
  - right. split; reflexivity.
  - right. split; reflexivity.
Qed.

Lemma done_monotone n s s' : star (step n) s s' -> done s <= done s'.
Proof.
  intros H. induction H as [s|s s1 s2 _ IH H2]; [lia|].
  destruct (step_done_cases _ _ _ H2) as [(i & _ & E)|[_ E]]; lia.
Qed.

(* 3. aggregate() returning r (state Agg c0 n r): count at its start <= r <= count now. *)
Theorem aggregate_bounds n s a c0 r :
  reachable n s -> nth_error (threads s) a = Some (Agg c0 n r) ->
  c0 <= r <= done s.
Proof.
  intros R Ha. destruct (Inv_reachable n s R) as [Hsum Hth].
  pose proof (Hth _ _ Ha) as H. cbn [thread_ok] in H. destruct H as (_ & Hlo & Hhi). lia.
Qed.

(* exact at quiescence, ghost form: if the count now is still the count at the
   aggregator's start (done only ever grows, one per increment step, so this says
   no increment step happened in between), the result is exact. *)
Theorem aggregate_quiescent n s a c0 r :
  reachable n s -> nth_error (threads s) a = Some (Agg c0 n r) ->
  done s = c0 -> r = done s.
Proof.
  intros R Ha Hq. pose proof (aggregate_bounds n s a c0 r R Ha). lia.
Qed.

(* a running aggregator keeps its ghost c0 *)
Lemma agg_c0_preserved n s s' a c0 pos acc :
  step n s s' -> nth_error (threads s) a = Some (Agg c0 pos acc) ->
  exists pos' acc', nth_error (threads s') a = Some (Agg c0 pos' acc').
Proof.
  intros H Ha.
  destruct H as [s t j r E|s t E|s t c1 p1 a1 E L]; cbn [threads];
    (destruct (Nat.eq_dec a t) as [->|N];
     [ rewrite E in Ha; try discriminate Ha
     | rewrite nth_error_set_nth_neq by exact N; eauto ]).
  injection Ha as -> -> ->.
  rewrite (nth_error_set_nth_eq _ _ _ _ E). eauto.
Qed.

(* exact at quiescence, trace form: aggregator a starts in s0 (its start step is
   the first step below), then only non-increment steps happen, of any threads,
   until a has returned r: then r is exactly the count. *)
Theorem aggregate_quiescent_trace n s0 s' a c0 r :
  reachable n s0 ->
  nth_error (threads s0) a = Some AggNew ->
  star (quiet_step n)
       (mkState (stripes s0) (done s0) (set_nth (threads s0) a (Agg (done s0) 0 0))) s' ->
  nth_error (threads s') a = Some (Agg c0 n r) ->
  c0 = done s0 /\ r = done s'.
Proof.
  intros R Ha Hs Hr.
  set (s1 := mkState (stripes s0) (done s0) (set_nth (threads s0) a (Agg (done s0) 0 0))) in *.
  assert (R1 : reachable n s1).
  { eapply reachable_step; [exact R|]. apply step_start. exact Ha. }
  assert (A1 : exists pos acc, nth_error (threads s1) a = Some (Agg (done s0) pos acc)).
  { exists 0%nat, 0. unfold s1. cbn [threads]. apply (nth_error_set_nth_eq _ _ _ _ Ha). }
  assert (D1 : done s1 = done s0) by reflexivity.
  assert (K : reachable n s' /\ done s' = done s0 /\
              exists pos acc, nth_error (threads s') a = Some (Agg (done s0) pos acc)).
  { clearbody s1. clear Hr.
    induction Hs as [s|s sa sb _ IH [Hstep Hd]].
    - auto.
    - destruct (IH R1 A1 D1) as (Ra & Da & pos & acc & Aa).
      split; [eapply reachable_step; eassumption|].
      split; [lia|].
      eapply agg_c0_preserved; eassumption. }
  destruct K as (R' & D' & pos & acc & A').
  rewrite Hr in A'. injection A' as -> _ _.
  split; [reflexivity|].
  apply (aggregate_quiescent n s' a (done s0) r R'); [exact Hr|exact D'].
Qed.

(* stripes never go negative, hence prefix sums are bounded by the total *)
Theorem stripes_nonneg n s i : reachable n s -> 0 <= stripes s i.
Proof.
  intros (ths & W & R). unfold reachable_from in R.
  remember (init ths) as s0 eqn:E0.
  induction R as [s|s s1 s2 _ IH H2].
  - subst s. cbn [init stripes]. lia.
  - specialize (IH E0). destruct (stripes_monotone n s1 s2 i H2); lia.
Qed.

Lemma sumf_prefix_le f p k :
  (forall i, 0 <= f i) -> (p <= k)%nat -> sumf f p <= sumf f k.
Proof.
  intros Hf. induction k as [|k IH]; intros H.
  - assert (p = 0%nat) by lia. subst p. lia.
  - destruct (Nat.eq_dec p (S k)) as [->|N]; [lia|].
    cbn [sumf]. specialize (Hf k). assert (sumf f p <= sumf f k) by (apply IH; lia). lia.
Qed.

(* a still-running aggregate(): in range; partial sum and start count are both
   at most the current count *)
Theorem aggregate_running_bounds n s a c0 pos acc :
  reachable n s -> nth_error (threads s) a = Some (Agg c0 pos acc) ->
  (pos <= n)%nat /\ acc <= done s /\ c0 <= done s.
Proof.
  intros R Ha. destruct (Inv_reachable n s R) as [Hsum Hth].
  pose proof (Hth _ _ Ha) as H. cbn [thread_ok] in H. destruct H as (Hp & Hlo & Hhi).
  assert (Hnn : forall i, 0 <= stripes s i) by (intros i; apply (stripes_nonneg n s i R)).
  pose proof (sumf_prefix_le (stripes s) pos n Hnn Hp) as Hpre.
  repeat split; lia.
Qed.

(* ================================================================== *)
(* 4: the Load-then-Store version                                     *)
(* ================================================================== *)

(* per-thread invariant relative to per-stripe completed counts cnt (ghost,
   existentially quantified in the invariant): a loaded local never exceeds
   the number of operations completed on its stripe *)
Definition thread_ok_ls (n : nat) (cnt : nat -> Z) (th : thread) : Prop :=
  match th with
  | Inc sc => Forall (fun i => (i < n)%nat) sc
  | IncLoaded v i r => (i < n)%nat /\ Forall (fun i => (i < n)%nat) r /\ v <= cnt i
  | _ => True
  end.

Definition InvLS (n : nat) (s : state) : Prop :=
  exists cnt : nat -> Z,
    sumf cnt n = done s /\
    (forall i, stripes s i <= cnt i) /\
    forall a th, nth_error (threads s) a = Some th -> thread_ok_ls n cnt th.

Lemma thread_init_ok_ls n cnt th : thread_init_ok n th -> thread_ok_ls n cnt th.
Proof.
  destruct th as [sc|v i r| |c0 pos acc]; cbn [thread_init_ok thread_ok_ls]; intros H;
    try exact H; try exact I; contradiction.
Qed.

Lemma InvLS_init n ths : wf_threads n ths -> InvLS n (init ths).
Proof.
  intros W. exists (fun _ => 0). cbn [init stripes done threads]. split; [apply sumf_zero|].
  split; [intros i; lia|].
  intros a th H. unfold wf_threads in W. rewrite Forall_forall in W.
  apply thread_init_ok_ls. apply W. apply (nth_error_In _ _ H).
Qed.

Lemma thread_ok_ls_mono n cnt cnt' th :
  (forall i, cnt i <= cnt' i) -> thread_ok_ls n cnt th -> thread_ok_ls n cnt' th.
Proof.
  intros Hc. destruct th as [sc|v i r| |c0 pos acc]; cbn [thread_ok_ls]; intros H; try exact H.
  destruct H as (H1 & H2 & H3). specialize (Hc i). repeat split; try assumption. lia.
Qed.

Lemma InvLS_step n s s' : InvLS n s -> step_ls n s s' -> InvLS n s'.
Proof.
  intros (cnt & Hsum & Hle & Hth) H.
  destruct H as [s t i r E|s t v i r E|s t E|s t c0 pos acc E L];
    unfold InvLS; cbn [stripes done threads].
  - (* load *)
    exists cnt. split; [exact Hsum|]. split; [exact Hle|].
    intros a th Ha. apply nth_error_set_nth_inv in Ha. destruct Ha as [[_ ->]|[_ Ha]].
    + pose proof (Hth _ _ E) as Hsc. cbn [thread_ok_ls] in Hsc |- *.
      split; [inversion Hsc; assumption|]. split; [inversion Hsc; assumption|]. apply Hle.
    + apply (Hth _ _ Ha).
  - (* store *)
    pose proof (Hth _ _ E) as Hl. cbn [thread_ok_ls] in Hl. destruct Hl as (Hi & Hr & Hv).
    exists (upd cnt i (cnt i + 1)).
    assert (Hmono : forall k, cnt k <= upd cnt i (cnt i + 1) k).
    { intros k. destruct (Nat.eq_dec k i) as [->|N].
      - rewrite upd_same. lia.
      - rewrite upd_other by exact N. lia. }
    split.
    { rewrite sumf_incr. destruct (Nat.ltb_spec i n); lia. }
    split.
    { intros k. destruct (Nat.eq_dec k i) as [->|N].
      - rewrite !upd_same. lia.
      - rewrite !upd_other by exact N. apply Hle. }
    intros a th Ha. apply nth_error_set_nth_inv in Ha. destruct Ha as [[_ ->]|[_ Ha]].
    + cbn [thread_ok_ls]. exact Hr.
    + eapply thread_ok_ls_mono; [exact Hmono|apply (Hth _ _ Ha)].
  - exists cnt. split; [exact Hsum|]. split; [exact Hle|].
    intros a th Ha. apply nth_error_set_nth_inv in Ha. destruct Ha as [[_ ->]|[_ Ha]].
    + exact I.
    + apply (Hth _ _ Ha).
  - exists cnt. split; [exact Hsum|]. split; [exact Hle|].
    intros a th Ha. apply nth_error_set_nth_inv in Ha. destruct Ha as [[_ ->]|[_ Ha]].
    + exact I.
    + apply (Hth _ _ Ha).
Qed.

(* the wrong variant can only LOSE updates, never invent them *)
Theorem ls_sum_le_count n s : reachable_ls n s -> sumf (stripes s) n <= done s.
Proof.
  intros (ths & W & R). unfold reachable_ls_from in R.
  assert (HI : InvLS n s).
  { remember (init ths) as s0 eqn:E0.
    induction R as [s|s s1 s2 _ IH H2].
    - subst s. apply InvLS_init. exact W.
    - eapply InvLS_step; [apply IH; exact E0|exact H2]. }
  destruct HI as (cnt & Hsum & Hle & _). rewrite <- Hsum.
  apply sumf_le. intros i _. apply Hle.
Qed.

(* ---- no sharing: the wrong variant is exact ---- *)

Definition thread_ok_x (n : nat) (st : nat -> Z) (th : thread) : Prop :=
  match th with
  | Inc sc => Forall (fun i => (i < n)%nat) sc
  | IncLoaded v i r => (i < n)%nat /\ Forall (fun i => (i < n)%nat) r /\ v = st i
  | _ => True
  end.

Definition InvX (n : nat) (s : state) : Prop :=
  no_sharing (threads s) /\
  sumf (stripes s) n = done s /\
  forall a th, nth_error (threads s) a = Some th -> thread_ok_x n (stripes s) th.

Lemma no_sharing_set_nth ths t th th' :
  no_sharing ths -> nth_error ths t = Some th ->
  (forall i, In i (script th') -> In i (script th)) ->
  no_sharing (set_nth ths t th').
Proof.
  intros NS E Hsub a b tha thb i Hab Ha Hb Ia Ib.
  apply nth_error_set_nth_inv in Ha. apply nth_error_set_nth_inv in Hb.
  destruct Ha as [[-> ->]|[Na Ha]]; destruct Hb as [[-> ->]|[Nb Hb]].
  - contradiction.
  - apply (NS t b th thb i Hab E Hb); [apply Hsub; exact Ia|exact Ib].
  - apply (NS a t tha th i Hab Ha E); [exact Ia|apply Hsub; exact Ib].
  - apply (NS a b tha thb i Hab Ha Hb Ia Ib).
Qed.

Lemma thread_init_ok_x n st th : thread_init_ok n th -> thread_ok_x n st th.
Proof.
  destruct th as [sc|v i r| |c0 pos acc]; cbn [thread_init_ok thread_ok_x]; intros H;
    try exact H; try exact I; contradiction.
Qed.

Lemma InvX_init n ths : wf_threads n ths -> no_sharing ths -> InvX n (init ths).
Proof.
  intros W NS. unfold InvX. cbn [init stripes done threads]. split; [exact NS|].
  split; [apply sumf_zero|].
  intros a th H. unfold wf_threads in W. rewrite Forall_forall in W.
  apply thread_init_ok_x. apply W. apply (nth_error_In _ _ H).
Qed.

Lemma InvX_step n s s' : InvX n s -> step_ls n s s' -> InvX n s'.
Proof.
  intros (NS & Hsum & Hth) H.
  destruct H as [s t i r E|s t v i r E|s t E|s t c0 pos acc E L];
    unfold InvX; cbn [stripes done threads].
  - (* load *)
    split.
    { eapply no_sharing_set_nth; [exact NS|exact E|]. cbn [script]. intros k Hk. exact Hk. }
    split; [exact Hsum|].
    intros a th Ha. apply nth_error_set_nth_inv in Ha. destruct Ha as [[_ ->]|[_ Ha]].
    + pose proof (Hth _ _ E) as Hsc. cbn [thread_ok_x] in Hsc |- *.
      split; [inversion Hsc; assumption|]. split; [inversion Hsc; assumption|reflexivity].
    + apply (Hth _ _ Ha).
  - (* store: v is still the current value, so this is a true increment *)
    pose proof (Hth _ _ E) as Hl. cbn [thread_ok_x] in Hl. destruct Hl as (Hi & Hr & Hv).
    split.
    { eapply no_sharing_set_nth; [exact NS|exact E|]. cbn [script]. intros k Hk. right. exact Hk. }
    split.
    { subst v. rewrite sumf_incr. destruct (Nat.ltb_spec i n); lia. }
    intros a th Ha. apply nth_error_set_nth_inv in Ha. destruct Ha as [[_ ->]|[Na Ha]].
    + cbn [thread_ok_x]. exact Hr.
    + pose proof (Hth _ _ Ha) as Hok.
      destruct th as [sc|v' i' r'| |c0 pos acc]; cbn [thread_ok_x] in Hok |- *; try exact Hok.
      destruct Hok as (Hi' & Hr' & Hv').
      split; [exact Hi'|]. split; [exact Hr'|].
      rewrite upd_other; [exact Hv'|].
      intros ->. apply (NS a t (IncLoaded v' i r') (IncLoaded v i r) i Na Ha E); cbn [script]; left; reflexivity.
  - split.
    { eapply no_sharing_set_nth; [exact NS|exact E|]. cbn [script]. intros k Hk. exact Hk. }
    split; [exact Hsum|].
    intros a th Ha. apply nth_error_set_nth_inv in Ha. destruct Ha as [[_ ->]|[_ Ha]].
    + exact I.
    + apply (Hth _ _ Ha).
  - split.
    { eapply no_sharing_set_nth; [exact NS|exact E|]. cbn [script]. intros k Hk. exact Hk. }
    split; [exact Hsum|].
    intros a th Ha. apply nth_error_set_nth_inv in Ha. destruct Ha as [[_ ->]|[_ Ha]].
    + exact I.
    + apply (Hth _ _ Ha).
Qed.

(* when no two threads ever touch the same stripe, even Load-then-Store is exact *)
Theorem ls_exact_without_sharing n ths s :
  wf_threads n ths -> no_sharing ths -> reachable_ls_from n ths s ->
  sumf (stripes s) n = done s.
Proof.
  intros W NS R. unfold reachable_ls_from in R.
  assert (HI : InvX n s).
  { remember (init ths) as s0 eqn:E0.
    induction R as [s|s s1 s2 _ IH H2].
    - subst s. apply InvX_init; assumption.
    - eapply InvX_step; [apply IH; exact E0|exact H2]. }
  apply HI.
Qed.

(* ================================================================== *)
(* Examples (all by computation on exec / exec_ls)                    *)
(* ================================================================== *)

(* -- 4. lost update: two incrementers on ONE stripe, load/load/store/store -- *)
Definition lu_threads : list thread := [Inc [0%nat]; Inc [0%nat]].

Example load_store_loses_updates :
  option_map (observe 1) (exec_ls 1 (init lu_threads) [0; 1; 0; 1]%nat)
  = Some ([1], 2, [Inc []; Inc []]).
Proof. vm_compute. reflexivity. Qed.

Lemma lu_threads_wf : wf_threads 1 lu_threads.
Proof. unfold wf_threads, lu_threads. repeat constructor. Qed.

(* the same as a statement about reachable states of step_ls: both operations
   completed (done = 2, both scripts empty) yet the only stripe holds 1 *)
Example load_store_loses_updates_reachable :
  exists s, reachable_ls 1 s /\ done s = 2 /\ stripes s 0%nat = 1 /\
            sumf (stripes s) 1 < done s /\ threads s = [Inc []; Inc []].
Proof.
  destruct (exec_ls 1 (init lu_threads) [0; 1; 0; 1]%nat) as [s|] eqn:E;
    [|vm_compute in E; discriminate E].
  exists s. split.
  - exists lu_threads. split; [exact lu_threads_wf|]. apply (exec_ls_sound _ _ _ _ E).
  - vm_compute in E. injection E as <-. cbn. repeat split; reflexivity || lia.
Qed.

(* with the atomic Add, the same two threads under ANY schedule end with 2
   (instance of sum_is_count; here the analogous 2-step schedule) *)
Example atomic_add_no_lost_update :
  option_map (observe 1) (exec 1 (init lu_threads) [0; 1]%nat)
  = Some ([2], 2, [Inc []; Inc []]).
Proof. vm_compute. reflexivity. Qed.

(* under step_ls a stripe can even go DOWN (so stripes_monotone fails for it):
   thread 0 loads 0, thread 1 completes two operations (stripe = 2), thread 0
   stores 1 *)
Example ls_stripe_decreases :
  option_map (observe 1)
    (exec_ls 1 (init [Inc [0%nat]; Inc [0%nat; 0%nat]]) [0; 1; 1; 1; 1]%nat)
  = Some ([2], 2, [IncLoaded 0 0%nat []; Inc []])
  /\
  option_map (observe 1)
    (exec_ls 1 (init [Inc [0%nat]; Inc [0%nat; 0%nat]]) [0; 1; 1; 1; 1; 0]%nat)
  = Some ([1], 3, [Inc []; Inc []]).
Proof. split; vm_compute; reflexivity. Qed.

(* -- 5. non-vacuity: 3 incrementers on 2 stripes, one aggregator interleaved -- *)
Definition nv_threads : list thread :=
  [Inc [0%nat; 1%nat]; Inc [1%nat]; Inc [0%nat]; AggNew].

Lemma nv_threads_wf : wf_threads 2 nv_threads.
Proof. unfold wf_threads, nv_threads. repeat constructor. Qed.

(* T0 adds stripe 0 (done=1); aggregator starts (c0=1), loads stripe 0 (=1);
   T2 adds stripe 0 (missed); T1 adds stripe 1 (seen); aggregator loads stripe 1 (=1)
   and returns 2 while done = 3. *)
Example agg_interleaved_run :
  option_map (observe 2) (exec 2 (init nv_threads) [0; 3; 3; 2; 1; 3]%nat)
  = Some ([2; 1], 3, [Inc [1%nat]; Inc []; Inc []; Agg 1 2 2]).
Proof. vm_compute. reflexivity. Qed.

Example agg_strictly_between :
  exists s a c0 r,
    reachable 2 s /\ nth_error (threads s) a = Some (Agg c0 2 r) /\ c0 < r < done s.
Proof.
  destruct (exec 2 (init nv_threads) [0; 3; 3; 2; 1; 3]%nat) as [s|] eqn:E;
    [|vm_compute in E; discriminate E].
  exists s, 3%nat, 1, 2. split.
  - exists nv_threads. split; [exact nv_threads_wf|]. apply (exec_sound _ _ _ _ E).
  - vm_compute in E. injection E as <-. cbn. split; [reflexivity|lia].
Qed.

(* both bounds are attained: increments landing only on already-read stripes give
   r = c0 < done; a quiescent aggregate is exact (r = done) *)
Example agg_lower_bound_attained :
  option_map (observe 2) (exec 2 (init nv_threads) [3; 3; 0; 2; 3]%nat)
  = Some ([2; 0], 2, [Inc [1%nat]; Inc [1%nat]; Inc []; Agg 0 2 0]).
Proof. vm_compute. reflexivity. Qed.

Example agg_quiescent_run :
  option_map (observe 2) (exec 2 (init nv_threads) [0; 0; 1; 2; 3; 3; 3]%nat)
  = Some ([2; 2], 4, [Inc []; Inc []; Inc []; Agg 4 2 4]).
Proof. vm_compute. reflexivity. Qed.

(* the sharing hypothesis of ls_exact_without_sharing is satisfiable: two threads
   on two stripes, each with its own stripe; and then load/load/store/store is
   harmless *)
Definition ns_threads : list thread := [Inc [0%nat; 0%nat]; Inc [1%nat]].

Lemma ns_threads_wf : wf_threads 2 ns_threads.
Proof. unfold wf_threads, ns_threads. repeat constructor. Qed.

Lemma ns_threads_no_sharing : no_sharing ns_threads.
Proof.
  intros a b tha thb i Hab Ha Hb Ia Ib. unfold ns_threads in *.
  destruct a as [|[|a]]; destruct b as [|[|b]]; cbn [nth_error] in Ha, Hb;
    try (destruct a; discriminate Ha); try (destruct b; discriminate Hb);
    try (exfalso; apply Hab; reflexivity);
    injection Ha as <-; injection Hb as <-; cbn [script In] in Ia, Ib; lia.
Qed.

Example ls_without_sharing_run :
  option_map (observe 2) (exec_ls 2 (init ns_threads) [0; 1; 0; 1; 0; 0]%nat)
  = Some ([2; 1], 3, [Inc []; Inc []]).
Proof. vm_compute. reflexivity. Qed.

Example ls_without_sharing_instance s :
  reachable_ls_from 2 ns_threads s -> sumf (stripes s) 2 = done s.
Proof.
  apply ls_exact_without_sharing; [exact ns_threads_wf|exact ns_threads_no_sharing].
Qed.

(* a quiet step is exactly a step that is not an Add: it leaves all stripes alone;
   a non-quiet step is an Add on some stripe *)
Lemma quiet_step_stripes n s s' : quiet_step n s s' -> stripes s' = stripes s.
Proof.
  intros [H Hd]. destruct (step_done_cases _ _ _ H) as [(i & _ & E)|[E _]]; [lia|exact E].
Qed.

Lemma loud_step_is_add n s s' :
  step n s s' -> done s' <> done s ->
  exists i, stripes s' = upd (stripes s) i (stripes s i + 1) /\ done s' = done s + 1.
Proof.
  intros H Hd. destruct (step_done_cases _ _ _ H) as [(i & E1 & E2)|[_ E]]; [eauto|contradiction].
Qed.

(* the "ids < n" assumption (wf_threads) is needed: an out-of-range id bumps the
   ghost count but no stripe below n *)
Example ids_in_range_needed :
  option_map (observe 1) (exec 1 (init [Inc [1%nat]]) [0%nat])
  = Some ([0], 1, [Inc []]).
Proof. vm_compute. reflexivity. Qed.
